//! Random fork-tree histories over a `World` + `RefLedger`: honest blocks with
//! spends placed in the classes the properties quantify over, plus forged
//! blocks that are perfect except for one UTXO rule.

use crate::ledger::{RefLedger, RefReject, RefState};
use crate::prng::Prng;
use crate::world::{fee_fields, height_locked, Coin, PowMode, World};
use grin_core::consensus;
use grin_core::core::hash::{Hash, Hashed};
use grin_core::core::{Block, KernelFeatures, Transaction};
use grin_core::global;
use std::collections::{BTreeMap, HashMap, HashSet};

#[derive(Clone, Debug)]
pub struct TreeCfg {
	pub trunk: usize,
	pub branches: usize,
	pub max_depth: usize,
	/// probability (per mille) that a block carries transactions
	pub tx_per_mille: u64,
	pub real_pow: bool,
	/// number of forged invalid blocks to add (UTXO-rule violations)
	pub n_invalid: usize,
	/// if set, fork points and forged-block parents are restricted to blocks at
	/// most this many blocks below the trunk tip (reorgs that stay inside the horizon)
	pub fork_window: Option<u64>,
	/// probability (per mille) that a block first takes over transactions already mined on ANOTHER fork (what
	/// competing miners do with the same pool): the same outputs then exist on several forks, usually at other
	/// MMR positions. 0 (the default) draws nothing from the PRNG, so every existing world stays as it was.
	pub remine_per_mille: u64,
}

impl TreeCfg {
	pub fn small() -> TreeCfg {
		TreeCfg {
			trunk: 5,
			branches: 3,
			max_depth: 6,
			tx_per_mille: 600,
			real_pow: false,
			n_invalid: 4,
			fork_window: None,
			remine_per_mille: 0,
		}
	}
}

#[derive(Clone, Debug)]
pub struct GenBlock {
	pub block: Block,
	pub hash: Hash,
	pub parent: Hash,
	/// verdict of the reference rules on the fork being extended
	pub verdict: Result<(), RefReject>,
	/// generation class: "honest" or the name of the violated rule
	pub class: String,
	/// spend-placement classes present in this block
	pub tags: Vec<String>,
}

pub struct Hist {
	pub world: World,
	pub ledger: RefLedger,
	pub genesis: Block,
	/// creation order (parents before children)
	pub blocks: Vec<GenBlock>,
	/// opening of every coin ever created, by commitment bytes
	pub coins: HashMap<Vec<u8>, Coin>,
	pub next_key: u32,
	pub real_pow: bool,
	pub prng: Prng,
	/// deliver about half of the blocks that have inputs with "features and commitment" inputs (the
	/// encoding a node uses for blocks it mines from pool transactions and receives from v2 peers; its
	/// canonical order differs from the commit-only order the database stores). Chosen by a bit of the
	/// block hash, so the PRNG stream — and every world — is the same with and without it.
	pub v2_inputs: bool,
	/// see `TreeCfg::remine_per_mille`
	pub remine_per_mille: u64,
	/// the transactions every honest block was made of (generation time only, not persisted)
	pub block_txs: HashMap<Hash, Vec<Transaction>>,
}

fn ckey(c: &Coin) -> Vec<u8> {
	c.commit.0.to_vec()
}

impl Hist {
	pub fn new(seed: u64, real_pow: bool) -> Hist {
		let world = World::new(seed);
		let (genesis, gcoin) = world.genesis();
		let ledger = RefLedger::new(&genesis);
		let mut coins = HashMap::new();
		coins.insert(ckey(&gcoin), gcoin);
		Hist {
			world,
			ledger,
			genesis,
			blocks: vec![],
			coins,
			next_key: 1,
			real_pow,
			prng: Prng::new(seed ^ 0x4849_5354),
			v2_inputs: false,
			remine_per_mille: 0,
			block_txs: HashMap::new(),
		}
	}

	/// Transactions mined on other forks (not on `parent`'s ancestry) that are valid on top of `parent`: every input
	/// spendable there, no output re-creating an unspent commitment, no two of them sharing an input.
	fn remine_candidates(&mut self, parent: &Hash) -> Vec<Transaction> {
		let anc: HashSet<Hash> = self.ledger.ancestry(parent).into_iter().collect();
		let st = self.ledger.state_at(parent);
		let spendable: HashSet<Vec<u8>> = self.spendable(parent).iter().map(ckey).collect();
		let mut taken: HashSet<Vec<u8>> = HashSet::new();
		let mut out = vec![];
		for gb in &self.blocks {
			if anc.contains(&gb.hash) || gb.verdict.is_err() {
				continue;
			}
			if let Some(txs) = self.block_txs.get(&gb.hash) {
				for tx in txs {
					let ins: Vec<Vec<u8>> = {
						let v: Vec<grin_core::core::CommitWrapper> = tx.inputs().into();
						v.iter().map(|i| i.commitment().0.to_vec()).collect()
					};
					if ins.is_empty() || !ins.iter().all(|c| spendable.contains(c) && !taken.contains(c)) {
						continue;
					}
					if tx.outputs().iter().any(|o| st.utxo.contains_key(&o.commitment())) {
						continue;
					}
					if !tx.kernels().iter().all(|k| matches!(k.features, KernelFeatures::Plain { .. })) {
						continue;
					}
					// already mined on this ancestry (its kernel is there)?
					let kern = tx.kernels()[0].excess;
					if self.blocks.iter().any(|b| anc.contains(&b.hash) && b.block.kernels().iter().any(|k| k.excess == kern)) {
						continue;
					}
					for c in ins {
						taken.insert(c);
					}
					out.push(tx.clone());
				}
			}
		}
		out
	}

	/// Re-encode the block's inputs as (features, commitment) pairs in their own canonical order.
	pub fn to_v2_inputs(&self, b: &mut Block) -> bool {
		use grin_core::core::{Input, Inputs, OutputFeatures};
		let ins = crate::ledger::inputs_vec(&b.inputs());
		if ins.is_empty() {
			return false;
		}
		let mut v = vec![];
		for (c, _) in ins {
			match self.coins.get(&c.0.to_vec()) {
				Some(coin) => v.push(Input::new(if coin.coinbase { OutputFeatures::Coinbase } else { OutputFeatures::Plain }, c)),
				None => return false,
			}
		}
		v.sort_unstable();
		b.body.inputs = Inputs::FeaturesAndCommit(v);
		true
	}

	pub fn opts(&self) -> grin_chain::types::Options {
		if self.real_pow {
			grin_chain::types::Options::NONE
		} else {
			grin_chain::types::Options::SKIP_POW
		}
	}

	fn mode(&mut self, parent: &Hash) -> PowMode {
		if self.real_pow {
			return PowMode::Real;
		}
		// distinct totals → the maximum of any subset is unique
		let ptd = self.ledger.get(parent).total_difficulty;
		loop {
			let d = 1 + self.prng.below(1000);
			let td = ptd + d;
			if !self.ledger.blocks.values().any(|b| b.total_difficulty == td) {
				return PowMode::Skip { difficulty: d };
			}
		}
	}

	/// Coins spendable by a block built on `parent` (matured coinbases, plain outputs).
	pub fn spendable(&mut self, parent: &Hash) -> Vec<Coin> {
		let st = self.ledger.state_at(parent);
		let h = st.height + 1;
		let mat = global::coinbase_maturity();
		let mut v: Vec<Coin> = vec![];
		for (c, &i) in &st.utxo {
			if let Some(coin) = self.coins.get(&c.0.to_vec()) {
				let o = &st.outs[i];
				if coin.coinbase && h < o.height + mat {
					continue;
				}
				// dust (left-over change of earlier spends) cannot pay a fee
				if coin.value < 1000 {
					continue;
				}
				v.push(coin.clone());
			}
		}
		v.sort_by(|a, b| a.commit.0.cmp(&b.commit.0));
		v
	}

	/// Coins that exist on `parent`'s ancestry but are spent there.
	pub fn spent_coins(&mut self, parent: &Hash) -> Vec<Coin> {
		let st = self.ledger.state_at(parent);
		let mut v = vec![];
		for o in &st.outs {
			if o.spent_at.is_some() && !st.utxo.contains_key(&o.commit) {
				if let Some(c) = self.coins.get(&o.commit.0.to_vec()) {
					v.push(c.clone());
				}
			}
		}
		v.sort_by(|a, b| a.commit.0.cmp(&b.commit.0));
		v.dedup_by(|a, b| a.commit == b.commit);
		v
	}

	/// Coins created somewhere in the ledger but never on `parent`'s ancestry.
	pub fn foreign_coins(&mut self, parent: &Hash) -> Vec<Coin> {
		let st = self.ledger.state_at(parent);
		let here: std::collections::HashSet<Vec<u8>> =
			st.outs.iter().map(|o| o.commit.0.to_vec()).collect();
		let mut v: Vec<Coin> = self
			.coins
			.iter()
			.filter(|(k, _)| !here.contains(*k))
			.map(|(_, c)| c.clone())
			.collect();
		v.sort_by(|a, b| a.commit.0.cmp(&b.commit.0));
		v
	}

	fn register(&mut self, coins: &[Coin]) {
		for c in coins {
			self.coins.insert(ckey(c), c.clone());
		}
	}

	pub fn fresh_key(&mut self) -> grin_keychain::Identifier {
		let k = self.world.key(self.next_key);
		self.next_key += 1;
		k
	}

	/// A transaction spending `inputs` into `n_out` fresh outputs.
	pub fn spend_tx(&mut self, inputs: &[Coin], n_out: usize, features: Option<KernelFeatures>) -> Transaction {
		let total: u64 = inputs.iter().map(|c| c.value).sum();
		assert!(total >= 4, "coins too small to spend");
		// small coins (change of earlier spends) pay a proportionally small fee
		let fee = (1_000_000 * (1 + self.prng.below(4))).min(total / 4).max(1);
		let mut outs = vec![];
		let mut left = total - fee;
		let n_out = n_out.min(left as usize).max(1);
		for i in 0..n_out {
			let remaining = (n_out - 1 - i) as u64;
			let v = if i + 1 == n_out {
				left
			} else {
				// leave at least 1 for each remaining output
				1 + self.prng.below(((left - remaining) / 2).max(1))
			};
			left -= v;
			outs.push((v, self.fresh_key()));
		}
		let feat = features.unwrap_or(KernelFeatures::Plain {
			fee: fee_fields(fee),
		});
		let feat = match feat {
			KernelFeatures::Plain { .. } => KernelFeatures::Plain {
				fee: fee_fields(fee),
			},
			KernelFeatures::HeightLocked { lock_height, .. } => height_locked(fee, lock_height),
			other => other,
		};
		let mut p = self.prng.fork(7);
		let (tx, coins) = self.world.tx(&mut p, inputs, &outs, feat);

		self.register(&coins);
		tx
	}

	/// A transaction spending `input` with an NRD kernel whose key — hence excess and signature — is a function
	/// of `kernel_prng` alone: calling this again with the same prng state gives the SAME kernel.
	pub fn nrd_tx(&mut self, input: &Coin, rel: u64, kernel_prng: &Prng) -> Transaction {
		let fee = 1_000_000u64;
		assert!(input.value > fee);
		let k = self.fresh_key();
		let mut p = kernel_prng.clone();
		let (tx, coins) = self
			.world
			.tx(&mut p, &[input.clone()], &[(input.value - fee, k)], crate::world::nrd(fee, rel));
		self.register(&coins);
		tx
	}

	/// A transaction spending `input` into one fresh output plus one output that
	/// re-creates `recreate` (same key and value → same commitment).
	pub fn recreate_tx(&mut self, input: &Coin, recreate: &Coin) -> Option<Transaction> {
		let fee = 1_000_000;
		if input.value <= recreate.value + fee {
			return None;
		}
		let change = input.value - recreate.value - fee;
		let outs = vec![
			(recreate.value, recreate.key_id.clone()),
			(change, self.fresh_key()),
		];
		let mut p = self.prng.fork(11);
		let (tx, coins) = self.world.tx(
			&mut p,
			&[input.clone()],
			&outs,
			KernelFeatures::Plain {
				fee: fee_fields(fee),
			},
		);
		// the re-created coin is plain even if the original was a coinbase
		self.register(&coins);
		Some(tx)
	}

	/// Build (and register) a block on `parent` from `txs`; judged by the reference.
	pub fn add_block(&mut self, parent: &Hash, txs: &[Transaction], class: &str, tags: Vec<String>) -> GenBlock {
		self.add_block_ex(parent, txs, class, tags, false)
	}

	/// As `add_block`; with `mislabel` the block's inputs are (features, commitment) pairs and the first one
	/// claims the wrong features for the output it spends (everything else, including every header
	/// commitment, is what an honest node computes).
	pub fn add_block_ex(&mut self, parent: &Hash, txs: &[Transaction], class: &str, tags: Vec<String>, mislabel: bool) -> GenBlock {
		let mut tags = tags;
		let mut tags_v2 = false;
		let mode = self.mode(parent);
		let k = self.fresh_key();
		let fees: u64 = txs.iter().map(|t| t.fee()).sum();
		let mut p = self.prng.fork(13);
		let ts = 30 + self.prng.below(90) as i64;
		let b = self
			.ledger
			.make_block(&self.world.clone(), &mut p, parent, txs, &k, mode, ts)
			.expect("make_block");
		let mut b = b;
		if mislabel {
			use grin_core::core::{Inputs, OutputFeatures};
			if self.to_v2_inputs(&mut b) {
				if let Inputs::FeaturesAndCommit(ref mut v) = b.body.inputs {
					v[0].features = if v[0].features == OutputFeatures::Coinbase { OutputFeatures::Plain } else { OutputFeatures::Coinbase };
					v.sort_unstable();
				}
				tags_v2 = true;
			}
		} else if self.v2_inputs && b.hash().as_bytes()[7] & 1 == 1 && self.to_v2_inputs(&mut b) {
			// the ledger keeps the block it was given at make_block time; only the encoding of the inputs differs
			tags_v2 = true;
		}
		let cb = self.world.coin(consensus::reward(fees), &k, true);
		self.register(&[cb]);
		if tags_v2 {
			tags.push("inputs_features_and_commit".to_string());
		}
		let pst = self.ledger.state_at(parent);
		let verdict = pst.check_block(&b);
		let gb = GenBlock {
			hash: b.hash(),
			parent: *parent,
			block: b,
			verdict,
			class: class.to_string(),
			tags,
		};
		self.blocks.push(gb.clone());
		gb
	}

	/// Honest block on `parent` with random spends; returns the generated block.
	pub fn honest_block(&mut self, parent: &Hash, tx_per_mille: u64) -> GenBlock {
		let mut txs = vec![];
		let mut tags = vec![];
		let mut remined_inputs: HashSet<Vec<u8>> = HashSet::new();
		if self.remine_per_mille > 0 && self.prng.chance(self.remine_per_mille, 1000) {
			let mut cands = self.remine_candidates(parent);
			cands.truncate(2);
			for tx in cands {
				let v: Vec<grin_core::core::CommitWrapper> = tx.inputs().into();
				for i in v {
					remined_inputs.insert(i.commitment().0.to_vec());
				}
				tags.push("transaction_already_mined_on_another_fork".to_string());
				txs.push(tx);
			}
		}
		if self.prng.chance(tx_per_mille, 1000) {
			let mut avail = self.spendable(parent);
			avail.retain(|c| !remined_inputs.contains(&ckey(c)));
			self.prng.shuffle(&mut avail);
			let n_tx = 1 + self.prng.usize_below(2);
			let mut recreated = false;
			for _ in 0..n_tx {
				if avail.is_empty() {
					break;
				}
				let n_in = 1 + self.prng.usize_below(avail.len().min(2));
				let ins: Vec<Coin> = avail.drain(..n_in).collect();
				for c in &ins {
					tags.push(if c.coinbase { "spend_coinbase" } else { "spend_plain" }.to_string());
					// placement class: was this coin created on the trunk or on this branch?
				}
				let spent: Vec<Coin> = self
					.spent_coins(parent)
					.into_iter()
					.filter(|c| !c.coinbase)
					.collect();
				if !recreated && !spent.is_empty() && self.prng.chance(1, 4) {
					let r = self.prng.pick(&spent).clone();
					if let Some(tx) = self.recreate_tx(&ins[0], &r) {
						recreated = true;
						tags.push("recreate_spent_commitment".to_string());
						txs.push(tx);
						continue;
					}
				}
				let n_out = 1 + self.prng.usize_below(2);
				txs.push(self.spend_tx(&ins, n_out, None));
			}
		}
		let gb = self.add_block(parent, &txs, "honest", tags);
		if self.remine_per_mille > 0 {
			self.block_txs.insert(gb.hash, txs);
		}
		gb
	}

	/// Forged block violating exactly one UTXO rule (header commitments as an
	/// honest node would compute them if the spend were legal).
	pub fn invalid_block(&mut self, parent: &Hash, kind: usize) -> Option<GenBlock> {
		match kind % 5 {
			4 => {
				// the input names the right commitment with the wrong features: it names no existing output
				let c = self.spendable(parent).first()?.clone();
				let tx = self.spend_tx(&[c], 1, None);
				let gb = self.add_block_ex(parent, &[tx], "input_features_mislabelled", vec![], true);
				if gb.verdict.is_ok() {
					// could not be re-encoded: not the forged block we wanted
					self.blocks.pop();
					return None;
				}
				Some(gb)
			}
			0 => {
				// double spend: input already spent on this ancestry
				let spent = self.spent_coins(parent);
				// only those whose commitment is not unspent again (re-created)
				let c = spent.first()?.clone();
				let tx = self.spend_tx(&[c], 1, None);
				Some(self.add_block(parent, &[tx], "double_spend", vec![]))
			}
			1 => {
				// never created: phantom coin with a key nobody used
				let k = self.fresh_key();
				let c = self.world.coin(7_000_000_000, &k, false);
				let tx = self.spend_tx(&[c], 1, None);
				Some(self.add_block(parent, &[tx], "spend_never_created", vec![]))
			}
			2 => {
				// fork-foreign: exists only on another branch
				let f = self.foreign_coins(parent);
				let c = f.first()?.clone();
				let tx = self.spend_tx(&[c], 1, None);
				Some(self.add_block(parent, &[tx], "spend_fork_foreign", vec![]))
			}
			_ => {
				// duplicate of a currently unspent commitment
				let avail = self.spendable(parent);
				if avail.len() < 2 {
					return None;
				}
				let dup = avail[0].clone();
				let input = avail
					.iter()
					.skip(1)
					.find(|c| c.value > dup.value + 2_000_000)?
					.clone();
				let tx = self.recreate_tx(&input, &dup)?;
				Some(self.add_block(parent, &[tx], "duplicate_unspent_commitment", vec![]))
			}
		}
	}

	pub fn all_commits(&self) -> Vec<grin_util::secp::pedersen::Commitment> {
		crate::snapshot::all_commits(&self.ledger)
	}

	pub fn state(&mut self, tip: &Hash) -> std::sync::Arc<RefState> {
		self.ledger.state_at(tip)
	}
}

/// Generate a random fork tree history.
pub fn gen_history(seed: u64, cfg: &TreeCfg) -> Hist {
	let mut h = Hist::new(seed, cfg.real_pow);
	h.v2_inputs = true;
	h.remine_per_mille = cfg.remine_per_mille;
	let g = h.genesis.hash();
	let mut trunk = vec![g];
	for _ in 0..cfg.trunk {
		let p = *trunk.last().unwrap();
		let b = h.honest_block(&p, cfg.tx_per_mille);
		trunk.push(b.hash);
	}
	let mut tips: Vec<Hash> = vec![*trunk.last().unwrap()];
	let min_h = match cfg.fork_window {
		Some(w) => (cfg.trunk as u64).saturating_sub(w),
		None => 0,
	};
	for _ in 0..cfg.branches {
		// fork point: any honest block so far (within the window if one is set)
		let honest: Vec<Hash> = std::iter::once(g)
			.chain(
				h.blocks
					.iter()
					.filter(|b| b.verdict.is_ok())
					.map(|b| b.hash),
			)
			.filter(|x| h.ledger.get(x).height >= min_h)
			.collect();
		let fp = *h.prng.pick(&honest);
		let depth = 1 + h.prng.usize_below(cfg.max_depth);
		let mut cur = fp;
		for _ in 0..depth {
			let b = h.honest_block(&cur, cfg.tx_per_mille);
			debug_assert!(b.verdict.is_ok());
			cur = b.hash;
		}
		tips.push(cur);
	}
	// forged invalid leaves on random honest parents
	let mut made = 0;
	let mut attempts = 0;
	while made < cfg.n_invalid && attempts < cfg.n_invalid * 6 {
		attempts += 1;
		let honest: Vec<Hash> = h
			.blocks
			.iter()
			.filter(|b| b.verdict.is_ok() && b.block.header.height >= min_h)
			.map(|b| b.hash)
			.collect();
		let p = *h.prng.pick(&honest);
		let kind = made + attempts;
		if h.invalid_block(&p, kind).is_some() {
			made += 1;
		}
	}
	h
}

/// Shape signature of a history: (heights of fork points, branch depths,
/// class multiset, tag multiset).
pub fn shape_sig(h: &Hist) -> String {
	let mut classes: BTreeMap<String, usize> = BTreeMap::new();
	let mut tags: BTreeMap<String, usize> = BTreeMap::new();
	let mut children: HashMap<Hash, usize> = HashMap::new();
	for b in &h.blocks {
		*classes.entry(b.class.clone()).or_insert(0) += 1;
		for t in &b.tags {
			*tags.entry(t.clone()).or_insert(0) += 1;
		}
		if b.verdict.is_ok() {
			*children.entry(b.parent).or_insert(0) += 1;
		}
	}
	let mut forks: Vec<u64> = children
		.iter()
		.filter(|(_, &n)| n > 1)
		.map(|(p, _)| h.ledger.get(p).height)
		.collect();
	forks.sort();
	let maxh = h.blocks.iter().map(|b| b.block.header.height).max().unwrap_or(0);
	format!(
		"forks@{:?};maxh={};classes={:?};tags={:?}",
		forks,
		maxh,
		classes,
		tags.keys().collect::<Vec<_>>()
	)
}

// ---------------------------------------------------------------- persistence
// Histories are generated once (output creation parallelises over threads) and
// consumed by worker *processes* (block validation does not parallelise inside
// one process). Blocks are stored with protocol version 2 so that inputs keep
// their features.

use grin_core::ser::{self, DeserializationMode, ProtocolVersion};
use serde_json::{json, Value};

fn hex(b: &[u8]) -> String {
	let mut s = String::with_capacity(b.len() * 2);
	for x in b {
		s.push_str(&format!("{:02x}", x));
	}
	s
}

fn unhex(s: &str) -> Vec<u8> {
	(0..s.len() / 2)
		.map(|i| u8::from_str_radix(&s[2 * i..2 * i + 2], 16).unwrap_or(0))
		.collect()
}

pub fn block_to_hex(b: &Block) -> String {
	// commit-only inputs exist only in the v3 encoding, (features, commitment) inputs only in v1 / v2
	match b.inputs() {
		grin_core::core::Inputs::FeaturesAndCommit(ref v) if !v.is_empty() => format!("v2:{}", hex(&ser::ser_vec(b, ProtocolVersion(2)).expect("ser block"))),
		_ => hex(&ser::ser_vec(b, ProtocolVersion(3)).expect("ser block")),
	}
}

pub fn block_from_hex(s: &str) -> Block {
	let (ver, body) = match s.strip_prefix("v2:") {
		Some(r) => (2, r),
		None => (3, s),
	};
	let bytes = unhex(body);
	ser::deserialize(&mut &bytes[..], ProtocolVersion(ver), DeserializationMode::default()).expect("deser block")
}

pub fn hist_to_json(h: &Hist) -> Value {
	let mut coins: Vec<&Coin> = h.coins.values().collect();
	coins.sort_by(|a, b| a.commit.0.cmp(&b.commit.0));
	json!({
		"seed": h.world.seed,
		"real_pow": h.real_pow,
		"next_key": h.next_key,
		"v2_inputs": h.v2_inputs,
		"genesis": block_to_hex(&h.genesis),
		"blocks": h.blocks.iter().map(|b| json!({
			"hex": block_to_hex(&b.block), "class": b.class, "tags": b.tags,
		})).collect::<Vec<_>>(),
		"coins": coins.iter().map(|c| json!({
			"value": c.value, "key": hex(&c.key_id.to_bytes()), "coinbase": c.coinbase,
		})).collect::<Vec<_>>(),
	})
}

pub fn hist_from_json(v: &Value) -> Hist {
	let seed = v["seed"].as_u64().unwrap_or(0);
	let world = World::new(seed);
	let genesis = block_from_hex(v["genesis"].as_str().unwrap_or(""));
	let mut ledger = RefLedger::new(&genesis);
	let mut blocks = vec![];
	for jb in v["blocks"].as_array().cloned().unwrap_or_default() {
		let b = block_from_hex(jb["hex"].as_str().unwrap_or(""));
		ledger.add(&b);
		let parent = b.header.prev_hash;
		let verdict = ledger.state_at(&parent).check_block(&b);
		blocks.push(GenBlock {
			hash: b.hash(),
			parent,
			block: b,
			verdict,
			class: jb["class"].as_str().unwrap_or("").to_string(),
			tags: jb["tags"]
				.as_array()
				.map(|a| a.iter().filter_map(|x| x.as_str().map(|s| s.to_string())).collect())
				.unwrap_or_default(),
		});
	}
	let mut coins = HashMap::new();
	for jc in v["coins"].as_array().cloned().unwrap_or_default() {
		let key = grin_keychain::Identifier::from_bytes(&unhex(jc["key"].as_str().unwrap_or("")));
		let c = world.coin(
			jc["value"].as_u64().unwrap_or(0),
			&key,
			jc["coinbase"].as_bool().unwrap_or(false),
		);
		coins.insert(ckey(&c), c);
	}
	Hist {
		world,
		ledger,
		genesis,
		blocks,
		coins,
		next_key: v["next_key"].as_u64().unwrap_or(1) as u32,
		real_pow: v["real_pow"].as_bool().unwrap_or(false),
		prng: Prng::new(seed ^ 0x4c4f_4144),
		v2_inputs: v["v2_inputs"].as_bool().unwrap_or(false),
		remine_per_mille: 0,
		block_txs: HashMap::new(),
	}
}

pub fn save_hist(h: &Hist, path: &str) {
	std::fs::write(path, serde_json::to_string(&hist_to_json(h)).unwrap()).expect("write hist");
}

pub fn load_hist(path: &str) -> Hist {
	let s = std::fs::read_to_string(path).expect("read hist");
	hist_from_json(&serde_json::from_str(&s).expect("parse hist"))
}
