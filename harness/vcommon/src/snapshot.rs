//! Structural snapshots of a `Chain` and comparison against `RefState`.

use crate::ledger::{RefLedger, RefState};
use grin_chain::Chain;
use grin_core::core::hash::{Hash, Hashed};
use grin_core::core::OutputFeatures;
use grin_util::secp::pedersen::Commitment;
use std::collections::BTreeMap;

#[derive(Clone, Debug, PartialEq)]
pub struct Snap {
	pub head: (Hash, u64, u64),
	pub header_head: (Hash, u64, u64),
	pub tail: Option<(Hash, u64)>,
	pub output_pmmr_root: Hash,
	pub bitmap_root: Hash,
	pub rproof_root: Hash,
	pub kernel_root: Hash,
	pub sizes: (u64, u64, u64),
	/// commit -> (features, pos, height) via get_unspent over all known commitments
	pub unspent: BTreeMap<Vec<u8>, (u8, u64, u64)>,
	/// commitments enumerated through unspent_outputs_by_pmmr_index
	pub unspent_enum: Vec<Vec<u8>>,
	/// block sums of head, serialized
	pub head_sums: Option<(Vec<u8>, Vec<u8>)>,
	/// spent index (pos,height) of each best-chain block, by height (where still stored)
	pub spent_index: BTreeMap<u64, Vec<(u64, u64)>>,
	/// stored block sums per best-chain block height (where stored)
	pub sums_by_height: BTreeMap<u64, (Vec<u8>, Vec<u8>)>,
	/// header hash by height along the header MMR view
	pub header_by_height: Vec<Hash>,
}

fn feat_u8(f: OutputFeatures) -> u8 {
	match f {
		OutputFeatures::Plain => 0,
		OutputFeatures::Coinbase => 1,
	}
}

/// Take a snapshot. `commits`: every commitment ever created in the world.
pub fn snapshot(chain: &Chain, commits: &[Commitment]) -> Result<Snap, String> {
	let head = chain.head().map_err(|e| format!("head: {:?}", e))?;
	let hh = chain
		.header_head()
		.map_err(|e| format!("header_head: {:?}", e))?;
	let tail = chain.tail().ok().map(|t| (t.last_block_h, t.height));
	let (roots, sizes) = {
		let ths = chain.txhashset();
		let t = ths.read();
		let roots = t.roots().map_err(|e| format!("roots: {:?}", e))?;
		(
			roots,
			(
				t.output_mmr_size(),
				t.rangeproof_mmr_size(),
				t.kernel_mmr_size(),
			),
		)
	};
	let mut unspent = BTreeMap::new();
	for c in commits {
		match chain.get_unspent(*c) {
			Ok(Some((id, pos))) => {
				if id.commit != *c {
					return Err(format!(
						"get_unspent({:?}) returned another commitment {:?}",
						c, id.commit
					));
				}
				unspent.insert(c.0.to_vec(), (feat_u8(id.features), pos.pos, pos.height));
			}
			Ok(None) => {}
			Err(e) => return Err(format!("get_unspent error: {:?}", e)),
		}
	}
	let mut unspent_enum = vec![];
	{
		let mut start = 1u64;
		loop {
			let (highest, last, outs) = chain
				.unspent_outputs_by_pmmr_index(start, 1000, None)
				.map_err(|e| format!("unspent_outputs_by_pmmr_index: {:?}", e))?;
			for o in &outs {
				unspent_enum.push(o.commitment().0.to_vec());
			}
			if outs.is_empty() || highest >= last {
				break;
			}
			start = highest + 1;
		}
	}
	unspent_enum.sort();
	let head_sums = chain
		.get_block_sums(&head.last_block_h)
		.ok()
		.map(|s| (s.utxo_sum.0.to_vec(), s.kernel_sum.0.to_vec()));
	let mut spent_index = BTreeMap::new();
	let mut sums_by_height = BTreeMap::new();
	let store = chain.store();
	// walk the best chain by prev pointers from the head (body chain)
	let mut cur = head.last_block_h;
	loop {
		let hdr = match chain.get_block_header(&cur) {
			Ok(h) => h,
			Err(_) => break,
		};
		if let Ok(batch) = store.batch() {
			if let Ok(sp) = batch.get_spent_index(&cur) {
				// as a SET per block: the node records the positions in the order of the block's inputs as it
				// processed them, and that order legitimately depends on the input encoding the block arrived in
				// ((features, commitment) order when applied directly, commit-only order when re-applied from
				// the database during a reorganisation); nothing reads the order
				let mut v = sp.iter().map(|p| (p.pos, p.height)).collect::<Vec<_>>();
				v.sort_unstable();
				spent_index.insert(hdr.height, v);
			}
		}
		if let Ok(s) = chain.get_block_sums(&cur) {
			sums_by_height.insert(hdr.height, (s.utxo_sum.0.to_vec(), s.kernel_sum.0.to_vec()));
		}
		if hdr.height == 0 {
			break;
		}
		cur = hdr.prev_hash;
	}
	let mut header_by_height = vec![];
	for h in 0..=hh.height {
		match chain.get_header_by_height(h) {
			Ok(x) => header_by_height.push(x.hash()),
			Err(e) => return Err(format!("get_header_by_height({}): {:?}", h, e)),
		}
	}
	Ok(Snap {
		head: (head.last_block_h, head.height, head.total_difficulty.to_num()),
		header_head: (hh.last_block_h, hh.height, hh.total_difficulty.to_num()),
		tail,
		output_pmmr_root: roots.output_roots.pmmr_root,
		bitmap_root: roots.output_roots.bitmap_root,
		rproof_root: roots.rproof_root,
		kernel_root: roots.kernel_root,
		sizes,
		unspent,
		unspent_enum,
		head_sums,
		spent_index,
		sums_by_height,
		header_by_height,
	})
}

/// First differing component between two snapshots; `body_only` ignores the
/// header-chain views (header_head, header_by_height) and the tail.
pub fn diff(a: &Snap, b: &Snap, body_only: bool) -> Option<String> {
	macro_rules! cmp {
		($f:ident) => {
			if a.$f != b.$f {
				return Some(format!(
					"{} differs: {:?} vs {:?}",
					stringify!($f),
					short(&format!("{:?}", a.$f)),
					short(&format!("{:?}", b.$f))
				));
			}
		};
	}
	cmp!(head);
	cmp!(output_pmmr_root);
	cmp!(bitmap_root);
	cmp!(rproof_root);
	cmp!(kernel_root);
	cmp!(sizes);
	if a.unspent != b.unspent {
		let only_a: Vec<_> = a.unspent.keys().filter(|k| !b.unspent.contains_key(*k)).count().to_string().into();
		return Some(format!(
			"unspent set differs: {} vs {} entries (only-left {})",
			a.unspent.len(),
			b.unspent.len(),
			String::from_utf8_lossy(&only_a)
		));
	}
	cmp!(unspent_enum);
	cmp!(head_sums);
	cmp!(spent_index);
	cmp!(sums_by_height);
	if !body_only {
		cmp!(header_head);
		cmp!(header_by_height);
		cmp!(tail);
	}
	None
}

impl Snap {
	/// Per-component digests of the best-chain state (no header-chain views, no tail):
	/// lets another process name the first differing component.
	pub fn body_digest(&self) -> Vec<(String, u64)> {
		use crate::prng::fnv64;
		let d = |x: String| fnv64(x.as_bytes());
		vec![
			("head".to_string(), d(format!("{:?}", self.head))),
			("output_pmmr_root".to_string(), d(format!("{:?}", self.output_pmmr_root))),
			("bitmap_root".to_string(), d(format!("{:?}", self.bitmap_root))),
			("rproof_root".to_string(), d(format!("{:?}", self.rproof_root))),
			("kernel_root".to_string(), d(format!("{:?}", self.kernel_root))),
			("sizes".to_string(), d(format!("{:?}", self.sizes))),
			("unspent".to_string(), d(format!("{:?}", self.unspent))),
			("unspent_enum".to_string(), d(format!("{:?}", self.unspent_enum))),
			("head_sums".to_string(), d(format!("{:?}", self.head_sums))),
			("spent_index".to_string(), d(format!("{:?}", self.spent_index))),
			("sums_by_height".to_string(), d(format!("{:?}", self.sums_by_height))),
		]
	}
}

fn short(s: &str) -> String {
	if s.len() > 300 {
		format!("{}…", &s[..300])
	} else {
		s.to_string()
	}
}

/// Compare a chain snapshot with the reference state of its head: roots,
/// sizes, the unspent set by both access paths.
pub fn compare_with_ref(s: &Snap, st: &RefState) -> Option<String> {
	if s.head.0 != st.tip {
		return Some(format!("head {} != reference tip {}", s.head.0, st.tip));
	}
	let r = st.roots();
	if s.output_pmmr_root != r.output_pmmr_root {
		return Some("output PMMR root != reference".into());
	}
	if s.rproof_root != r.rproof_root {
		return Some("rangeproof root != reference".into());
	}
	if s.kernel_root != r.kernel_root {
		return Some("kernel root != reference".into());
	}
	if s.bitmap_root != r.bitmap_root {
		return Some("bitmap root != from-scratch reference".into());
	}
	if s.sizes.0 != r.output_mmr_size || s.sizes.1 != r.output_mmr_size || s.sizes.2 != r.kernel_mmr_size {
		return Some(format!(
			"sizes {:?} != reference ({}, {})",
			s.sizes, r.output_mmr_size, r.kernel_mmr_size
		));
	}
	let ru = st.unspent();
	let want: BTreeMap<Vec<u8>, (u8, u64, u64)> = ru
		.iter()
		.map(|(k, (f, p, h))| (k.clone(), (feat_u8(*f), *p, *h)))
		.collect();
	if s.unspent != want {
		let missing = want.keys().filter(|k| !s.unspent.contains_key(*k)).count();
		let extra = s.unspent.keys().filter(|k| !want.contains_key(*k)).count();
		let mut detail = String::new();
		for (k, v) in &want {
			if let Some(v2) = s.unspent.get(k) {
				if v != v2 {
					detail = format!(" first mismatch value: ref {:?} node {:?}", v, v2);
					break;
				}
			}
		}
		return Some(format!(
			"unspent set (get_unspent) != replayed reference: {} vanished, {} reappeared/extra{}",
			missing, extra, detail
		));
	}
	let mut want_enum: Vec<Vec<u8>> = want.keys().cloned().collect();
	want_enum.sort();
	if s.unspent_enum != want_enum {
		return Some(format!(
			"unspent enumeration (by pmmr index) has {} entries, reference {}",
			s.unspent_enum.len(),
			want_enum.len()
		));
	}
	None
}

/// All commitments ever created by blocks known to the ledger.
pub fn all_commits(ledger: &RefLedger) -> Vec<Commitment> {
	let mut v = vec![];
	for lb in ledger.blocks.values() {
		for o in lb.block.outputs() {
			v.push(o.commitment());
		}
	}
	v.sort_by(|a, b| a.0.cmp(&b.0));
	v.dedup();
	v
}

/// Merkle proofs the node serves for unspent outputs (`Chain::get_merkle_proof` against the head header and
/// `get_merkle_proof_for_pos` on the current state): each must verify against the REFERENCE output PMMR root for
/// exactly that output at the reference position. `n` sampled unspent outputs (spread over old and new ones).
/// Returns the number of proofs verified or the first failure.
pub fn merkle_proof_probe(chain: &Chain, st: &RefState, prng: &mut crate::Prng, n: usize) -> Result<u64, String> {
	use grin_core::core::pmmr;
	use grin_core::core::OutputIdentifier;
	let head_header = chain.head_header().map_err(|e| format!("head_header: {:?}", e))?;
	if head_header.hash() != st.tip {
		return Ok(0);
	}
	let root = st.out_mmr.root();
	let size = st.out_mmr.size();
	let mut idx: Vec<usize> = st.utxo.values().cloned().collect();
	idx.sort_unstable();
	if idx.is_empty() {
		return Ok(0);
	}
	let mut picks: Vec<usize> = vec![idx[0], idx[idx.len() - 1], idx[idx.len() / 2]];
	for _ in 0..n {
		picks.push(idx[prng.usize_below(idx.len())]);
	}
	picks.sort_unstable();
	picks.dedup();
	let mut done = 0u64;
	for i in picks {
		let o = &st.outs[i];
		let id = OutputIdentifier { features: o.features, commit: o.commit };
		let pos0 = pmmr::insertion_to_pmmr_index(i as u64);
		for via in ["get_merkle_proof", "get_merkle_proof_for_pos"] {
			let r = if via == "get_merkle_proof" { chain.get_merkle_proof(id, &head_header) } else { chain.get_merkle_proof_for_pos(o.commit) };
			match r {
				Ok(proof) => {
					if proof.mmr_size != size {
						return Err(format!("{}: proof for unspent output #{} has mmr_size {} (reference {})", via, i, proof.mmr_size, size));
					}
					if let Err(e) = proof.verify(root, &id, pos0) {
						return Err(format!("{}: proof for unspent output #{} (pos0 {}) does not verify against the reference output root: {:?}", via, i, pos0, e));
					}
					done += 1;
				}
				Err(e) => return Err(format!("{}: no proof for unspent output #{} (pos0 {}): {:?}", via, i, pos0, e)),
			}
		}
	}
	Ok(done)
}
