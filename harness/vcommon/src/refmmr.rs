//! RefMMR: Merkle mountain range by definition, over an explicit node table.
//! Independent of grin's position arithmetic: the structure (parents, peaks,
//! positions) comes from the construction itself (merge equal-height peaks,
//! postorder numbering). Trusted base: the hash primitive (`hash_with_index`).

use grin_core::core::hash::{Hash, ZERO_HASH};
use grin_core::ser::PMMRIndexHashable;

#[derive(Clone, Debug)]
pub struct Node {
	pub hash: Hash,
	pub height: u32,
	pub parent: Option<usize>,
	pub left: Option<usize>,
	pub right: Option<usize>,
	/// leaf index (0-based insertion index) for leaves
	pub leaf_idx: Option<u64>,
}

#[derive(Clone, Debug, Default)]
pub struct RefMMR {
	pub nodes: Vec<Node>,
	/// positions of current peaks, left to right
	pub peaks: Vec<usize>,
	/// position of leaf i
	pub leaf_pos: Vec<usize>,
}

impl RefMMR {
	pub fn new() -> RefMMR {
		RefMMR::default()
	}

	pub fn size(&self) -> u64 {
		self.nodes.len() as u64
	}

	pub fn n_leaves(&self) -> u64 {
		self.leaf_pos.len() as u64
	}

	/// Append a leaf; returns its position.
	pub fn push<T: PMMRIndexHashable + ?Sized>(&mut self, elem: &T) -> u64 {
		let pos = self.nodes.len();
		let hash = elem.hash_with_index(pos as u64);
		self.push_leaf_hash(hash)
	}

	/// Append a leaf whose hash (already position-bound) is given.
	pub fn push_leaf_hash(&mut self, hash: Hash) -> u64 {
		let pos = self.nodes.len();
		let leaf_idx = self.leaf_pos.len() as u64;
		self.nodes.push(Node {
			hash,
			height: 0,
			parent: None,
			left: None,
			right: None,
			leaf_idx: Some(leaf_idx),
		});
		self.leaf_pos.push(pos);
		self.peaks.push(pos);
		// merge equal-height peaks
		while self.peaks.len() >= 2 {
			let r = self.peaks[self.peaks.len() - 1];
			let l = self.peaks[self.peaks.len() - 2];
			if self.nodes[l].height != self.nodes[r].height {
				break;
			}
			let ppos = self.nodes.len();
			let h = (self.nodes[l].hash, self.nodes[r].hash).hash_with_index(ppos as u64);
			let height = self.nodes[l].height + 1;
			self.nodes.push(Node {
				hash: h,
				height,
				parent: None,
				left: Some(l),
				right: Some(r),
				leaf_idx: None,
			});
			self.nodes[l].parent = Some(ppos);
			self.nodes[r].parent = Some(ppos);
			self.peaks.pop();
			self.peaks.pop();
			self.peaks.push(ppos);
		}
		pos as u64
	}

	/// Root: peaks bagged right to left with the MMR size. Empty → ZERO_HASH.
	pub fn root(&self) -> Hash {
		if self.nodes.is_empty() {
			return ZERO_HASH;
		}
		let size = self.size();
		let mut acc: Option<Hash> = None;
		for &p in self.peaks.iter().rev() {
			acc = Some(match acc {
				None => self.nodes[p].hash,
				Some(r) => (self.nodes[p].hash, r).hash_with_index(size),
			});
		}
		acc.unwrap()
	}

	/// The MMR truncated to its first `n` leaves (rebuilt from leaf hashes:
	/// leaf hashes are position-bound and positions are prefix-stable).
	pub fn prefix(&self, n_leaves: u64) -> RefMMR {
		let mut m = RefMMR::new();
		for i in 0..n_leaves as usize {
			m.push_leaf_hash(self.nodes[self.leaf_pos[i]].hash);
		}
		m
	}

	/// Size (node count) of an MMR with n leaves, by construction.
	pub fn size_for_leaves(n: u64) -> u64 {
		// count by simulating peak merges: n leaves + (n - popcount(n)) parents
		let mut parents = 0u64;
		let mut k = n;
		let mut level = 1u32;
		while k > 1 && level < 64 {
			k /= 2;
			parents += k;
			level += 1;
		}
		n + parents
	}

	/// Merkle path for the leaf at `pos` as grin's verifier consumes it:
	/// siblings from the leaf up to its peak, then (if any) the bagged hash of
	/// the peaks to the right, then the peaks to the left from right to left.
	pub fn merkle_path(&self, pos: usize) -> Vec<Hash> {
		let mut path = vec![];
		let mut cur = pos;
		while let Some(p) = self.nodes[cur].parent {
			let sib = if self.nodes[p].left == Some(cur) {
				self.nodes[p].right.unwrap()
			} else {
				self.nodes[p].left.unwrap()
			};
			path.push(self.nodes[sib].hash);
			cur = p;
		}
		let peak_idx = self.peaks.iter().position(|&x| x == cur).expect("peak");
		let size = self.size();
		// bag the rhs
		let mut rhs: Option<Hash> = None;
		for &p in self.peaks[peak_idx + 1..].iter().rev() {
			rhs = Some(match rhs {
				None => self.nodes[p].hash,
				Some(r) => (self.nodes[p].hash, r).hash_with_index(size),
			});
		}
		if let Some(r) = rhs {
			path.push(r);
		}
		for &p in self.peaks[..peak_idx].iter().rev() {
			path.push(self.nodes[p].hash);
		}
		path
	}
}
