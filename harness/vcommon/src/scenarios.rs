//! Explicit chain-level scenarios shared by several checks.

use crate::forktree::{GenBlock, Hist};
use crate::prng::Prng;
use crate::snapshot::{compare_with_ref, snapshot};
use crate::world::{open_chain, Coin, PowMode};
use grin_core::core::hash::{Hash, Hashed};
use serde_json::{json, Value};

pub struct ScenarioStats {
	pub blocks_delivered: u64,
	pub state_comparisons: u64,
	pub compaction_moved_tail: bool,
	pub merkle_proofs_verified: u64,
	/// `Chain::compact` returned this error (nothing may have changed)
	pub compaction_declined: Option<String>,
	pub pairs_spent: usize,
	/// old outputs spent by the spender block whose sibling was spent long before the horizon
	pub half_pairs_spent: usize,
	pub depth: usize,
	/// followers brought up from the state archive the subject serves at the end
	pub follower_state_syncs: u64,
}

/// (failing clause, description, replay data)
pub type ScenarioFailure = (String, String, Value);

pub fn mk_block(h: &mut Hist, parent: &Hash, coins: &[Coin], difficulty: u64, tag: &str) -> GenBlock {
	let txs = if coins.is_empty() {
		vec![]
	} else {
		vec![h.spend_tx(coins, 1, None)]
	};
	let k = h.fresh_key();
	let w = h.world.clone();
	let mut p = h.prng.fork(41);
	let b = h
		.ledger
		.make_block(&w, &mut p, parent, &txs, &k, PowMode::Skip { difficulty }, 60)
		.expect("block");
	let fees: u64 = txs.iter().map(|t| t.fee()).sum();
	let cb = w.coin(grin_core::consensus::reward(fees), &k, true);
	h.coins.insert(cb.commit.0.to_vec(), cb);
	let st = h.ledger.state_at(parent);
	let verdict = st.check_block(&b);
	let gb = GenBlock {
		hash: b.hash(),
		parent: *parent,
		block: b,
		verdict,
		class: "honest".into(),
		tags: vec![tag.to_string()],
	};
	h.blocks.push(gb.clone());
	gb
}

/// Block on `parent` carrying exactly `txs`, with an explicit SKIP_POW difficulty; judged by the reference rules.
pub fn mk_block_txs(h: &mut Hist, parent: &Hash, txs: &[grin_core::core::Transaction], difficulty: u64, tag: &str) -> GenBlock {
	let k = h.fresh_key();
	let w = h.world.clone();
	let mut p = h.prng.fork(43);
	let b = h
		.ledger
		.make_block(&w, &mut p, parent, txs, &k, PowMode::Skip { difficulty }, 60)
		.expect("block");
	let fees: u64 = txs.iter().map(|t| t.fee()).sum();
	let cb = w.coin(grin_core::consensus::reward(fees), &k, true);
	h.coins.insert(cb.commit.0.to_vec(), cb);
	let st = h.ledger.state_at(parent);
	let verdict = st.check_block(&b);
	let gb = GenBlock {
		hash: b.hash(),
		parent: *parent,
		block: b,
		verdict,
		class: "honest".into(),
		tags: vec![tag.to_string()],
	};
	h.blocks.push(gb.clone());
	gb
}

/// Compaction × reorg: the first block above a fork point spends complete SIBLING PAIRS of old
/// outputs, `depth - 1` coinbase-only blocks follow, `Chain::compact()` runs at that head (with
/// depth == horizon the spender is the first block above the compaction horizon), then a heavier
/// fork from the fork point that leaves those outputs unspent wins, later spends them itself, the
/// node is reopened and fully validated. After every step the node is compared with the state
/// replayed by the reference ledger.
pub fn compaction_reorg_scenario(seed: u64, depth: usize, dir: &str) -> Result<ScenarioStats, ScenarioFailure> {
	compaction_reorg_scenario_ex(seed, depth, dir, false)
}

/// As `compaction_reorg_scenario`; with `headers_first` the headers of the winning fork are delivered before the
/// compaction (the header chain's head is then on another fork than the body head while the node compacts). The
/// trunk is long enough for an effective compaction under the chain type in force (horizon + 62 blocks).
pub fn compaction_reorg_scenario_ex(seed: u64, depth: usize, dir: &str, headers_first: bool) -> Result<ScenarioStats, ScenarioFailure> {
	compaction_reorg_scenario_opts(seed, depth, dir, headers_first, None)
}

/// As `compaction_reorg_scenario_ex`; with `pairs_created_at = Some(d)` the sibling pairs the spender spends are not
/// old outputs but outputs created `d` blocks relative to the block that will be the compaction horizon
/// (d = 0: in the horizon block itself, -1 / +1: one block below / above it); requires depth <= horizon.
pub fn compaction_reorg_scenario_opts(seed: u64, depth: usize, dir: &str, headers_first: bool, pairs_created_at: Option<i64>) -> Result<ScenarioStats, ScenarioFailure> {
	// a generated world may lack the outputs the scenario is about (the random spends of the trunk took them): that is
	// a property of the generator, not of the node — another world is drawn, the replay data names the seed used
	let mut last = None;
	for attempt in 0..6u64 {
		let s = if attempt == 0 { seed } else { seed ^ attempt.wrapping_mul(0xA24B_AED4_963E_E407) };
		let _ = std::fs::remove_dir_all(dir);
		match compaction_reorg_scenario_once(s, depth, dir, headers_first, pairs_created_at) {
			Err((clause, what, replay)) if clause == "inconclusive" => last = Some((clause, what, replay)),
			other => return other,
		}
	}
	Err(last.unwrap())
}

fn compaction_reorg_scenario_once(seed: u64, depth: usize, dir: &str, headers_first: bool, pairs_created_at: Option<i64>) -> Result<ScenarioStats, ScenarioFailure> {
	let mut prng = Prng::new(seed ^ 0x5CE7A);
	let mut h = Hist::new(seed, false);
	let horizon = grin_core::global::cut_through_horizon() as u64;
	let n_trunk = (horizon + 62).max(82) + prng.below(6);
	// the block that is the horizon when the node compacts at the head of the spender branch
	let special_height: Option<u64> = pairs_created_at.map(|d| ((n_trunk + depth as u64 - horizon) as i64 + d).max(11) as u64).filter(|x| *x <= n_trunk);
	let mut tip = h.genesis.hash();
	let mut half_partners: Vec<Coin> = vec![];
	for i in 1..=n_trunk {
		if Some(i) == special_height {
			// a block creating 1 + 4 outputs: five consecutive leaves hold at least one aligned sibling pair of plain outputs
			let coin = h.spendable(&tip).into_iter().find(|c| c.value > 50_000_000);
			match coin {
				Some(c) => {
					let tx = h.spend_tx(&[c], 4, None);
					let gb = h.add_block(&tip, &[tx], "honest", vec!["creates_sibling_pairs_at_the_horizon".to_string()]);
					tip = gb.hash;
					continue;
				}
				None => {}
			}
		}
		if i == 45 {
			// "half pairs": one sibling of a pair of old outputs is spent HERE, long before the horizon (compaction prunes
			// it), its partner only by the spender block inside the horizon window — the partner is then the only thing
			// keeping the pair's data on disk; first pair keeps the right leaf, second pair the left leaf
			let st = h.state(&tip);
			let mut early: Vec<Coin> = vec![];
			let mut k = 0usize;
			while 2 * k + 1 < st.outs.len() && early.len() < 2 {
				let (a, b) = (&st.outs[2 * k], &st.outs[2 * k + 1]);
				k += 1;
				if a.height > 40 || b.height > 40 || a.height == 0 || st.utxo.get(&a.commit) != Some(&(2 * k - 2)) || st.utxo.get(&b.commit) != Some(&(2 * k - 1)) {
					continue;
				}
				if let (Some(ca), Some(cb)) = (h.coins.get(&a.commit.0.to_vec()).cloned(), h.coins.get(&b.commit.0.to_vec()).cloned()) {
					if early.len() == 0 {
						early.push(ca);
						half_partners.push(cb);
					} else {
						early.push(cb);
						half_partners.push(ca);
					}
					k += 1; // not the neighbouring pair: keep the parents apart
				}
			}
			if !early.is_empty() {
				let tx = h.spend_tx(&early, 1, None);
				let gb = h.add_block(&tip, &[tx], "honest", vec!["spends_one_sibling_of_old_pairs_long_before_the_horizon".to_string()]);
				if gb.verdict.is_ok() {
					tip = gb.hash;
					continue;
				}
				half_partners.clear();
			}
		}
		let gb = h.honest_block(&tip, if i > 10 && i % 7 == 0 { 1000 } else { 0 });
		tip = gb.hash;
	}
	let replay = json!({"scenario": "compact_at_head_above_a_spender_of_sibling_pairs_then_reorg", "seed": seed, "trunk": n_trunk, "depth": depth,
		"headers_of_the_winning_fork_first": headers_first, "pairs_created_relative_to_the_horizon_block": pairs_created_at, "chain_type": format!("{:?}", grin_core::global::get_chain_type())});
	let fail = |clause: &str, what: String| -> ScenarioFailure { (clause.to_string(), what, replay.clone()) };
	let pairs: Vec<(Coin, Coin)> = {
		let st = h.state(&tip);
		let mut v = vec![];
		let mut k = 0usize;
		while 2 * k + 1 < st.outs.len() {
			let (a, b) = (&st.outs[2 * k], &st.outs[2 * k + 1]);
			let wanted = match special_height {
				Some(sh) => a.height == sh && b.height == sh && a.features == grin_core::core::OutputFeatures::Plain && b.features == grin_core::core::OutputFeatures::Plain,
				None => a.height <= 40 && b.height <= 40,
			};
			// (the unspent instance of the commitment must be THIS leaf: histories re-create spent commitments)
			if wanted && st.utxo.get(&a.commit) == Some(&(2 * k)) && st.utxo.get(&b.commit) == Some(&(2 * k + 1)) {
				if let (Some(ca), Some(cb)) = (h.coins.get(&a.commit.0.to_vec()), h.coins.get(&b.commit.0.to_vec())) {
					v.push((ca.clone(), cb.clone()));
				}
			}
			k += 1;
		}
		v
	};
	if pairs.is_empty() {
		return Err(fail("inconclusive", "no unspent sibling pair of old outputs in the world".into()));
	}
	let n_pairs = 1 + prng.usize_below(pairs.len().min(2));
	let mut spend: Vec<Coin> = vec![];
	for (a, b) in pairs.iter().take(n_pairs) {
		spend.push(a.clone());
		spend.push(b.clone());
	}
	// partners of the half pairs that nothing has spent since
	{
		let st = h.state(&tip);
		half_partners.retain(|c| st.utxo.get(&c.commit).map(|i| st.outs[*i].height <= 40).unwrap_or(false));
	}
	let n_half = half_partners.len();
	spend.extend(half_partners.iter().cloned());
	let fork_point = tip;
	let spender = mk_block(&mut h, &fork_point, &spend, 10, "spend_sibling_pairs_of_old_outputs");
	let mut main_tip = spender.hash;
	let mut main_blocks = vec![spender];
	for _ in 1..depth {
		let b = mk_block(&mut h, &main_tip, &[], 10, "filler");
		main_tip = b.hash;
		main_blocks.push(b);
	}
	let fork1 = mk_block(&mut h, &fork_point, &[], 10 * depth as u64 + 25, "winning_fork_leaves_pairs_unspent");
	let fork2 = mk_block(&mut h, &fork1.hash, &spend, 10, "fork_spends_the_pairs");
	let trunk_blocks: Vec<GenBlock> = h
		.blocks
		.iter()
		.filter(|b| h.ledger.is_ancestor(&b.hash, &fork_point))
		.cloned()
		.collect();
	let opts = h.opts();
	let mut stats = ScenarioStats {
		blocks_delivered: 0,
		state_comparisons: 0,
		compaction_moved_tail: false,
		merkle_proofs_verified: 0,
		compaction_declined: None,
		pairs_spent: n_pairs,
		half_pairs_spent: n_half,
		depth,
		follower_state_syncs: 0,
	};
	let mut chain = Some(open_chain(dir, &h.genesis).map_err(|e| fail("open_failed", e))?);
	let compare = |chain: &grin_chain::Chain, h: &mut Hist, what: &str, stats: &mut ScenarioStats| -> Result<(), ScenarioFailure> {
		let commits = h.all_commits();
		let s = snapshot(chain, &commits).map_err(|e| (format!("{};state_unreadable", what), e, replay.clone()))?;
		let st = h.state(&s.head.0);
		stats.state_comparisons += 1;
		match compare_with_ref(&s, &st) {
			None => {
				// and the Merkle proofs the node serves for unspent outputs (pruned / compacted neighbours included)
				let mut pp = Prng::new(stats.state_comparisons ^ 0x3E4C);
				match crate::snapshot::merkle_proof_probe(chain, &st, &mut pp, 6) {
					Ok(n) => {
						stats.merkle_proofs_verified += n;
						Ok(())
					}
					Err(e) => Err((format!("{};merkle_proof_of_unspent_output", what), e, replay.clone())),
				}
			}
			Some(d) => Err((
				format!("{};state_vs_replay;{}", what, d.split(':').next().unwrap_or("").split('(').next().unwrap_or("").trim()),
				d,
				replay.clone(),
			)),
		}
	};
	let mut deliver = |chain: &grin_chain::Chain, gb: &GenBlock, what: &str, stats: &mut ScenarioStats| -> Result<(), ScenarioFailure> {
		stats.blocks_delivered += 1;
		chain
			.process_block(gb.block.clone(), opts)
			.map(|_| ())
			.map_err(|e| {
				(
					format!("{};valid_block_rejected", what),
					format!("block {} (h {}) valid by replay but rejected: {:?}", gb.hash, gb.block.header.height, e),
					replay.clone(),
				)
			})
	};
	for (i, gb) in trunk_blocks.iter().enumerate() {
		deliver(chain.as_ref().unwrap(), gb, "trunk", &mut stats)?;
		if i % 25 == 24 {
			compare(chain.as_ref().unwrap(), &mut h, "trunk", &mut stats)?;
		}
	}
	for gb in &main_blocks {
		deliver(chain.as_ref().unwrap(), gb, "spender_branch", &mut stats)?;
	}
	compare(chain.as_ref().unwrap(), &mut h, "before_compact", &mut stats)?;
	// ---- a follower that never saw the blocks: the headers of the node's chain, the state archive this node serves
	// for its archive header (Chain::txhashset_read -> Chain::txhashset_write), then the blocks above it. What the follower
	// reports as unspent is the replayed state, right after the state arrived and at the tip. Done BEFORE the compaction:
	// under the test parameters the compaction horizon equals the state-sync threshold, so a compacted test node has dropped
	// leaf data its archive header still counts as unspent (cannot happen where the horizon is a week and the threshold two
	// days); a node that cannot serve an archive is not judged here.
	{
		let c = chain.as_ref().unwrap();
		// the node unpacks an archive in "<parent of its data directory>/tmp": a directory level of its own, or two
		// scenarios running side by side would share that sandbox
		let froot = format!("{}-follower", dir);
		let fdir = format!("{}/db", froot);
		let _ = std::fs::remove_dir_all(&froot);
		let _ = std::fs::create_dir_all(&fdir);
		let res = (|| -> Result<(), ScenarioFailure> {
			let ah = c.txhashset_archive_header().map_err(|e| fail("follower;archive_header_unavailable", format!("{:?}", e)))?;
			let head = c.head().map_err(|e| fail("follower;head_unreadable", format!("{:?}", e)))?;
			// the winning chain, genesis excluded, oldest first
			let mut path: Vec<GenBlock> = vec![];
			let mut cur = head.last_block_h;
			while cur != h.genesis.hash() {
				let gb = h.blocks.iter().find(|b| b.hash == cur).cloned().ok_or_else(|| fail("inconclusive", "head not in the history".into()))?;
				cur = gb.block.header.prev_hash;
				path.push(gb);
			}
			path.reverse();
			let f = open_chain(&fdir, &h.genesis).map_err(|e| fail("follower;open_failed", e))?;
			for gb in &path {
				f.process_block_header(&gb.block.header, opts)
					.map_err(|e| fail("follower;valid_header_rejected", format!("header {} (h {}): {:?}", gb.hash, gb.block.header.height, e)))?;
			}
			let (_, _, file) = c.txhashset_read(ah.hash()).map_err(|e| fail("follower;archive_not_served", format!("txhashset_read({}): {:?}", ah.height, e)))?;
			let status = grin_chain::SyncState::new();
			match f.txhashset_write(ah.hash(), file, &status) {
				Ok(false) => {}
				Ok(true) => return Err(fail("follower;honest_archive_refused", "txhashset_write reported bad data for the archive of an honest node".into())),
				Err(e) => return Err(fail("follower;honest_archive_refused", format!("txhashset_write: {:?}", e))),
			}
			stats.follower_state_syncs += 1;
			compare(&f, &mut h, "follower_after_state_sync", &mut stats)?;
			for gb in path.iter().filter(|b| b.block.header.height > ah.height) {
				deliver(&f, gb, "follower_blocks_above_the_archive_header", &mut stats)?;
			}
			compare(&f, &mut h, "follower_at_the_tip", &mut stats)?;
			Ok(())
		})();
		let _ = std::fs::remove_dir_all(&froot);
		res?;
	}
	if headers_first {
		for gb in [&fork1, &fork2] {
			chain
				.as_ref()
				.unwrap()
				.process_block_header(&gb.block.header, opts)
				.map_err(|e| fail("valid_header_rejected", format!("header of fork block {} rejected: {:?}", gb.hash, e)))?;
		}
	}
	{
		let c = chain.as_ref().unwrap();
		let tail_before = c.tail().ok().map(|t| t.height);
		// a compaction the node declines (Err) is not a verdict by itself — the statement is about what a
		// compaction that happens may change — but the state must be the same afterwards in either case
		if let Err(e) = c.compact() {
			stats.compaction_declined = Some(format!("{:?}", e));
		}
		stats.compaction_moved_tail = c.tail().ok().map(|t| t.height) != tail_before;
		compare(c, &mut h, "after_compact", &mut stats)?;
	}
	if prng.bool() {
		chain = None;
		chain = Some(open_chain(dir, &h.genesis).map_err(|e| fail("reopen_failed", e))?);
	}
	deliver(chain.as_ref().unwrap(), &fork1, "reorg_away_the_spender", &mut stats)?;
	compare(chain.as_ref().unwrap(), &mut h, "reorg_away_the_spender", &mut stats)?;
	deliver(chain.as_ref().unwrap(), &fork2, "fork_spends_the_pairs_again", &mut stats)?;
	compare(chain.as_ref().unwrap(), &mut h, "fork_spends_the_pairs_again", &mut stats)?;
	chain = None;
	chain = Some(open_chain(dir, &h.genesis).map_err(|e| fail("reopen_failed", e))?);
	compare(chain.as_ref().unwrap(), &mut h, "after_reopen", &mut stats)?;
	chain
		.as_ref()
		.unwrap()
		.validate(false)
		.map_err(|e| fail("final_validate_failed", format!("validate(false): {:?}", e)))?;
	drop(chain);
	let _ = std::fs::remove_dir_all(dir);
	Ok(stats)
}

/// A trunk of `n_blocks` blocks each (from height 5) spending the coinbase of 4 blocks earlier into
/// `outs_per_tx` outputs, all proofs built in parallel: 1 + 4 + (outs_per_tx + 1) * (n - 4) outputs, i.e. 107
/// blocks with 9 outputs per transaction span two 1024-bit chunks of the output bitmap.
pub fn build_multi_chunk_trunk(seed: u64, n_blocks: u64, outs_per_tx: usize) -> Hist {
	build_multi_chunk_trunk_ex(seed, n_blocks, outs_per_tx, None)
}

/// As `build_multi_chunk_trunk`; with `swap_proofs_at = Some(i)` the transaction of block i carries the range
/// proofs of its first two outputs swapped (the sums balance, every header commitment — computed by the reference
/// ledger, which does not verify proofs — is consistent with the swapped proofs, and all later blocks build on it).
pub fn build_multi_chunk_trunk_ex(seed: u64, n_blocks: u64, outs_per_tx: usize, swap_proofs_at: Option<u64>) -> Hist {
	use std::collections::HashMap;
	use std::sync::atomic::{AtomicU64, Ordering};
	use grin_core::core::{KernelFeatures, Transaction};
	use crate::world::{fee_fields, init_thread};
	#[allow(non_snake_case)]
	let OUTS_PER_TX = outs_per_tx;
	let mut h = Hist::new(seed, false);
	let w = h.world.clone();
	let reward = grin_core::consensus::REWARD;
	// plan
	let fee_of = |i: u64| -> u64 { if i >= 5 { 1_000_000 * (1 + (i % 3)) } else { 0 } };
	let cb_key = |i: u64| w.key(10_000 + i as u32);
	let out_key = |i: u64, j: usize| w.key(100_000 + (i as u32) * 16 + j as u32);
	let next = AtomicU64::new(1);
	let built = std::sync::Mutex::new(HashMap::<u64, (Option<Transaction>, (grin_core::core::Output, grin_core::core::TxKernel))>::new());
	std::thread::scope(|s| {
		for _ in 0..16 {
			s.spawn(|| {
				init_thread(true);
				loop {
					let i = next.fetch_add(1, Ordering::SeqCst);
					if i > n_blocks {
						break;
					}
					let mut p = Prng::new(seed ^ (i.wrapping_mul(0x9E3779B97F4A7C15)));
					let tx = if i >= 5 {
						let src = i - 4;
						let inp = w.coin(reward + fee_of(src), &cb_key(src), true);
						let fee = fee_of(i);
						let total = inp.value - fee;
						let each = total / OUTS_PER_TX as u64;
						let mut outs = vec![];
						let mut left = total;
						for j in 0..OUTS_PER_TX {
							let v = if j + 1 == OUTS_PER_TX { left } else { each };
							left -= v;
							outs.push((v, out_key(i, j)));
						}
						Some(w.tx(&mut p, &[inp], &outs, KernelFeatures::Plain { fee: fee_fields(fee) }).0)
					} else {
						None
					};
					let cb = w.coinbase(&cb_key(i), fee_of(i));
					built.lock().unwrap().insert(i, (tx, cb));
				}
			});
		}
	});
	let mut built = built.into_inner().unwrap();
	let mut tip = h.genesis.hash();
	let mut p = Prng::new(seed ^ 0x7121);
	for i in 1..=n_blocks {
		let (tx, cb) = built.remove(&i).unwrap();
		let mut txs: Vec<Transaction> = tx.into_iter().collect();
		if swap_proofs_at == Some(i) {
			if let Some(t) = txs.get_mut(0) {
				if t.body.outputs.len() >= 2 {
					let p0 = t.body.outputs[0].proof;
					t.body.outputs[0].proof = t.body.outputs[1].proof;
					t.body.outputs[1].proof = p0;
				}
			}
		}
		let b = h
			.ledger
			.make_block_with_reward(&mut p, &tip, &txs, cb, PowMode::Skip { difficulty: 10 }, 60)
			.expect("trunk block");
		// register coins
		let cbc = w.coin(reward + fee_of(i), &cb_key(i), true);
		h.coins.insert(cbc.commit.0.to_vec(), cbc);
		if i >= 5 {
			let src = i - 4;
			let total = reward + fee_of(src) - fee_of(i);
			let each = total / OUTS_PER_TX as u64;
			let mut left = total;
			for j in 0..OUTS_PER_TX {
				let v = if j + 1 == OUTS_PER_TX { left } else { each };
				left -= v;
				let c = w.coin(v, &out_key(i, j), false);
				h.coins.insert(c.commit.0.to_vec(), c);
			}
		}
		tip = b.hash();
		h.blocks.push(GenBlock {
			hash: tip,
			parent: b.header.prev_hash,
			block: b,
			verdict: Ok(()),
			class: "honest".into(),
			tags: vec![],
		});
	}
	h.next_key = 2_000_000;
	h
}

