//! Monitors: panic monitor, allocation monitor (global allocator wrapper),
//! per-case watchdog. All monitor state is thread-local or atomic, so the
//! monitor itself cannot become the race.

use std::alloc::{GlobalAlloc, Layout, System};
use std::cell::{Cell, RefCell};
use std::panic::{self, AssertUnwindSafe};
use std::sync::atomic::{AtomicBool, AtomicU64, Ordering};
use std::sync::Once;

// ---------------------------------------------------------------- panic monitor

#[derive(Clone, Debug)]
pub struct PanicReport {
	pub message: String,
	pub location: String,
}

thread_local! {
	static LAST_PANIC: RefCell<Option<PanicReport>> = RefCell::new(None);
	static QUIET: Cell<bool> = Cell::new(false);
}

static HOOK: Once = Once::new();

pub fn install_panic_hook() {
	HOOK.call_once(|| {
		let default = panic::take_hook();
		panic::set_hook(Box::new(move |info| {
			let msg = if let Some(s) = info.payload().downcast_ref::<&str>() {
				s.to_string()
			} else if let Some(s) = info.payload().downcast_ref::<String>() {
				s.clone()
			} else {
				"<non-string panic payload>".to_string()
			};
			let loc = info
				.location()
				.map(|l| format!("{}:{}", l.file(), l.line()))
				.unwrap_or_else(|| "<unknown>".to_string());
			let quiet = QUIET.with(|q| q.get());
			LAST_PANIC.with(|p| {
				*p.borrow_mut() = Some(PanicReport {
					message: msg,
					location: loc,
				})
			});
			if !quiet {
				default(info);
			}
		}));
	});
}

/// Run `f`, turning a panic into a report (message + source location).
pub fn catch<T>(f: impl FnOnce() -> T) -> Result<T, PanicReport> {
	install_panic_hook();
	let prev = QUIET.with(|q| q.replace(true));
	LAST_PANIC.with(|p| *p.borrow_mut() = None);
	let r = panic::catch_unwind(AssertUnwindSafe(f));
	QUIET.with(|q| q.set(prev));
	match r {
		Ok(v) => Ok(v),
		Err(_) => Err(LAST_PANIC
			.with(|p| p.borrow_mut().take())
			.unwrap_or(PanicReport {
				message: "<panic without hook report>".into(),
				location: "<unknown>".into(),
			})),
	}
}

// ---------------------------------------------------------------- allocation monitor

/// Global allocator wrapper. A binary opts in with
/// `#[global_allocator] static A: vcommon::monitor::TrackingAlloc = vcommon::monitor::TrackingAlloc;`
pub struct TrackingAlloc;

thread_local! {
	static A_ON: Cell<bool> = const { Cell::new(false) };
	static A_MAX_SINGLE: Cell<usize> = const { Cell::new(0) };
	static A_LIVE: Cell<isize> = const { Cell::new(0) };
	static A_PEAK: Cell<isize> = const { Cell::new(0) };
	static A_COUNT: Cell<u64> = const { Cell::new(0) };
	static A_CASE: Cell<u64> = const { Cell::new(0) };
}

/// Requests above this size (while tracking is on in the requesting thread)
/// are reported on stderr through raw `write(2)` and the process exits with
/// code 86: a request of this size for a tiny input is an over-allocation, and
/// serving it could kill the machine. The parent process classifies it.
pub static HARD_CAP: AtomicU64 = AtomicU64::new(1 << 30);
pub const EXIT_ALLOC_OVER_CAP: i32 = 86;
pub const EXIT_HANG: i32 = 87;

fn raw_stderr(msg: &[u8]) {
	unsafe {
		libc::write(2, msg.as_ptr() as *const libc::c_void, msg.len());
	}
}

fn fmt_u64(mut v: u64, buf: &mut [u8; 20]) -> &[u8] {
	let mut i = 20;
	if v == 0 {
		i -= 1;
		buf[i] = b'0';
	}
	while v > 0 {
		i -= 1;
		buf[i] = b'0' + (v % 10) as u8;
		v /= 10;
	}
	&buf[i..]
}

#[inline]
fn on_alloc(size: usize) {
	// try_with: thread-locals may be gone during thread teardown
	let _ = A_ON.try_with(|on| {
		if on.get() {
			if size as u64 > HARD_CAP.load(Ordering::Relaxed) {
				let case = A_CASE.try_with(|c| c.get()).unwrap_or(0);
				let mut b1 = [0u8; 20];
				let mut b2 = [0u8; 20];
				raw_stderr(b"\nALLOC-OVER-CAP case=");
				raw_stderr(fmt_u64(case, &mut b1));
				raw_stderr(b" size=");
				raw_stderr(fmt_u64(size as u64, &mut b2));
				raw_stderr(b"\n");
				unsafe { libc::_exit(EXIT_ALLOC_OVER_CAP) };
			}
			let _ = A_MAX_SINGLE.try_with(|m| {
				if size > m.get() {
					m.set(size)
				}
			});
			let _ = A_COUNT.try_with(|c| c.set(c.get() + 1));
			let _ = A_LIVE.try_with(|l| {
				let nl = l.get() + size as isize;
				l.set(nl);
				if nl > 0 && (nl as u64) / 4 > HARD_CAP.load(Ordering::Relaxed) {
					let case = A_CASE.try_with(|c| c.get()).unwrap_or(0);
					let mut b1 = [0u8; 20];
					let mut b2 = [0u8; 20];
					raw_stderr(b"\nALLOC-OVER-CAP case=");
					raw_stderr(fmt_u64(case, &mut b1));
					raw_stderr(b" size=");
					raw_stderr(fmt_u64(nl as u64, &mut b2));
					raw_stderr(b" (live)\n");
					unsafe { libc::_exit(EXIT_ALLOC_OVER_CAP) };
				}
				let _ = A_PEAK.try_with(|p| {
					if nl > p.get() {
						p.set(nl)
					}
				});
			});
		}
	});
}

#[inline]
fn on_dealloc(size: usize) {
	let _ = A_ON.try_with(|on| {
		if on.get() {
			let _ = A_LIVE.try_with(|l| l.set(l.get() - size as isize));
		}
	});
}

unsafe impl GlobalAlloc for TrackingAlloc {
	unsafe fn alloc(&self, layout: Layout) -> *mut u8 {
		on_alloc(layout.size());
		System.alloc(layout)
	}
	unsafe fn dealloc(&self, ptr: *mut u8, layout: Layout) {
		on_dealloc(layout.size());
		System.dealloc(ptr, layout)
	}
	unsafe fn alloc_zeroed(&self, layout: Layout) -> *mut u8 {
		on_alloc(layout.size());
		System.alloc_zeroed(layout)
	}
	unsafe fn realloc(&self, ptr: *mut u8, layout: Layout, new_size: usize) -> *mut u8 {
		if new_size > layout.size() {
			on_alloc(new_size - layout.size());
			// a realloc to a huge size is a huge request as well
			let _ = A_ON.try_with(|on| {
				if on.get() {
					if new_size as u64 > HARD_CAP.load(Ordering::Relaxed) {
						on_alloc(new_size);
					}
					let _ = A_MAX_SINGLE.try_with(|m| {
						if new_size > m.get() {
							m.set(new_size)
						}
					});
				}
			});
		} else {
			on_dealloc(layout.size() - new_size);
		}
		System.realloc(ptr, layout, new_size)
	}
}

#[derive(Clone, Copy, Debug, Default)]
pub struct AllocStats {
	/// Largest single request (bytes) in the tracked region.
	pub max_single: usize,
	/// High-water mark of live bytes allocated inside the tracked region.
	pub peak_live: usize,
	/// Number of allocation calls.
	pub count: u64,
}

/// Track allocations made by this thread while `f` runs. `case` is reported
/// if the hard cap is exceeded.
pub fn track_alloc<T>(case: u64, f: impl FnOnce() -> T) -> (T, AllocStats) {
	A_CASE.with(|c| c.set(case));
	A_MAX_SINGLE.with(|m| m.set(0));
	A_LIVE.with(|l| l.set(0));
	A_PEAK.with(|p| p.set(0));
	A_COUNT.with(|c| c.set(0));
	A_ON.with(|o| o.set(true));
	struct Off;
	impl Drop for Off {
		fn drop(&mut self) {
			A_ON.with(|o| o.set(false));
		}
	}
	let _off = Off;
	let r = f();
	A_ON.with(|o| o.set(false));
	let st = AllocStats {
		max_single: A_MAX_SINGLE.with(|m| m.get()),
		peak_live: A_PEAK.with(|p| p.get()).max(0) as usize,
		count: A_COUNT.with(|c| c.get()),
	};
	(r, st)
}

/// Open-ended variant of `track_alloc` for loops that cannot be wrapped in a closure:
/// between `alloc_guard_on(case)` and `alloc_guard_off()` a request above HARD_CAP made by
/// this thread ends the process with exit 86 and "ALLOC-OVER-CAP case=<case>".
pub fn alloc_guard_on(case: u64) {
	A_CASE.with(|c| c.set(case));
	A_LIVE.with(|l| l.set(0));
	A_PEAK.with(|p| p.set(0));
	A_ON.with(|o| o.set(true));
}

pub fn alloc_guard_off() {
	A_ON.with(|o| o.set(false));
}

/// Live bytes allocated by this thread since `alloc_guard_on` (high-water mark).
pub fn alloc_guard_peak() -> usize {
	A_PEAK.with(|p| p.get()).max(0) as usize
}

/// True if the tracking allocator is actually installed in this binary
/// (probe: allocate inside a tracked region and see whether it was counted).
pub fn alloc_monitor_installed() -> bool {
	let (_, st) = track_alloc(0, || {
		let v: Vec<u8> = Vec::with_capacity(12345);
		std::hint::black_box(&v);
	});
	st.max_single >= 12345
}

// ---------------------------------------------------------------- watchdog

static WD_CASE: AtomicU64 = AtomicU64::new(0);
static WD_START_MS: AtomicU64 = AtomicU64::new(0);
static WD_ACTIVE: AtomicBool = AtomicBool::new(false);
static WD_STARTED: Once = Once::new();

fn now_ms() -> u64 {
	use std::time::{SystemTime, UNIX_EPOCH};
	SystemTime::now()
		.duration_since(UNIX_EPOCH)
		.map(|d| d.as_millis() as u64)
		.unwrap_or(0)
}

/// Process-wide watchdog for single-threaded workers: if one case runs longer
/// than `budget_ms`, write "HANG case=<id>" to stderr and exit(87). The parent
/// re-runs the case alone; only a reproduced hang is a violation.
pub fn watchdog_start(budget_ms: u64) {
	WD_STARTED.call_once(move || {
		std::thread::spawn(move || loop {
			std::thread::sleep(std::time::Duration::from_millis(200));
			if WD_ACTIVE.load(Ordering::SeqCst) {
				let st = WD_START_MS.load(Ordering::SeqCst);
				if st > 0 && now_ms().saturating_sub(st) > budget_ms {
					let case = WD_CASE.load(Ordering::SeqCst);
					let mut b = [0u8; 20];
					raw_stderr(b"\nHANG case=");
					raw_stderr(fmt_u64(case, &mut b));
					raw_stderr(b"\n");
					unsafe { libc::_exit(EXIT_HANG) };
				}
			}
		});
	});
}

pub fn watchdog_enter(case: u64) {
	WD_CASE.store(case, Ordering::SeqCst);
	WD_START_MS.store(now_ms(), Ordering::SeqCst);
	WD_ACTIVE.store(true, Ordering::SeqCst);
}

pub fn watchdog_leave() {
	WD_ACTIVE.store(false, Ordering::SeqCst);
}

// ---------------------------------------------------------------- stalled process: deadlock or slow machine?

fn proc_cpu_ticks() -> Option<u64> {
	let s = std::fs::read_to_string("/proc/self/stat").ok()?;
	// the command name may contain spaces: fields are counted after the closing parenthesis
	let rest = &s[s.rfind(')')? + 1..];
	let f: Vec<&str> = rest.split_whitespace().collect();
	// rest starts at field 3 (state): utime = field 14, stime = field 15
	let ut: u64 = f.get(11)?.parse().ok()?;
	let st: u64 = f.get(12)?.parse().ok()?;
	Some(ut + st)
}

/// A stall is a deadlock beyond doubt when, over a further observation window, the progress counters stay frozen,
/// the process burns no CPU time to speak of, and the all-thread dump taken at the stall shows two or more threads
/// parked on a lock and none inside file I/O. Anything less is left to the caller (re-execution). Returns
/// (confirmed, what was seen).
pub fn deadlock_confirmed_in_place(progress: &dyn Fn() -> u64, gdb_text: &str, window_s: u64) -> (bool, String) {
	let mut parked = 0usize;
	let mut in_io = 0usize;
	let mut threads = 0usize;
	let mut cur = String::new();
	let mut blocks: Vec<String> = vec![];
	for line in gdb_text.lines() {
		if line.starts_with("Thread ") {
			if !cur.is_empty() {
				blocks.push(std::mem::take(&mut cur));
			}
		}
		if line.starts_with("Thread ") || line.starts_with('#') {
			cur.push_str(line);
			cur.push('\n');
		}
	}
	if !cur.is_empty() {
		blocks.push(cur);
	}
	for b in &blocks {
		threads += 1;
		if b.contains("parking_lot::raw_rwlock::RawRwLock::") || b.contains("parking_lot::raw_mutex::RawMutex::lock_slow") {
			parked += 1;
		}
		if ["fsync", "fdatasync", "msync", "pwrite", "pread", "ftruncate", "mdb_env_sync", "fallocate", "__GI___libc_read", "__GI___libc_write"].iter().any(|n| b.contains(n)) {
			in_io += 1;
		}
	}
	if parked < 2 || in_io > 0 {
		return (false, format!("thread dump: {} threads, {} parked on a lock, {} in file I/O", threads, parked, in_io));
	}
	let p0 = progress();
	let c0 = match proc_cpu_ticks() {
		Some(c) => c,
		None => return (false, "process CPU time not readable".into()),
	};
	let t0 = std::time::Instant::now();
	while t0.elapsed().as_secs() < window_s {
		std::thread::sleep(std::time::Duration::from_millis(250));
		if progress() != p0 {
			return (false, "progress resumed during the confirmation window".into());
		}
	}
	let c1 = proc_cpu_ticks().unwrap_or(u64::MAX);
	let used = c1.saturating_sub(c0);
	let note = format!(
		"thread dump: {} threads, {} parked on a lock, none in file I/O; further {} s: no progress, {} clock ticks of CPU time used by the whole process",
		threads, parked, window_s, used
	);
	(used <= 20, note)
}
