//! Run context: tier / seed handling, evidence file, three-valued verdicts,
//! known-findings lookup, VIOLATION / KNOWN-FINDING lines and exit codes.
//!
//! Exit codes of a check binary:
//!   0  property held on everything explored (KNOWN-FINDING lines allowed)
//!   1  at least one violation whose signature is not a listed known finding
//!   2  inconclusive: the run did not meet its minimum-observation thresholds
//!      (never a VIOLATION line in that case)

use crate::prng::fnv64;
use serde_json::{json, Map, Value};
use std::collections::{BTreeMap, HashSet};
use std::path::PathBuf;
use std::sync::Mutex;
use std::time::Instant;

#[derive(Clone, Copy, Debug, PartialEq, Eq)]
pub enum Tier {
	Quick,
	Thorough,
}

impl Tier {
	pub fn name(&self) -> &'static str {
		match self {
			Tier::Quick => "quick",
			Tier::Thorough => "thorough",
		}
	}
	pub fn pick<T>(&self, quick: T, thorough: T) -> T {
		match self {
			Tier::Quick => quick,
			Tier::Thorough => thorough,
		}
	}
}

#[derive(Clone, Debug)]
pub struct Violation {
	pub signature: String,
	pub what: String,
	pub replay: Value,
}

struct Inner {
	evaluations: u64,
	distinct: HashSet<u64>,
	samples: Vec<Value>,
	max_samples: usize,
	counters: BTreeMap<String, u64>,
	extras: Map<String, Value>,
	violations: Vec<Violation>,
	violation_sigs: HashSet<String>,
	inconclusive: Vec<String>,
	requirements: Vec<(String, u64, u64)>,
	assumptions: Vec<String>,
	rule: String,
	exhaustive: Option<bool>,
}

pub struct Run {
	pub id: String,
	pub tier: Tier,
	pub seed: u64,
	pub level: String,
	pub replay: Option<PathBuf>,
	pub args: Vec<String>,
	start: Instant,
	inner: Mutex<Inner>,
}

pub fn verif_root() -> PathBuf {
	PathBuf::from(std::env::var("VERIF_ROOT").unwrap_or_else(|_| "/verif".to_string()))
}

/// Parsed common command line: `--tier`, `--seed`, `--replay`; the rest is kept in `args`.
pub struct Cli {
	pub tier: Tier,
	pub seed: u64,
	pub replay: Option<PathBuf>,
	pub rest: Vec<String>,
}

pub fn parse_cli() -> Cli {
	let mut tier = match std::env::var("VERIF_TIER").ok().as_deref() {
		Some("thorough") => Tier::Thorough,
		_ => Tier::Quick,
	};
	let mut seed: u64 = std::env::var("VERIF_SEED")
		.ok()
		.and_then(|s| s.trim().parse::<i128>().ok())
		.map(|v| v as u64)
		.unwrap_or(1);
	let mut replay = None;
	let mut rest = vec![];
	let mut it = std::env::args().skip(1);
	while let Some(a) = it.next() {
		match a.as_str() {
			"--tier" => {
				tier = match it.next().as_deref() {
					Some("thorough") => Tier::Thorough,
					_ => Tier::Quick,
				}
			}
			"--seed" => {
				seed = it
					.next()
					.and_then(|s| s.parse::<i128>().ok())
					.map(|v| v as u64)
					.unwrap_or(seed)
			}
			"--replay" => replay = it.next().map(PathBuf::from),
			_ => rest.push(a),
		}
	}
	// A replay file carries the seed and tier of the run that produced it.
	if let Some(p) = &replay {
		if let Ok(s) = std::fs::read_to_string(p) {
			if let Ok(v) = serde_json::from_str::<Value>(&s) {
				if let Some(sd) = v.get("seed").and_then(|x| x.as_u64()) {
					seed = sd;
				}
				if let Some(t) = v.get("tier").and_then(|x| x.as_str()) {
					tier = if t == "thorough" {
						Tier::Thorough
					} else {
						Tier::Quick
					};
				}
			}
		}
	}
	Cli {
		tier,
		seed,
		replay,
		rest,
	}
}

impl Run {
	pub fn new(id: &str, level: &str, cli: &Cli) -> Run {
		Run {
			id: id.to_string(),
			tier: cli.tier,
			seed: cli.seed,
			level: level.to_string(),
			replay: cli.replay.clone(),
			args: cli.rest.clone(),
			start: Instant::now(),
			inner: Mutex::new(Inner {
				evaluations: 0,
				distinct: HashSet::new(),
				samples: vec![],
				max_samples: 6,
				counters: BTreeMap::new(),
				extras: Map::new(),
				violations: vec![],
				violation_sigs: HashSet::new(),
				inconclusive: vec![],
				requirements: vec![],
				assumptions: vec![],
				rule: String::new(),
				exhaustive: None,
			}),
		}
	}

	pub fn from_env(id: &str, level: &str) -> Run {
		let cli = parse_cli();
		let run = Run::new(id, level, &cli);
		start_rss_guard(id, &cli.rest);
		run
	}

	pub fn elapsed_s(&self) -> f64 {
		self.start.elapsed().as_secs_f64()
	}

	pub fn set_rule(&self, rule: &str) {
		self.inner.lock().unwrap().rule = rule.to_string();
	}

	pub fn set_exhaustive(&self, e: bool) {
		self.inner.lock().unwrap().exhaustive = Some(e);
	}

	pub fn assume(&self, a: &str) {
		self.inner.lock().unwrap().assumptions.push(a.to_string());
	}

	/// One executed case. `sig` describes the *shape* of the case; if
	/// `nontrivial` it is counted in `distinct_nontrivial` (deduplicated by sig).
	pub fn eval(&self, sig: &str, nontrivial: bool) {
		let mut i = self.inner.lock().unwrap();
		i.evaluations += 1;
		if nontrivial {
			i.distinct.insert(fnv64(sig.as_bytes()));
		}
	}

	/// Bulk variant when the caller did its own counting/deduplication.
	pub fn eval_bulk(&self, evaluations: u64, distinct_sigs: impl IntoIterator<Item = u64>) {
		let mut i = self.inner.lock().unwrap();
		i.evaluations += evaluations;
		for s in distinct_sigs {
			i.distinct.insert(s);
		}
	}

	pub fn sample(&self, v: Value) {
		let mut i = self.inner.lock().unwrap();
		if i.samples.len() < i.max_samples {
			i.samples.push(v);
		}
	}

	pub fn count(&self, name: &str, n: u64) {
		let mut i = self.inner.lock().unwrap();
		*i.counters.entry(name.to_string()).or_insert(0) += n;
	}

	pub fn counter(&self, name: &str) -> u64 {
		*self.inner.lock().unwrap().counters.get(name).unwrap_or(&0)
	}

	pub fn set_max(&self, name: &str, n: u64) {
		let mut i = self.inner.lock().unwrap();
		let e = i.counters.entry(name.to_string()).or_insert(0);
		if n > *e {
			*e = n;
		}
	}

	pub fn extra(&self, name: &str, v: Value) {
		self.inner
			.lock()
			.unwrap()
			.extras
			.insert(name.to_string(), v);
	}

	/// Record a violation. `signature` must be exact and stable (scenario,
	/// input class, failing oracle clause): it is what KNOWN_FINDINGS.json keys on.
	pub fn violation(&self, signature: &str, what: &str, replay: Value) {
		let mut i = self.inner.lock().unwrap();
		if i.violation_sigs.insert(signature.to_string()) {
			if self.args.iter().any(|a| a == "--worker") {
				// a worker reports a violation at once as well: if it dies later (a panic of the harness on
				// the state the violation left behind, a monitor exit) the parent still has it
				use std::io::Write;
				let line = json!({"signature": signature, "what": what, "replay": replay});
				let so = std::io::stdout();
				let mut so = so.lock();
				let _ = writeln!(so, "@@WORKER-VIOLATION {}", serde_json::to_string(&line).unwrap_or_default());
				let _ = so.flush();
			}
			i.violations.push(Violation {
				signature: signature.to_string(),
				what: what.to_string(),
				replay,
			});
		}
	}

	pub fn n_violations(&self) -> usize {
		self.inner.lock().unwrap().violations.len()
	}

	pub fn inconclusive(&self, what: &str) {
		let mut i = self.inner.lock().unwrap();
		if i.inconclusive.len() < 50 {
			i.inconclusive.push(what.to_string());
		}
	}

	/// Minimum-observation threshold: the run is inconclusive (exit 2) if
	/// `actual < min` at the end.
	pub fn require(&self, name: &str, actual: u64, min: u64) {
		self.inner
			.lock()
			.unwrap()
			.requirements
			.push((name.to_string(), actual, min));
	}

	fn known_findings(&self) -> Vec<(String, String)> {
		let p = verif_root().join("KNOWN_FINDINGS.json");
		let mut out = vec![];
		if let Ok(s) = std::fs::read_to_string(p) {
			if let Ok(v) = serde_json::from_str::<Value>(&s) {
				if let Some(a) = v.get("findings").and_then(|x| x.as_array()) {
					for f in a {
						if f.get("property").and_then(|x| x.as_str()) == Some(self.id.as_str()) {
							if let Some(sig) = f.get("signature").and_then(|x| x.as_str()) {
								out.push((
									sig.to_string(),
									f.get("what")
										.and_then(|x| x.as_str())
										.unwrap_or("")
										.to_string(),
								));
							}
						}
					}
				}
			}
		}
		out
	}

	/// Write evidence, print verdict lines, return the exit code.
	pub fn finish_code(&self) -> i32 {
		self.set_max("max_rss_mb_main", PEAK_RSS_MB.load(std::sync::atomic::Ordering::Relaxed).max(rss_mb()));
		let i = self.inner.lock().unwrap();
		let wall = self.start.elapsed().as_secs_f64();
		let known = self.known_findings();
		let mut unknown: Vec<&Violation> = vec![];
		let mut known_hit: Vec<(&Violation, String)> = vec![];
		for v in &i.violations {
			if let Some((_, what)) = known.iter().find(|(s, _)| *s == v.signature) {
				known_hit.push((v, what.clone()));
			} else {
				unknown.push(v);
			}
		}

		let mut failed_reqs = vec![];
		for (name, actual, min) in &i.requirements {
			if actual < min {
				failed_reqs.push(format!("{}: observed {} < required {}", name, actual, min));
			}
		}

		// coverage
		let mut cov = Map::new();
		cov.insert("evaluations".into(), json!(i.evaluations));
		cov.insert("distinct_nontrivial".into(), json!(i.distinct.len() as u64));
		cov.insert("rule".into(), json!(i.rule));
		cov.insert("samples".into(), Value::Array(i.samples.clone()));
		if let Some(e) = i.exhaustive {
			cov.insert("exhaustive".into(), json!(e));
		}
		let mut counters = Map::new();
		for (k, v) in &i.counters {
			counters.insert(k.clone(), json!(v));
		}
		cov.insert("monitor_counters".into(), Value::Object(counters));
		cov.insert(
			"requirements".into(),
			Value::Array(
				i.requirements
					.iter()
					.map(|(n, a, m)| json!({"name": n, "observed": a, "required_min": m}))
					.collect(),
			),
		);
		cov.insert(
			"inconclusive_cases".into(),
			Value::Array(i.inconclusive.iter().map(|s| json!(s)).collect()),
		);
		cov.insert(
			"known_findings_reproduced".into(),
			Value::Array(
				known_hit
					.iter()
					.map(|(v, _)| json!(v.signature))
					.collect::<Vec<_>>(),
			),
		);
		cov.insert(
			"verdict".into(),
			json!(if !unknown.is_empty() {
				"violated"
			} else if !failed_reqs.is_empty() {
				"inconclusive"
			} else {
				"held on what was observed"
			}),
		);
		for (k, v) in &i.extras {
			cov.insert(k.clone(), v.clone());
		}

		let ev = json!({
			"property_id": self.id,
			"tier": self.tier.name(),
			"seed": (self.seed & 0x7fff_ffff_ffff_ffff) as i64,
			"level": self.level,
			"coverage": Value::Object(cov),
			"assumptions": i.assumptions,
			"wall_s": (wall * 1000.0).round() / 1000.0,
			"violations": unknown.len() as i64,
		});
		let evdir = verif_root().join("evidence");
		let _ = std::fs::create_dir_all(&evdir);
		let suffix = std::env::var("VERIF_EVIDENCE_SUFFIX").unwrap_or_default();
		let evpath = evdir.join(format!("{}{}.json", self.id, suffix));
		if let Err(e) = std::fs::write(&evpath, serde_json::to_string_pretty(&ev).unwrap() + "\n") {
			eprintln!("cannot write evidence {:?}: {}", evpath, e);
		}

		println!(
			"[{}] tier={} seed={} evaluations={} distinct_nontrivial={} wall={:.1}s",
			self.id,
			self.tier.name(),
			self.seed,
			i.evaluations,
			i.distinct.len(),
			wall
		);
		for (k, v) in &i.counters {
			println!("[{}]   {} = {}", self.id, k, v);
		}
		for s in &i.inconclusive {
			println!("[{}] INCONCLUSIVE-CASE: {}", self.id, s);
		}
		for (v, what) in &known_hit {
			println!(
				"KNOWN-FINDING: property={} {} [{}]",
				self.id, what, v.signature
			);
		}
		if !unknown.is_empty() {
			let rdir = verif_root().join("replay").join(&self.id);
			let _ = std::fs::create_dir_all(&rdir);
			for v in &unknown {
				let name = format!("{:016x}.json", fnv64(v.signature.as_bytes()));
				let path = rdir.join(name);
				let body = json!({
					"property": self.id,
					"seed": self.seed,
					"tier": self.tier.name(),
					"signature": v.signature,
					"what": v.what,
					"case": v.replay,
				});
				let _ = std::fs::write(&path, serde_json::to_string_pretty(&body).unwrap() + "\n");
				println!("[{}] violation: {} :: {}", self.id, v.signature, v.what);
				println!(
					"VIOLATION property={} replay={}",
					self.id,
					path.to_string_lossy()
				);
			}
			return 1;
		}
		if !failed_reqs.is_empty() {
			for r in &failed_reqs {
				println!("[{}] INCONCLUSIVE: {}", self.id, r);
			}
			return 2;
		}
		println!("[{}] held on what was observed", self.id);
		0
	}

	pub fn finish(&self) -> ! {
		let code = self.finish_code();
		cleanup_scratches();
		std::process::exit(code)
	}

	/// `Some((shard, nshards))` if this process was started as a worker (`--worker i n`).
	pub fn worker_shard(&self) -> Option<(usize, usize)> {
		let p = self.args.iter().position(|a| a == "--worker")?;
		let i = self.args.get(p + 1)?.parse().ok()?;
		let n = self.args.get(p + 2)?.parse().ok()?;
		Some((i, n))
	}

	/// Value of `--name <value>` among the non-standard args.
	pub fn arg_value(&self, name: &str) -> Option<String> {
		let p = self.args.iter().position(|a| a == name)?;
		self.args.get(p + 1).cloned()
	}

	/// Worker side: dump everything recorded so far as one line on stdout and exit 0.
	pub fn finish_worker(&self) -> ! {
		self.set_max("max_rss_mb_worker", PEAK_RSS_MB.load(std::sync::atomic::Ordering::Relaxed).max(rss_mb()));
		let v = {
			let i = self.inner.lock().unwrap();
			json!({
				"evaluations": i.evaluations,
				"distinct": i.distinct.iter().cloned().collect::<Vec<u64>>(),
				"samples": i.samples,
				"counters": i.counters,
				"extras": Value::Object(i.extras.clone()),
				"violations": i.violations.iter().map(|v| json!({"signature": v.signature, "what": v.what, "replay": v.replay})).collect::<Vec<_>>(),
				"inconclusive": i.inconclusive,
			})
		};
		println!("@@WORKER-RESULT {}", serde_json::to_string(&v).unwrap());
		cleanup_scratches();
		std::process::exit(0)
	}

	/// Parent side: merge one worker result into this run.
	pub fn merge_worker(&self, v: &Value) {
		let mut i = self.inner.lock().unwrap();
		i.evaluations += v["evaluations"].as_u64().unwrap_or(0);
		if let Some(a) = v["distinct"].as_array() {
			for d in a {
				if let Some(x) = d.as_u64() {
					i.distinct.insert(x);
				}
			}
		}
		if let Some(a) = v["samples"].as_array() {
			for s in a {
				if i.samples.len() < i.max_samples {
					i.samples.push(s.clone());
				}
			}
		}
		if let Some(m) = v["counters"].as_object() {
			for (k, x) in m {
				let e = i.counters.entry(k.clone()).or_insert(0);
				if k.starts_with("max_") {
					// high-water marks are merged by maximum, everything else is summed
					*e = (*e).max(x.as_u64().unwrap_or(0));
				} else {
					*e += x.as_u64().unwrap_or(0);
				}
			}
		}
		if let Some(a) = v["violations"].as_array() {
			for x in a {
				let sig = x["signature"].as_str().unwrap_or("").to_string();
				if i.violation_sigs.insert(sig.clone()) {
					i.violations.push(Violation {
						signature: sig,
						what: x["what"].as_str().unwrap_or("").to_string(),
						replay: x["replay"].clone(),
					});
				}
			}
		}
		if let Some(a) = v["inconclusive"].as_array() {
			for x in a {
				if i.inconclusive.len() < 50 {
					i.inconclusive.push(x.as_str().unwrap_or("").to_string());
				}
			}
		}
	}

	/// Parent side: run `n` worker processes of this same binary (`--worker i n`
	/// plus the common flags and `extra`), merge what they recorded and return
	/// the raw results (for cross-worker comparisons through `extras`). A worker
	/// that dies or times out is recorded as inconclusive, never as a violation.
	pub fn spawn_workers(&self, n: usize, extra: &[String], timeout_s: u64) -> Vec<Value> {
		self.spawn_workers_ex(n, extra, timeout_s, &|_, _, _| false)
	}

	/// As `spawn_workers`; `on_abnormal(worker, exit code, stderr)` is called for a worker that
	/// did not end with exit 0 + a result line; if it returns true the caller has classified the
	/// exit itself (e.g. the allocation / hang monitor fired: exit 86 / 87), otherwise the exit is
	/// recorded as inconclusive.
	pub fn spawn_workers_ex(
		&self,
		n: usize,
		extra: &[String],
		timeout_s: u64,
		on_abnormal: &dyn Fn(usize, Option<i32>, &str) -> bool,
	) -> Vec<Value> {
		use std::io::Read;
		use std::process::{Command, Stdio};
		let exe = std::env::current_exe().expect("current_exe");
		let mut children = vec![];
		for i in 0..n {
			let mut cmd = Command::new(&exe);
			cmd.arg("--tier")
				.arg(self.tier.name())
				.arg("--seed")
				.arg(self.seed.to_string())
				.arg("--worker")
				.arg(i.to_string())
				.arg(n.to_string());
			for a in &self.args {
				if a != "--worker" {
					cmd.arg(a);
				}
			}
			for a in extra {
				cmd.arg(a);
			}
			cmd.stdout(Stdio::piped()).stderr(Stdio::piped());
			match cmd.spawn() {
				Ok(c) => children.push((i, c)),
				Err(e) => self.inconclusive(&format!("worker {} could not be started: {}", i, e)),
			}
		}
		let start = Instant::now();
		let mut results = vec![];
		// reader threads so that pipes never fill up
		let mut handles = vec![];
		for (i, mut c) in children {
			let mut so = c.stdout.take().unwrap();
			let mut se = c.stderr.take().unwrap();
			let ho = std::thread::spawn(move || {
				let mut s = String::new();
				let _ = so.read_to_string(&mut s);
				s
			});
			let he = std::thread::spawn(move || {
				let mut s = Vec::new();
				let _ = se.read_to_end(&mut s);
				String::from_utf8_lossy(&s).to_string()
			});
			handles.push((i, c, ho, he));
		}
		for (i, mut c, ho, he) in handles {
			let status = loop {
				match c.try_wait() {
					Ok(Some(st)) => break Some(st),
					Ok(None) => {
						if start.elapsed().as_secs() > timeout_s {
							let _ = c.kill();
							let _ = c.wait();
							break None;
						}
						std::thread::sleep(std::time::Duration::from_millis(50));
					}
					Err(_) => break None,
				}
			};
			let out = ho.join().unwrap_or_default();
			let err = he.join().unwrap_or_default();
			let mut got = false;
			for line in out.lines() {
				if let Some(j) = line.strip_prefix("@@WORKER-VIOLATION ") {
					if let Ok(v) = serde_json::from_str::<Value>(j) {
						self.merge_worker(&json!({"violations": [v]}));
					}
				}
				if let Some(j) = line.strip_prefix("@@WORKER-RESULT ") {
					if let Ok(v) = serde_json::from_str::<Value>(j) {
						self.merge_worker(&v);
						results.push(v);
						got = true;
					}
				}
			}
			match status {
				Some(st) if st.success() && got => {}
				Some(st) if on_abnormal(i, st.code(), &err) => {
					self.count("workers_stopped_by_a_monitor", 1);
				}
				Some(st) => {
					let tail: String = err.chars().rev().take(400).collect::<String>().chars().rev().collect();
					self.inconclusive(&format!(
						"worker {} ended with {:?} (result line: {}); stderr tail: {}",
						i, st, got, tail.replace('\n', " | ")
					));
					self.count("workers_failed", 1);
				}
				None => {
					self.inconclusive(&format!("worker {} exceeded the {} s watchdog and was killed", i, timeout_s));
					self.count("workers_failed", 1);
				}
			}
		}
		results
	}
}

/// Highest resident set size (MiB) seen by the guard thread of this process.
pub static PEAK_RSS_MB: std::sync::atomic::AtomicU64 = std::sync::atomic::AtomicU64::new(0);
pub const EXIT_RSS_OVER_CAP: i32 = 88;

fn rss_mb() -> u64 {
	std::fs::read_to_string("/proc/self/statm")
		.ok()
		.and_then(|s| s.split_whitespace().nth(1).and_then(|x| x.parse::<u64>().ok()))
		.map(|pages| pages * 4096 / (1 << 20))
		.unwrap_or(0)
}

/// Machine protection: code under test that runs away allocating (seen with a mutated
/// `family_branch` on a tall position: 64 GiB in seconds) must not take the machine down
/// with it. A process of a check whose resident set exceeds the cap stops itself; that is
/// never a verdict on the property: a worker exits 88 (its parent records "inconclusive"
/// unless it can attribute the exit), a main process prints an inconclusive line and exits 2.
/// Caps: VERIF_RSS_CAP_MB, default 16 GiB for a main process, 6 GiB for a worker, x3 in
/// sanitizer workloads (`--san`).
fn start_rss_guard(id: &str, args: &[String]) {
	use std::sync::atomic::Ordering;
	let worker = args.iter().any(|a| a == "--worker");
	let san = args.iter().any(|a| a == "--san");
	let mut cap: u64 = std::env::var("VERIF_RSS_CAP_MB")
		.ok()
		.and_then(|v| v.parse().ok())
		.unwrap_or(if worker { 6 * 1024 } else { 16 * 1024 });
	if san {
		cap *= 3;
	}
	let id = id.to_string();
	// wall-clock watchdog of last resort for the main process (every workload has its own, much smaller,
	// caps; this one only fires if code under test blocks the harness somewhere unforeseen): inconclusive
	let thorough = std::env::var("VERIF_TIER").map(|t| t == "thorough").unwrap_or(false)
		|| args.windows(2).any(|w| w[0] == "--tier" && w[1] == "thorough")
		|| std::env::args().collect::<Vec<_>>().windows(2).any(|w| w[0] == "--tier" && w[1] == "thorough");
	let wall_cap: u64 = std::env::var("VERIF_WALL_CAP_S")
		.ok()
		.and_then(|v| v.parse().ok())
		.unwrap_or(if thorough { 3 * 3600 } else { 30 * 60 });
	let started = Instant::now();
	let _ = std::thread::Builder::new().name("rss-guard".into()).spawn(move || loop {
		if !worker && started.elapsed().as_secs() > wall_cap {
			eprintln!("[{}] inconclusive: the check ran for more than {} s (wall-clock watchdog of last resort) and stopped itself", id, wall_cap);
			cleanup_scratches();
			unsafe { libc::_exit(2) };
		}
		let r = rss_mb();
		PEAK_RSS_MB.fetch_max(r, Ordering::Relaxed);
		if r > cap {
			eprintln!("\nRSS-OVER-CAP rss_mb={} cap_mb={}", r, cap);
			if worker {
				unsafe { libc::_exit(EXIT_RSS_OVER_CAP) };
			} else {
				eprintln!("[{}] inconclusive: the check process exceeded its resident-memory cap ({} MiB > {} MiB) and stopped itself", id, r, cap);
				cleanup_scratches();
				unsafe { libc::_exit(2) };
			}
		}
		std::thread::sleep(std::time::Duration::from_millis(100));
	});
}

static SCRATCHES: Mutex<Vec<PathBuf>> = Mutex::new(Vec::new());

/// Remove every scratch directory still registered (used before process::exit).
pub fn cleanup_scratches() {
	let mut l = SCRATCHES.lock().unwrap();
	for p in l.drain(..) {
		let _ = std::fs::remove_dir_all(&p);
	}
}

/// Scratch directory for a run; removed on drop.
pub struct Scratch {
	pub path: PathBuf,
	keep: bool,
}

impl Scratch {
	pub fn new(tag: &str) -> Scratch {
		let base = std::env::var("VERIF_SCRATCH")
			.map(PathBuf::from)
			.unwrap_or_else(|_| verif_root().join("harness").join("target").join("run"));
		let path = base.join(format!("{}-{}", tag, std::process::id()));
		let _ = std::fs::remove_dir_all(&path);
		std::fs::create_dir_all(&path).expect("create scratch dir");
		SCRATCHES.lock().unwrap().push(path.clone());
		Scratch { path, keep: false }
	}
	pub fn sub(&self, name: &str) -> String {
		let p = self.path.join(name);
		p.to_string_lossy().to_string()
	}
	pub fn keep(&mut self) {
		self.keep = true;
		SCRATCHES.lock().unwrap().retain(|p| p != &self.path);
	}
}

impl Drop for Scratch {
	fn drop(&mut self) {
		if !self.keep {
			let _ = std::fs::remove_dir_all(&self.path);
			SCRATCHES.lock().unwrap().retain(|p| p != &self.path);
		}
	}
}
