//! Deterministic PRNG (splitmix64 seeding + xoshiro256**), own code so that
//! every random choice of the harness is a function of VERIF_SEED only.

#[derive(Clone, Debug)]
pub struct Prng {
	s: [u64; 4],
}

pub fn splitmix64(x: &mut u64) -> u64 {
	*x = x.wrapping_add(0x9E37_79B9_7F4A_7C15);
	let mut z = *x;
	z = (z ^ (z >> 30)).wrapping_mul(0xBF58_476D_1CE4_E5B9);
	z = (z ^ (z >> 27)).wrapping_mul(0x94D0_49BB_1331_11EB);
	z ^ (z >> 31)
}

impl Prng {
	pub fn new(seed: u64) -> Prng {
		let mut x = seed;
		let s = [
			splitmix64(&mut x),
			splitmix64(&mut x),
			splitmix64(&mut x),
			splitmix64(&mut x),
		];
		Prng { s }
	}

	/// Derive an independent stream for a sub-task.
	pub fn fork(&mut self, tag: u64) -> Prng {
		let a = self.next_u64();
		Prng::new(a ^ tag.wrapping_mul(0xD6E8_FEB8_6659_FD93))
	}

	pub fn next_u64(&mut self) -> u64 {
		let result = self.s[1].wrapping_mul(5).rotate_left(7).wrapping_mul(9);
		let t = self.s[1] << 17;
		self.s[2] ^= self.s[0];
		self.s[3] ^= self.s[1];
		self.s[1] ^= self.s[2];
		self.s[0] ^= self.s[3];
		self.s[2] ^= t;
		self.s[3] = self.s[3].rotate_left(45);
		result
	}

	pub fn next_u32(&mut self) -> u32 {
		(self.next_u64() >> 32) as u32
	}

	/// Uniform in [0, n). n must be > 0.
	pub fn below(&mut self, n: u64) -> u64 {
		assert!(n > 0);
		// rejection sampling to avoid modulo bias
		let zone = u64::MAX - (u64::MAX % n);
		loop {
			let v = self.next_u64();
			if v < zone {
				return v % n;
			}
		}
	}

	/// Uniform in [lo, hi] inclusive.
	pub fn range(&mut self, lo: u64, hi: u64) -> u64 {
		assert!(hi >= lo);
		if lo == 0 && hi == u64::MAX {
			return self.next_u64();
		}
		lo + self.below(hi - lo + 1)
	}

	pub fn usize_below(&mut self, n: usize) -> usize {
		self.below(n as u64) as usize
	}

	pub fn chance(&mut self, num: u64, den: u64) -> bool {
		self.below(den) < num
	}

	pub fn bool(&mut self) -> bool {
		self.next_u64() & 1 == 1
	}

	pub fn pick<'a, T>(&mut self, xs: &'a [T]) -> &'a T {
		&xs[self.usize_below(xs.len())]
	}

	pub fn shuffle<T>(&mut self, xs: &mut [T]) {
		for i in (1..xs.len()).rev() {
			let j = self.usize_below(i + 1);
			xs.swap(i, j);
		}
	}

	pub fn bytes(&mut self, n: usize) -> Vec<u8> {
		let mut v = Vec::with_capacity(n);
		while v.len() < n {
			let x = self.next_u64().to_le_bytes();
			let take = (n - v.len()).min(8);
			v.extend_from_slice(&x[..take]);
		}
		v
	}

	pub fn fill(&mut self, buf: &mut [u8]) {
		let b = self.bytes(buf.len());
		buf.copy_from_slice(&b);
	}

	/// A u64 biased towards interesting boundary values.
	pub fn interesting_u64(&mut self) -> u64 {
		match self.below(12) {
			0 => 0,
			1 => 1,
			2 => u64::MAX,
			3 => u64::MAX - 1,
			4 => 1 << self.below(64),
			5 => (1u64 << self.below(64)).wrapping_sub(1),
			6 => (1u64 << self.below(64)).wrapping_add(1),
			7 => self.below(256),
			8 => self.below(1 << 16),
			9 => self.below(1 << 32),
			_ => self.next_u64(),
		}
	}
}

/// FNV-1a 64 over bytes, used for case signatures.
pub fn fnv64(data: &[u8]) -> u64 {
	let mut h: u64 = 0xcbf2_9ce4_8422_2325;
	for b in data {
		h ^= *b as u64;
		h = h.wrapping_mul(0x0000_0100_0000_01B3);
	}
	h
}
