//! World builder: deterministic keychain, transactions with known openings,
//! coinbases, blocks on any parent (SKIP_POW weights or real PoW), chain open
//! helpers and a recording chain adapter.

use crate::prng::Prng;
use chrono::Duration;
use grin_chain::types::{BlockStatus, ChainAdapter, Options};
use grin_chain::Chain;
use grin_core::consensus;
use grin_core::core::hash::{Hash, Hashed};
use grin_core::core::{
	Block, BlockHeader, FeeFields, Input, KernelFeatures, NRDRelativeHeight, Output,
	OutputFeatures, Transaction, TxKernel,
};
use grin_core::genesis;
use grin_core::global::{self, ChainTypes};
use grin_core::libtx::{aggsig, proof, reward, ProofBuilder};
use grin_core::pow::{self, Difficulty, Proof};
use grin_keychain::{
	BlindSum, BlindingFactor, ExtKeychain, Identifier, Keychain, SwitchCommitmentType,
};
use grin_util::secp::pedersen::Commitment;
use std::sync::{Arc, Mutex};

/// Set chain type (AutomatedTesting) and NRD flag globally *and* for the
/// calling thread (both are thread-local with a global fallback).
pub fn init_globals(nrd: bool) {
	global::set_global_chain_type(ChainTypes::AutomatedTesting);
	global::set_local_chain_type(ChainTypes::AutomatedTesting);
	global::set_global_nrd_enabled(nrd);
	global::set_local_nrd_enabled(nrd);
	global::set_global_accept_fee_base(global::DEFAULT_ACCEPT_FEE_BASE);
	global::set_global_future_time_limit(global::DEFAULT_FUTURE_TIME_LIMIT);
}

/// Per-thread part of `init_globals` (worker threads inherit the global
/// fallback, this makes it explicit).
pub fn init_thread(nrd: bool) {
	global::set_local_chain_type(ChainTypes::AutomatedTesting);
	global::set_local_nrd_enabled(nrd);
}

/// An output whose opening is known to the harness.
#[derive(Clone, Debug)]
pub struct Coin {
	pub value: u64,
	pub key_id: Identifier,
	pub commit: Commitment,
	pub coinbase: bool,
}

impl Coin {
	pub fn features(&self) -> OutputFeatures {
		if self.coinbase {
			OutputFeatures::Coinbase
		} else {
			OutputFeatures::Plain
		}
	}
	pub fn input(&self) -> Input {
		Input::new(self.features(), self.commit)
	}
}

#[derive(Clone)]
pub struct World {
	pub kc: ExtKeychain,
	pub seed: u64,
}

pub fn fee_fields(fee: u64) -> FeeFields {
	FeeFields::new(0, fee).expect("fee fields")
}

impl World {
	pub fn new(seed: u64) -> World {
		let mut p = Prng::new(seed ^ 0x5157_4f52_4c44);
		let bytes = p.bytes(32);
		let kc = ExtKeychain::from_seed(&bytes, false).expect("keychain from seed");
		World { kc, seed }
	}

	/// Key id number `n` of this world (depth 3 path m/7/n/0).
	pub fn key(&self, n: u32) -> Identifier {
		ExtKeychain::derive_key_id(3, 7, n, 0, 0)
	}

	pub fn commit(&self, value: u64, key_id: &Identifier) -> Commitment {
		self.kc
			.commit(value, key_id, SwitchCommitmentType::Regular)
			.expect("commit")
	}

	pub fn coin(&self, value: u64, key_id: &Identifier, coinbase: bool) -> Coin {
		Coin {
			value,
			key_id: key_id.clone(),
			commit: self.commit(value, key_id),
			coinbase,
		}
	}

	/// Genesis consistent with its own header: reward output + kernel and
	/// header MMR sizes of 1 (as the mainnet genesis). See DESIGN.md 2.3.
	pub fn genesis(&self) -> (Block, Coin) {
		let key_id = ExtKeychain::derive_key_id(3, 7, 0, 0, 0);
		let (out, kern) = self.coinbase(&key_id, 0);
		let mut g = genesis::genesis_dev().with_reward(out, kern);
		g.header.output_mmr_size = 1;
		g.header.kernel_mmr_size = 1;
		let coin = self.coin(consensus::reward(0), &key_id, true);
		(g, coin)
	}

	pub fn coinbase(&self, key_id: &Identifier, fees: u64) -> (Output, TxKernel) {
		// test_mode = true: fixed signing nonce, so worlds are reproducible bit for bit
		reward::output(&self.kc, &ProofBuilder::new(&self.kc), key_id, fees, true)
			.expect("reward output")
	}

	pub fn output(&self, value: u64, key_id: &Identifier) -> Output {
		let commit = self.commit(value, key_id);
		let proof = proof::create(
			&self.kc,
			&ProofBuilder::new(&self.kc),
			value,
			key_id,
			SwitchCommitmentType::Regular,
			commit,
			None,
		)
		.expect("range proof");
		Output::new(OutputFeatures::Plain, commit, proof)
	}

	/// Build a transaction from known coins. The caller chooses the output
	/// values; `sum(inputs) - sum(outputs)` must equal the fee in `features`
	/// for the transaction to balance (the harness deliberately violates this
	/// in corruption operators). The kernel excess is derived from `prng`, so
	/// the transaction is a function of (world seed, prng state, arguments).
	pub fn tx(
		&self,
		prng: &mut Prng,
		inputs: &[Coin],
		outputs: &[(u64, Identifier)],
		features: KernelFeatures,
	) -> (Transaction, Vec<Coin>) {
		self.tx_opts(prng, inputs, outputs, features, false)
	}

	/// As `tx`; with `zero_offset` the whole blinding sum goes to the kernel.
	pub fn tx_opts(
		&self,
		prng: &mut Prng,
		inputs: &[Coin],
		outputs: &[(u64, Identifier)],
		features: KernelFeatures,
		zero_offset: bool,
	) -> (Transaction, Vec<Coin>) {
		let secp = self.kc.secp();
		let mut tx = Transaction::empty();
		let mut sum = BlindSum::new();
		for c in inputs {
			tx = tx.with_input(c.input());
			sum = sum.sub_key_id(c.key_id.to_value_path(c.value));
		}
		let mut coins = vec![];
		for (v, k) in outputs {
			tx = tx.with_output(self.output(*v, k));
			sum = sum.add_key_id(k.to_value_path(*v));
			coins.push(self.coin(*v, k, false));
		}
		let blind_sum = self.kc.blind_sum(&sum).expect("blind sum");

		let mut kernel = TxKernel::with_features(features);
		let msg = kernel.msg_to_sign().expect("msg");
		let (excess, offset) = if zero_offset {
			(blind_sum.clone(), BlindingFactor::zero())
		} else {
			// deterministic non-zero kernel key k1, offset k2 = sum - k1
			let mut k1 = [0u8; 32];
			loop {
				prng.fill(&mut k1);
				k1[0] &= 0x7f;
				if k1.iter().any(|b| *b != 0) {
					break;
				}
			}
			let k1 = BlindingFactor::from_slice(&k1);
			let k2 = blind_sum.split(&k1, secp).expect("split");
			(k1, k2)
		};
		let skey = excess.secret_key(secp).expect("skey");
		kernel.excess = secp.commit(0, skey).expect("excess");
		let pubkey = kernel.excess.to_pubkey(secp).expect("pubkey");
		// deterministic signing nonce (from the prng) so that the world is reproducible
		let snonce = loop {
			let mut n = [0u8; 32];
			prng.fill(&mut n);
			n[0] &= 0x7f;
			if let Ok(k) = grin_util::secp::key::SecretKey::from_slice(secp, &n) {
				break k;
			}
		};
		let skey2 = excess.secret_key(secp).expect("skey");
		kernel.excess_sig =
			aggsig::sign_single(secp, &msg, &skey2, Some(&snonce), Some(&pubkey)).expect("sign");
		let mut tx = tx.replace_kernel(kernel);
		tx.offset = offset;
		(tx, coins)
	}

	/// Simple 1-kernel plain transaction spending `inputs` into `n_out`
	/// roughly equal outputs with fee `fee`; keys are taken from `next_key`.
	pub fn spend(
		&self,
		prng: &mut Prng,
		inputs: &[Coin],
		n_out: usize,
		fee: u64,
		next_key: &mut u32,
	) -> (Transaction, Vec<Coin>) {
		let total: u64 = inputs.iter().map(|c| c.value).sum();
		assert!(total > fee && n_out > 0);
		let each = (total - fee) / n_out as u64;
		let mut outs = vec![];
		let mut left = total - fee;
		for i in 0..n_out {
			let v = if i + 1 == n_out { left } else { each };
			left -= v;
			outs.push((v, self.key(*next_key)));
			*next_key += 1;
		}
		self.tx(prng, inputs, &outs, KernelFeatures::Plain { fee: fee_fields(fee) })
	}
}

pub fn nrd(fee: u64, rel: u64) -> KernelFeatures {
	KernelFeatures::NoRecentDuplicate {
		fee: fee_fields(fee),
		relative_height: NRDRelativeHeight::new(rel).expect("nrd height"),
	}
}

pub fn height_locked(fee: u64, lock_height: u64) -> KernelFeatures {
	KernelFeatures::HeightLocked {
		fee: fee_fields(fee),
		lock_height,
	}
}

#[derive(Clone, Copy, Debug)]
pub enum PowMode {
	/// No proof of work: the block claims `difficulty` on top of its parent.
	/// Must be delivered with `Options::SKIP_POW`.
	Skip { difficulty: u64 },
	/// Real Cuckatoo proof at the network difficulty computed from the chain.
	Real,
}

/// Build a block on `prev` containing `txs`, with roots computed by `builder`
/// (a chain that already knows `prev` and all its ancestors as full blocks).
pub fn build_block(
	builder: &Chain,
	world: &World,
	prng: &mut Prng,
	prev: &BlockHeader,
	txs: &[Transaction],
	cb_key: &Identifier,
	mode: PowMode,
	ts_delta_secs: i64,
) -> Result<Block, String> {
	let fees: u64 = txs.iter().map(|t| t.fee()).sum();
	let (out, kern) = world.coinbase(cb_key, fees);
	let mut b = match mode {
		PowMode::Skip { difficulty } => {
			Block::from_reward(prev, txs, out, kern, Difficulty::from_num(difficulty))
				.map_err(|e| format!("from_reward: {:?}", e))?
		}
		PowMode::Real => {
			let iter = grin_chain::store::DifficultyIter::from(prev.hash(), builder.store());
			let info = consensus::next_difficulty(prev.height + 1, iter);
			let mut b = Block::from_reward(prev, txs, out, kern, info.difficulty)
				.map_err(|e| format!("from_reward: {:?}", e))?;
			b.header.pow.secondary_scaling = info.secondary_scaling;
			b
		}
	};
	b.header.timestamp = prev.timestamp + Duration::seconds(ts_delta_secs);
	b.header.pow.proof.edge_bits = global::min_edge_bits();
	builder
		.set_txhashset_roots(&mut b)
		.map_err(|e| format!("set_txhashset_roots: {:?}", e))?;
	finish_pow(&mut b.header, prng, mode, prev.total_difficulty())?;
	Ok(b)
}

/// Give the header a proof: deterministic pseudo-proof (SKIP_POW) or a mined one.
pub fn finish_pow(
	h: &mut BlockHeader,
	prng: &mut Prng,
	mode: PowMode,
	prev_total: Difficulty,
) -> Result<(), String> {
	match mode {
		PowMode::Skip { .. } => {
			skip_pow_proof(h, prng);
			Ok(())
		}
		PowMode::Real => mine(h, prev_total),
	}
}

/// Deterministic pseudo-proof for SKIP_POW blocks (sorted distinct nonces).
pub fn skip_pow_proof(h: &mut BlockHeader, prng: &mut Prng) {
	let n = global::proofsize();
	let eb = global::min_edge_bits();
	let mut nonces: Vec<u64> = vec![];
	while nonces.len() < n {
		let v = prng.below(1u64 << eb);
		if !nonces.contains(&v) {
			nonces.push(v);
		}
	}
	let mut p = Proof::new(nonces);
	p.edge_bits = eb;
	h.pow.proof = p;
	h.pow.nonce = prng.next_u64();
}

/// Mine a real proof for `h` whose parent has total difficulty `prev_total`.
pub fn mine(h: &mut BlockHeader, prev_total: Difficulty) -> Result<(), String> {
	let diff = h.pow.total_difficulty - prev_total;
	let eb = global::min_edge_bits();
	h.pow.proof.edge_bits = eb;
	pow::pow_size(h, diff, global::proofsize(), eb).map_err(|e| format!("pow_size: {:?}", e))
}

/// Chain adapter recording every `block_accepted` callback.
#[derive(Default)]
pub struct RecordingAdapter {
	pub events: Mutex<Vec<(Hash, String, u64)>>,
}

impl ChainAdapter for RecordingAdapter {
	fn block_accepted(&self, block: &Block, status: BlockStatus, _opts: Options) {
		let s = match status {
			BlockStatus::Next { .. } => "Next",
			BlockStatus::Fork { .. } => "Fork",
			BlockStatus::Reorg { .. } => "Reorg",
		};
		self.events
			.lock()
			.unwrap()
			.push((block.hash(), s.to_string(), block.header.height));
	}
}

pub fn open_chain(dir: &str, genesis: &Block) -> Result<Chain, String> {
	open_chain_with(dir, genesis, Arc::new(grin_chain::types::NoopAdapter {}), false)
}

pub fn open_chain_with(
	dir: &str,
	genesis: &Block,
	adapter: Arc<dyn ChainAdapter + Send + Sync>,
	archive_mode: bool,
) -> Result<Chain, String> {
	Chain::init(
		dir.to_string(),
		adapter,
		genesis.clone(),
		pow::verify_size,
		archive_mode,
		None,
	)
	.map_err(|e| format!("Chain::init: {:?}", e))
}
