//! RefLedger: independent reference model of the chain state.
//!
//! A block tree with, per block, its parent / height / total difficulty and
//! the full block. The state at any tip is obtained by *replaying the
//! ancestry from genesis* with plain bookkeeping (no grin chain code):
//! outputs in insertion order with a spent flag, kernels in insertion order.
//! From the replayed state the ledger recomputes every header commitment
//! (output / rangeproof / kernel MMR roots through `RefMMR`, unspent bitmap
//! root from scratch, sizes, merged output root, prev_root over the header
//! MMR). It is used both as oracle and as block factory: honest blocks and
//! blocks that are perfect except for the one rule under test.

use crate::prng::Prng;
use crate::refmmr::RefMMR;
use crate::world::{skip_pow_proof, PowMode, World};
use chrono::Duration;
use grin_chain::txhashset::BitmapChunk;
use grin_core::consensus::{self, HeaderDifficultyInfo};
use grin_core::core::hash::{Hash, Hashed, ZERO_HASH};
use grin_core::core::{
	Block, BlockHeader, HeaderVersion, KernelFeatures, OutputFeatures, OutputIdentifier,
	Transaction, TxKernel,
};
use grin_core::global;
use grin_core::pow::Difficulty;
use grin_core::ser::PMMRIndexHashable;
use grin_keychain::Identifier;
use grin_util::secp::pedersen::Commitment;
use std::collections::{BTreeMap, HashMap, HashSet};
use std::sync::Arc;

#[derive(Clone, Debug)]
pub struct RefOut {
	pub commit: Commitment,
	pub features: OutputFeatures,
	/// height of the creating block
	pub height: u64,
	/// height of the spending block on this ancestry, if spent
	pub spent_at: Option<u64>,
}

/// Replayed state at one tip.
#[derive(Clone)]
pub struct RefState {
	pub tip: Hash,
	pub height: u64,
	pub outs: Vec<RefOut>,
	/// commitment -> index into `outs` of the *unspent* instance
	pub utxo: HashMap<Commitment, usize>,
	pub out_mmr: RefMMR,
	pub rp_mmr: RefMMR,
	pub kern_mmr: RefMMR,
	pub header_mmr: RefMMR,
	pub n_kernels: u64,
	/// (excess, height) of every NRD kernel on this ancestry, in order
	pub nrd: Vec<(Commitment, u64)>,
	/// heights -> output count after that block (for maturity cut-offs)
	pub outs_after_height: Vec<u64>,
}

#[derive(Clone, Debug, PartialEq)]
pub enum RefReject {
	/// input names a commitment that is not unspent on this fork
	NotUnspent(Commitment),
	/// input features differ from the output's features
	FeatureMismatch(Commitment),
	/// output duplicates a currently unspent commitment
	DuplicateUnspent(Commitment),
	/// coinbase spent before creation height + maturity
	ImmatureCoinbase { created: u64, spend_height: u64 },
	/// height-locked kernel below its lock height
	LockHeight { lock: u64, height: u64 },
	/// NRD kernel too close to a previous instance of the same excess
	Nrd { prev: u64, height: u64, rel: u64 },
}

#[derive(Clone, Debug, Default)]
pub struct RefRoots {
	pub output_pmmr_root: Hash,
	pub bitmap_root: Hash,
	pub rproof_root: Hash,
	pub kernel_root: Hash,
	pub output_mmr_size: u64,
	pub kernel_mmr_size: u64,
	pub header_root: Hash,
}

impl RefRoots {
	/// The `output_root` a header of the given version commits to.
	pub fn output_root_for(&self, version: HeaderVersion) -> Hash {
		if version < HeaderVersion(3) {
			self.output_pmmr_root
		} else {
			(self.output_pmmr_root, self.bitmap_root).hash_with_index(self.output_mmr_size)
		}
	}
}

impl RefState {
	fn genesis_state(genesis: &Block) -> RefState {
		let mut s = RefState {
			tip: genesis.hash(),
			height: 0,
			outs: vec![],
			utxo: HashMap::new(),
			out_mmr: RefMMR::new(),
			rp_mmr: RefMMR::new(),
			kern_mmr: RefMMR::new(),
			header_mmr: RefMMR::new(),
			n_kernels: 0,
			nrd: vec![],
			outs_after_height: vec![],
		};
		s.apply_unchecked(genesis);
		s
	}

	/// Rule check of `b` against this state (the fork being extended).
	pub fn check_block(&self, b: &Block) -> Result<(), RefReject> {
		let h = b.header.height;
		let maturity = global::coinbase_maturity();
		let inputs = inputs_vec(&b.inputs());
		for out in b.outputs() {
			if self.utxo.contains_key(&out.commitment()) {
				return Err(RefReject::DuplicateUnspent(out.commitment()));
			}
		}
		for (commit, feat) in &inputs {
			match self.utxo.get(commit) {
				None => return Err(RefReject::NotUnspent(*commit)),
				Some(&i) => {
					let o = &self.outs[i];
					if feat.is_some() && Some(o.features) != *feat {
						return Err(RefReject::FeatureMismatch(*commit));
					}
					if o.features == OutputFeatures::Coinbase && h < o.height + maturity {
						return Err(RefReject::ImmatureCoinbase {
							created: o.height,
							spend_height: h,
						});
					}
				}
			}
		}
		let mut nrd_seen: Vec<(Commitment, u64)> = vec![];
		for k in b.kernels() {
			match k.features {
				KernelFeatures::HeightLocked { lock_height, .. } => {
					if lock_height > h {
						return Err(RefReject::LockHeight {
							lock: lock_height,
							height: h,
						});
					}
				}
				KernelFeatures::NoRecentDuplicate {
					relative_height, ..
				} => {
					let rel: u64 = relative_height.into();
					let prev = nrd_seen
						.iter()
						.rev()
						.chain(self.nrd.iter().rev())
						.find(|(e, _)| *e == k.excess)
						.map(|(_, ph)| *ph);
					if let Some(ph) = prev {
						if h.saturating_sub(ph) < rel {
							return Err(RefReject::Nrd {
								prev: ph,
								height: h,
								rel,
							});
						}
					}
					nrd_seen.push((k.excess, h));
				}
				_ => {}
			}
		}
		Ok(())
	}

	/// Apply the block's effects without judging it: outputs appended (in
	/// body order), inputs that name an unspent output mark it spent (others
	/// are ignored: that is what an honest node would compute *if the illegal
	/// spend were legal*), kernels appended.
	pub fn apply_unchecked(&mut self, b: &Block) {
		let h = b.header.height;
		// the header MMR holds the ancestors: push the *previous* tip's header
		// is done by the ledger (needs the header); see RefLedger::state_at.
		for out in b.outputs() {
			let idx = self.outs.len();
			self.outs.push(RefOut {
				commit: out.commitment(),
				features: out.features(),
				height: h,
				spent_at: None,
			});
			self.out_mmr.push(&out.identifier());
			self.rp_mmr.push(&out.proof());
			self.utxo.insert(out.commitment(), idx);
		}
		for (commit, _) in &inputs_vec(&b.inputs()) {
			if let Some(i) = self.utxo.remove(commit) {
				self.outs[i].spent_at = Some(h);
			}
		}
		for k in b.kernels() {
			self.kern_mmr.push(k);
			self.n_kernels += 1;
			if let KernelFeatures::NoRecentDuplicate { .. } = k.features {
				self.nrd.push((k.excess, h));
			}
		}
		self.outs_after_height.push(self.outs.len() as u64);
		self.tip = b.hash();
		self.height = h;
	}

	/// Unspent set as (commitment -> (features, 1-based MMR position, height)).
	pub fn unspent(&self) -> BTreeMap<Vec<u8>, (OutputFeatures, u64, u64)> {
		let mut m = BTreeMap::new();
		for (c, &i) in &self.utxo {
			let o = &self.outs[i];
			let pos1 = self.out_mmr.leaf_pos[i] as u64 + 1;
			m.insert(c.0.to_vec(), (o.features, pos1, o.height));
		}
		m
	}

	/// Insertion indices of unspent outputs, ascending.
	pub fn unspent_idx(&self) -> Vec<u64> {
		let mut v: Vec<u64> = self.utxo.values().map(|&i| i as u64).collect();
		v.sort_unstable();
		v
	}

	/// Bitmap commitment from scratch: 1024-bit chunks up to the chunk of the
	/// last set bit, each hashed as an MMR leaf.
	pub fn bitmap_root(&self) -> Hash {
		bitmap_root_from_idx(&self.unspent_idx())
	}

	pub fn roots(&self) -> RefRoots {
		RefRoots {
			output_pmmr_root: self.out_mmr.root(),
			bitmap_root: self.bitmap_root(),
			rproof_root: self.rp_mmr.root(),
			kernel_root: self.kern_mmr.root(),
			output_mmr_size: self.out_mmr.size(),
			kernel_mmr_size: self.kern_mmr.size(),
			header_root: self.header_mmr.root(),
		}
	}
}

/// Inputs as (commitment, features if the encoding carries them).
pub fn inputs_vec(inputs: &grin_core::core::Inputs) -> Vec<(Commitment, Option<OutputFeatures>)> {
	match inputs {
		grin_core::core::Inputs::CommitOnly(v) => v.iter().map(|c| (c.commitment(), None)).collect(),
		grin_core::core::Inputs::FeaturesAndCommit(v) => v
			.iter()
			.map(|i| (i.commitment(), Some(i.features)))
			.collect(),
	}
}

/// From-scratch unspent-bitmap commitment.
pub fn bitmap_root_from_idx(sorted_idx: &[u64]) -> Hash {
	let mut mmr = RefMMR::new();
	if let Some(&last) = sorted_idx.last() {
		let n_chunks = last / 1024 + 1;
		let mut it = sorted_idx.iter().peekable();
		for c in 0..n_chunks {
			let mut chunk = BitmapChunk::new();
			while let Some(&&i) = it.peek() {
				if i / 1024 == c {
					chunk.set(i % 1024, true);
					it.next();
				} else {
					break;
				}
			}
			mmr.push(&chunk);
		}
	}
	mmr.root()
}

#[derive(Clone)]
pub struct LBlock {
	pub block: Block,
	pub parent: Hash,
	pub height: u64,
	pub total_difficulty: u64,
}

pub struct RefLedger {
	pub genesis: Block,
	pub blocks: HashMap<Hash, LBlock>,
	cache: HashMap<Hash, Arc<RefState>>,
	cache_order: Vec<Hash>,
	cache_cap: usize,
}

impl RefLedger {
	pub fn new(genesis: &Block) -> RefLedger {
		let mut l = RefLedger {
			genesis: genesis.clone(),
			blocks: HashMap::new(),
			cache: HashMap::new(),
			cache_order: vec![],
			cache_cap: 48,
		};
		l.blocks.insert(
			genesis.hash(),
			LBlock {
				block: genesis.clone(),
				parent: ZERO_HASH,
				height: 0,
				total_difficulty: genesis.header.total_difficulty().to_num(),
			},
		);
		l
	}

	pub fn genesis_hash(&self) -> Hash {
		self.genesis.hash()
	}

	/// Register a block (whether valid or not) under its hash.
	pub fn add(&mut self, b: &Block) {
		self.blocks.insert(
			b.hash(),
			LBlock {
				block: b.clone(),
				parent: b.header.prev_hash,
				height: b.header.height,
				total_difficulty: b.header.total_difficulty().to_num(),
			},
		);
	}

	pub fn get(&self, h: &Hash) -> &LBlock {
		self.blocks.get(h).expect("block known to ledger")
	}

	pub fn header(&self, h: &Hash) -> &BlockHeader {
		&self.get(h).block.header
	}

	/// Hashes from genesis (inclusive) to `tip` (inclusive).
	pub fn ancestry(&self, tip: &Hash) -> Vec<Hash> {
		let mut v = vec![];
		let mut cur = *tip;
		loop {
			v.push(cur);
			let lb = self.get(&cur);
			if lb.height == 0 {
				break;
			}
			cur = lb.parent;
		}
		v.reverse();
		v
	}

	pub fn is_ancestor(&self, anc: &Hash, tip: &Hash) -> bool {
		let mut cur = *tip;
		loop {
			if cur == *anc {
				return true;
			}
			let lb = self.get(&cur);
			if lb.height == 0 {
				return false;
			}
			cur = lb.parent;
		}
	}

	/// Replay from genesis along the ancestry (memoised per tip).
	pub fn state_at(&mut self, tip: &Hash) -> Arc<RefState> {
		if let Some(s) = self.cache.get(tip) {
			return s.clone();
		}
		// find nearest cached ancestor
		let anc = self.ancestry(tip);
		let mut start = 0usize;
		let mut state: Option<RefState> = None;
		for (i, h) in anc.iter().enumerate().rev() {
			if let Some(s) = self.cache.get(h) {
				state = Some((**s).clone());
				start = i + 1;
				break;
			}
		}
		let mut st = match state {
			Some(s) => s,
			None => {
				start = 1;
				RefState::genesis_state(&self.genesis)
			}
		};
		for h in &anc[start..] {
			let lb = self.blocks.get(h).unwrap().clone();
			// header MMR at a tip holds the headers of all its *ancestors and itself*
			// minus itself: grin's prev_root is the root before the block's own header.
			let parent_header = self.blocks.get(&lb.parent).unwrap().block.header.clone();
			st.header_mmr.push(&parent_header);
			st.apply_unchecked(&lb.block);
		}
		let arc = Arc::new(st);
		self.cache_insert(*tip, arc.clone());
		arc
	}

	fn cache_insert(&mut self, h: Hash, s: Arc<RefState>) {
		if self.cache.len() >= self.cache_cap {
			let old = self.cache_order.remove(0);
			self.cache.remove(&old);
		}
		self.cache.insert(h, s);
		self.cache_order.push(h);
	}

	/// Judge every block of the ancestry of `tip` (excluding genesis) by the
	/// UTXO / maturity / lock rules. Returns the first rejection.
	pub fn check_ancestry(&mut self, tip: &Hash) -> Result<(), (Hash, RefReject)> {
		let anc = self.ancestry(tip);
		for w in anc.windows(2) {
			let parent_state = self.state_at(&w[0]);
			let b = self.get(&w[1]).block.clone();
			parent_state.check_block(&b).map_err(|e| (w[1], e))?;
		}
		Ok(())
	}

	/// Max-total-difficulty block among `accepted` all of whose ancestors are
	/// accepted; `None` for the tie case (several blocks share the maximum).
	pub fn best_tip(&self, accepted: &HashSet<Hash>) -> (Hash, bool) {
		let g = self.genesis_hash();
		let mut best = g;
		let mut best_td = self.get(&g).total_difficulty;
		let mut unique = true;
		for h in accepted {
			// all ancestors accepted?
			let mut ok = true;
			let mut cur = *h;
			loop {
				let lb = match self.blocks.get(&cur) {
					Some(x) => x,
					None => {
						ok = false;
						break;
					}
				};
				if lb.height == 0 {
					break;
				}
				if !accepted.contains(&cur) {
					ok = false;
					break;
				}
				cur = lb.parent;
			}
			if !ok {
				continue;
			}
			let td = self.get(h).total_difficulty;
			if td > best_td {
				best = *h;
				best_td = td;
				unique = true;
			} else if td == best_td && *h != best {
				unique = false;
			}
		}
		(best, unique)
	}

	/// Difficulty window (newest first) for computing the next difficulty on `tip`.
	pub fn difficulty_window(&self, tip: &Hash) -> Vec<HeaderDifficultyInfo> {
		let mut v = vec![];
		let mut cur = *tip;
		for _ in 0..(consensus::DMA_WINDOW + 2) {
			let lb = self.get(&cur);
			let hd = &lb.block.header;
			v.push(HeaderDifficultyInfo::new(
				Some(hd.hash()),
				hd.timestamp.timestamp() as u64,
				// difficulty of this block = td - parent td
				if lb.height == 0 {
					hd.total_difficulty()
				} else {
					hd.total_difficulty() - self.get(&lb.parent).block.header.total_difficulty()
				},
				hd.pow.secondary_scaling,
				hd.pow.is_secondary(),
			));
			if lb.height == 0 {
				break;
			}
			cur = lb.parent;
		}
		v
	}

	/// Build a block on `parent` whose header commitments are computed by the
	/// reference models only (no chain involved). The block is NOT judged:
	/// with illegal spends the commitments are what an honest node would
	/// compute if the spend were legal. The block is registered in the ledger.
	pub fn make_block(
		&mut self,
		world: &World,
		prng: &mut Prng,
		parent: &Hash,
		txs: &[Transaction],
		cb_key: &Identifier,
		mode: PowMode,
		ts_delta_secs: i64,
	) -> Result<Block, String> {
		let fees: u64 = txs.iter().map(|t| t.fee()).sum();
		let reward = world.coinbase(cb_key, fees);
		self.make_block_with_reward(prng, parent, txs, reward, mode, ts_delta_secs)
	}

	/// As `make_block` with a coinbase (output, kernel) built by the caller
	/// (e.g. in parallel, or deliberately wrong).
	pub fn make_block_with_reward(
		&mut self,
		prng: &mut Prng,
		parent: &Hash,
		txs: &[Transaction],
		reward: (grin_core::core::Output, TxKernel),
		mode: PowMode,
		ts_delta_secs: i64,
	) -> Result<Block, String> {
		let (out, kern) = reward;
		let prev = self.header(parent).clone();
		let mut b = match mode {
			PowMode::Skip { difficulty } => {
				Block::from_reward(&prev, txs, out, kern, Difficulty::from_num(difficulty))
					.map_err(|e| format!("from_reward: {:?}", e))?
			}
			PowMode::Real => {
				let win = self.difficulty_window(parent);
				let info = consensus::next_difficulty(prev.height + 1, win);
				let mut b = Block::from_reward(&prev, txs, out, kern, info.difficulty)
					.map_err(|e| format!("from_reward: {:?}", e))?;
				b.header.pow.secondary_scaling = info.secondary_scaling;
				b
			}
		};
		b.header.timestamp = prev.timestamp + Duration::seconds(ts_delta_secs);
		b.header.pow.proof.edge_bits = global::min_edge_bits();
		self.commit_header(&mut b);
		match mode {
			PowMode::Skip { .. } => skip_pow_proof(&mut b.header, prng),
			PowMode::Real => crate::world::mine(&mut b.header, prev.total_difficulty())?,
		}
		self.add(&b);
		Ok(b)
	}

	/// (Re)compute all header commitments of `b` from the reference state of
	/// its parent plus its own body.
	pub fn commit_header(&mut self, b: &mut Block) {
		let parent = b.header.prev_hash;
		let mut st = (*self.state_at(&parent)).clone();
		let parent_header = self.header(&parent).clone();
		st.header_mmr.push(&parent_header);
		let prev_root = st.header_mmr.root();
		st.apply_unchecked(b);
		let r = st.roots();
		b.header.prev_root = prev_root;
		b.header.output_mmr_size = r.output_mmr_size;
		b.header.kernel_mmr_size = r.kernel_mmr_size;
		b.header.output_root = r.output_root_for(b.header.version);
		b.header.range_proof_root = r.rproof_root;
		b.header.kernel_root = r.kernel_root;
	}

	/// The commitments an honest header at `tip` must carry.
	pub fn expected_commitments(&mut self, tip: &Hash) -> (RefRoots, Hash) {
		let st = self.state_at(tip);
		let r = st.roots();
		// prev_root = root of header MMR holding all ancestors (excluding tip)
		(r.clone(), r.header_root)
	}

	pub fn output_identifier(c: &Commitment, f: OutputFeatures) -> OutputIdentifier {
		OutputIdentifier::new(f, c)
	}

	pub fn kernels_of(&self, tip: &Hash) -> Vec<TxKernel> {
		let mut v = vec![];
		for h in self.ancestry(tip) {
			v.extend_from_slice(self.get(&h).block.kernels());
		}
		v
	}
}
