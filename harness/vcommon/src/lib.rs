//! Shared machinery of the grin runtime-monitoring harness.
pub mod ctx;
pub mod forktree;
pub mod ledger;
pub mod monitor;
pub mod prng;
pub mod refmmr;
pub mod scenarios;
pub mod snapshot;
pub mod world;

pub use ctx::{Run, Scratch, Tier};
pub use prng::Prng;
