//! Miri supplement: FFI-free paths of grin_core (position arithmetic, PMMR over VecBackend,
//! MerkleProof, Proof / header serialisation, cuckaroo-family verifiers) executed under the
//! undefined-behaviour interpreter with the same oracles as the native checks, on tiny workloads.
//! Usage: cargo +nightly miri run --offline --release -- <C05|C07|C10> <seed>

#[path = "../../vcommon/src/refmmr.rs"]
mod refmmr;

use grin_core::core::hash::{DefaultHashable, Hash};
use grin_core::core::pmmr::{self, ReadablePMMR, VecBackend, PMMR};
use grin_core::global;
use grin_core::pow::{Proof, PoWContext};
use grin_core::ser::{self, PMMRable, ProtocolVersion, Readable, Reader, Writeable, Writer};

#[derive(Clone, Debug, PartialEq)]
struct Elem(u64);
impl DefaultHashable for Elem {}
impl PMMRable for Elem {
	type E = Self;
	fn as_elmt(&self) -> Self::E {
		self.clone()
	}
	fn elmt_size() -> Option<u16> {
		Some(8)
	}
}
impl Writeable for Elem {
	fn write<W: Writer>(&self, w: &mut W) -> Result<(), ser::Error> {
		w.write_u64(self.0)
	}
}
impl Readable for Elem {
	fn read<R: Reader>(r: &mut R) -> Result<Elem, ser::Error> {
		Ok(Elem(r.read_u64()?))
	}
}

fn fail(what: &str) -> ! {
	println!("MIRI-VIOLATION {}", what);
	std::process::exit(1)
}

fn c07(seed: u64) -> String {
	let n = 24u64;
	let mut backend = VecBackend::<Elem>::new();
	let mut reference = refmmr::RefMMR::new();
	let mut checks = 0u64;
	let mut size = 0u64;
	for i in 0..n {
		let e = Elem(seed.wrapping_mul(31).wrapping_add(i));
		let mut p = PMMR::at(&mut backend, size);
		let pos = p.push(&e).unwrap();
		size = p.unpruned_size();
		let rp = reference.push(&e);
		if pos != rp || size != reference.size() {
			fail("C07 push position / size differs from the reference");
		}
		if p.root().unwrap() != reference.root() {
			fail("C07 root differs from the reference");
		}
		checks += 2;
		// every leaf's proof against the reference root and path
		for j in 0..=i {
			let lp = reference.leaf_pos[j as usize] as u64;
			let proof = p.merkle_proof(lp).unwrap();
			if proof.path != reference.merkle_path(lp as usize) {
				fail("C07 merkle path differs from the reference");
			}
			let ej = Elem(seed.wrapping_mul(31).wrapping_add(j));
			if proof.verify(reference.root(), &ej, lp).is_err() {
				fail("C07 honest proof rejected");
			}
			if proof.verify(reference.root(), &Elem(ej.0 ^ 1), lp).is_ok() {
				fail("C07 proof for a substituted element accepted");
			}
			checks += 3;
		}
	}
	// position arithmetic around structured values
	for s in 0..200u64 {
		let (pm, h) = pmmr::peak_map_height(s);
		let _ = (pm, h, pmmr::n_leaves(s), pmmr::is_leaf(s), pmmr::family(s), pmmr::bintree_leftmost(s));
		checks += 1;
	}
	for k in [1u64 << 32, 1 << 62, (1u64 << 63) - 1, u64::MAX - 1] {
		let _ = (pmmr::peak_map_height(k), pmmr::n_leaves(k), pmmr::bintree_postorder_height(k));
		checks += 1;
	}
	format!("{{\"property\":\"C07\",\"leaves\":{},\"checks\":{}}}", n, checks)
}

fn c10(seed: u64) -> String {
	let mut checks = 0u64;
	global::set_local_chain_type(global::ChainTypes::AutomatedTesting);
	for eb in [10u8, 11, 16, 29, 31, 63] {
		let mut nonces: Vec<u64> = (0..8u64).map(|i| (seed.wrapping_mul(7919).wrapping_add(i * 104729)) & ((1u64 << eb.min(62)) - 1)).collect();
		nonces.sort();
		nonces.dedup();
		let mut p = Proof::new(nonces);
		p.edge_bits = eb;
		for v in [1u32, 2, 3] {
			let bytes = ser::ser_vec(&p, ProtocolVersion(v)).unwrap();
			let q: Proof = ser::deserialize(&mut &bytes[..], ProtocolVersion(v), ser::DeserializationMode::default()).unwrap();
			if q != p || ser::ser_vec(&q, ProtocolVersion(v)).unwrap() != bytes {
				fail("C10 Proof round trip differs");
			}
			checks += 1;
		}
	}
	let mut h = grin_core::core::BlockHeader::default();
	h.height = seed % 1000;
	h.pow.proof.edge_bits = 10;
	h.pow.proof = Proof::new(vec![1, 2, 3, 4, 5, 6, 7, 8]);
	h.pow.proof.edge_bits = 10;
	for v in [1u32, 2, 3] {
		let bytes = ser::ser_vec(&h, ProtocolVersion(v)).unwrap();
		let g: grin_core::core::BlockHeader = ser::deserialize(&mut &bytes[..], ProtocolVersion(v), ser::DeserializationMode::default()).unwrap();
		use grin_core::core::hash::Hashed;
		if g != h || g.hash() != h.hash() || ser::ser_vec(&g, ProtocolVersion(v)).unwrap() != bytes {
			fail("C10 header round trip differs");
		}
		checks += 1;
	}
	format!("{{\"property\":\"C10\",\"checks\":{}}}", checks)
}

fn c05(seed: u64) -> String {
	// cuckaroo-family verifiers are pure Rust: run them on every ascending 8-tuple prefix of a few
	// sampled tuples in a 16-edge graph; outcomes are not judged here (the native check does that
	// against the reference), Miri only watches for undefined behaviour / out-of-bounds / overflow UB.
	global::set_local_chain_type(global::ChainTypes::AutomatedTesting);
	let mut checks = 0u64;
	let header = vec![seed as u8; 80];
	let mut ctxs: Vec<(&str, Box<dyn PoWContext>)> = vec![
		("cuckaroo", grin_core::pow::new_cuckaroo_ctx(4, 8).unwrap()),
		("cuckarood", grin_core::pow::new_cuckarood_ctx(4, 8).unwrap()),
		("cuckaroom", grin_core::pow::new_cuckaroom_ctx(4, 8).unwrap()),
		("cuckarooz", grin_core::pow::new_cuckarooz_ctx(4, 8).unwrap()),
	];
	let tuples: Vec<Vec<u64>> = vec![
		vec![0, 1, 2, 3, 4, 5, 6, 7],
		vec![0, 1, 3, 4, 5, 8, 12, 13],
		vec![1, 2, 4, 7, 9, 11, 14, 15],
		vec![8, 9, 10, 11, 12, 13, 14, 15],
		vec![0, 2, 4, 6, 8, 10, 12, 14],
		vec![3, 3, 4, 5, 6, 7, 8, 9],
		vec![0, 1, 2, 3, 4, 5, 6, 99],
	];
	let mut accepted = 0u64;
	for (_, ctx) in ctxs.iter_mut() {
		ctx.set_header_nonce(header.clone(), Some((seed & 0xffff) as u32), false).unwrap();
		for t in &tuples {
			let mut p = Proof::new(t.clone());
			p.nonces = t.clone();
			p.edge_bits = 4;
			if ctx.verify(&p).is_ok() {
				accepted += 1;
			}
			checks += 1;
		}
	}
	format!("{{\"property\":\"C05\",\"verify_calls\":{},\"accepted\":{}}}", checks, accepted)
}

fn main() {
	let args: Vec<String> = std::env::args().collect();
	let pid = args.get(1).map(|s| s.as_str()).unwrap_or("C07");
	let seed: u64 = args.get(2).and_then(|s| s.parse().ok()).unwrap_or(1);
	let _ = Hash::default();
	let s = match pid {
		"C05" => c05(seed),
		"C10" => c10(seed),
		_ => c07(seed),
	};
	println!("MIRI-SUMMARY {}", s);
}
