//! C14 — "The transaction pool always holds a jointly valid, fee-paying, mineable set".
//!
//! Runtime monitor: a real `Chain` and a real `TransactionPool` wired exactly as in
//! `servers/src/grin/server.rs` (real `PoolToChainAdapter`, real `PoolToNetAdapter`
//! over a real, empty `p2p::Peers`, real `ChainToPoolAndNetAdapter` as the chain's
//! adapter) are driven by seeded random operation sequences. After EVERY operation
//! the invariants I1..I4 are re-evaluated from scratch (reference ledger + the real
//! chain), I5 is evaluated by dry-run after a fraction of the operations and by
//! really mining a block from the pool in the `mine` operations.

use chrono::Duration;
use grin_chain::{Chain, Options};
use grin_core::core::hash::{Hash, Hashed};
use grin_core::core::transaction::{self, FeeFields};
use grin_core::core::Committed;
use grin_core::core::{
	Block, Input, Inputs, KernelFeatures, Output, OutputFeatures, Transaction, TxKernel, Weighting,
};
use grin_core::global;
use grin_core::pow::Difficulty;
use grin_p2p::store::PeerStore;
use grin_p2p::{DummyAdapter, P2PConfig, Peers};
use grin_pool::{DandelionConfig, PoolConfig, TransactionPool, TxSource};
use grin_servers::common::adapters::{
	ChainToPoolAndNetAdapter, DandelionAdapter, PoolToChainAdapter, PoolToNetAdapter,
};
use grin_util::secp::pedersen::Commitment;
use grin_util::RwLock;
use serde_json::{json, Value};
use std::collections::{HashMap, HashSet};
use std::sync::atomic::{AtomicU64, Ordering};
use std::sync::Arc;
use std::time::{Duration as StdDuration, Instant};
use vcommon::ctx::{Run, Scratch};
use vcommon::ledger::{inputs_vec, RefLedger, RefState};
use vcommon::monitor::catch;
use vcommon::prng::Prng;
use vcommon::world::{
	init_globals, init_thread, open_chain_with, skip_pow_proof, Coin, PowMode, World,
};

type ServerTxPool = Arc<RwLock<TransactionPool<PoolToChainAdapter, PoolToNetAdapter>>>;

const INPUT_W: u64 = 1;
const OUTPUT_W: u64 = 21;
const KERNEL_W: u64 = 3;
/// Test-chain block weight limit (AutomatedTesting), from the definition in global.rs.
const MAX_BLOCK_W: u64 = 250;
/// Max tx weight = block weight less one coinbase (output + kernel).
const MAX_TX_W: u64 = MAX_BLOCK_W - OUTPUT_W - KERNEL_W;

const KINDS: &[&str] = &[
	"valid",
	"conflict",
	"dependent",
	"chain3",
	"duplicate",
	"agg_pooled_new",
	"agg_two_pooled",
	"agg_two_new",
	"agg_low_remainder",
	"low_fee",
	"overweight",
	"invalid",
	"immature",
	"stem_resubmit",
	"fluff",
	"expire",
	"mine",
	"foreign_block",
	"reorg",
	"reorg_lower",
	"header_ahead",
];

#[derive(Clone, Copy, PartialEq, Debug)]
enum Label {
	/// should be acceptable unless pool full / conflicting (only counted)
	Valid,
	/// must be refused (I4)
	Refuse(&'static str),
	/// standalone fine but not mineable in the next block (maturity / lock height)
	Unmineable,
	/// no expectation
	Free,
}

/// Own weight computation, from the definition.
fn weight_iok(i: usize, o: usize, k: usize) -> u64 {
	i as u64 * INPUT_W + o as u64 * OUTPUT_W + k as u64 * KERNEL_W
}

fn tx_weight(tx: &Transaction) -> u64 {
	weight_iok(tx.inputs().len(), tx.outputs().len(), tx.kernels().len())
}

/// (sum of fees, max fee shift) decoded from the raw fee fields of the kernels.
fn tx_fee_shift(tx: &Transaction) -> (u64, u32) {
	let mut fee = 0u64;
	let mut shift = 0u32;
	for k in tx.kernels() {
		let ff: Option<FeeFields> = match k.features {
			KernelFeatures::Plain { fee } => Some(fee),
			KernelFeatures::HeightLocked { fee, .. } => Some(fee),
			KernelFeatures::NoRecentDuplicate { fee, .. } => Some(fee),
			KernelFeatures::Coinbase => None,
		};
		if let Some(ff) = ff {
			let raw: u64 = ff.into();
			fee = fee.saturating_add(raw & ((1u64 << 40) - 1));
			shift = shift.max(((raw >> 40) & 0xf) as u32);
		}
	}
	(fee, shift)
}

fn tx_lock_height(tx: &Transaction) -> u64 {
	tx.kernels()
		.iter()
		.filter_map(|k| match k.features {
			KernelFeatures::HeightLocked { lock_height, .. } => Some(lock_height),
			_ => None,
		})
		.max()
		.unwrap_or(0)
}

/// Short, stable error class: the first two capitalised identifiers of the Debug form.
fn eclass<E: std::fmt::Debug>(e: &E) -> String {
	let s = format!("{:?}", e);
	let ids: Vec<&str> = s
		.split(|c: char| !(c.is_alphanumeric() || c == '_'))
		.filter(|t| t.chars().next().map(|c| c.is_ascii_uppercase()).unwrap_or(false))
		.take(2)
		.collect();
	if ids.is_empty() {
		"Err".to_string()
	} else {
		ids.join(":")
	}
}

fn short(c: &Commitment) -> String {
	c.0[..6].iter().map(|b| format!("{:02x}", b)).collect()
}

fn tx_summary(tx: &Transaction) -> Value {
	let (fee, shift) = tx_fee_shift(tx);
	json!({
		"hash": format!("{}", tx.hash()),
		"inputs": inputs_vec(&tx.inputs()).iter().map(|(c, _)| short(c)).collect::<Vec<_>>(),
		"outputs": tx.outputs().iter().map(|o| short(&o.commitment())).collect::<Vec<_>>(),
		"kernels": tx.kernels().len(),
		"fee": fee, "fee_shift": shift, "weight": tx_weight(tx),
		"lock_height": tx_lock_height(tx),
	})
}

struct View {
	st: Arc<RefState>,
	next_h: u64,
	txpool: Vec<Transaction>,
	stempool: Vec<Transaction>,
	spent: HashSet<Commitment>,
}

struct Submission {
	kind: &'static str,
	tx: Transaction,
	/// the transaction the pool would actually admit (after de-aggregation)
	eff: Transaction,
	label: Label,
	stem: bool,
	src: TxSource,
	desc: String,
}

struct Shared {
	deadline: Instant,
	next_seq: AtomicU64,
	max_seqs: u64,
	small: bool,
}

struct Harness<'a> {
	run: &'a Run,
	shared: &'a Shared,
	seq: u64,
	profile: u64,
	w: World,
	prng: Prng,
	ledger: RefLedger,
	chain: Arc<Chain>,
	pool: ServerTxPool,
	net: Arc<PoolToNetAdapter>,
	_peers: Arc<Peers>,
	cfg: PoolConfig,
	base: u64,
	base_opts: Options,
	coins: Vec<Coin>,
	coin_idx: HashMap<Commitment, usize>,
	reserved: HashSet<Commitment>,
	next_key: u32,
	setup_height: u64,
	block_txs: HashMap<Hash, Vec<Transaction>>,
	trace: Vec<String>,
	prev_kind: &'static str,
	cur_kind: &'static str,
	/// class of the operation just executed (for I1/I3 "after=" attribution)
	op_class: String,
	broken_i1: bool,
	broken_i3: bool,
	known_entries: HashSet<Hash>,
	/// kernel hash -> height of the next block when the transaction carrying it was admitted
	admitted_at: HashMap<Hash, u64>,
	/// first-kernel hashes of transactions whose admission was already reported (I4)
	flagged: HashSet<Hash>,
	overweight: Option<(Transaction, Coin)>,
	dummy_cb: Option<(Output, TxKernel)>,
	spare_sig_kernel: Option<TxKernel>,
	fill_remaining: usize,
	fluff_epoch: bool,
	force_mine: bool,
	forced_mines: u32,
	n_ops: usize,
	stop: bool,
}

impl<'a> Harness<'a> {
	fn new(run: &'a Run, shared: &'a Shared, seq: u64, dir: &str) -> Result<Harness<'a>, String> {
		let mut prng = Prng::new(run.seed ^ seq.wrapping_mul(0x9E37_79B9_7F4A_7C15) ^ 0xC14);
		let profile = seq % 6;
		let w = World::new(run.seed.wrapping_mul(31).wrapping_add(seq));
		let (genesis, gcoin) = w.genesis();

		// accept fee base: thread-local, constant within a sequence
		let base = *prng.pick(&[500_000u64, 500_000, 500_000, 1_000, 7]);
		global::set_local_accept_fee_base(base);

		let max_pool_size = match profile {
			1 => 8,
			2 => 9,
			3 => 12,
			5 => 50,
			_ => 10,
		};
		let cfg = PoolConfig {
			accept_fee_base: base,
			reorg_cache_period: 30,
			max_pool_size,
			max_stempool_size: if profile == 4 { 6 } else { max_pool_size },
			mineable_max_weight: if profile == 5 {
				*prng.pick(&[60u64, 100, 150, 250])
			} else {
				*prng.pick(&[250u64, 250, 40_000, 150])
			},
		};

		// --- wiring as in servers/src/grin/server.rs
		let pool_adapter = Arc::new(PoolToChainAdapter::new());
		let dcfg = DandelionConfig {
			epoch_secs: 600,
			embargo_secs: 180,
			aggregation_secs: 30,
			stem_probability: 0, // next_epoch() => deterministic "fluff" epoch
			always_stem_our_txs: true,
		};
		let net = Arc::new(PoolToNetAdapter::new(dcfg));
		let pool: ServerTxPool = Arc::new(RwLock::new(TransactionPool::new(
			cfg.clone(),
			pool_adapter.clone(),
			net.clone(),
		)));
		let chain_adapter = Arc::new(ChainToPoolAndNetAdapter::new(pool.clone(), vec![]));
		let chain = Arc::new(open_chain_with(
			&format!("{}/chain", dir),
			&genesis,
			chain_adapter.clone(),
			false,
		)?);
		pool_adapter.set_chain(chain.clone());
		let store = PeerStore::new(&format!("{}/peers", dir)).map_err(|e| format!("PeerStore: {:?}", e))?;
		let peers = Arc::new(Peers::new(store, Arc::new(DummyAdapter {}), P2PConfig::default()));
		chain_adapter.init(peers.clone());
		net.init(peers.clone());

		let ledger = RefLedger::new(&genesis);
		let base_opts = if prng.chance(1, 3) {
			Options::SYNC
		} else {
			Options::NONE
		};
		let mut h = Harness {
			run,
			shared,
			seq,
			profile,
			w,
			prng,
			ledger,
			chain,
			pool,
			net,
			_peers: peers,
			cfg,
			base,
			base_opts,
			coins: vec![],
			coin_idx: HashMap::new(),
			reserved: HashSet::new(),
			next_key: 1,
			setup_height: 0,
			block_txs: HashMap::new(),
			trace: vec![],
			prev_kind: "start",
			cur_kind: "start",
			op_class: "setup".into(),
			broken_i1: false,
			broken_i3: false,
			known_entries: HashSet::new(),
			admitted_at: HashMap::new(),
			flagged: HashSet::new(),
			overweight: None,
			dummy_cb: None,
			spare_sig_kernel: None,
			fill_remaining: 0,
			fluff_epoch: false,
			force_mine: false,
			forced_mines: 0,
			n_ops: 0,
			stop: false,
		};
		h.add_coin(gcoin);
		h.setup_chain()?;
		Ok(h)
	}

	fn add_coin(&mut self, c: Coin) {
		if !self.coin_idx.contains_key(&c.commit) {
			self.coin_idx.insert(c.commit, self.coins.len());
			self.coins.push(c);
		}
	}

	fn coin(&self, c: &Commitment) -> Option<Coin> {
		self.coin_idx.get(c).map(|&i| self.coins[i].clone())
	}

	fn head_hash(&self) -> Hash {
		self.chain.head().expect("head").last_block_h
	}

	/// Initial chain: empty blocks for coinbases, then blocks splitting matured
	/// coinbases into 10 plain coins each.
	fn setup_chain(&mut self) -> Result<(), String> {
		let n_cb = 5 + self.prng.below(3);
		let n_split = if self.shared.small {
			2
		} else {
			match self.profile {
				1 | 2 => 6,
				_ => 5,
			}
		};
		let mut tip = self.ledger.genesis_hash();
		let mut cb_coins: Vec<Coin> = vec![self.coins[0].clone()];
		for i in 0..(n_cb + n_split) {
			let mut txs = vec![];
			if i >= n_cb {
				let c = cb_coins[(i - n_cb) as usize].clone();
				let total = c.value;
				let fee = 1_000_000u64;
				let each = (total - fee) / 10;
				let mut outs = vec![];
				let mut left = total - fee;
				for j in 0..10 {
					let v = if j == 9 { left } else { each };
					left -= v;
					outs.push((v, self.w.key(self.next_key)));
					self.next_key += 1;
				}
				let ff = FeeFields::new(0, fee).unwrap();
				let (tx, coins) =
					self.w
						.tx(&mut self.prng, &[c], &outs, KernelFeatures::Plain { fee: ff });
				for c in coins {
					self.add_coin(c);
				}
				txs.push(tx);
			}
			let k = self.w.key(self.next_key);
			self.next_key += 1;
			let d = 1000 + self.prng.below(500);
			let b = self.ledger.make_block(
				&self.w,
				&mut self.prng,
				&tip,
				&txs,
				&k,
				PowMode::Skip { difficulty: d },
				60,
			)?;
			let fees: u64 = txs.iter().map(|t| tx_fee_shift(t).0).sum();
			let cb = self.w.coin(grin_core::consensus::reward(fees), &k, true);
			cb_coins.push(cb.clone());
			self.add_coin(cb);
			tip = b.hash();
			self.chain
				.process_block(b, Options::SKIP_POW | Options::SYNC)
				.map_err(|e| format!("setup block {}: {:?}", i + 1, e))?;
		}
		self.setup_height = n_cb + n_split;
		if self.head_hash() != tip {
			return Err("setup: head mismatch".into());
		}
		Ok(())
	}

	fn view(&mut self) -> View {
		let head = self.head_hash();
		let st = self.ledger.state_at(&head);
		let (txpool, stempool) = {
			let p = self.pool.read();
			(p.txpool.all_transactions(), p.stempool.all_transactions())
		};
		let mut spent = HashSet::new();
		for tx in txpool.iter().chain(stempool.iter()) {
			for (c, _) in inputs_vec(&tx.inputs()) {
				spent.insert(c);
			}
		}
		View {
			next_h: st.height + 1,
			st,
			txpool,
			stempool,
			spent,
		}
	}

	/// Confirmed, mature, not spent by any pool entry, not reserved.
	fn free_coins(&self, v: &View) -> Vec<Coin> {
		let mat = global::coinbase_maturity();
		self.coins
			.iter()
			.filter(|c| match v.st.utxo.get(&c.commit) {
				Some(&i) => {
					let o = &v.st.outs[i];
					(o.features != OutputFeatures::Coinbase || v.next_h >= o.height + mat)
						&& !v.spent.contains(&c.commit)
						&& !self.reserved.contains(&c.commit)
				}
				None => false,
			})
			.cloned()
			.collect()
	}

	/// Outputs of pool entries not spent by another pool entry (known openings).
	fn pool_outputs(&self, v: &View, from_stem: bool) -> Vec<Coin> {
		let src = if from_stem { &v.stempool } else { &v.txpool };
		let mut r = vec![];
		for tx in src {
			for o in tx.outputs() {
				let c = o.commitment();
				if !v.spent.contains(&c) {
					if let Some(coin) = self.coin(&c) {
						r.push(coin);
					}
				}
			}
		}
		r
	}

	/// Build a 1-kernel transaction. `imbalance` != 0 makes it unbalanced.
	fn mk_tx(
		&mut self,
		inputs: &[Coin],
		n_out: usize,
		fee: u64,
		shift: u64,
		lock: Option<u64>,
		imbalance: u64,
	) -> Option<(Transaction, Vec<Coin>)> {
		let total: u64 = inputs.iter().map(|c| c.value).sum();
		if fee == 0 || total < fee + n_out as u64 + imbalance {
			return None;
		}
		let ff = FeeFields::new(shift, fee).ok()?;
		let rest = total - fee + imbalance;
		let each = rest / n_out as u64;
		let mut left = rest;
		let mut outs = vec![];
		for j in 0..n_out {
			let v = if j + 1 == n_out { left } else { each };
			left -= v;
			outs.push((v, self.w.key(self.next_key)));
			self.next_key += 1;
		}
		let features = match lock {
			None => KernelFeatures::Plain { fee: ff },
			Some(h) => KernelFeatures::HeightLocked {
				fee: ff,
				lock_height: h,
			},
		};
		let (tx, coins) = self.w.tx(&mut self.prng, inputs, &outs, features);
		if imbalance == 0 {
			for c in &coins {
				self.add_coin(c.clone());
			}
		}
		if self.spare_sig_kernel.is_none() {
			self.spare_sig_kernel = Some(tx.kernels()[0]);
		}
		Some((tx, coins))
	}

	fn min_fee(&self, n_in: usize, n_out: usize) -> u64 {
		weight_iok(n_in, n_out, 1) * self.base
	}

	/// A fee satisfying the rule (sometimes exactly at the boundary), with varied
	/// fee rates and fee shifts.
	fn good_fee(&mut self, n_in: usize, n_out: usize, total: u64) -> (u64, u64) {
		let min = self.min_fee(n_in, n_out);
		let shift = if self.prng.chance(1, 5) {
			self.prng.range(1, 3)
		} else {
			0
		};
		let mult = *self.prng.pick(&[1u64, 1, 1, 2, 2, 3, 5, 8]);
		let extra = if self.prng.chance(1, 3) {
			0
		} else {
			self.prng.below(min / 4 + 1)
		};
		let fee = ((min * mult) << shift) + extra;
		if fee > total / 3 || fee >= (1u64 << 40) {
			(min, 0)
		} else {
			(fee, shift)
		}
	}

	fn replay(&self, detail: Value) -> Value {
		let (tp, sp) = {
			let p = self.pool.read();
			(p.txpool.all_transactions(), p.stempool.all_transactions())
		};
		let head = self.chain.head().ok();
		json!({
			"seq": self.seq,
			"op_index": self.n_ops,
			"how": "re-run with the same --seed/--tier and `--only-seq <seq>`",
			"pool_config": {"max_pool_size": self.cfg.max_pool_size, "max_stempool_size": self.cfg.max_stempool_size,
				"mineable_max_weight": self.cfg.mineable_max_weight, "accept_fee_base": self.base},
			"head_height": head.map(|h| h.height),
			"trace": self.trace,
			"txpool": tp.iter().map(tx_summary).collect::<Vec<_>>(),
			"stempool": sp.iter().map(tx_summary).collect::<Vec<_>>(),
			"detail": detail,
		})
	}

	fn violation(&self, sig: &str, what: &str, detail: Value) {
		self.run.count("violations_raised", 1);
		self.run.violation(sig, what, self.replay(detail));
	}

	fn size_class(&self, n: usize) -> &'static str {
		if n > self.cfg.max_pool_size {
			"over"
		} else if n == 0 {
			"0"
		} else if n <= 3 {
			"1-3"
		} else if n <= 7 {
			"4-7"
		} else {
			"8+"
		}
	}

	/// Joint validity of a set of transactions on top of the current head:
	/// reference-ledger clauses first, then the real code (aggregate, validate,
	/// Chain::validate_tx). Returns the first failing clause.
	fn joint_check(&self, st: &RefState, txs: &[Transaction], full: bool) -> Option<(String, String)> {
		if txs.is_empty() {
			return None;
		}
		let mut created: HashSet<Commitment> = HashSet::new();
		for tx in txs {
			for o in tx.outputs() {
				if !created.insert(o.commitment()) {
					return Some(("ref_dup_output".into(), short(&o.commitment())));
				}
			}
		}
		let mut spent: HashSet<Commitment> = HashSet::new();
		let mut order = vec![];
		for tx in txs {
			for (c, f) in inputs_vec(&tx.inputs()) {
				if !spent.insert(c) {
					return Some(("double_spend".into(), short(&c)));
				}
				order.push((c, f));
			}
		}
		for (c, f) in &order {
			match st.utxo.get(c) {
				Some(&i) => {
					if let Some(f) = f {
						if *f != st.outs[i].features {
							return Some(("input_features".into(), short(c)));
						}
					}
				}
				None => {
					if !created.contains(c) {
						return Some(("input_missing".into(), short(c)));
					}
				}
			}
		}
		for tx in txs {
			for o in tx.outputs() {
				let c = o.commitment();
				if st.utxo.contains_key(&c) && !spent.contains(&c) {
					return Some(("output_dup_utxo".into(), short(&c)));
				}
			}
		}
		let agg = match transaction::aggregate(txs) {
			Ok(a) => a,
			Err(e) => return Some(("aggregate".into(), eclass(&e))),
		};
		if full {
			self.run.count("joint_checks_full_validate", 1);
			if let Err(e) = agg.validate(Weighting::NoLimit) {
				return Some(("validate".into(), eclass(&e)));
			}
		} else {
			// everything `validate` does except re-verifying range proofs and kernel
			// signatures: those are per-element facts of immutable entries, each of which
			// is fully validated standalone when first seen (I4 scan)
			self.run.count("joint_checks_light_validate", 1);
			if let Err(e) = agg.body.verify_features() {
				return Some(("validate".into(), eclass(&e)));
			}
			if let Err(e) = agg.body.validate_read(Weighting::NoLimit) {
				return Some(("validate".into(), eclass(&e)));
			}
			if let Err(e) = agg.verify_kernel_sums(agg.overage(), agg.offset.clone()) {
				return Some(("validate".into(), eclass(&e)));
			}
		}
		if let Err(e) = self.chain.validate_tx(&agg) {
			return Some(("chain_validate_tx".into(), eclass(&e)));
		}
		None
	}

	/// I1, I2, I3 and the I4 state scan; I5 dry-run with probability 1/4.
	fn check_invariants(&mut self) {
		let v = self.view();
		self.run.count("invariant_evaluations", 1);

		// I4 state scan first: every entry that appears in either pool satisfies the
		// admission rules, incl. full standalone validation (once per distinct entry).
		for (tx, which) in v
			.txpool
			.iter()
			.map(|t| (t, "txpool"))
			.chain(v.stempool.iter().map(|t| (t, "stempool")))
		{
			if self.known_entries.insert(tx.hash()) {
				self.run.count("i4_entries_scanned", 1);
				if tx.kernels().iter().any(|k| self.flagged.contains(&k.hash())) {
					// its admission has been reported already (same defect, one signature)
					continue;
				}
				if let Some(clause) = self.admission_clause(tx) {
					let sig = format!("I4;scan;clause={};pool={}", clause, which);
					self.violation(
						&sig,
						&format!("{} holds an entry violating the admission rule `{}`", which, clause),
						json!({"entry": tx_summary(tx)}),
					);
				}
			}
		}
		// I1 / I2
		let full = self.prng.chance(1, 4);
		match self.joint_check(&v.st, &v.txpool, full) {
			Some((clause, err)) => {
				if !self.broken_i1 {
					self.broken_i1 = true;
					let inv = if clause == "double_spend" { "I2" } else { "I1" };
					let sig = format!("{};clause={};after={}", inv, clause, self.op_class);
					self.violation(
						&sig,
						&format!(
							"txpool is not jointly valid on the current head after op `{}`: {} ({})",
							self.op_class, clause, err
						),
						json!({"clause": clause, "err": err}),
					);
				}
			}
			None => self.broken_i1 = false,
		}
		// I3 (only meaningful when I1 holds)
		if !self.broken_i1 {
			if v.stempool.is_empty() {
				self.broken_i3 = false;
			} else {
				self.run.count("i3_evaluations_nonempty_stempool", 1);
				let mut all = v.txpool.clone();
				all.extend(v.stempool.iter().cloned());
				match self.joint_check(&v.st, &all, false) {
					Some((clause, err)) => {
						if !self.broken_i3 {
							self.broken_i3 = true;
							let sig = format!("I3;clause={};after={}", clause, self.op_class);
							self.violation(
								&sig,
								&format!(
									"stempool + txpool not jointly valid after op `{}`: {} ({})",
									self.op_class, clause, err
								),
								json!({"clause": clause, "err": err}),
							);
						}
					}
					None => self.broken_i3 = false,
				}
			}
		}
		// I5 dry run
		if !self.stop && self.prng.chance(1, 10) {
			self.mine(false);
		}
	}

	/// Which admission rule does `tx` break (None = none)? From the definitions.
	fn admission_clause(&self, tx: &Transaction) -> Option<&'static str> {
		let (fee, shift) = tx_fee_shift(tx);
		let w = tx_weight(tx);
		if (fee >> shift) < w.saturating_mul(self.base) {
			return Some("fee");
		}
		if w > MAX_TX_W {
			return Some("weight");
		}
		if tx.validate(Weighting::AsTransaction).is_err() {
			return Some("validate");
		}
		None
	}

	fn begin_op(&mut self, kind: &'static str, desc: String) {
		self.n_ops += 1;
		self.cur_kind = kind;
		self.trace.push(format!("{}:{} {}", self.n_ops, kind, desc));
		self.run.count(&format!("op.{}", kind), 1);
	}

	fn end_op(&mut self, class: &str, stem: bool, pre_size: usize, outcome: &str) {
		self.op_class = class.to_string();
		if let Some(l) = self.trace.last_mut() {
			l.push_str(&format!(" => {}", outcome));
		}
		let sig = format!(
			"{}>{};pool={};stem={};out={}",
			self.prev_kind,
			self.cur_kind,
			self.size_class(pre_size),
			stem as u8,
			outcome
		);
		self.run.eval(&sig, true);
		self.prev_kind = self.cur_kind;
		self.check_invariants();
	}

	/// Submit through `TransactionPool::add_to_pool`, judge I4, account evictions.
	fn submit(&mut self, s: Submission) {
		self.begin_op(
			s.kind,
			format!(
				"{} stem={} src={:?} label={:?} tx={}",
				s.desc,
				s.stem as u8,
				s.src,
				s.label,
				tx_summary(&s.tx)
			),
		);
		let header = match self.chain.head_header() {
			Ok(h) => h,
			Err(_) => {
				self.stop = true;
				return;
			}
		};
		let admit_h = header.height + 1;
		let (pre_tx, pre_stem): (Vec<Hash>, Vec<Hash>) = {
			let p = self.pool.read();
			(
				p.txpool.entries.iter().map(|e| e.tx.hash()).collect(),
				p.stempool.entries.iter().map(|e| e.tx.hash()).collect(),
			)
		};
		let pre_size = pre_tx.len();
		let over = pre_size > self.cfg.max_pool_size;
		let pool = self.pool.clone();
		let (tx, stem, src) = (s.tx.clone(), s.stem, s.src);
		let res = catch(move || pool.write().add_to_pool(src, tx, stem, &header));
		let res = match res {
			Ok(r) => r,
			Err(p) => {
				let sig = format!("panic;op=add_to_pool;kind={};at={}", s.kind, p.location);
				self.violation(
					&sig,
					&format!("add_to_pool panicked: {} at {}", p.message, p.location),
					json!({"submitted": tx_summary(&s.tx)}),
				);
				self.stop = true;
				return;
			}
		};
		let (post_tx, post_stem): (Vec<Hash>, Vec<Hash>) = {
			let p = self.pool.read();
			(
				p.txpool.entries.iter().map(|e| e.tx.hash()).collect(),
				p.stempool.entries.iter().map(|e| e.tx.hash()).collect(),
			)
		};
		let mut outcome;
		let mut class = "submit".to_string();
		match &res {
			Ok(()) => {
				outcome = "ok".to_string();
				self.run.count("admitted", 1);
				// the height that counts for a txpool entry is the one at which it entered the txpool
				// (a stem transaction is decided again when it is fluffed)
				let entered_txpool = post_tx.iter().any(|h| !pre_tx.contains(h));
				for k in s.eff.kernels() {
					if entered_txpool {
						self.admitted_at.insert(k.hash(), admit_h);
					} else {
						self.admitted_at.entry(k.hash()).or_insert(admit_h);
					}
				}
				// evictions: txpool entries that disappeared, or the admitted tx itself gone
				let gone = pre_tx.iter().filter(|h| !post_tx.contains(h)).count();
				let eff_kernels = s.eff.kernels().to_vec();
				let present = {
					let p = self.pool.read();
					p.txpool
						.entries
						.iter()
						.chain(p.stempool.entries.iter())
						.any(|e| e.tx.kernels() == &eff_kernels[..])
				};
				let self_evicted = !present && over && !s.stem;
				if gone > 0 || self_evicted {
					self.run.count("evictions", (gone + self_evicted as usize) as u64);
					if gone > 0 {
						self.run.count("evictions_of_other_tx", gone as u64);
					}
					outcome.push_str("+evict");
					class = "submit+evict".into();
				}
				if post_stem.len() > pre_stem.len() {
					self.run.count("admitted_to_stempool", 1);
					outcome.push_str("+stem");
				}
				// I4: what was admitted must satisfy the admission rules
				let clause = match self.admission_clause(&s.eff) {
					Some(c) => Some(c.to_string()),
					None => match s.label {
						Label::Refuse(l) => Some(format!("label:{}", l)),
						_ => None,
					},
				};
				if let Some(clause) = clause {
					for k in s.eff.kernels() {
						self.flagged.insert(k.hash());
					}
					let sig = format!(
						"I4;clause={};capacity={};event=admitted",
						clause,
						if over { "over" } else { "under" }
					);
					self.violation(
						&sig,
						&format!(
							"add_to_pool returned Ok for a transaction violating admission rule `{}` (label {:?}, txpool size before {} / max {}, still in pool afterwards: {})",
							clause, s.label, pre_size, self.cfg.max_pool_size, present
						),
						json!({"submitted": tx_summary(&s.tx), "effective": tx_summary(&s.eff),
							"retained_in_pool": present, "stem": s.stem}),
					);
				}
				match s.label {
					Label::Valid => self.run.count("valid_admitted", 1),
					Label::Unmineable => self.run.count("unmineable_admitted", 1),
					_ => {}
				}
			}
			Err(e) => {
				outcome = format!("err:{}", eclass(e));
				match s.label {
					Label::Refuse(l) => {
						let group = if l.starts_with("invalid") { "invalid" } else { l };
						self.run.count(&format!("refused.{}", group), 1);
						let ec = eclass(e);
						let matching = match group {
							"low_fee" => ec == "LowFeeTransaction",
							"overweight" => ec.contains("TooHeavy"),
							_ => ec.starts_with("InvalidTx"),
						};
						if matching {
							self.run.count(&format!("refused_for_that_reason.{}", group), 1);
						}
						self.run.count(&format!("refused_detail.{}.{}", l, eclass(e)), 1);
					}
					Label::Valid => {
						self.run.count("valid_refused", 1);
						self.run.count(&format!("valid_refused.{}.{}", s.kind, eclass(e)), 1);
					}
					Label::Unmineable => self.run.count("refused.unmineable", 1),
					Label::Free => self.run.count(&format!("free_refused.{}", s.kind), 1),
				}
				// a refusal must leave the txpool unchanged
				if pre_tx != post_tx {
					self.run.count("refusal_changed_txpool", 1);
				}
			}
		}
		if self.n_ops % 37 == 5 {
			self.run.sample(json!({"seq": self.seq, "op": s.kind, "desc": s.desc, "stem": s.stem,
				"label": format!("{:?}", s.label), "tx": tx_summary(&s.tx), "pool_size_before": pre_size,
				"outcome": outcome}));
		}
		let admitted_unmineable = res.is_ok() && s.label == Label::Unmineable;
		self.end_op(&class, s.stem, pre_size, &outcome);
		if admitted_unmineable && !self.stop {
			// let the chain judge right away (I5)
			self.op_mine();
		}
	}

	fn rand_src(&mut self) -> TxSource {
		if self.prng.chance(1, 4) {
			TxSource::PushApi
		} else {
			TxSource::Broadcast
		}
	}

	fn rand_stem(&mut self) -> bool {
		let p = if self.profile == 4 { 50 } else { 25 };
		self.prng.chance(p, 100)
	}

	/// A fresh, valid spend of one (or two) free confirmed coins.
	fn gen_valid(&mut self, v: &View) -> Option<(Transaction, Vec<Coin>)> {
		let free = self.free_coins(v);
		if free.is_empty() {
			self.run.count("skip.no_free_coin", 1);
			return None;
		}
		let n_in = if free.len() > 12 && self.prng.chance(1, 6) { 2 } else { 1 };
		let mut inputs = vec![];
		let i = self.prng.usize_below(free.len());
		inputs.push(free[i].clone());
		if n_in == 2 {
			let j = (i + 1 + self.prng.usize_below(free.len() - 1)) % free.len();
			inputs.push(free[j].clone());
		}
		let n_out = if self.prng.chance(1, 3) { 2 } else { 1 };
		let total: u64 = inputs.iter().map(|c| c.value).sum();
		let (fee, shift) = self.good_fee(n_in, n_out, total);
		self.mk_tx(&inputs, n_out, fee, shift, None, 0)
	}

	fn op_valid(&mut self, kind: &'static str) {
		let v = self.view();
		if let Some((tx, _)) = self.gen_valid(&v) {
			let stem = self.rand_stem();
			let src = self.rand_src();
			self.submit(Submission {
				kind,
				eff: tx.clone(),
				tx,
				label: Label::Valid,
				stem,
				src,
				desc: "fresh spend of confirmed coin".into(),
			});
		}
	}

	/// Mineable weight at the boundary, with a pool entry that spends several outputs of another pool
	/// entry (a consolidation of an unconfirmed fan-out): the whole pool, aggregated, is lighter than the
	/// entries taken one by one (matched spend pairs cut through), so "does the pool fit into a block" and
	/// "do the transactions offered fit" are different questions near the limit. Fillers of weight 25 then
	/// walk the pool weight across the limit, and the mineable set is assembled (I5) after every step.
	fn op_weight_boundary(&mut self) {
		let limit = self.cfg.mineable_max_weight;
		if limit > 1000 {
			return;
		}
		let room = limit.saturating_sub(weight_iok(0, 1, 1));
		let cur: u64 = self.pool.read().txpool.all_transactions().iter().map(tx_weight).sum();
		if cur > room {
			self.run.count("weight_boundary.skipped_pool_already_above_the_limit", 1);
			return;
		}
		let v = self.view();
		let free = self.free_coins(&v);
		let coin = match free.first() {
			Some(c) => c.clone(),
			None => return,
		};
		let (f1, s1) = self.good_fee(1, 3, coin.value);
		let (parent, outs) = match self.mk_tx(&[coin], 3, f1, s1, None, 0) {
			Some(x) => x,
			None => return,
		};
		let total: u64 = outs.iter().map(|c| c.value).sum();
		let (f2, s2) = self.good_fee(3, 1, total);
		let (child, _) = match self.mk_tx(&outs, 1, f2, s2, None, 0) {
			Some(x) => x,
			None => return,
		};
		self.run.count("weight_boundary.setups", 1);
		for (tx, d) in [(parent, "fan-out 1 -> 3"), (child, "consolidation of the 3 unconfirmed outputs")] {
			if self.stop {
				return;
			}
			let src = self.rand_src();
			self.submit(Submission { kind: "valid", eff: tx.clone(), tx, label: Label::Valid, stem: false, src, desc: format!("weight boundary: {}", d) });
			if !self.stop {
				self.mine(false);
			}
		}
		for _ in 0..14 {
			if self.stop {
				return;
			}
			let (txs, size) = {
				let p = self.pool.read();
				(p.txpool.all_transactions(), p.txpool.size())
			};
			let w: u64 = txs.iter().map(tx_weight).sum();
			if w > room + 120 || size + 1 > self.cfg.max_pool_size {
				break;
			}
			let v = self.view();
			let free = self.free_coins(&v);
			let coin = match free.first() {
				Some(c) => c.clone(),
				None => break,
			};
			let fee = self.min_fee(1, 1) * 2;
			let (tx, _) = match self.mk_tx(&[coin], 1, fee, 0, None, 0) {
				Some(x) => x,
				None => break,
			};
			let src = self.rand_src();
			self.submit(Submission { kind: "valid", eff: tx.clone(), tx, label: Label::Valid, stem: false, src, desc: "weight boundary: filler 1 -> 1".into() });
			if !self.stop {
				self.run.count("weight_boundary.mineable_sets_assembled", 1);
				self.mine(false);
			}
		}
	}

	fn op_conflict(&mut self) {
		let v = self.view();
		let mut cands = vec![];
		for tx in v.txpool.iter().chain(v.stempool.iter()) {
			for (c, _) in inputs_vec(&tx.inputs()) {
				if let Some(coin) = self.coin(&c) {
					cands.push(coin);
				}
			}
		}
		if cands.is_empty() {
			self.run.count("skip.no_conflict_target", 1);
			return self.op_valid("valid");
		}
		let c = self.prng.pick(&cands).clone();
		let n_out = 1;
		let (fee, shift) = self.good_fee(1, n_out, c.value);
		if let Some((tx, _)) = self.mk_tx(&[c], n_out, fee, shift, None, 0) {
			let stem = self.rand_stem();
			let src = self.rand_src();
			self.submit(Submission {
				kind: "conflict",
				eff: tx.clone(),
				tx,
				label: Label::Free,
				stem,
				src,
				desc: "double spend of an input of a pooled tx".into(),
			});
		}
	}

	/// Spend an output of a pooled transaction.
	fn gen_dependent(&mut self, v: &View, stem: bool) -> Option<(Transaction, Label)> {
		let from_stem = stem && !v.stempool.is_empty() && self.prng.chance(1, 2);
		let mut outs = self.pool_outputs(v, from_stem);
		let mut parent_in_stem = from_stem;
		if outs.is_empty() {
			outs = self.pool_outputs(v, !from_stem);
			parent_in_stem = !from_stem;
		}
		if outs.is_empty() {
			return None;
		}
		let c = self.prng.pick(&outs).clone();
		let n_out = if self.prng.chance(1, 4) { 2 } else { 1 };
		let (fee, shift) = self.good_fee(1, n_out, c.value);
		let (tx, _) = self.mk_tx(&[c], n_out, fee, shift, None, 0)?;
		// a txpool submission cannot see stempool parents: no expectation then
		let label = if parent_in_stem && !stem {
			Label::Free
		} else {
			Label::Valid
		};
		Some((tx, label))
	}

	fn op_dependent(&mut self, force_fluff: bool) {
		let v = self.view();
		let stem = !force_fluff && self.rand_stem();
		match self.gen_dependent(&v, stem) {
			Some((tx, label)) => {
				let src = self.rand_src();
				self.submit(Submission {
					kind: "dependent",
					eff: tx.clone(),
					tx,
					label,
					stem,
					src,
					desc: "spend of an output of a pooled tx".into(),
				});
			}
			None => {
				self.run.count("skip.no_pool_output", 1);
				self.op_valid("valid");
			}
		}
	}

	/// A -> B -> C with independently drawn fee rates, submitted in order (or,
	/// sometimes, child first).
	fn op_chain3(&mut self) {
		let v = self.view();
		let (a, a_outs) = match self.gen_valid(&v) {
			Some(x) => x,
			None => return,
		};
		let ca = a_outs[0].clone();
		let (fb, sb) = self.good_fee(1, 1, ca.value);
		let (b, b_outs) = match self.mk_tx(&[ca], 1, fb, sb, None, 0) {
			Some(x) => x,
			None => return,
		};
		let cb = b_outs[0].clone();
		let (fc, sc) = self.good_fee(1, 1, cb.value);
		let (c, _) = match self.mk_tx(&[cb], 1, fc, sc, None, 0) {
			Some(x) => x,
			None => return,
		};
		let stem_all = self.prng.chance(1, 6);
		let reversed = self.prng.chance(1, 8);
		let mut seq = vec![(a, "chain3 A"), (b, "chain3 B (spends A)"), (c, "chain3 C (spends B)")];
		if reversed {
			seq.reverse();
		}
		for (tx, d) in seq {
			if self.stop {
				return;
			}
			let src = self.rand_src();
			self.submit(Submission {
				kind: "chain3",
				eff: tx.clone(),
				tx,
				label: if reversed { Label::Free } else { Label::Valid },
				stem: stem_all,
				src,
				desc: format!("{}{}", d, if reversed { " [child first]" } else { "" }),
			});
		}
	}

	/// A dependent chain that exists in the stempool only (B spends an output of A, both stem), then a txpool
	/// submission that spends A's input otherwise: A has to leave the stempool, and B with it — its input is neither
	/// unspent on chain nor created by a pooled transaction any more. The standing invariants judge the result.
	fn op_stem_chain_conflict(&mut self) {
		let v = self.view();
		let (a, a_outs) = match self.gen_valid(&v) {
			Some(x) => x,
			None => return,
		};
		let spent: Vec<Coin> = inputs_vec(&a.inputs()).iter().filter_map(|(c, _)| self.coin(c)).collect();
		if spent.is_empty() || a_outs.is_empty() {
			return;
		}
		let ca = a_outs[0].clone();
		let (fb, sb) = self.good_fee(1, 1, ca.value);
		let (b, _) = match self.mk_tx(&[ca], 1, fb, sb, None, 0) {
			Some(x) => x,
			None => return,
		};
		let x = spent[0].clone();
		let (ft, st) = self.good_fee(1, 2, x.value);
		let (t, _) = match self.mk_tx(&[x], 2, ft, st, None, 0) {
			Some(x) => x,
			None => return,
		};
		self.run.count("stem_chain_conflict_operations", 1);
		for (tx, stem, label, d) in [
			(a, true, Label::Valid, "stem chain A"),
			(b, true, Label::Valid, "stem chain B (spends A, both in the stempool only)"),
			(t, false, Label::Free, "txpool submission spending A's input otherwise"),
		] {
			if self.stop {
				return;
			}
			let src = self.rand_src();
			self.submit(Submission {
				kind: "stem_chain_conflict",
				eff: tx.clone(),
				tx,
				label,
				stem,
				src,
				desc: d.into(),
			});
		}
	}

	fn op_duplicate(&mut self) {
		let v = self.view();
		let mut cands: Vec<(Transaction, &'static str)> = vec![];
		for t in &v.txpool {
			cands.push((t.clone(), "exact duplicate of txpool entry"));
		}
		for t in &v.stempool {
			cands.push((t.clone(), "exact duplicate of stempool entry"));
		}
		// a transaction already confirmed on the current chain
		let head = self.head_hash();
		if let Some(txs) = self.block_txs.get(&head) {
			if let Some(t) = txs.first() {
				cands.push((t.clone(), "replay of a tx confirmed in the head block"));
			}
		}
		if cands.is_empty() {
			self.run.count("skip.no_dup_target", 1);
			return self.op_valid("valid");
		}
		let (tx, d) = self.prng.pick(&cands).clone();
		let stem = self.prng.chance(1, 3);
		let src = self.rand_src();
		self.submit(Submission {
			kind: "duplicate",
			eff: tx.clone(),
			tx,
			label: Label::Free,
			stem,
			src,
			desc: d.into(),
		});
	}

	fn op_aggregate(&mut self, kind: &'static str) {
		let v = self.view();
		let src = self.rand_src();
		match kind {
			"agg_two_pooled" => {
				if v.txpool.len() < 2 {
					self.run.count("skip.agg_needs_two_pooled", 1);
					return self.op_valid("valid");
				}
				let i = self.prng.usize_below(v.txpool.len());
				let j = (i + 1 + self.prng.usize_below(v.txpool.len() - 1)) % v.txpool.len();
				let agg = match transaction::aggregate(&[v.txpool[i].clone(), v.txpool[j].clone()]) {
					Ok(a) => a,
					Err(_) => return,
				};
				// de-aggregation leaves nothing: admitting that would be admitting an empty tx
				self.submit(Submission {
					kind,
					tx: agg,
					eff: Transaction::empty(),
					label: Label::Refuse("invalid_empty_remainder"),
					stem: false,
					src,
					desc: "aggregate of two txpool entries".into(),
				});
			}
			"agg_two_new" => {
				let (a, _) = match self.gen_valid(&v) {
					Some(x) => x,
					None => return,
				};
				// second one from a different coin: temporarily reserve a's inputs
				let ins: Vec<Commitment> = inputs_vec(&a.inputs()).iter().map(|(c, _)| *c).collect();
				for c in &ins {
					self.reserved.insert(*c);
				}
				let b = self.gen_valid(&v);
				for c in &ins {
					self.reserved.remove(c);
				}
				let (b, _) = match b {
					Some(x) => x,
					None => return,
				};
				let agg = match transaction::aggregate(&[a, b]) {
					Ok(a) => a,
					Err(_) => return,
				};
				let (fee, shift) = tx_fee_shift(&agg);
				let label = if (fee >> shift) >= tx_weight(&agg) * self.base {
					Label::Valid
				} else {
					// different fee shifts can make the aggregate under-pay: must be refused then
					Label::Refuse("low_fee")
				};
				let stem = self.rand_stem();
				self.submit(Submission {
					kind,
					eff: agg.clone(),
					tx: agg,
					label,
					stem,
					src,
					desc: "two-kernel aggregate of two fresh txs".into(),
				});
			}
			_ => {
				// agg_pooled_new / agg_low_remainder
				if v.txpool.is_empty() {
					self.run.count("skip.agg_needs_pooled", 1);
					return self.op_valid("valid");
				}
				let a = self.prng.pick(&v.txpool).clone();
				let low = kind == "agg_low_remainder";
				let free = self.free_coins(&v);
				if free.is_empty() {
					return;
				}
				let c = self.prng.pick(&free).clone();
				let min = self.min_fee(1, 1);
				let (fee, shift) = if low {
					if min < 2 {
						return;
					}
					(min - 1 - self.prng.below(min / 2), 0)
				} else {
					self.good_fee(1, 1, c.value)
				};
				let (cnew, _) = match self.mk_tx(&[c], 1, fee, shift, None, 0) {
					Some(x) => x,
					None => return,
				};
				let agg = match transaction::aggregate(&[a, cnew.clone()]) {
					Ok(a) => a,
					Err(_) => return,
				};
				self.submit(Submission {
					kind,
					tx: agg,
					eff: cnew,
					label: if low { Label::Refuse("low_fee") } else { Label::Valid },
					stem: false,
					src,
					desc: if low {
						"aggregate of a txpool entry with a fresh LOW-FEE tx".into()
					} else {
						"aggregate of a txpool entry with a fresh tx".into()
					},
				});
			}
		}
	}

	fn pick_input_for_hostile(&mut self, v: &View) -> Option<Coin> {
		// mostly a free confirmed coin, sometimes an output of a pooled tx
		if self.prng.chance(1, 4) {
			let outs = self.pool_outputs(v, false);
			if !outs.is_empty() {
				return Some(self.prng.pick(&outs).clone());
			}
		}
		let free = self.free_coins(v);
		if free.is_empty() {
			self.run.count("skip.no_free_coin", 1);
			None
		} else {
			Some(self.prng.pick(&free).clone())
		}
	}

	fn op_low_fee(&mut self) {
		let v = self.view();
		let c = match self.pick_input_for_hostile(&v) {
			Some(c) => c,
			None => return,
		};
		let n_out = if self.prng.chance(1, 4) { 2 } else { 1 };
		let min = self.min_fee(1, n_out);
		if min < 2 {
			return;
		}
		let (fee, shift, d) = match self.prng.below(4) {
			0 => (min - 1, 0, "fee = min-1"),
			1 => ((min / 2).max(1), 0, "fee = min/2"),
			2 => {
				let s = self.prng.range(1, 3);
				((min << s) - 1, s, "fee >= min but shifted fee = min-1")
			}
			_ => (1, 0, "fee = 1"),
		};
		if let Some((tx, _)) = self.mk_tx(&[c], n_out, fee, shift, None, 0) {
			let stem = self.rand_stem();
			let src = self.rand_src();
			self.submit(Submission {
				kind: "low_fee",
				eff: tx.clone(),
				tx,
				label: Label::Refuse("low_fee"),
				stem,
				src,
				desc: d.into(),
			});
		}
	}

	fn op_overweight(&mut self) {
		let v = self.view();
		let reuse = match &self.overweight {
			Some((_, coin)) => {
				v.st.utxo.contains_key(&coin.commit)
					&& !v.spent.contains(&coin.commit)
					&& !self.prng.chance(1, 3)
			}
			None => false,
		};
		if !reuse {
			if let Some((_, coin)) = self.overweight.take() {
				self.reserved.remove(&coin.commit);
			}
			let free = self.free_coins(&v);
			if free.is_empty() {
				self.run.count("skip.no_free_coin", 1);
				return;
			}
			let c = self.prng.pick(&free).clone();
			let n_out = 11 + self.prng.usize_below(2);
			let fee = self.min_fee(1, n_out) * (1 + self.prng.below(3));
			let built = self.mk_tx(&[c.clone()], n_out, fee, 0, None, 0);
			match built {
				Some((tx, _)) => {
					self.reserved.insert(c.commit);
					self.overweight = Some((tx, c));
				}
				None => return,
			}
		}
		let tx = self.overweight.as_ref().unwrap().0.clone();
		let stem = self.rand_stem();
		let src = self.rand_src();
		self.submit(Submission {
			kind: "overweight",
			eff: tx.clone(),
			tx,
			label: Label::Refuse("overweight"),
			stem,
			src,
			desc: format!("otherwise valid, weight > {}", MAX_TX_W),
		});
	}

	fn op_invalid(&mut self) {
		let v = self.view();
		let which = self.prng.below(5);
		let (tx, l, d): (Transaction, &'static str, &'static str) = if which == 0 {
			(Transaction::empty(), "invalid_empty", "Transaction::empty()")
		} else {
			let c = match self.pick_input_for_hostile(&v) {
				Some(c) => c,
				None => return,
			};
			match which {
				1 => {
					let (fee, shift) = self.good_fee(1, 1, c.value);
					let imb = 1 + self.prng.below(1000);
					match self.mk_tx(&[c], 1, fee, shift, None, imb) {
						Some((tx, _)) => (tx, "invalid_unbalanced", "outputs exceed inputs - fee"),
						None => return,
					}
				}
				2 => {
					// kernel carries the (valid) signature of another kernel
					let (fee, shift) = self.good_fee(1, 1, c.value);
					let spare = self.spare_sig_kernel;
					match (self.mk_tx(&[c], 1, fee, shift, None, 0), spare) {
						(Some((tx, _)), Some(spare)) => {
							let mut k = tx.kernels()[0];
							if k.excess_sig == spare.excess_sig {
								return;
							}
							k.excess_sig = spare.excess_sig;
							(tx.replace_kernel(k), "invalid_bad_sig", "kernel signature of another kernel")
						}
						_ => return,
					}
				}
				3 => {
					// signature made over another fee: raise the fee field after signing
					let (fee, shift) = self.good_fee(1, 1, c.value);
					match self.mk_tx(&[c], 1, fee, shift, None, 0) {
						Some((tx, _)) => {
							let mut k = tx.kernels()[0];
							k.features = KernelFeatures::Plain {
								fee: FeeFields::new(shift, fee + 1).unwrap(),
							};
							(tx.replace_kernel(k), "invalid_bad_sig", "fee field changed after signing")
						}
						None => return,
					}
				}
				_ => {
					// two outputs with swapped range proofs
					let (fee, shift) = self.good_fee(1, 2, c.value);
					match self.mk_tx(&[c], 2, fee, shift, None, 0) {
						Some((tx, _)) => {
							let o = tx.outputs();
							let o0 = Output::new(o[0].features(), o[0].commitment(), o[1].proof());
							let o1 = Output::new(o[1].features(), o[1].commitment(), o[0].proof());
							let t = Transaction::new(tx.inputs(), &[o0, o1], tx.kernels())
								.with_offset(tx.offset.clone());
							(t, "invalid_bad_proof", "range proofs swapped between outputs")
						}
						None => return,
					}
				}
			}
		};
		let stem = self.rand_stem();
		let src = self.rand_src();
		self.submit(Submission {
			kind: "invalid",
			eff: tx.clone(),
			tx,
			label: Label::Refuse(l),
			stem,
			src,
			desc: d.into(),
		});
	}

	/// Immature coinbase spend / future lock height (and the exact boundaries).
	fn op_immature(&mut self) {
		let v = self.view();
		let mat = global::coinbase_maturity();
		let young: Vec<Coin> = self
			.coins
			.iter()
			.filter(|c| match v.st.utxo.get(&c.commit) {
				Some(&i) => {
					let o = &v.st.outs[i];
					o.features == OutputFeatures::Coinbase
						&& v.next_h < o.height + mat
						&& !v.spent.contains(&c.commit)
				}
				None => false,
			})
			.cloned()
			.collect();
		let stem = self.rand_stem();
		let src = self.rand_src();
		if !young.is_empty() && self.prng.chance(1, 2) {
			let c = self.prng.pick(&young).clone();
			let (fee, shift) = self.good_fee(1, 1, c.value);
			if let Some((mut tx, _)) = self.mk_tx(&[c.clone()], 1, fee, shift, None, 0) {
				// half of them the way a v2 peer or the API would send them — (features, commitment) inputs — with the
				// features the SENDER chose: the coinbase declared as a plain output. What the input spends is decided by
				// the chain, not by the sender.
				let mislabelled = self.prng.chance(1, 2);
				if mislabelled {
					tx.body.inputs = Inputs::FeaturesAndCommit(vec![Input::new(OutputFeatures::Plain, c.commit)]);
					self.run.count("immature_coinbase_spends_declared_plain_in_v2_inputs", 1);
					if !self.pool.read().txpool.entries.is_empty() {
						self.run.count("immature_coinbase_spends_declared_plain_in_v2_inputs_with_other_entries_pooled", 1);
					}
				}
				self.submit(Submission {
					kind: "immature",
					eff: tx.clone(),
					tx,
					label: Label::Unmineable,
					stem,
					src,
					desc: if mislabelled { "spend of an immature coinbase declared Plain in (features, commitment) inputs".into() } else { "spend of an immature coinbase".into() },
				});
			}
			return;
		}
		let free = self.free_coins(&v);
		if free.is_empty() {
			return;
		}
		let c = self.prng.pick(&free).clone();
		let at_boundary = self.prng.chance(1, 3);
		let lock = if at_boundary {
			v.next_h
		} else {
			v.next_h + 1 + self.prng.below(3)
		};
		let (fee, shift) = self.good_fee(1, 1, c.value);
		if let Some((tx, _)) = self.mk_tx(&[c], 1, fee, shift, Some(lock), 0) {
			self.submit(Submission {
				kind: "immature",
				eff: tx.clone(),
				tx,
				label: if at_boundary { Label::Valid } else { Label::Unmineable },
				stem,
				src,
				desc: format!("height-locked at {} (next block {})", lock, v.next_h),
			});
		}
	}

	fn op_stem_resubmit(&mut self) {
		let v = self.view();
		if v.stempool.is_empty() {
			self.run.count("skip.stempool_empty", 1);
			return self.op_valid("valid");
		}
		let tx = self.prng.pick(&v.stempool).clone();
		let src = self.rand_src();
		self.submit(Submission {
			kind: "stem_resubmit",
			eff: tx.clone(),
			tx,
			label: Label::Free,
			stem: true,
			src,
			desc: "stem tx seen again while in stempool (=> fluff)".into(),
		});
	}

	/// What `dandelion_monitor::process_fluff_phase` does.
	fn op_fluff(&mut self) {
		let prepared: Result<Transaction, String> = {
			let p = self.pool.read();
			let txs: Vec<Transaction> = p.stempool.all_transactions();
			if txs.is_empty() {
				Err("empty".into())
			} else {
				match p.chain_head() {
					Err(e) => Err(eclass(&e)),
					Ok(header) => match p.txpool.all_transactions_aggregate(None) {
						Err(e) => Err(eclass(&e)),
						Ok(txpool_tx) => match p.stempool.validate_raw_txs(
							&txs,
							txpool_tx,
							&header,
							Weighting::NoLimit,
						) {
							Err(e) => Err(eclass(&e)),
							Ok(f) => match transaction::aggregate(&f) {
								Err(e) => Err(eclass(&e)),
								Ok(agg) => match agg.validate(Weighting::AsTransaction) {
									Err(e) => Err(eclass(&e)),
									Ok(()) => Ok(agg),
								},
							},
						},
					},
				}
			}
		};
		match prepared {
			Ok(agg) => {
				let label = match self.admission_clause(&agg) {
					Some("fee") => Label::Refuse("low_fee"),
					Some("weight") => Label::Refuse("overweight"),
					Some(_) => Label::Refuse("invalid_agg"),
					None => Label::Free,
				};
				self.submit(Submission {
					kind: "fluff",
					eff: agg.clone(),
					tx: agg,
					label,
					stem: false,
					src: TxSource::Fluff,
					desc: "aggregate of the fluffable stempool (dandelion monitor)".into(),
				});
			}
			Err(e) => {
				if e == "empty" {
					self.run.count("skip.stempool_empty", 1);
					// put something into the stempool instead
					let v = self.view();
					if let Some((tx, _)) = self.gen_valid(&v) {
						self.submit(Submission {
							kind: "valid",
							eff: tx.clone(),
							tx,
							label: Label::Valid,
							stem: true,
							src: TxSource::Broadcast,
							desc: "fresh spend (stem)".into(),
						});
					}
				} else {
					self.run.count(&format!("fluff_not_prepared.{}", e), 1);
				}
			}
		}
	}

	/// What `dandelion_monitor::process_expired_entries` does.
	fn op_expire(&mut self) {
		let v = self.view();
		if v.stempool.is_empty() {
			self.run.count("skip.stempool_empty", 1);
			return self.op_fluff();
		}
		for tx in v.stempool.iter().take(3) {
			if self.stop {
				return;
			}
			self.submit(Submission {
				kind: "expire",
				eff: tx.clone(),
				tx: tx.clone(),
				label: Label::Free,
				stem: false,
				src: TxSource::EmbargoExpired,
				desc: "embargo expired: stem entry fluffed individually".into(),
			});
		}
	}

	fn op_mine(&mut self) {
		let pre = self.pool.read().txpool.size();
		self.begin_op("mine", String::new());
		let outcome = self.mine(true);
		self.end_op("mine", false, pre, &outcome);
	}

	/// I5. `real`: as mine_block.rs::build_block + process_block. Otherwise a
	/// dry run (assemble, weigh, reference rules); a failing dry run requests a
	/// real mine so that the chain itself is the judge.
	fn mine(&mut self, real: bool) -> String {
		let head = match self.chain.head_header() {
			Ok(h) => h,
			Err(_) => return "no_head".into(),
		};
		let pool = self.pool.clone();
		let txs = match catch(move || pool.read().prepare_mineable_transactions()) {
			Ok(Ok(t)) => t,
			Ok(Err(e)) => {
				self.run.count("mine.prepare_err", 1);
				self.run
					.inconclusive(&format!("seq {}: prepare_mineable_transactions Err {:?}", self.seq, e));
				return format!("prepare_err:{}", eclass(&e));
			}
			Err(p) => {
				let sig = format!("panic;op=prepare_mineable_transactions;at={}", p.location);
				self.violation(&sig, &format!("panic: {} at {}", p.message, p.location), json!({}));
				self.stop = true;
				return "panic".into();
			}
		};
		let fees: u64 = txs.iter().map(|t| tx_fee_shift(t).0).sum();
		let (out, kern, key) = if real {
			let k = self.w.key(self.next_key);
			self.next_key += 1;
			let (o, kn) = self.w.coinbase(&k, fees);
			(o, kn, Some(k))
		} else {
			if self.dummy_cb.is_none() {
				let k = self.w.key(0x7fff_0000);
				self.dummy_cb = Some(self.w.coinbase(&k, 0));
			}
			let (o, kn) = self.dummy_cb.clone().unwrap();
			(o, kn, None)
		};
		if !real {
			self.run.count("i5_dry_runs", 1);
		}
		let fail = |h: &mut Self, clause: &str, err: String, txs: &[Transaction]| -> String {
			if real {
				// maturity / lock-height refusals: was the offending entry inadmissible when it was admitted, or did the
				// height of the next block FALL afterwards (reorganisation to a heavier but lower fork: recorded finding)?
				let mut cause = String::new();
				if err == "ImmatureCoinbase" || err == "KernelLockHeight" {
					let next_h = head.height + 1;
					let st = h.ledger.state_at(&head.hash());
					let mat = global::coinbase_maturity();
					let mut offenders = 0;
					let mut fell = 0;
					for tx in txs {
						let locked = tx_lock_height(tx) > next_h;
						let immature = inputs_vec(&tx.inputs()).iter().any(|(c, _)| match st.utxo.get(c) {
							Some(&i) => st.outs[i].features == OutputFeatures::Coinbase && next_h < st.outs[i].height + mat,
							None => false,
						});
						if locked || immature {
							offenders += 1;
							let adm = tx.kernels().iter().filter_map(|k| h.admitted_at.get(&k.hash())).max().cloned();
							if adm.map(|a| a > next_h).unwrap_or(false) {
								fell += 1;
							}
						}
					}
					cause = if offenders == 0 {
						";cause=no_offending_entry_identified".to_string()
					} else if fell == offenders {
						";cause=next_height_fell_after_admission".to_string()
					} else {
						";cause=inadmissible_when_admitted".to_string()
					};
				}
				let sig = format!("I5;clause={};err={}{}", clause, err, cause);
				h.violation(
					&sig,
					&format!(
						"block assembled from prepare_mineable_transactions() failed at `{}`: {}",
						clause, err
					),
					json!({"mineable": txs.iter().map(tx_summary).collect::<Vec<_>>(), "next_height": head.height + 1}),
				);
				format!("FAIL:{}:{}", clause, err)
			} else {
				h.run.count("i5_dry_run_suspicious", 1);
				h.want_real_mine();
				"dry_fail".into()
			}
		};
		let d = 1000 + self.prng.below(500);
		let mut b = match Block::from_reward(&head, &txs, out, kern, Difficulty::from_num(d)) {
			Ok(b) => b,
			Err(e) => return fail(self, "assemble", eclass(&e), &txs),
		};
		let bw = weight_iok(b.inputs().len(), b.outputs().len(), b.kernels().len());
		if bw > MAX_BLOCK_W {
			return fail(self, "weight", format!("{}", bw), &txs);
		}
		if real && bw > MAX_BLOCK_W - OUTPUT_W {
			self.run.count("mined_blocks_within_one_output_of_weight_limit", 1);
		}
		let st = self.ledger.state_at(&head.hash());
		let ref_verdict = st.check_block(&b);
		if !real {
			if let Err(e) = ref_verdict {
				return fail(self, "ref_rules", eclass(&e), &txs);
			}
			return "dry_ok".into();
		}
		// Every second real mine whose mineable set the reference rules accept goes the miner's own way: the node's
		// block-template builder (servers/src/mining/mine_block.rs::get_block, hook H7) takes the set from the pool,
		// builds, validates and commits the template itself. It retries for ever on failure, hence the helper thread.
		if ref_verdict.is_ok() && self.prng.chance(1, 2) {
			return self.mine_through_the_miner(&head, &txs, fees);
		}
		if let Err(e) = b.validate(&head.total_kernel_offset) {
			return fail(self, "block_validate", eclass(&e), &txs);
		}
		b.header.timestamp = head.timestamp + Duration::seconds(60);
		b.header.pow.proof.edge_bits = global::min_edge_bits();
		if let Err(e) = self.chain.set_txhashset_roots(&mut b) {
			return fail(self, "set_txhashset_roots", eclass(&e), &txs);
		}
		skip_pow_proof(&mut b.header, &mut self.prng);
		self.ledger.add(&b);
		let bh = b.hash();
		let n_txs = txs.len();
		match self
			.chain
			.process_block(b, Options::SKIP_POW | Options::MINE | self.base_opts)
		{
			Ok(Some(_)) => {
				self.run.count("mined_blocks_accepted", 1);
				if n_txs > 0 {
					self.run.count("mined_blocks_accepted_nonempty", 1);
					self.run.count("mined_txs", n_txs as u64);
				}
				if ref_verdict.is_err() {
					self.run.count("ref_chain_disagree", 1);
				}
				let k = key.unwrap();
				let cb = self.w.coin(grin_core::consensus::reward(fees), &k, true);
				self.add_coin(cb);
				self.block_txs.insert(bh, txs);
				format!("accepted:{}", if n_txs == 0 { "empty" } else if n_txs < 4 { "few" } else { "many" })
			}
			Ok(None) => fail(self, "process_block", "NotHead".into(), &txs),
			Err(e) => fail(self, "process_block", eclass(&e), &txs),
		}
	}

	/// I5 through `mine_block::get_block` (see `mine`). Only called when the reference rules accept the mineable set.
	fn mine_through_the_miner(&mut self, head: &grin_core::core::BlockHeader, txs: &[Transaction], fees: u64) -> String {
		use std::sync::mpsc;
		let (chain, pool, base) = (self.chain.clone(), self.pool.clone(), self.base);
		let (txc, rxc) = mpsc::channel();
		std::thread::spawn(move || {
			init_thread(true);
			global::set_local_accept_fee_base(base);
			let r = catch(|| grin_servers::verif_export::get_block(&chain, &pool, None, None));
			let _ = txc.send(r);
		});
		self.run.count("mine_block_get_block_calls", 1);
		let mut b = match rxc.recv_timeout(StdDuration::from_secs(40)) {
			Ok(Ok((b, _))) => b,
			Ok(Err(p)) => {
				let sig = format!("panic;op=mine_block::get_block;at={}", p.location);
				self.violation(&sig, &format!("panic: {} at {}", p.message, p.location), json!({}));
				self.stop = true;
				return "panic".into();
			}
			Err(_) => {
				self.violation(
					"I5;clause=mine_block_get_block;err=never_returns",
					"mine_block::get_block did not return within 40 s although the reference rules accept a block made of the mineable set: the miner retries for ever on a template it cannot build",
					json!({"mineable": txs.iter().map(tx_summary).collect::<Vec<_>>(), "next_height": head.height + 1}),
				);
				// the helper thread spins for ever: this process is of no further use
				self.run.finish_worker();
			}
		};
		let fail = |h: &mut Self, clause: &str, err: String| -> String {
			let sig = format!("I5;clause=mine_block:{};err={}", clause, err);
			h.violation(
				&sig,
				&format!("block built by mine_block::get_block from the pool failed at `{}`: {}", clause, err),
				json!({"mineable": txs.iter().map(tx_summary).collect::<Vec<_>>(), "next_height": head.height + 1}),
			);
			format!("FAIL:mine_block:{}:{}", clause, err)
		};
		if b.header.prev_hash != head.hash() {
			return fail(self, "parent", "template_not_on_the_head".into());
		}
		let mut want: Vec<Hash> = txs.iter().flat_map(|t| t.kernels().iter().map(|k| k.hash())).collect();
		let mut got: Vec<Hash> = b.kernels().iter().filter(|k| !k.is_coinbase()).map(|k| k.hash()).collect();
		want.sort();
		got.sort();
		if want != got {
			return fail(self, "content", format!("{}_of_{}_mineable_kernels", got.len(), want.len()));
		}
		let bw = weight_iok(b.inputs().len(), b.outputs().len(), b.kernels().len());
		if bw > MAX_BLOCK_W {
			return fail(self, "weight", format!("{}", bw));
		}
		let claimed: u64 = b.kernels().iter().filter(|k| k.is_coinbase()).count() as u64;
		if claimed != 1 {
			return fail(self, "coinbase_kernels", format!("{}", claimed));
		}
		skip_pow_proof(&mut b.header, &mut self.prng);
		self.ledger.add(&b);
		let bh = b.hash();
		let n_txs = txs.len();
		let _ = fees;
		match self.chain.process_block(b, Options::SKIP_POW | Options::MINE | self.base_opts) {
			Ok(Some(_)) => {
				self.run.count("mined_blocks_accepted", 1);
				self.run.count("mined_blocks_built_by_mine_block_get_block_accepted", 1);
				if n_txs > 0 {
					self.run.count("mined_blocks_accepted_nonempty", 1);
					self.run.count("mined_blocks_built_by_mine_block_get_block_accepted_nonempty", 1);
					self.run.count("mined_txs", n_txs as u64);
				}
				self.block_txs.insert(bh, txs.to_vec());
				format!("accepted_via_miner:{}", if n_txs == 0 { "empty" } else if n_txs < 4 { "few" } else { "many" })
			}
			Ok(None) => fail(self, "process_block", "NotHead".into()),
			Err(e) => fail(self, "process_block", eclass(&e)),
		}
	}

	fn want_real_mine(&mut self) {
		if self.forced_mines_left() {
			self.fill_remaining = 0;
			self.trace.push("   (dry-run I5 suspicious: real mine requested)".into());
			self.run.count("forced_real_mines", 1);
			self.force_mine = true;
		}
	}

	fn forced_mines_left(&mut self) -> bool {
		if self.forced_mines < 3 {
			self.forced_mines += 1;
			true
		} else {
			false
		}
	}

	/// Can `tx` be put into a block of height `h` on state `st` after the
	/// already selected transactions (reference rules)?
	fn applicable(
		st: &RefState,
		h: u64,
		created: &HashSet<Commitment>,
		spent: &HashSet<Commitment>,
		tx: &Transaction,
	) -> bool {
		if tx_lock_height(tx) > h {
			return false;
		}
		let mat = global::coinbase_maturity();
		for (c, f) in inputs_vec(&tx.inputs()) {
			if spent.contains(&c) {
				return false;
			}
			match st.utxo.get(&c) {
				Some(&i) => {
					let o = &st.outs[i];
					if o.features == OutputFeatures::Coinbase && h < o.height + mat {
						return false;
					}
					if let Some(f) = f {
						if f != o.features {
							return false;
						}
					}
				}
				None => {
					if !created.contains(&c) {
						return false;
					}
				}
			}
		}
		for o in tx.outputs() {
			let c = o.commitment();
			if st.utxo.contains_key(&c) || created.contains(&c) {
				return false;
			}
		}
		true
	}

	/// Pick a dependency-respecting subset of the candidates (each with its own
	/// inclusion percentage) that fits one block.
	fn select_txs(&mut self, st: &RefState, h: u64, cands: &[(Transaction, u64)]) -> Vec<Transaction> {
		let mut created = HashSet::new();
		let mut spent = HashSet::new();
		let mut seen = HashSet::new();
		let mut sel = vec![];
		let mut wsum = 0u64;
		for (tx, pct) in cands {
			if !seen.insert(tx.hash()) || !self.prng.chance(*pct, 100) {
				continue;
			}
			let w = tx_weight(tx);
			if wsum + w > MAX_TX_W {
				continue;
			}
			if !Self::applicable(st, h, &created, &spent, tx) {
				continue;
			}
			for (c, _) in inputs_vec(&tx.inputs()) {
				spent.insert(c);
			}
			for o in tx.outputs() {
				created.insert(o.commitment());
			}
			wsum += w;
			sel.push(tx.clone());
		}
		sel
	}

	/// Fresh transactions (never submitted to the pool) spending confirmed inputs
	/// that pool entries spend too.
	fn fresh_conflicts(&mut self, st: &RefState, h: u64, v: &View, n: usize) -> Vec<Transaction> {
		let mat = global::coinbase_maturity();
		let mut cands = vec![];
		for tx in v.txpool.iter().chain(v.stempool.iter()) {
			for (c, _) in inputs_vec(&tx.inputs()) {
				if let (Some(&i), Some(coin)) = (st.utxo.get(&c), self.coin(&c)) {
					let o = &st.outs[i];
					if o.features != OutputFeatures::Coinbase || h >= o.height + mat {
						cands.push(coin);
					}
				}
			}
		}
		let mut r = vec![];
		for _ in 0..n {
			if cands.is_empty() {
				break;
			}
			let i = self.prng.usize_below(cands.len());
			let c = cands.remove(i);
			let fee = 1_000_000u64.min(c.value / 2).max(1);
			if let Some((tx, _)) = self.mk_tx(&[c], 1, fee, 0, None, 0) {
				r.push(tx);
			}
		}
		r
	}

	/// Build (reference ledger) and deliver one foreign block on `parent`.
	/// Returns (block hash, difficulty, head moved to it, was reorg).
	fn deliver_foreign(
		&mut self,
		kind: &'static str,
		parent: Hash,
		cands: &[(Transaction, u64)],
		difficulty: u64,
		n_fresh: usize,
	) -> Option<(Hash, bool, bool)> {
		let st = self.ledger.state_at(&parent);
		let h = st.height + 1;
		let sel = self.select_txs(&st, h, cands);
		let (pre_tx, pre_size): (Vec<Hash>, usize) = {
			let p = self.pool.read();
			(p.txpool.entries.iter().map(|e| e.tx.hash()).collect(), p.txpool.size())
		};
		let in_pool = sel.iter().filter(|t| pre_tx.contains(&t.hash())).count();
		self.begin_op(
			kind,
			format!(
				"block h={} on {} with {} txs ({} from txpool, {} fresh candidates) d={}",
				h,
				parent,
				sel.len(),
				in_pool,
				n_fresh,
				difficulty
			),
		);
		let k = self.w.key(self.next_key);
		self.next_key += 1;
		let b = match self.ledger.make_block(
			&self.w,
			&mut self.prng,
			&parent,
			&sel,
			&k,
			PowMode::Skip { difficulty },
			60,
		) {
			Ok(b) => b,
			Err(e) => {
				self.run.count("harness.make_block_failed", 1);
				self.end_op("noop", false, pre_size, &format!("harness_make_block:{}", e.len()));
				return None;
			}
		};
		if let Err(e) = st.check_block(&b) {
			self.run.count("harness.block_illegal_by_ref", 1);
			self.end_op("noop", false, pre_size, &format!("harness_illegal:{}", eclass(&e)));
			return None;
		}
		let fees: u64 = sel.iter().map(|t| tx_fee_shift(t).0).sum();
		let bh = b.hash();
		let pre_head = self.head_hash();
		let r = self.chain.process_block(b, Options::SKIP_POW | self.base_opts);
		let post_head = self.head_hash();
		match r {
			Ok(_) => {
				let cb = self.w.coin(grin_core::consensus::reward(fees), &k, true);
				self.add_coin(cb);
				self.block_txs.insert(bh, sel.clone());
				let moved = post_head == bh;
				let reorg = moved && pre_head != parent;
				self.run.count("foreign_blocks_accepted", 1);
				self.run.count("foreign.pool_txs_included", in_pool as u64);
				let post_tx: Vec<Hash> = self
					.pool
					.read()
					.txpool
					.entries
					.iter()
					.map(|e| e.tx.hash())
					.collect();
				let dropped = pre_tx.iter().filter(|h| !post_tx.contains(h)).count();
				let returned = post_tx.iter().filter(|h| !pre_tx.contains(h)).count();
				let class;
				if reorg {
					class = kind.to_string();
					self.run.count("reorgs", 1);
					if kind == "reorg_lower" {
						self.run.count("reorgs_to_lower_height", 1);
					}
					self.run.count("reorg.txpool_entries_dropped", dropped as u64);
					self.run.count("reorg.txpool_entries_returned_from_cache", returned as u64);
				} else if moved {
					class = "next_block".to_string();
					self.run.count("next_block.txpool_entries_dropped", dropped as u64);
					self.run
						.count("next_block.dropped_by_conflict", dropped.saturating_sub(in_pool) as u64);
				} else {
					class = "fork_block".to_string();
					self.run.count("fork_blocks", 1);
					if dropped + returned > 0 {
						self.run.count("fork_block_changed_txpool", 1);
					}
				}
				let outcome = format!(
					"{}:incl={};drop={};ret={}",
					class,
					in_pool.min(3),
					dropped.min(3),
					returned.min(3)
				);
				self.end_op(&class, false, pre_size, &outcome);
				Some((bh, moved, reorg))
			}
			Err(e) => {
				// not C14's business, but the run must not silently lose coverage
				self.run.count("harness.foreign_block_rejected", 1);
				self.run.inconclusive(&format!(
					"seq {}: reference-legal foreign block rejected by chain: {:?}",
					self.seq, e
				));
				self.end_op("noop", false, pre_size, &format!("rejected:{}", eclass(&e)));
				None
			}
		}
	}

	fn op_foreign_block(&mut self) {
		let v = self.view();
		let head = self.head_hash();
		let n = self.prng.usize_below(3);
		let fresh = self.fresh_conflicts(&v.st.clone(), v.next_h, &v, n);
		let first = self.prng.chance(1, 2);
		let pct = *self.prng.pick(&[0u64, 30, 60, 100]);
		let mut cands: Vec<(Transaction, u64)> = vec![];
		if first {
			cands.extend(fresh.iter().cloned().map(|t| (t, 100)));
		}
		cands.extend(v.txpool.iter().cloned().map(|t| (t, pct)));
		cands.extend(v.stempool.iter().cloned().map(|t| (t, pct / 2)));
		if !first {
			cands.extend(fresh.iter().cloned().map(|t| (t, 100)));
		}
		if self.prng.chance(1, 3) {
			if let Some((t, _)) = self.gen_valid(&v) {
				cands.push((t, 100));
			}
		}
		self.run.count("foreign.fresh_conflicting_candidates", fresh.len() as u64);
		let d = 1000 + self.prng.below(500);
		self.deliver_foreign("foreign_block", head, &cands, d, fresh.len());
	}

	/// Header-first propagation / header sync: the headers of one or two honest empty blocks on the head are announced
	/// without their bodies, so the header chain runs ahead of the body chain. What the pool admits and offers for
	/// mining is decided by the BODY chain: right afterwards something is submitted that only becomes mineable at the
	/// height the header chain has already reached.
	fn op_header_ahead(&mut self) {
		let head = self.head_hash();
		let n = 1 + self.prng.usize_below(2);
		self.begin_op("header_ahead", format!("{} header(s) on {} without bodies", n, head));
		let pre_size = self.pool.read().txpool.size();
		let mut parent = head;
		let mut announced = 0;
		for _ in 0..n {
			let k = self.w.key(self.next_key);
			self.next_key += 1;
			let d = 1000 + self.prng.below(500);
			let b = match self.ledger.make_block(&self.w, &mut self.prng, &parent, &[], &k, PowMode::Skip { difficulty: d }, 60) {
				Ok(b) => b,
				Err(_) => break,
			};
			match self.chain.process_block_header(&b.header, Options::SKIP_POW | self.base_opts) {
				Ok(()) => announced += 1,
				Err(_) => break,
			}
			parent = b.hash();
		}
		self.run.count("headers_announced_without_bodies", announced);
		self.end_op("header_ahead", false, pre_size, &format!("announced{}", announced));
		if self.stop || announced == 0 {
			return;
		}
		// lock height / maturity just beyond the body chain's next height
		let v = self.view();
		let free = self.free_coins(&v);
		if let Some(c) = free.first().cloned() {
			let lock = v.next_h + 1 + self.prng.below(announced);
			let (fee, shift) = self.good_fee(1, 1, c.value);
			let src = self.rand_src();
			if let Some((tx, _)) = self.mk_tx(&[c], 1, fee, shift, Some(lock), 0) {
				self.run.count("locked_beyond_the_body_chain_while_the_header_chain_is_ahead", 1);
				self.submit(Submission {
					kind: "immature",
					eff: tx.clone(),
					tx,
					label: Label::Unmineable,
					stem: false,
					src,
					desc: format!("height-locked at {} with the body chain's next block at {} and the header chain {} ahead", lock, v.next_h, announced),
				});
				if !self.stop {
					self.want_real_mine();
				}
			}
		}
	}

	fn op_reorg(&mut self, lower: bool) {
		let kind: &'static str = if lower { "reorg_lower" } else { "reorg" };
		if lower && self.prng.chance(2, 3) {
			// something that is mineable exactly from the next height on
			self.submit_boundary();
			if self.stop {
				return;
			}
		}
		let tip = self.chain.head().expect("head");
		let avail = tip.height.saturating_sub(self.setup_height);
		let kmax = avail.min(3);
		if (lower && kmax < 2) || kmax < 1 {
			self.run.count("skip.reorg_too_shallow", 1);
			return self.op_foreign_block();
		}
		let k = if lower {
			self.prng.range(2, kmax)
		} else {
			self.prng.range(1, kmax)
		} as usize;
		let m = if lower {
			self.prng.range(1, k as u64 - 1) as usize
		} else {
			k + self.prng.usize_below(2)
		};
		let head = tip.last_block_h;
		let anc = self.ledger.ancestry(&head);
		let fp = anc[anc.len() - 1 - k];
		let mut replaced_txs: Vec<Transaction> = vec![];
		for bh in &anc[anc.len() - k..] {
			if let Some(t) = self.block_txs.get(bh) {
				replaced_txs.extend(t.iter().cloned());
			}
		}
		let head_td = tip.total_difficulty.to_num();
		let mut td = self.ledger.get(&fp).total_difficulty;
		let trigger = if m > 1 && self.prng.chance(1, 4) {
			self.prng.usize_below(m - 1)
		} else {
			m - 1
		};
		let p_replaced = *self.prng.pick(&[0u64, 50, 100]);
		let p_pool = *self.prng.pick(&[0u64, 30, 70]);
		let mut parent = fp;
		for i in 0..m {
			if self.stop {
				return;
			}
			let v = self.view();
			let st = self.ledger.state_at(&parent);
			let n = self.prng.usize_below(2);
			let fresh = self.fresh_conflicts(&st, st.height + 1, &v, n);
			let mut cands: Vec<(Transaction, u64)> = vec![];
			cands.extend(fresh.iter().cloned().map(|t| (t, 100)));
			cands.extend(replaced_txs.iter().cloned().map(|t| (t, p_replaced)));
			cands.extend(v.txpool.iter().cloned().map(|t| (t, p_pool)));
			let cur_head_td = self.chain.head().map(|t| t.total_difficulty.to_num()).unwrap_or(head_td);
			let d = if i < trigger {
				1 + self.prng.below(3)
			} else if i == trigger {
				cur_head_td.saturating_sub(td) + 1 + self.prng.below(100)
			} else {
				1000 + self.prng.below(500)
			};
			match self.deliver_foreign(kind, parent, &cands, d, fresh.len()) {
				Some((bh, _, reorg)) => {
					parent = bh;
					td += d;
					if reorg && lower {
						// let the chain judge the mineable set at the lower height right away
						self.force_mine = true;
					}
				}
				None => return,
			}
		}
	}

	/// What the reorg cache hands back. A fluffed transaction T spends the confirmed coins X and W; a block then spends W
	/// through another transaction (T leaves the txpool, X stays unspent); a stem transaction S spending X is admitted;
	/// a heavier sibling of that block reorganises it away, and the pool replays its cache of recently accepted
	/// transactions - T among them - on the new head. Whatever it decides about T, the stem transactions must still be
	/// jointly valid with the public pool afterwards (the invariants run after every step).
	fn op_reorg_cache_replay(&mut self) {
		let v = self.view();
		let free = self.free_coins(&v);
		if free.len() < 2 {
			self.run.count("skip.reorg_cache_replay_no_coins", 1);
			return;
		}
		let (x, wc) = (free[0].clone(), free[1].clone());
		let total = x.value + wc.value;
		let (fee, shift) = self.good_fee(2, 1, total);
		let t = match self.mk_tx(&[x.clone(), wc.clone()], 1, fee, shift, None, 0) {
			Some((t, _)) => t,
			None => return,
		};
		let t_kernel = t.kernels()[0].hash();
		let src = self.rand_src();
		self.submit(Submission {
			kind: "valid",
			eff: t.clone(),
			tx: t,
			label: Label::Valid,
			stem: false,
			src,
			desc: "T: spends X and W (reorg cache scenario)".into(),
		});
		let in_txpool = |h: &Harness, k: &Hash| h.pool.read().txpool.entries.iter().any(|e| e.tx.kernels().iter().any(|x| x.hash() == *k));
		if self.stop || !in_txpool(self, &t_kernel) {
			self.run.count("skip.reorg_cache_replay_T_not_admitted", 1);
			return;
		}
		// a block on the head spending W through another transaction
		let head = self.head_hash();
		let wfee = self.min_fee(1, 1).max(1);
		let tw = match self.mk_tx(&[wc], 1, wfee, 0, None, 0) {
			Some((t, _)) => t,
			None => return,
		};
		let d1 = 1000 + self.prng.below(500);
		let first = match self.deliver_foreign("foreign_block", head, &[(tw, 100)], d1, 1) {
			Some((bh, true, _)) => bh,
			_ => {
				self.run.count("skip.reorg_cache_replay_block_not_head", 1);
				return;
			}
		};
		if self.stop {
			return;
		}
		if in_txpool(self, &t_kernel) {
			// the block did not carry the conflicting spend (selection declined it)
			self.run.count("skip.reorg_cache_replay_T_still_pooled", 1);
			return;
		}
		// S: stem transaction spending X
		let (sfee, sshift) = self.good_fee(1, 1, x.value);
		let s_tx = match self.mk_tx(&[x], 1, sfee, sshift, None, 0) {
			Some((t, _)) => t,
			None => return,
		};
		let src = self.rand_src();
		self.submit(Submission {
			kind: "valid",
			eff: s_tx.clone(),
			tx: s_tx,
			label: Label::Valid,
			stem: true,
			src,
			desc: "S: stem transaction spending X after T was dropped (reorg cache scenario)".into(),
		});
		if self.stop {
			return;
		}
		// heavier sibling of the block: T comes back from the reorg cache
		let _ = first;
		let d2 = d1 + 1 + self.prng.below(100);
		if let Some((_, true, true)) = self.deliver_foreign("reorg", head, &[], d2, 0) {
			self.run.count("reorg_cache_replays_with_a_stem_spender_of_the_same_coin", 1);
			if in_txpool(self, &t_kernel) {
				self.run.count("reorg_cache_replay.T_back_in_the_txpool", 1);
			}
		}
	}

	/// A transaction that becomes mineable exactly at the next height: spend of a
	/// coinbase maturing there, or a kernel locked to that height.
	fn submit_boundary(&mut self) {
		let v = self.view();
		let mat = global::coinbase_maturity();
		let free = self.free_coins(&v);
		let just: Vec<Coin> = free
			.iter()
			.filter(|c| {
				c.coinbase
					&& v.st
						.utxo
						.get(&c.commit)
						.map(|&i| v.st.outs[i].height + mat == v.next_h)
						.unwrap_or(false)
			})
			.cloned()
			.collect();
		let src = self.rand_src();
		if !just.is_empty() && self.prng.chance(1, 2) {
			let c = just[0].clone();
			let (fee, shift) = self.good_fee(1, 1, c.value);
			if let Some((tx, _)) = self.mk_tx(&[c], 1, fee, shift, None, 0) {
				self.submit(Submission {
					kind: "immature",
					eff: tx.clone(),
					tx,
					label: Label::Valid,
					stem: false,
					src,
					desc: "spend of a coinbase maturing exactly at the next height".into(),
				});
			}
		} else if !free.is_empty() {
			let c = self.prng.pick(&free).clone();
			let (fee, shift) = self.good_fee(1, 1, c.value);
			if let Some((tx, _)) = self.mk_tx(&[c], 1, fee, shift, Some(v.next_h), 0) {
				self.submit(Submission {
					kind: "immature",
					eff: tx.clone(),
					tx,
					label: Label::Valid,
					stem: false,
					src,
					desc: format!("height-locked exactly at the next height {}", v.next_h),
				});
			}
		}
	}

	fn pick_op(&mut self) -> &'static str {
		// (kind, weight) per profile
		let w: &[(&'static str, u64)] = match self.profile {
			1 => &[
				("valid", 26), ("dependent", 14), ("chain3", 6), ("conflict", 4), ("duplicate", 3),
				("agg_pooled_new", 3), ("agg_two_pooled", 2), ("agg_two_new", 3), ("agg_low_remainder", 2),
				("low_fee", 9), ("overweight", 2), ("invalid", 5), ("immature", 3), ("stem_resubmit", 1),
				("fluff", 2), ("expire", 1), ("mine", 5), ("foreign_block", 4), ("reorg", 3), ("reorg_lower", 1), ("header_ahead", 2),
				("fill", 4),
			],
			2 => &[
				("valid", 14), ("dependent", 24), ("chain3", 14), ("conflict", 4), ("duplicate", 3),
				("agg_pooled_new", 4), ("agg_two_pooled", 3), ("agg_two_new", 3), ("agg_low_remainder", 2),
				("low_fee", 6), ("overweight", 1), ("invalid", 4), ("immature", 3), ("stem_resubmit", 1),
				("fluff", 2), ("expire", 1), ("mine", 6), ("foreign_block", 4), ("reorg", 3), ("reorg_lower", 1), ("header_ahead", 2),
				("fill", 3),
			],
			3 => &[
				("valid", 20), ("dependent", 10), ("chain3", 5), ("conflict", 4), ("duplicate", 3),
				("agg_pooled_new", 3), ("agg_two_pooled", 2), ("agg_two_new", 2), ("agg_low_remainder", 1),
				("low_fee", 4), ("overweight", 1), ("invalid", 3), ("immature", 5), ("stem_resubmit", 1),
				("fluff", 2), ("expire", 1), ("mine", 10), ("foreign_block", 8), ("reorg", 10), ("reorg_lower", 4), ("header_ahead", 2),
				("fill", 1),
			],
			4 => &[
				("valid", 22), ("dependent", 14), ("chain3", 5), ("conflict", 5), ("duplicate", 5),
				("agg_pooled_new", 3), ("agg_two_pooled", 2), ("agg_two_new", 3), ("agg_low_remainder", 1),
				("low_fee", 5), ("overweight", 1), ("invalid", 4), ("immature", 3), ("stem_resubmit", 5),
				("fluff", 7), ("expire", 4), ("mine", 6), ("foreign_block", 5), ("reorg", 3), ("reorg_lower", 1), ("header_ahead", 2),
				("fill", 2),
			],
			_ => &[
				("valid", 22), ("dependent", 12), ("chain3", 5), ("conflict", 5), ("duplicate", 4),
				("agg_pooled_new", 4), ("agg_two_pooled", 3), ("agg_two_new", 3), ("agg_low_remainder", 2),
				("low_fee", 6), ("overweight", 2), ("invalid", 5), ("immature", 4), ("stem_resubmit", 2),
				("fluff", 3), ("expire", 2), ("mine", 8), ("foreign_block", 6), ("reorg", 4), ("reorg_lower", 1), ("header_ahead", 2),
				("fill", 2),
			],
		};
		let total: u64 = w.iter().map(|x| x.1).sum();
		let mut r = self.prng.below(total);
		for (k, wt) in w {
			if r < *wt {
				return k;
			}
			r -= wt;
		}
		"valid"
	}

	fn run_ops(&mut self, n_target: usize) {
		// most sequences switch to a "fluff" epoch so that stem txs stay in the stempool;
		// the others keep the initial "stem" epoch where (no relay peer) every stem tx is fluffed at once
		if self.prng.chance(7, 10) {
			self.net.next_epoch();
			self.fluff_epoch = true;
		}
		self.run.count(
			if self.fluff_epoch { "sequences.fluff_epoch" } else { "sequences.stem_epoch_no_relay" },
			1,
		);
		let boundary_at = 5 + self.prng.usize_below(n_target.max(6) - 5);
		let mut boundary_done = false;
		let replay_at = 3 + self.prng.usize_below(n_target.max(4) - 3);
		let mut replay_done = false;
		let stem_chain_at = 2 + self.prng.usize_below(n_target.max(3) - 2);
		let mut stem_chain_done = false;
		while self.n_ops < n_target && !self.stop {
			if Instant::now() > self.shared.deadline {
				self.run.count("sequences_truncated_by_deadline", 1);
				break;
			}
			if !boundary_done && self.n_ops >= boundary_at {
				boundary_done = true;
				self.op_weight_boundary();
				continue;
			}
			if !stem_chain_done && self.n_ops >= stem_chain_at {
				stem_chain_done = true;
				self.op_stem_chain_conflict();
				continue;
			}
			if !replay_done && self.n_ops >= replay_at {
				replay_done = true;
				self.op_reorg_cache_replay();
				continue;
			}
			if self.force_mine {
				self.force_mine = false;
				self.op_mine();
				continue;
			}
			if self.fill_remaining > 0 {
				self.fill_remaining -= 1;
				if self.prng.chance(2, 3) {
					let v = self.view();
					if let Some((tx, _)) = self.gen_valid(&v) {
						let src = self.rand_src();
						self.submit(Submission {
							kind: "valid",
							eff: tx.clone(),
							tx,
							label: Label::Valid,
							stem: false,
							src,
							desc: "fresh spend (fill to capacity)".into(),
						});
					} else {
						self.fill_remaining = 0;
					}
				} else {
					self.op_dependent(true);
				}
				continue;
			}
			match self.pick_op() {
				"valid" => self.op_valid("valid"),
				"conflict" => self.op_conflict(),
				"dependent" => self.op_dependent(false),
				"chain3" => self.op_chain3(),
				"duplicate" => self.op_duplicate(),
				k @ ("agg_pooled_new" | "agg_two_pooled" | "agg_two_new" | "agg_low_remainder") => {
					self.op_aggregate(k)
				}
				"low_fee" => self.op_low_fee(),
				"overweight" => self.op_overweight(),
				"invalid" => self.op_invalid(),
				"immature" => self.op_immature(),
				"stem_resubmit" => self.op_stem_resubmit(),
				"fluff" => self.op_fluff(),
				"expire" => self.op_expire(),
				"mine" => self.op_mine(),
				"foreign_block" => self.op_foreign_block(),
				"reorg" => self.op_reorg(false),
				"reorg_lower" => self.op_reorg(true),
				"header_ahead" => self.op_header_ahead(),
				"fill" => {
					let size = self.pool.read().txpool.size();
					self.fill_remaining = (self.cfg.max_pool_size + 3).saturating_sub(size).min(16);
					self.run.count("fill_bursts", 1);
				}
				_ => {}
			}
		}
		self.run.count("sequences", 1);
		self.run.count(&format!("sequences.profile{}", self.profile), 1);
		if self.n_ops >= 100 {
			self.run.count("sequences_with_100_or_more_ops", 1);
		}
	}
}

fn run_sequence(run: &Run, shared: &Shared, seq: u64, root: &str) {
	let dir = format!("{}/s{}", root, seq);
	let _ = std::fs::create_dir_all(&dir);
	let r = catch(|| {
		let mut h = match Harness::new(run, shared, seq, &dir) {
			Ok(h) => h,
			Err(e) => {
				run.count("harness.setup_failed", 1);
				run.inconclusive(&format!("seq {}: setup failed: {}", seq, e));
				return;
			}
		};
		let n_target = if shared.small {
			20 + h.prng.usize_below(15)
		} else {
			30 + h.prng.usize_below(121)
		};
		h.run_ops(n_target);
	});
	if let Err(p) = r {
		// a panic outside the monitored pool calls: harness or chain problem, not a C14 verdict
		run.count("harness.sequence_panicked", 1);
		run.inconclusive(&format!(
			"seq {}: panic outside monitored calls: {} at {}",
			seq, p.message, p.location
		));
	}
	let _ = std::fs::remove_dir_all(&dir);
}

fn parse_only_seq(run: &Run) -> Option<u64> {
	let mut only_seq: Option<u64> = run.arg_value("--only-seq").and_then(|s| s.parse().ok());
	if let Some(p) = &run.replay {
		if let Ok(s) = std::fs::read_to_string(p) {
			if let Ok(v) = serde_json::from_str::<Value>(&s) {
				if let Some(q) = v.pointer("/case/seq").and_then(|x| x.as_u64()) {
					only_seq = Some(q);
				}
			}
		}
	}
	only_seq
}

/// Run the sequences `first, first+step, ...` until the budget is used up.
fn run_shard(run: &Run, first: u64, step: u64, budget_s: u64, max_seqs: u64, small: bool) {
	init_thread(true);
	let scratch = Scratch::new(&format!("c14-{}", first));
	let root = scratch.path.to_string_lossy().to_string();
	let shared = Shared {
		deadline: Instant::now() + StdDuration::from_secs(budget_s),
		next_seq: AtomicU64::new(0),
		max_seqs,
		small,
	};
	let mut seq = first;
	let mut n = 0;
	while Instant::now() < shared.deadline && n < shared.max_seqs {
		run_sequence(run, &shared, seq, &root);
		seq += step;
		n += 1;
		shared.next_seq.store(n, Ordering::SeqCst);
	}
	drop(scratch);
}

fn main() {
	let run = Run::from_env("C14", "exploration");
	init_globals(true);
	let san = run.args.iter().any(|a| a == "--san");
	let only_seq = parse_only_seq(&run);
	// per-worker budget (wall seconds, sequences)
	let (mut budget_s, max_seqs): (u64, u64) = run.tier.pick((78, 60), (640, 600));
	if let Some(b) = run.arg_value("--budget").and_then(|s| s.parse().ok()) {
		budget_s = b; // development override
	}

	if let Some((i, n)) = run.worker_shard() {
		run_shard(&run, i as u64, n as u64, budget_s, max_seqs, false);
		run.finish_worker();
	}

	run.set_rule(
		"Each sequence: fresh AutomatedTesting chain (SKIP_POW blocks from the reference ledger's block factory: 5-7 coinbase \
		 blocks + 5-6 blocks splitting a coinbase into 10 coins), real TransactionPool wired with the real PoolToChainAdapter, \
		 PoolToNetAdapter (empty Peers) and ChainToPoolAndNetAdapter (chain adapter => reconcile_block / reorg cache run as in the node); \
		 PoolConfig max_pool_size 8..12 (one profile 50), mineable_max_weight in {60,100,150,250,40000}, accept fee base in {500000,1000,7}. \
		 30-150 seeded random operations (6 profiles: general, capacity, dependency chains, reorg-heavy, stem-heavy, big pool/small mineable weight): \
		 add_to_pool of valid / conflicting / dependent / 3-chains (random fee rates, fee shifts) / duplicates / aggregates (pooled+new, two pooled, two new, pooled+low-fee) / \
		 low-fee (min-1, min/2, shifted) / overweight (11-12 outputs) / invalid (empty, unbalanced, bad signature x2, swapped proofs) / immature (coinbase, lock height; and exact boundaries) \
		 as stem or fluff, stem re-submission, dandelion-monitor fluff and embargo expiry; mine a block from prepare_mineable_transactions(); foreign blocks with subsets of pool \
		 txs and fresh conflicting spends; reorgs (depth 1-3, equal/longer fork, and shorter-but-heavier fork) re-including / omitting replaced txs; fill bursts to force eviction. \
		 After EVERY operation I1-I3 + I4 scan are re-evaluated from scratch (reference ledger replay + aggregate/validate/Chain::validate_tx), I5 by dry-run after 1/10 of the operations \
		 and by a really mined + processed block in `mine` operations. Sequences are sharded over 16 worker processes (sequence s is a function of (seed, s) only). \
		 An evaluation = one executed operation; its signature is \
		 (previous op kind > op kind, txpool size class {0,1-3,4-7,8+,over capacity}, stem flag, outcome class incl. error variant / eviction / block status); distinct signatures are counted.",
	);
	run.assume("Blocks are delivered with Options::SKIP_POW (difficulty chosen by the harness); proof of work is out of scope for C14.");
	run.assume("p2p::Peers is real but has no connected peers: broadcasts reach nobody, stem relay always fails over to fluff in a stem epoch.");
	run.assume("Core primitives (Transaction::validate, aggregate, secp256k1) are trusted when evaluating the invariants; UTXO membership is judged by the independent reference ledger and, additionally, by Chain::validate_tx.");
	run.assume("Range proofs / kernel signatures of pool entries are verified once per distinct entry (standalone validate when first seen) and again in 1/4 of the joint checks; the other joint checks verify sums, cut-through, ordering and UTXO membership only.");

	let scale: u64;
	if let Some(q) = only_seq {
		run_shard(&run, q, 1, 3600, 1, san);
		scale = 0;
	} else if san {
		run_shard(&run, 0, 1, 120, 3, true);
		scale = 0;
	} else {
		let n_workers = std::thread::available_parallelism()
			.map(|n| n.get())
			.unwrap_or(4)
			.clamp(2, 16);
		run.spawn_workers(n_workers, &[], budget_s + 120);
		scale = run.tier.pick(1, 6);
	}

	let c = |n: &str| run.counter(n);
	run.require("sequences", c("sequences"), 1.max(16 * scale));
	run.require("invariant_evaluations", c("invariant_evaluations"), 10.max(800 * scale));
	run.require("joint_checks_full_validate", c("joint_checks_full_validate"), 100 * scale);
	run.require("i3_evaluations_nonempty_stempool", c("i3_evaluations_nonempty_stempool"), 100 * scale);
	for k in KINDS {
		let min = match *k {
			"reorg_lower" | "overweight" | "agg_low_remainder" | "stem_resubmit" | "expire" | "fluff" | "header_ahead" => 3 * scale,
			_ => 8 * scale,
		};
		run.require(&format!("op.{}", k), c(&format!("op.{}", k)), min);
	}
	run.require("weight_boundary.mineable_sets_assembled", c("weight_boundary.mineable_sets_assembled"), 15 * scale);
	run.require("admitted", c("admitted"), 300 * scale);
	run.require("admitted_to_stempool", c("admitted_to_stempool"), 20 * scale);
	run.require("mined_blocks_accepted", c("mined_blocks_accepted"), 25 * scale);
	run.require("mined_blocks_accepted_nonempty", c("mined_blocks_accepted_nonempty"), 15 * scale);
	run.require("mined_blocks_built_by_mine_block_get_block_accepted_nonempty", c("mined_blocks_built_by_mine_block_get_block_accepted_nonempty"), 5 * scale);
	run.require("foreign_blocks_accepted", c("foreign_blocks_accepted"), 40 * scale);
	run.require("reorgs", c("reorgs"), 10 * scale);
	run.require("reorgs_to_lower_height", c("reorgs_to_lower_height"), 2 * scale);
	run.require(
		"reorg.txpool_entries_returned_from_cache",
		c("reorg.txpool_entries_returned_from_cache"),
		5 * scale,
	);
	run.require("evictions", c("evictions"), 10 * scale);
	for (g, m) in [("low_fee", 15u64), ("overweight", 3), ("invalid", 15)] {
		let n = format!("refused_for_that_reason.{}", g);
		run.require(&n, c(&n), m * scale);
	}
	run.require("i5_dry_runs", c("i5_dry_runs"), 50 * scale);
	run.finish();
}
