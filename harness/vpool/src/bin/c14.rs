fn main() { vcommon::hello(); }
