//! C17 (node wiring) — concurrent use of one chain THROUGH THE NODE'S OWN WIRING.
//!
//! `c17` shares a bare `Chain` between threads. A running node never does that: peers reach the chain through
//! `NetToChainAdapter`, every accepted block calls back into the transaction pool (`ChainToPoolAndNetAdapter`), the
//! pool calls back into the chain (`PoolToChainAdapter`) while it holds its own lock, and the miner takes the pool
//! lock and then the chain locks (`mine_block::get_block`, hook H7). This binary builds exactly that wiring (as
//! `servers/src/grin/server.rs` does) and lets peers, transaction relays, a miner and look-up threads loose on it.
//!
//! Oracles: per-call panic monitor; progress watchdog (no thread progresses for 60 s -> gdb backtraces, the run is
//! re-executed alone, only a reproduced hang is a violation); answers of the handlers that must hold under every
//! interleaving; HeadMove event log (hook H4) is a chain of strictly increasing work; after the threads joined the
//! head is a max-work block of everything stored, the state equals the reference ledger's replay of that chain,
//! `validate(false)` passes and the pool is the pool some sequential order would leave: jointly valid against the
//! final head, no two entries spending the same output.

use grin_chain::types::{BlockStatus, ChainAdapter, NoopAdapter, Options};
use grin_chain::{Chain, SyncState, SyncStatus};
use grin_core::core::hash::{Hash, Hashed};
use grin_core::core::transaction::{self, Weighting};
use grin_core::core::{Block, CompactBlock, Transaction};
use grin_core::global;
use grin_core::pow::Difficulty;
use grin_p2p::store::PeerStore;
use grin_core::ser::ProtocolVersion;
use grin_p2p::types::{Capabilities, Direction, PeerAddr, PeerInfo, PeerLiveInfo};
use grin_p2p::{ChainAdapter as NetChainAdapter, DummyAdapter, P2PConfig, Peers};
use grin_pool::{DandelionConfig, PoolConfig, TransactionPool};
use grin_servers::common::adapters::{ChainToPoolAndNetAdapter, NetToChainAdapter, PoolToChainAdapter, PoolToNetAdapter};
use grin_servers::common::types::ServerConfig;
use grin_servers::ServerTxPool;
use grin_util::verif_hooks;
use grin_util::RwLock;
use serde_json::{json, Value};
use std::collections::{BTreeMap, HashMap, HashSet};
use std::sync::atomic::{AtomicBool, AtomicU64, AtomicUsize, Ordering};
use std::sync::{Arc, Barrier, Mutex};
use std::time::{Duration, Instant};
use vcommon::forktree::{gen_history, shape_sig, GenBlock, Hist, TreeCfg};
use vcommon::monitor::catch;
use vcommon::prng::fnv64;
use vcommon::snapshot::{compare_with_ref, snapshot};
use vcommon::world::{init_globals, init_thread, mine, open_chain_with};
use vcommon::{Prng, Run, Scratch};

type NetAdapter = NetToChainAdapter<PoolToChainAdapter, PoolToNetAdapter>;
type PoolChainAdapter = ChainToPoolAndNetAdapter<PoolToChainAdapter, PoolToNetAdapter>;

// ------------------------------------------------------------------ progress watchdog (deadlock oracle)

const MAX_SLOTS: usize = 32;
#[allow(clippy::declare_interior_mutable_const)]
const ZERO64: AtomicU64 = AtomicU64::new(0);
static PROGRESS: [AtomicU64; MAX_SLOTS] = [ZERO64; MAX_SLOTS];
static CUR_OP: [AtomicU64; MAX_SLOTS] = [ZERO64; MAX_SLOTS];
static MON_ACTIVE: AtomicBool = AtomicBool::new(false);
static MON_STOP: AtomicBool = AtomicBool::new(false);
static MON_RUN: AtomicU64 = AtomicU64::new(0);

const OP_NAMES: &[&str] = &[
	"idle",
	"block_received",
	"header_received",
	"compact_block_received",
	"transaction_received",
	"get_block(miner)",
	"process_block(mined)",
	"lookup",
	"waiting_at_barrier",
	"setup",
	"main_waiting_for_threads",
	"final_redelivery",
	"snapshot",
	"validate_full",
	"pool_checks",
	"finished",
	"reference_node",
];
const OP_IDLE: u64 = 0;
const OP_BLOCK: u64 = 1;
const OP_HEADER: u64 = 2;
const OP_COMPACT: u64 = 3;
const OP_TX: u64 = 4;
const OP_GET_BLOCK: u64 = 5;
const OP_MINED: u64 = 6;
const OP_LOOKUP: u64 = 7;
const OP_BARRIER: u64 = 8;
const OP_SETUP: u64 = 9;
const OP_JOINING: u64 = 10;
const OP_FINAL: u64 = 11;
const OP_SNAPSHOT: u64 = 12;
const OP_VALIDATE: u64 = 13;
const OP_POOL: u64 = 14;
const OP_FINISHED: u64 = 15;
const OP_REF: u64 = 16;

fn tick(slot: usize, op: u64) {
	CUR_OP[slot].store(op, Ordering::SeqCst);
	PROGRESS[slot].fetch_add(1, Ordering::SeqCst);
}

fn op_name(op: u64) -> &'static str {
	OP_NAMES.get(op as usize).copied().unwrap_or("?")
}

/// Second look at a stalled process (see `vcommon::vcommon::monitor::deadlock_confirmed_in_place`).
fn confirm_in_place(gdb_file: &str) -> (bool, String) {
	if gdb_file.is_empty() {
		return (false, "no thread dump".into());
	}
	let txt = std::fs::read_to_string(gdb_file).unwrap_or_default();
	let progress = || PROGRESS.iter().map(|p| p.load(Ordering::SeqCst)).fold(0u64, |a, b| a.wrapping_add(b));
	vcommon::monitor::deadlock_confirmed_in_place(&progress, &txt, 20)
}

fn monitor(run: &Run, hang_s: u64, use_gdb: bool) {
	let mut last_sum = 0u64;
	let mut last_change = Instant::now();
	loop {
		std::thread::sleep(Duration::from_millis(250));
		if MON_STOP.load(Ordering::SeqCst) {
			return;
		}
		if !MON_ACTIVE.load(Ordering::SeqCst) {
			last_change = Instant::now();
			continue;
		}
		let sum: u64 = PROGRESS.iter().map(|p| p.load(Ordering::SeqCst)).fold(0u64, |a, b| a.wrapping_add(b));
		if sum != last_sum {
			last_sum = sum;
			last_change = Instant::now();
			continue;
		}
		if last_change.elapsed().as_secs() < hang_s {
			continue;
		}
		let k = MON_RUN.load(Ordering::SeqCst);
		let mut ops: Vec<String> = vec![];
		for s in 0..MAX_SLOTS {
			let op = CUR_OP[s].load(Ordering::SeqCst);
			if op != OP_IDLE && op != OP_FINISHED && op != OP_JOINING {
				ops.push(op_name(op).to_string());
			}
		}
		ops.sort();
		let mut gdb_note = "gdb not attempted".to_string();
		let mut gdb_file = String::new();
		if use_gdb {
			let rdir = vcommon::ctx::verif_root().join("replay").join("C17");
			let _ = std::fs::create_dir_all(&rdir);
			let path = rdir.join(format!("wiring-hang-seed{}-k{}-pid{}.txt", run.seed, k, std::process::id()));
			let st = match std::fs::File::create(&path) {
				Ok(f) => {
					let f2 = f.try_clone();
					let mut c = std::process::Command::new("timeout");
					c.arg("120")
						.arg("gdb")
						.arg("-p")
						.arg(std::process::id().to_string())
						.arg("-batch")
						.arg("-ex")
						.arg("thread apply all bt")
						.stdin(std::process::Stdio::null())
						.stdout(f);
					if let Ok(f2) = f2 {
						c.stderr(f2);
					}
					c.status().map_err(|e| e.to_string())
				}
				Err(e) => Err(e.to_string()),
			};
			match st {
				Ok(status) => {
					let txt = std::fs::read_to_string(&path).unwrap_or_default();
					gdb_file = path.to_string_lossy().to_string();
					gdb_note = if txt.contains("Thread ") && txt.contains("#0") {
						"backtraces written".to_string()
					} else {
						format!("gdb ended with {:?} without backtraces", status.code())
					};
				}
				Err(e) => gdb_note = format!("gdb could not be started: {}", e),
			}
		}
		let (in_place, seen) = confirm_in_place(&gdb_file);
		let info = json!({"k": k, "stuck_ops": ops, "no_progress_s": hang_s, "gdb": gdb_note, "gdb_file": gdb_file, "confirmed_in_place": in_place, "confirmation": seen});
		eprintln!("C17W-HANG {}", info);
		run.count("hangs_detected", 1);
		run.extra("hang", info);
		run.finish_worker();
	}
}

// ------------------------------------------------------------------ chain adapter: the node's own, with a recorder in front

struct TracingAdapter {
	inner: Arc<PoolChainAdapter>,
	events: Mutex<Vec<(Hash, &'static str, u64, String)>>,
}

impl ChainAdapter for TracingAdapter {
	fn block_accepted(&self, block: &Block, status: BlockStatus, opts: Options) {
		let s = match status {
			BlockStatus::Next { .. } => "Next",
			BlockStatus::Fork { .. } => "Fork",
			BlockStatus::Reorg { .. } => "Reorg",
		};
		self.events
			.lock()
			.unwrap()
			.push((block.hash(), s, block.header.height, format!("{:?}", std::thread::current().id())));
		self.inner.block_accepted(block, status, opts);
	}
}

// ------------------------------------------------------------------ world

struct WorldData {
	hist: Mutex<Hist>,
	genesis: Block,
	all: Vec<GenBlock>,
	idx: HashMap<Hash, usize>,
	/// transactions cut out of the world's blocks: (block index, transaction)
	txs: Vec<(usize, Transaction)>,
	shape: String,
}

fn mix(a: u64, b: u64, c: u64) -> u64 {
	let mut x = a ^ b.wrapping_mul(0x9E37_79B9_7F4A_7C15) ^ c.wrapping_mul(0xD6E8_FEB8_6659_FD93);
	vcommon::prng::splitmix64(&mut x)
}

fn build_world(seed: u64, small: bool) -> WorldData {
	let mut p = Prng::new(seed ^ 0xC17_3141);
	let mut cfg = TreeCfg::small();
	cfg.n_invalid = 0;
	cfg.real_pow = true; // the net adapter delivers headers and compact blocks with Options::NONE
	cfg.fork_window = None;
	if small {
		cfg.trunk = 4;
		cfg.branches = 1;
		cfg.max_depth = 2;
	} else {
		cfg.trunk = 5 + p.usize_below(4);
		cfg.branches = 1 + p.usize_below(3);
		cfg.max_depth = 2 + p.usize_below(3);
	}
	cfg.tx_per_mille = 700;
	let mut h = gen_history(p.next_u64(), &cfg);
	let genesis = h.genesis.clone();
	let all = h.blocks.clone();
	let idx: HashMap<Hash, usize> = all.iter().enumerate().map(|(i, b)| (b.hash, i)).collect();
	let mut txs = vec![];
	for (i, gb) in all.iter().enumerate() {
		let b = &gb.block;
		let ins = b.inputs();
		if ins.is_empty() {
			continue;
		}
		let outs: Vec<_> = b.outputs().iter().filter(|o| !o.is_coinbase()).cloned().collect();
		let kerns: Vec<_> = b.kernels().iter().filter(|k| !k.is_coinbase()).cloned().collect();
		txs.push((i, Transaction::new(ins, &outs, &kerns).with_offset(b.header.total_kernel_offset.clone())));
	}
	// two transactions no block of the world contains, spending the oldest outputs still unspent at the best tip:
	// they can only ever end in the pool (or in a block the miner thread builds)
	{
		let allset: HashSet<Hash> = all.iter().map(|b| b.hash).collect();
		let (winner, _) = h.ledger.best_tip(&allset);
		let st = h.ledger.state_at(&winner);
		let mut cands: Vec<(u64, vcommon::world::Coin)> = h.spendable(&winner).into_iter().filter_map(|c| st.utxo.get(&c.commit).map(|&i| (st.outs[i].height, c))).collect();
		cands.sort_by(|a, b| a.0.cmp(&b.0).then(a.1.commit.0.cmp(&b.1.commit.0)));
		for (_, c) in cands.into_iter().take(2) {
			let tx = h.spend_tx(&[c], 1, None);
			txs.push((usize::MAX, tx));
		}
	}
	WorldData {
		shape: shape_sig(&h),
		hist: Mutex::new(h),
		genesis,
		all,
		idx,
		txs,
	}
}

/// Offset of the block's transaction part: total offset of the block minus its parent's.
fn fix_tx_offsets(w: &mut WorldData) {
	use grin_keychain::BlindingFactor;
	use grin_util::secp;
	let h = w.hist.lock().unwrap();
	for (i, tx) in w.txs.iter_mut() {
		if *i == usize::MAX {
			continue;
		}
		let b = &w.all[*i].block;
		let parent = h.ledger.header(&b.header.prev_hash).total_kernel_offset.clone();
		let total = b.header.total_kernel_offset.clone();
		let secp_inst = grin_util::static_secp_instance();
		let secp_l = secp_inst.lock();
		let mut pos = vec![];
		let mut neg = vec![];
		if total != BlindingFactor::zero() {
			pos.push(total.secret_key(&secp_l).unwrap());
		}
		if parent != BlindingFactor::zero() {
			neg.push(parent.secret_key(&secp_l).unwrap());
		}
		let off = if pos.is_empty() && neg.is_empty() {
			BlindingFactor::zero()
		} else {
			match secp_l.blind_sum(pos, neg) {
				Ok(k) => BlindingFactor::from_secret_key(k),
				Err(secp::Error::InvalidSecretKey) => BlindingFactor::zero(),
				Err(e) => panic!("blind_sum: {:?}", e),
			}
		};
		*tx = tx.clone().with_offset(off);
	}
}

// ------------------------------------------------------------------ node

struct Node {
	chain: Arc<Chain>,
	pool: ServerTxPool,
	net: Arc<NetAdapter>,
	tracer: Arc<TracingAdapter>,
	_peers: Arc<Peers>,
	_pool_net: Arc<PoolToNetAdapter>,
}

fn peer_info(n: u16) -> PeerInfo {
	PeerInfo {
		capabilities: Capabilities::default(),
		user_agent: "verif".to_string(),
		version: ProtocolVersion::local(),
		addr: PeerAddr(format!("127.0.0.1:{}", 20000 + n).parse().unwrap()),
		direction: Direction::Inbound,
		live_info: Arc::new(RwLock::new(PeerLiveInfo::new(Difficulty::min_dma()))),
	}
}

fn build_node(dir: &str, genesis: &Block, max_pool: usize) -> Result<Node, String> {
	let cfg = PoolConfig {
		accept_fee_base: 1,
		reorg_cache_period: 30,
		max_pool_size: max_pool,
		max_stempool_size: max_pool,
		mineable_max_weight: 250,
	};
	// --- wiring as in servers/src/grin/server.rs
	let pool_adapter = Arc::new(PoolToChainAdapter::new());
	let dcfg = DandelionConfig {
		epoch_secs: 600,
		embargo_secs: 180,
		aggregation_secs: 30,
		stem_probability: 0,
		always_stem_our_txs: true,
	};
	let pool_net = Arc::new(PoolToNetAdapter::new(dcfg));
	let pool: ServerTxPool = Arc::new(RwLock::new(TransactionPool::new(cfg, pool_adapter.clone(), pool_net.clone())));
	let chain_adapter = Arc::new(PoolChainAdapter::new(pool.clone(), vec![]));
	let tracer = Arc::new(TracingAdapter {
		inner: chain_adapter.clone(),
		events: Mutex::new(vec![]),
	});
	let chain = Arc::new(open_chain_with(&format!("{}/chain", dir), genesis, tracer.clone(), false)?);
	pool_adapter.set_chain(chain.clone());
	let store = PeerStore::new(&format!("{}/peers", dir)).map_err(|e| format!("PeerStore: {:?}", e))?;
	let peers = Arc::new(Peers::new(store, Arc::new(DummyAdapter {}), P2PConfig::default()));
	chain_adapter.init(peers.clone());
	pool_net.init(peers.clone());
	let sync_state = Arc::new(SyncState::new());
	sync_state.update(SyncStatus::NoSync);
	let net = Arc::new(NetAdapter::new(sync_state, chain.clone(), pool.clone(), ServerConfig::default(), vec![]));
	net.init(peers.clone());
	Ok(Node {
		chain,
		pool,
		net,
		tracer,
		_peers: peers,
		_pool_net: pool_net,
	})
}

// ------------------------------------------------------------------ run context

type Stats = BTreeMap<String, u64>;
fn inc(m: &mut Stats, k: &str) {
	*m.entry(k.to_string()).or_insert(0) += 1;
}

#[derive(Clone, Debug)]
enum Step {
	Block(usize),
	Header(usize),
	/// compact block; `relay_tx`: hand the block's transaction to the pool first (as a relaying peer would have)
	Compact(usize, bool),
}

struct Ctx<'a> {
	run: &'a Run,
	w: &'a WorldData,
	node: &'a Node,
	replay: Value,
	stats: Mutex<Stats>,
	thread_slots: Mutex<HashMap<String, usize>>,
	deadline: Instant,
	violations: AtomicU64,
	panics: AtomicU64,
	barrier: Barrier,
	submitters_left: AtomicUsize,
	/// blocks built by the miner thread and accepted by the chain (they join the reference ledger)
	mined: Mutex<Vec<Block>>,
	/// every hash the node may legitimately name: world blocks, genesis, mined blocks
	known: Mutex<HashSet<Hash>>,
}

impl<'a> Ctx<'a> {
	fn viol(&self, clause: &str, what: String) {
		self.violations.fetch_add(1, Ordering::SeqCst);
		self.run.violation(&format!("C17;world=wiring;clause={}", clause), &what, self.replay.clone());
	}
	fn panic(&self, op: &str, p: &vcommon::monitor::PanicReport) {
		self.panics.fetch_add(1, Ordering::SeqCst);
		self.viol(&format!("panic;op={};at={}", op, p.location), format!("{} panicked: {} at {}", op, p.message, p.location));
	}
	fn register(&self, slot: usize) {
		self.thread_slots.lock().unwrap().insert(format!("{:?}", std::thread::current().id()), slot);
	}
	fn merge(&self, s: Stats) {
		let mut g = self.stats.lock().unwrap();
		for (k, v) in s {
			*g.entry(k).or_insert(0) += v;
		}
	}
}

fn short_err<E: std::fmt::Debug>(e: &E) -> String {
	let s = format!("{:?}", e);
	s.split(|c: char| !(c.is_alphanumeric() || c == '_')).next().unwrap_or("").to_string()
}

// ------------------------------------------------------------------ peers

fn deliver(ctx: &Ctx, slot: usize, step: &Step, st: &mut Stats, pi: &PeerInfo) -> bool {
	let w = ctx.w;
	let net = &ctx.node.net;
	match step {
		Step::Block(i) => {
			tick(slot, OP_BLOCK);
			let b = w.all[*i].block.clone();
			inc(st, "deliveries.block_received");
			match catch(|| net.block_received(b, pi, Options::NONE)) {
				Err(p) => {
					ctx.panic("block_received", &p);
					false
				}
				Ok(Ok(true)) => ctx.node.chain.get_block(&w.all[*i].hash).is_ok(),
				Ok(Ok(false)) => {
					ctx.viol("honest_block_called_bad_data", format!("block_received answered false (peer would be banned) for the valid block {} at height {}", w.all[*i].hash, w.all[*i].block.header.height));
					false
				}
				Ok(Err(e)) => {
					inc(st, &format!("block_received.err:{}", short_err(&e)));
					false
				}
			}
		}
		Step::Header(i) => {
			tick(slot, OP_HEADER);
			let hd = w.all[*i].block.header.clone();
			inc(st, "deliveries.header_received");
			match catch(|| net.header_received(hd, pi)) {
				Err(p) => ctx.panic("header_received", &p),
				Ok(Ok(true)) => inc(st, "header_received.true"),
				Ok(Ok(false)) => {
					// bad data: only legitimate when the parent header is unknown (Orphan is not bad data) — never for these headers
					ctx.viol("honest_header_called_bad_data", format!("header_received answered false for the valid header {}", w.all[*i].hash));
				}
				Ok(Err(e)) => inc(st, &format!("header_received.err:{}", short_err(&e))),
			}
			true
		}
		Step::Compact(i, relay) => {
			if *relay {
				for (bi, tx) in &w.txs {
					if bi == i {
						tick(slot, OP_TX);
						inc(st, "deliveries.relayed_tx_before_compact_block");
						match catch(|| net.transaction_received(tx.clone(), false)) {
							Err(p) => ctx.panic("transaction_received", &p),
							Ok(Ok(true)) => inc(st, "relayed_tx.accepted"),
							Ok(_) => inc(st, if ctx.node.chain.validate_tx(tx).is_ok() { "relayed_tx.refused_although_valid_against_head" } else { "relayed_tx.refused_not_valid_against_head" }),
						}
					}
				}
			}
			tick(slot, OP_COMPACT);
			let cb: CompactBlock = w.all[*i].block.clone().into();
			let with_ids = !cb.kern_ids().is_empty();
			let unknown_before = ctx.node.chain.get_block(&w.all[*i].hash).is_err();
			let pool_has_all = with_ids && {
				let pool = ctx.node.pool.read();
				let (_, missing) = pool.retrieve_transactions(cb.hash(), cb.nonce, cb.kern_ids());
				missing.is_empty()
			};
			inc(st, "deliveries.compact_block_received");
			match catch(|| net.compact_block_received(cb, pi)) {
				Err(p) => {
					ctx.panic("compact_block_received", &p);
					false
				}
				Ok(Ok(true)) => {
					let stored = ctx.node.chain.get_block(&w.all[*i].hash).is_ok();
					if stored && with_ids {
						inc(st, "compact_block.with_kernel_ids_stored_afterwards");
						if unknown_before && pool_has_all {
							inc(st, "compact_block.hydrated_from_the_pool_and_accepted");
						}
					}
					stored
				}
				Ok(Ok(false)) => {
					ctx.viol("honest_compact_block_called_bad_data", format!("compact_block_received answered false for the compact form of the valid block {} (height {})", w.all[*i].hash, w.all[*i].block.header.height));
					false
				}
				Ok(Err(e)) => {
					inc(st, &format!("compact_block_received.err:{}", short_err(&e)));
					false
				}
			}
		}
	}
}

fn peer(ctx: &Ctx, slot: usize, plan: &[Step]) {
	init_thread(true);
	ctx.register(slot);
	let pi = peer_info(slot as u16);
	let mut st = Stats::new();
	tick(slot, OP_BARRIER);
	ctx.barrier.wait();
	let mut retry: Vec<usize> = vec![];
	for step in plan {
		if Instant::now() > ctx.deadline {
			inc(&mut st, "peer.deadline_hit");
			break;
		}
		if !deliver(ctx, slot, step, &mut st, &pi) {
			match step {
				Step::Block(i) | Step::Compact(i, _) => retry.push(*i),
				_ => {}
			}
		}
	}
	for i in retry {
		if Instant::now() > ctx.deadline {
			break;
		}
		inc(&mut st, "deliveries.retry");
		deliver(ctx, slot, &Step::Block(i), &mut st, &pi);
	}
	ctx.merge(st);
	ctx.submitters_left.fetch_sub(1, Ordering::SeqCst);
	tick(slot, OP_FINISHED);
}

// ------------------------------------------------------------------ transaction relays

fn tx_relay(ctx: &Ctx, slot: usize, seed: u64) {
	init_thread(true);
	ctx.register(slot);
	let mut p = Prng::new(seed);
	let mut st = Stats::new();
	tick(slot, OP_BARRIER);
	ctx.barrier.wait();
	let mut rounds = 0;
	while ctx.submitters_left.load(Ordering::SeqCst) > 0 && Instant::now() < ctx.deadline && rounds < 40 {
		rounds += 1;
		let mut order: Vec<usize> = (0..ctx.w.txs.len()).collect();
		p.shuffle(&mut order);
		for j in order {
			if ctx.submitters_left.load(Ordering::SeqCst) == 0 {
				break;
			}
			tick(slot, OP_TX);
			let tx = ctx.w.txs[j].1.clone();
			let stem = p.chance(1, 5);
			inc(&mut st, "deliveries.transaction_received");
			match catch(|| ctx.node.net.transaction_received(tx, stem)) {
				Err(pn) => ctx.panic("transaction_received", &pn),
				Ok(Ok(true)) => inc(&mut st, if stem { "tx.accepted_stem" } else { "tx.accepted" }),
				Ok(Ok(false)) => inc(&mut st, "tx.refused"),
				Ok(Err(e)) => inc(&mut st, &format!("tx.err:{}", short_err(&e))),
			}
			std::thread::sleep(Duration::from_millis(p.below(4)));
		}
	}
	ctx.merge(st);
	tick(slot, OP_FINISHED);
}

// ------------------------------------------------------------------ miner

fn miner(ctx: &Ctx, slot: usize, seed: u64) {
	init_thread(true);
	ctx.register(slot);
	let mut p = Prng::new(seed);
	let mut st = Stats::new();
	tick(slot, OP_BARRIER);
	ctx.barrier.wait();
	let mut submitted = 0;
	let mut n = 0;
	while ctx.submitters_left.load(Ordering::SeqCst) > 0 && Instant::now() < ctx.deadline && n < 400 {
		n += 1;
		tick(slot, OP_GET_BLOCK);
		inc(&mut st, "miner.get_block_calls");
		let r = catch(|| grin_servers::verif_export::get_block(&ctx.node.chain, &ctx.node.pool, None, None));
		let (mut b, _fees) = match r {
			Err(pn) => {
				ctx.panic("mine_block::get_block", &pn);
				break;
			}
			Ok(x) => x,
		};
		let parent = b.header.prev_hash;
		if !ctx.known.lock().unwrap().contains(&parent) {
			ctx.viol("template_on_a_block_nobody_submitted", format!("get_block built on {}", parent));
			continue;
		}
		// the template's commitments must be those of its parent's state plus its own body
		let mut rb = b.clone();
		{
			let mut h = ctx.w.hist.lock().unwrap();
			h.ledger.commit_header(&mut rb);
		}
		let mut bad = vec![];
		if rb.header.output_root != b.header.output_root {
			bad.push("output_root");
		}
		if rb.header.range_proof_root != b.header.range_proof_root {
			bad.push("range_proof_root");
		}
		if rb.header.kernel_root != b.header.kernel_root {
			bad.push("kernel_root");
		}
		if rb.header.prev_root != b.header.prev_root {
			bad.push("prev_root");
		}
		if rb.header.output_mmr_size != b.header.output_mmr_size || rb.header.kernel_mmr_size != b.header.kernel_mmr_size {
			bad.push("sizes");
		}
		if !bad.is_empty() {
			ctx.viol(
				"template_roots_not_those_of_its_parent",
				format!("get_block on parent {} with {} kernels: {} differ from the reference commitments", parent, b.kernels().len(), bad.join(", ")),
			);
			continue;
		}
		inc(&mut st, "miner.templates_checked");
		if b.kernels().len() > 1 {
			inc(&mut st, "miner.templates_with_pool_transactions");
		}
		// now and then: mine it and submit it the way the miner does
		if submitted < 2 && p.chance(1, 6) {
			let prev_total = {
				let h = ctx.w.hist.lock().unwrap();
				h.ledger.header(&parent).total_difficulty()
			};
			if mine(&mut b.header, prev_total).is_err() {
				inc(&mut st, "miner.pow_failed");
				continue;
			}
			tick(slot, OP_MINED);
			let bh = b.hash();
			ctx.known.lock().unwrap().insert(bh);
			{
				let mut h = ctx.w.hist.lock().unwrap();
				h.ledger.add(&b);
			}
			match catch(|| ctx.node.chain.process_block(b.clone(), Options::MINE)) {
				Err(pn) => ctx.panic("process_block(mined)", &pn),
				Ok(Ok(_)) => {
					submitted += 1;
					inc(&mut st, "miner.mined_blocks_accepted");
					ctx.mined.lock().unwrap().push(b);
				}
				Ok(Err(e)) => {
					// the head moved on, or the pool offered something the chain refuses at this height (recorded C14 finding): not a C17 matter
					inc(&mut st, &format!("miner.mined_block_refused:{}", short_err(&e)));
					ctx.mined.lock().unwrap().push(b);
				}
			}
		}
	}
	ctx.merge(st);
	tick(slot, OP_FINISHED);
}

// ------------------------------------------------------------------ look-ups through the net adapter

fn lookups(ctx: &Ctx, slot: usize, seed: u64) {
	init_thread(true);
	ctx.register(slot);
	let mut p = Prng::new(seed);
	let mut st = Stats::new();
	let pi = peer_info(100 + slot as u16);
	let w = ctx.w;
	tick(slot, OP_BARRIER);
	ctx.barrier.wait();
	let mut last_td = 0u64;
	let mut n = 0u64;
	while (ctx.submitters_left.load(Ordering::SeqCst) > 0 || n < 40) && Instant::now() < ctx.deadline && n < 20_000 {
		n += 1;
		tick(slot, OP_LOOKUP);
		match p.below(6) {
			0 => match catch(|| ctx.node.net.total_difficulty()) {
				Err(pn) => ctx.panic("total_difficulty", &pn),
				Ok(Ok(d)) => {
					let d = d.to_num();
					if d < last_td {
						ctx.viol("total_difficulty_decreased", format!("total_difficulty() went from {} to {}", last_td, d));
					}
					last_td = d;
					inc(&mut st, "lookup.total_difficulty");
				}
				Ok(Err(e)) => ctx.viol("total_difficulty_unreadable", format!("{:?}", e)),
			},
			1 => {
				let i = p.usize_below(w.all.len());
				let h = w.all[i].hash;
				match catch(|| ctx.node.net.get_block(h, &pi)) {
					Err(pn) => ctx.panic("get_block", &pn),
					Ok(Some(b)) => {
						if b.hash() != h || b.header.height != w.all[i].block.header.height {
							ctx.viol("get_block_returned_another_block", format!("asked for {}, got {}", h, b.hash()));
						}
						inc(&mut st, "lookup.get_block.some");
					}
					Ok(None) => inc(&mut st, "lookup.get_block.none"),
				}
			}
			2 => {
				if w.txs.is_empty() {
					continue;
				}
				let (_, tx) = p.pick(&w.txs);
				let kh = tx.kernels()[0].hash();
				match catch(|| ctx.node.net.get_transaction(kh)) {
					Err(pn) => ctx.panic("get_transaction", &pn),
					Ok(Some(t)) => {
						if !t.kernels().iter().any(|k| k.hash() == kh) {
							ctx.viol("get_transaction_returned_another_transaction", format!("asked for kernel {}", kh));
						}
						inc(&mut st, "lookup.get_transaction.some");
					}
					Ok(None) => inc(&mut st, "lookup.get_transaction.none"),
				}
			}
			3 => {
				let mut loc: Vec<Hash> = vec![];
				for _ in 0..(1 + p.usize_below(4)) {
					loc.push(w.all[p.usize_below(w.all.len())].hash);
				}
				loc.push(w.genesis.hash());
				match catch(|| ctx.node.net.locate_headers(&loc)) {
					Err(pn) => ctx.panic("locate_headers", &pn),
					Ok(Ok(hs)) => {
						let known = ctx.known.lock().unwrap();
						for pair in hs.windows(2) {
							if pair[1].height != pair[0].height + 1 || pair[1].prev_hash != pair[0].hash() {
								ctx.viol("locate_headers_not_a_chain", format!("headers at heights {} and {} returned next to each other do not link", pair[0].height, pair[1].height));
								break;
							}
						}
						if let Some(h) = hs.iter().find(|h| !known.contains(&h.hash())) {
							ctx.viol("locate_headers_unknown_header", format!("{} at height {}", h.hash(), h.height));
						}
						inc(&mut st, if hs.is_empty() { "lookup.locate_headers.empty" } else { "lookup.locate_headers.some" });
					}
					Ok(Err(e)) => inc(&mut st, &format!("lookup.locate_headers.err:{}", short_err(&e))),
				}
			}
			4 => {
				if w.txs.is_empty() {
					continue;
				}
				let (_, tx) = p.pick(&w.txs);
				let kh = tx.kernels()[0].hash();
				match catch(|| ctx.node.net.tx_kernel_received(kh, &pi)) {
					Err(pn) => ctx.panic("tx_kernel_received", &pn),
					Ok(_) => inc(&mut st, "lookup.tx_kernel_received"),
				}
			}
			_ => {
				match catch(|| {
					let pool = ctx.node.pool.read();
					(pool.total_size(), pool.txpool.size(), pool.stempool.size())
				}) {
					Err(pn) => ctx.panic("pool.total_size", &pn),
					Ok(_) => inc(&mut st, "lookup.pool_sizes"),
				}
			}
		}
		if n % 8 == 0 {
			std::thread::sleep(Duration::from_millis(1));
		}
	}
	ctx.merge(st);
	tick(slot, OP_FINISHED);
}

// ------------------------------------------------------------------ one run

fn make_plans(w: &WorldData, p: &mut Prng) -> (Vec<Vec<Step>>, Vec<String>) {
	let n = w.all.len();
	let n_peers = 3 + p.usize_below(2);
	let mut plans = vec![];
	let mut styles = vec![];
	if p.chance(1, 2) {
		// relay mode: every peer announces every block in compact form, parent-first with local swaps, after relaying
		// the block's transaction: whoever comes first hydrates the block from the pool
		for j in 0..n_peers {
			let mut order: Vec<usize> = (0..n).collect();
			if j > 0 {
				for a in 0..n.saturating_sub(1) {
					if p.chance(1, 4) {
						order.swap(a, a + 1);
					}
				}
			}
			let steps: Vec<Step> = order.into_iter().map(|i| Step::Compact(i, true)).collect();
			styles.push("parent_first_local_swaps+compact_blocks_with_relay".to_string());
			plans.push(steps);
		}
		return (plans, styles);
	}
	for j in 0..n_peers {
		let style = if j == 0 { 2 } else { p.below(3) };
		let mut order: Vec<usize> = (0..n).collect();
		match style {
			0 => p.shuffle(&mut order),
			1 => order.reverse(),
			_ => {}
		}
		let form = p.below(3); // 0 full blocks, 1 compact where possible, 2 mixed + header first
		let mut steps = vec![];
		for i in order {
			if form == 2 && p.chance(1, 2) {
				steps.push(Step::Header(i));
			}
			let compact = form == 1 || (form == 2 && p.chance(1, 2));
			if compact {
				steps.push(Step::Compact(i, p.chance(2, 3)));
			} else {
				steps.push(Step::Block(i));
			}
		}
		styles.push(format!("{}+{}", ["shuffled", "children_first", "parent_first"][style as usize], ["full_blocks", "compact_blocks", "mixed_header_first"][form as usize]));
		plans.push(steps);
	}
	(plans, styles)
}

fn hash_of(bytes: &[u8]) -> Hash {
	Hash::from_vec(bytes)
}

fn execute_run(run: &Run, k: u64, sc: &Scratch, small: bool) {
	let t0 = Instant::now();
	MON_RUN.store(k, Ordering::SeqCst);
	for s in 0..MAX_SLOTS {
		CUR_OP[s].store(OP_IDLE, Ordering::SeqCst);
	}
	tick(0, OP_SETUP);
	MON_ACTIVE.store(true, Ordering::SeqCst);
	let world_seed = mix(run.seed, 0x5057, k);
	let mut w = build_world(world_seed, small);
	fix_tx_offsets(&mut w);
	let w = w;
	// sequential reference node: a world one of whose blocks it refuses is a generator artefact
	{
		tick(0, OP_REF);
		let rdir = sc.sub(&format!("ref-k{}", k));
		let ok = (|| -> Result<(), String> {
			let c = open_chain_with(&rdir, &w.genesis, Arc::new(NoopAdapter {}), false)?;
			for gb in &w.all {
				tick(0, OP_REF);
				c.process_block(gb.block.clone(), Options::NONE).map_err(|e| format!("height {}: {:?}", gb.block.header.height, e))?;
			}
			Ok(())
		})();
		let _ = std::fs::remove_dir_all(&rdir);
		if let Err(e) = ok {
			run.count("worlds_discarded_sequential_node_refuses_a_block", 1);
			run.extra("last_discarded_world", json!({"k": k, "world_seed": world_seed, "why": e}));
			MON_ACTIVE.store(false, Ordering::SeqCst);
			return;
		}
	}
	let dir = sc.sub(&format!("run-k{}", k));
	let _ = std::fs::remove_dir_all(&dir);
	let _ = std::fs::create_dir_all(&dir);
	let mut pp = Prng::new(mix(run.seed, 0x9147, k));
	let max_pool = *pp.pick(&[50usize, 50, 4, 2]);
	let node = match build_node(&dir, &w.genesis, max_pool) {
		Ok(n) => n,
		Err(e) => {
			run.inconclusive(&format!("run {}: node could not be built: {}", k, e));
			MON_ACTIVE.store(false, Ordering::SeqCst);
			return;
		}
	};
	let (plans, styles) = make_plans(&w, &mut pp);
	let n_relays = 1 + pp.usize_below(2);
	let n_lookups = 1 + pp.usize_below(2);
	let n_threads = plans.len() + n_relays + n_lookups + 1;
	let sched_seed = mix(run.seed, 0x5C4D, k);
	let replay = json!({
		"world": "wiring", "k": k, "world_seed": world_seed, "shape": w.shape, "blocks": w.all.len(), "world_txs": w.txs.len(),
		"peers": styles, "tx_relays": n_relays, "lookup_threads": n_lookups, "max_pool_size": max_pool, "sched_seed": sched_seed,
		"reproduce": format!("c17w --tier {} --seed {} --worker 0 1 --only-run {}  (schedules are perturbed, not replayed: repeat a few times)", run.tier.name(), run.seed, k),
	});
	let mut known: HashSet<Hash> = w.all.iter().map(|b| b.hash).collect();
	known.insert(w.genesis.hash());
	let ctx = Ctx {
		run,
		w: &w,
		node: &node,
		replay: replay.clone(),
		stats: Mutex::new(Stats::new()),
		thread_slots: Mutex::new(HashMap::new()),
		deadline: Instant::now() + Duration::from_secs(40),
		violations: AtomicU64::new(0),
		panics: AtomicU64::new(0),
		barrier: Barrier::new(n_threads),
		submitters_left: AtomicUsize::new(plans.len()),
		mined: Mutex::new(vec![]),
		known: Mutex::new(known),
	};
	ctx.register(0);
	let start_head = node.chain.head().expect("head");
	verif_hooks::events_enable(true);
	let sched_before = verif_hooks::sched_stats();
	let _ = verif_hooks::resize_stats_take();
	verif_hooks::sched_arm(sched_seed | 1);
	let t_conc = Instant::now();
	tick(0, OP_JOINING);
	std::thread::scope(|s| {
		let mut slot = 1;
		for plan in plans.iter() {
			let ctx = &ctx;
			let sl = slot;
			s.spawn(move || peer(ctx, sl, plan));
			slot += 1;
		}
		for j in 0..n_relays {
			let ctx = &ctx;
			let sl = slot;
			let seed = mix(sched_seed, 0x7E1A, j as u64);
			s.spawn(move || tx_relay(ctx, sl, seed));
			slot += 1;
		}
		for j in 0..n_lookups {
			let ctx = &ctx;
			let sl = slot;
			let seed = mix(sched_seed, 0x100C, j as u64);
			s.spawn(move || lookups(ctx, sl, seed));
			slot += 1;
		}
		{
			let ctx = &ctx;
			let sl = slot;
			let seed = mix(sched_seed, 0x3113, 0);
			s.spawn(move || miner(ctx, sl, seed));
		}
	});
	let conc_ms = t_conc.elapsed().as_millis() as u64;
	verif_hooks::sched_arm(0);
	let sched_after = verif_hooks::sched_stats();
	// hook H9: no transaction of an environment may be live when its memory map is enlarged
	let (h9_resizes, h9_live) = verif_hooks::resize_stats_take();
	run.count("db.enlargements_seen_by_the_live_transaction_monitor", h9_resizes);
	for (env, n) in h9_live.iter().take(3) {
		ctx.viol(
			"map_enlarged_with_live_transactions",
			format!("the memory map of {} was enlarged while {} transaction(s) of that environment were live in this process", env, n),
		);
	}
	let mut st = std::mem::take(&mut *ctx.stats.lock().unwrap());
	let hit_deadline = Instant::now() > ctx.deadline;
	if hit_deadline {
		run.inconclusive(&format!("wiring run {}: concurrent phase exceeded its budget", k));
	}
	let chain = &node.chain;

	// ---- final sequential re-delivery: every valid block must end up stored
	let mut redelivered = 0u64;
	if ctx.panics.load(Ordering::SeqCst) == 0 {
		for gb in &w.all {
			tick(0, OP_FINAL);
			if chain.get_block(&gb.hash).is_ok() {
				continue;
			}
			redelivered += 1;
			match catch(|| chain.process_block(gb.block.clone(), Options::NONE)) {
				Err(p) => ctx.panic("process_block(final)", &p),
				Ok(Ok(_)) | Ok(Err(grin_chain::Error::Unfit(_))) => {}
				Ok(Err(e)) => {
					if chain.get_block(&gb.hash).is_err() {
						ctx.viol(&format!("valid_block_lost;{}", short_err(&e)), format!("block {} (height {}) is still refused when re-delivered sequentially after the concurrent phase: {:?}", gb.hash, gb.block.header.height, e));
					}
				}
			}
		}
	}
	let events = verif_hooks::events_take();
	verif_hooks::events_enable(false);
	let accepted = node.tracer.events.lock().unwrap().clone();
	let slots = ctx.thread_slots.lock().unwrap().clone();
	let known = ctx.known.lock().unwrap().clone();

	// ---- HeadMove log: a chain of strictly increasing work over known, stored blocks
	let mut head_moves = 0u64;
	let mut movers: HashSet<usize> = HashSet::new();
	let mut sig_parts: Vec<String> = vec![];
	{
		let mut cur = start_head.last_block_h;
		let mut cur_td = start_head.total_difficulty.to_num();
		for ev in &events {
			if ev.kind != "HeadMove" {
				continue;
			}
			head_moves += 1;
			let (ptd, ntd) = (ev.nums[1], ev.nums[3]);
			let prevh = hash_of(&ev.bytes[0]);
			let newh = hash_of(&ev.bytes[1]);
			let slot = slots.get(&ev.thread).cloned().unwrap_or(99);
			movers.insert(slot);
			sig_parts.push(format!("{}H{}", slot, w.idx.get(&newh).map(|i| i.to_string()).unwrap_or("m".into())));
			if prevh != cur || ptd != cur_td {
				ctx.viol("head_move_log_is_not_a_chain", format!("event #{}: head moved from {} (td {}) but the previous committed value was {} (td {})", ev.seq, prevh, ptd, cur, cur_td));
			}
			if ntd <= ptd {
				ctx.viol("head_move_not_to_more_work", format!("event #{}: head moved from td {} to td {}", ev.seq, ptd, ntd));
			}
			if !known.contains(&newh) {
				ctx.viol("head_moved_to_unknown_block", format!("head moved to {} which nobody submitted", newh));
			} else if chain.get_block(&newh).is_err() {
				ctx.viol("head_moved_to_block_not_stored", format!("head moved to {} which is not stored at the end", newh));
			}
			cur = newh;
			cur_td = ntd;
		}
		if ctx.panics.load(Ordering::SeqCst) == 0 {
			match chain.head() {
				Ok(t) if t.last_block_h != cur => ctx.viol("final_head_is_not_last_logged_move", format!("head() = {} but the last HeadMove went to {}", t.last_block_h, cur)),
				Ok(_) => {}
				Err(e) => ctx.viol("head_unreadable", format!("{:?}", e)),
			}
		}
	}
	let mut accept_parts: Vec<String> = vec![];
	let mut reorgs = 0u64;
	for (h, s, _, th) in &accepted {
		if *s == "Reorg" {
			reorgs += 1;
		}
		accept_parts.push(format!("{}{}{}", slots.get(th).cloned().unwrap_or(99), &s[..1], w.idx.get(h).map(|i| i.to_string()).unwrap_or("m".into())));
	}
	let interleaving = fnv64(format!("{}|{}", sig_parts.join(","), accept_parts.join(",")).as_bytes());

	// ---- end state
	let mut end_ok = false;
	if ctx.panics.load(Ordering::SeqCst) == 0 && !hit_deadline {
		tick(0, OP_SNAPSHOT);
		let stored: HashSet<Hash> = known.iter().filter(|h| **h == w.genesis.hash() || chain.get_block(h).is_ok()).cloned().collect();
		let mut hist = w.hist.lock().unwrap();
		let commits = hist.all_commits();
		match catch(|| snapshot(chain, &commits)) {
			Err(p) => ctx.panic("snapshot", &p),
			Ok(Err(e)) => ctx.viol("final_state_unreadable", e),
			Ok(Ok(snap)) => {
				let max_td = stored.iter().map(|h| hist.ledger.get(h).total_difficulty).max().unwrap_or(0);
				let head_td = if stored.contains(&snap.head.0) { hist.ledger.get(&snap.head.0).total_difficulty } else { 0 };
				if !stored.contains(&snap.head.0) {
					ctx.viol("final_head_is_not_a_stored_submitted_block", format!("final head {}", snap.head.0));
				} else if head_td != max_td {
					ctx.viol("final_head_is_not_a_max_work_block", format!("final head {} has total difficulty {} but a stored block with all ancestors stored reaches {}", snap.head.0, head_td, max_td));
				} else {
					let stt = hist.state(&snap.head.0);
					// mined blocks burn their reward: their coinbase commitments are not in `commits`, the comparison of the
					// unspent set is over the world's commitments plus whatever the reference state holds
					if let Some(d) = compare_with_ref(&snap, &stt) {
						ctx.viol(&format!("final_state_vs_reference_ledger;{}", d.split(|c| c == ':' || c == '(').next().unwrap_or("").trim()), d);
					} else {
						end_ok = true;
					}
				}
			}
		}
		drop(hist);
		tick(0, OP_VALIDATE);
		match catch(|| chain.validate(false)) {
			Err(p) => ctx.panic("validate(false)", &p),
			Ok(Ok(())) => inc(&mut st, "final_full_validation_ok"),
			Ok(Err(e)) => ctx.viol(&format!("final_full_validation_failed;{}", short_err(&e)), format!("validate(false) after all threads joined: {:?}", e)),
		}
		// ---- the pool some sequential order would leave
		tick(0, OP_POOL);
		let (txs, stem): (Vec<Transaction>, Vec<Transaction>) = {
			let pool = node.pool.read();
			(pool.txpool.all_transactions(), pool.stempool.all_transactions())
		};
		inc(&mut st, "final_pool_checks");
		if !txs.is_empty() {
			inc(&mut st, "final_pool_checks_on_a_non_empty_pool");
		}
		let mut seen: HashMap<Vec<u8>, usize> = HashMap::new();
		for (i, tx) in txs.iter().enumerate() {
			for (c, _) in vcommon::ledger::inputs_vec(&tx.inputs()) {
				if let Some(j) = seen.insert(c.0.to_vec(), i) {
					if j != i {
						ctx.viol("final_pool_entries_spend_the_same_output", format!("pool entries {} and {} both spend the same output", j, i));
					}
				}
			}
		}
		// (a pool entry whose kernel is already on the best chain is NOT judged: the generated histories re-create spent
		// commitments, after which the transaction that spent the original is valid once more — a replay the pool accepts)
		let _ = &stem;
		if !txs.is_empty() {
			match catch(|| transaction::aggregate(&txs)) {
				Err(p) => ctx.panic("aggregate(pool)", &p),
				Ok(Err(e)) => ctx.viol("final_pool_does_not_aggregate", format!("{:?}", e)),
				Ok(Ok(agg)) => {
					if let Err(e) = agg.validate(Weighting::NoLimit) {
						ctx.viol("final_pool_aggregate_invalid", format!("{:?}", e));
					} else if let Err(e) = chain.validate_tx(&agg) {
						ctx.viol(&format!("final_pool_not_valid_against_final_head;{}", short_err(&e)), format!("aggregate of the {} pool entries against the final head: {:?}", txs.len(), e));
					} else {
						inc(&mut st, "final_pool_jointly_valid");
					}
				}
			}
		}
	}
	tick(0, OP_IDLE);
	MON_ACTIVE.store(false, Ordering::SeqCst);
	let mined = ctx.mined.lock().unwrap().len() as u64;
	drop(ctx);
	drop(node);
	let _ = std::fs::remove_dir_all(&dir);

	let nontrivial = movers.len() >= 2;
	run.eval(&format!("{:016x}", interleaving), nontrivial);
	for (k, v) in &st {
		run.count(k, *v);
	}
	run.count("runs_completed", 1);
	if end_ok {
		run.count("runs_with_end_state_equal_to_reference", 1);
	}
	if nontrivial {
		run.count("runs_where_several_threads_moved_the_head", 1);
	}
	run.count("head_move_events_checked", head_moves);
	run.count("reorg_callbacks", reorgs);
	run.count("block_accepted_callbacks", accepted.len() as u64);
	run.count("blocks_needing_final_redelivery", redelivered);
	run.count("blocks_mined_and_submitted", mined);
	run.count("sched_points_reached", sched_after.0 - sched_before.0);
	run.count("sched_points_perturbed", sched_after.1 - sched_before.1);
	run.count("threads_started", n_threads as u64);
	run.set_max("max_concurrent_phase_ms", conc_ms);
	run.set_max("max_run_ms", t0.elapsed().as_millis() as u64);
	if k < 3 {
		run.sample(json!({
			"run": replay, "head_moves": head_moves, "interleaving": sig_parts.join(","), "accept_order": accept_parts.join(","),
			"legend": "<thread slot><H=HeadMove|N/F/R=accepted as Next/Fork/Reorg><block index, m = mined by the miner thread>",
			"concurrent_phase_ms": conc_ms, "ops": st,
		}));
	}
}

const RULE: &str = "run = one node wired as servers/src/grin/server.rs wires it (Chain + TransactionPool + PoolToChainAdapter + PoolToNetAdapter + \
	ChainToPoolAndNetAdapter + NetToChainAdapter, no connected peers) shared by 3-4 peer threads (every block of an own real-PoW fork tree per \
	run, delivered through block_received / header_received / compact_block_received — with the block's transaction relayed to the pool first in \
	2/3 of the compact deliveries so that hydration goes through the pool — in shuffled / children-first / parent-first order), 1-2 transaction \
	relays (transaction_received with the transactions cut out of the world's blocks, 1/5 as stem), a miner (mine_block::get_block via hook H7: \
	pool lock then chain locks; templates compared with the reference commitments of their parent; up to two templates are mined and submitted \
	with Options::MINE and join the reference ledger) and 1-2 look-up threads (total_difficulty, get_block, get_transaction, locate_headers, \
	tx_kernel_received, pool sizes). sched_point (hook H3) perturbs the chain's lock and commit points with the run's seed. After join: \
	sequential re-delivery of blocks not stored, HeadMove log is a chain of strictly increasing work over stored known blocks, final head has \
	the greatest total difficulty among stored blocks, state == reference ledger replay of the head's chain, validate(false) Ok, pool entries \
	pairwise input-disjoint, aggregate valid and valid against the final head. Watchdog as in c17. One \
	evaluation = one run; distinct = distinct (HeadMove order with threads, block_accepted order with threads); non-trivial = two threads moved the head.";

fn main() {
	let run = Run::from_env("C17", "exploration");
	init_globals(true);
	global::set_global_accept_fee_base(1);
	let san = run.arg_value("--san").is_some();
	if let Some((i, n)) = run.worker_shard() {
		let total: u64 = run.arg_value("--n").and_then(|s| s.parse().ok()).unwrap_or(0);
		let only: Option<u64> = run.arg_value("--only-run").and_then(|s| s.parse().ok());
		let deadline: f64 = run.arg_value("--deadline").and_then(|s| s.parse().ok()).unwrap_or(600.0);
		MON_STOP.store(false, Ordering::SeqCst);
		std::thread::scope(|s| {
			let run = &run;
			s.spawn(move || monitor(run, 60, true));
			init_thread(true);
			let sc = Scratch::new("c17w");
			for k in 0..total {
				if let Some(o) = only {
					if o != k {
						continue;
					}
				} else if (k as usize) % n != i {
					continue;
				}
				if run.elapsed_s() > deadline {
					run.count("runs_skipped_by_deadline", 1);
					continue;
				}
				execute_run(run, k, &sc, false);
			}
			drop(sc);
			MON_STOP.store(true, Ordering::SeqCst);
		});
		run.finish_worker();
	}
	run.set_rule(RULE);
	run.assume("schedules are those the OS scheduler produces under seeded perturbation at the hooked lock/commit points; interleavings it never produces are not explored");
	run.assume("no connected peers: broadcasts and block / transaction requests to peers are no-ops");
	if san {
		MON_STOP.store(false, Ordering::SeqCst);
		std::thread::scope(|s| {
			let run = &run;
			s.spawn(move || {
				// sanitizer builds are slow: the in-process watchdog only guards against a wedged process
				monitor(run, 900, false)
			});
			init_thread(true);
			let sc = Scratch::new("c17w");
			for k in 0..4 {
				execute_run(run, k, &sc, true);
			}
			drop(sc);
			MON_STOP.store(true, Ordering::SeqCst);
		});
		run.require("runs_completed", run.counter("runs_completed"), 3);
		run.finish();
	}
	let only_replay: Option<u64> = run.replay.clone().and_then(|p| std::fs::read_to_string(p).ok()).and_then(|t| serde_json::from_str::<Value>(&t).ok()).and_then(|v| {
		let c = if v["case"]["first"].is_object() { v["case"]["first"].clone() } else { v["case"].clone() };
		c["k"].as_u64()
	});
	let n_runs: u64 = run.tier.pick(64, 640);
	// caps, not durations: an idle machine is through the list in well under a minute (quick)
	let deadline: f64 = run.tier.pick(180.0, 900.0);
	let wd: u64 = run.tier.pick(480, 1500);
	let mut extra: Vec<String> = vec!["--n".into(), n_runs.to_string(), "--deadline".into(), deadline.to_string()];
	let n_workers = if let Some(k) = only_replay {
		extra.extend(["--only-run".to_string(), k.to_string()]);
		1
	} else {
		16
	};
	let results = run.spawn_workers(n_workers, &extra, wd);
	let mut reruns = 0;
	for r in &results {
		let h = &r["extras"]["hang"];
		if h.is_null() {
			continue;
		}
		reruns += 1;
		if reruns > 3 || run.n_violations() > 0 {
			run.count("hangs_not_re_run", 1);
			continue;
		}
		let k = h["k"].as_u64().unwrap_or(0);
		if h["confirmed_in_place"].as_bool() == Some(true) {
			let mut opsv: Vec<&str> = h["stuck_ops"].as_array().map(|a| a.iter().filter_map(|x| x.as_str()).collect::<Vec<_>>()).unwrap_or_default();
			opsv.dedup();
			run.violation(
				"C17;world=wiring;clause=deadlock",
				&format!(
					"no thread made progress for 60 s and the stalled process was a deadlock beyond doubt ({}); threads stuck in: {}; backtraces: {}",
					h["confirmation"].as_str().unwrap_or("-"),
					opsv.join("+"),
					h["gdb_file"].as_str().unwrap_or("-")
				),
				json!({"first": h, "reproduce": format!("c17w --tier {} --seed {} --worker 0 1 --n {} --only-run {}", run.tier.name(), run.seed, k + 1, k)}),
			);
			continue;
		}
		let extra: Vec<String> = vec!["--n".into(), (k + 1).to_string(), "--only-run".into(), k.to_string(), "--deadline".into(), "100000".into()];
		let again = run.spawn_workers(1, &extra, 600);
		let h2 = again.get(0).map(|v| v["extras"]["hang"].clone()).unwrap_or(Value::Null);
		if h2.is_null() {
			run.inconclusive(&format!("wiring run {} made no progress for 60 s ({}) but the hang did not reproduce when re-run alone", k, h));
			run.count("hangs_not_reproduced", 1);
		} else {
			let mut opsv: Vec<&str> = h2["stuck_ops"].as_array().map(|a| a.iter().filter_map(|x| x.as_str()).collect::<Vec<_>>()).unwrap_or_default();
			opsv.dedup();
			run.violation(
				"C17;world=wiring;clause=deadlock",
				&format!(
					"no thread made progress for 60 s, reproduced when the run was executed again alone; threads stuck in: {}; backtraces: {} / {}",
					opsv.join("+"),
					h["gdb_file"].as_str().unwrap_or("-"),
					h2["gdb_file"].as_str().unwrap_or("-")
				),
				json!({"first": h, "second": h2, "reproduce": format!("c17w --tier {} --seed {} --worker 0 1 --n {} --only-run {}", run.tier.name(), run.seed, k + 1, k)}),
			);
		}
	}
	if only_replay.is_none() {
		let c = |n: &str| run.counter(n);
		let req = |name: &str, q: u64, t: u64| run.require(name, c(name), run.tier.pick(q, t));
		req("runs_completed", 24, 240);
		req("runs_with_end_state_equal_to_reference", 24, 240);
		req("final_full_validation_ok", 24, 240);
		req("head_move_events_checked", 150, 1500);
		req("runs_where_several_threads_moved_the_head", 12, 120);
		req("miner.templates_checked", 100, 1000);
		req("miner.templates_with_pool_transactions", 10, 100);
		req("tx.accepted", 40, 400);
		req("compact_block.with_kernel_ids_stored_afterwards", 20, 200);
		req("compact_block.hydrated_from_the_pool_and_accepted", 10, 100);
		req("final_pool_checks", 24, 240);
		req("lookup.locate_headers.some", 100, 1000);
	}
	run.finish();
}
