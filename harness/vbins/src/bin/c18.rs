//! C18 — Database batches are atomic, isolated and survive growth of the map.
//!
//! Runtime monitoring of `grin_store::lmdb::{Store, Batch, DatabaseIterator}`:
//!
//! 1. single-thread random programs (put / delete / get_ser / exists / iter over
//!    three key spaces, nested children to depth 3, commit / drop at every level,
//!    outside reads, outside iterators held across commits, reopen after every
//!    program) checked against `RefNestedMap` (stack-of-overlays reference model);
//! 2. multi-thread workload in a worker subprocess (1 writer + occasional second
//!    writer + point readers + snapshot iterators + long-lived iterator holders,
//!    volumes forcing several map resizes, > 10 000 keys in one key space) checked
//!    by a unique-value history checker: every snapshot must hold all or none of
//!    each batch's keys and must equal the state after a prefix of the commit log;
//! 3. crash enumeration around `Batch::commit` (crash points lmdb.commit.pre/post):
//!    the reopened content must equal exactly the model state before (pre) or
//!    after (post) the interrupted commit.
//!
//! `--san tsan|valgrind`: small in-process workload (no subprocesses).

use grin_core::global::{self, ChainTypes};
use grin_core::ser::{self, DeserializationMode, ProtocolVersion, Readable, Reader, Writeable, Writer};
use grin_store::lmdb::{Batch, DatabaseIterator, Error as StoreError, Store};
use grin_util::verif_hooks;
use serde_json::{json, Value};
use std::cell::Cell;
use std::collections::{BTreeMap, BTreeSet, HashMap, VecDeque};
use std::sync::atomic::{AtomicBool, AtomicU64, AtomicUsize, Ordering};
use std::sync::{Arc, Mutex, RwLock};
use std::time::{Duration, Instant};
use vcommon::ctx::{Run, Scratch};
use vcommon::prng::{fnv64, Prng};

// ------------------------------------------------------------------ common

const NS: usize = 3;
/// The three key spaces used: two prefix databases and the default database.
const SPACE_KEYS: [Option<u8>; NS] = [Some(b'b'), Some(b'h'), None];
const UNUSED_PREFIX: u8 = b'p';
const MIB: u64 = 1_048_576;

fn init_thread() {
	global::set_local_chain_type(ChainTypes::AutomatedTesting);
}

fn open_store(dir: &str, max_readers: Option<u32>) -> Result<Store, StoreError> {
	Store::new(
		dir,
		Some("c18env"),
		None,
		vec![b'h', b'b', UNUSED_PREFIX],
		max_readers,
		None,
	)
}

fn data_mdb_size(dir: &str) -> u64 {
	std::fs::metadata(std::path::Path::new(dir).join("multi_lmdb").join("data.mdb"))
		.map(|m| m.len())
		.unwrap_or(0)
}

fn hex(b: &[u8]) -> String {
	let mut s = String::with_capacity(b.len() * 2);
	for x in b {
		s.push_str(&format!("{:02x}", x));
	}
	s
}

fn short_hex(b: &[u8]) -> String {
	if b.len() <= 24 {
		hex(b)
	} else {
		format!("{}..({}B)", hex(&b[..24]), b.len())
	}
}

/// Errors that mean "no room": the property says no operation fails for lack of space.
fn space_error_class(e: &StoreError) -> Option<&'static str> {
	let s = format!("{:?}", e);
	for c in ["MDB_MAP_FULL", "MDB_MAP_RESIZED", "MDB_TXN_FULL", "MDB_PAGE_FULL"] {
		if s.contains(c) {
			return Some(c);
		}
	}
	None
}

/// Stable class of a non-space error (for signatures / triage).
fn error_class(e: &StoreError) -> String {
	let s = format!("{:?}", e);
	if let Some(p) = s.find("MDB_") {
		let t: String = s[p..]
			.chars()
			.take_while(|c| c.is_ascii_alphanumeric() || *c == '_')
			.collect();
		return t;
	}
	match e {
		StoreError::NotFoundErr(_) => "NotFoundErr".into(),
		StoreError::LmdbErr(m) => format!("LmdbErr({})", m.chars().take(40).collect::<String>()),
		StoreError::SerErr(_) => "SerErr".into(),
		StoreError::FileErr(_) => "FileErr".into(),
		StoreError::OtherErr(_) => "OtherErr".into(),
	}
}

// ------------------------------------------------------------------ value type

/// Every stored value is unique and names the batch that wrote it.
#[derive(Clone, Debug, PartialEq, Eq)]
struct Val {
	batch_id: u64,
	batch_size: u32,
	seq: u32,
	payload: Vec<u8>,
}

impl Writeable for Val {
	fn write<W: Writer>(&self, w: &mut W) -> Result<(), ser::Error> {
		w.write_u64(self.batch_id)?;
		w.write_u32(self.batch_size)?;
		w.write_u32(self.seq)?;
		w.write_bytes(&self.payload)
	}
}

impl Readable for Val {
	fn read<R: Reader>(r: &mut R) -> Result<Val, ser::Error> {
		let batch_id = r.read_u64()?;
		let batch_size = r.read_u32()?;
		let seq = r.read_u32()?;
		let payload = r.read_bytes_len_prefix()?;
		Ok(Val {
			batch_id,
			batch_size,
			seq,
			payload,
		})
	}
}

/// Own big-endian encoder (independent of grin's ser; cross-checked at start-up).
fn enc_val(v: &Val) -> Vec<u8> {
	let mut o = Vec::with_capacity(24 + v.payload.len());
	o.extend_from_slice(&v.batch_id.to_be_bytes());
	o.extend_from_slice(&v.batch_size.to_be_bytes());
	o.extend_from_slice(&v.seq.to_be_bytes());
	o.extend_from_slice(&(v.payload.len() as u64).to_be_bytes());
	o.extend_from_slice(&v.payload);
	o
}

fn dec_val(b: &[u8]) -> Option<Val> {
	if b.len() < 24 {
		return None;
	}
	let batch_id = u64::from_be_bytes(b[0..8].try_into().ok()?);
	let batch_size = u32::from_be_bytes(b[8..12].try_into().ok()?);
	let seq = u32::from_be_bytes(b[12..16].try_into().ok()?);
	let len = u64::from_be_bytes(b[16..24].try_into().ok()?) as usize;
	if b.len() != 24 + len {
		return None;
	}
	Some(Val {
		batch_id,
		batch_size,
		seq,
		payload: b[24..].to_vec(),
	})
}

type KV = (Vec<u8>, Vec<u8>);
type KvFn = fn(&[u8], &[u8]) -> Result<KV, StoreError>;
fn kv_raw(k: &[u8], v: &[u8]) -> Result<KV, StoreError> {
	Ok((k.to_vec(), v.to_vec()))
}

// ------------------------------------------------------------------ log observer

// Resizes are observed through the debug log of grin_store::lmdb (no access to the Env).
static LOG_RESIZE_DECIDED: AtomicU64 = AtomicU64::new(0);
static LOG_RESIZE_WAIT: AtomicU64 = AtomicU64::new(0);
static LOG_RESIZE_IMMEDIATE: AtomicU64 = AtomicU64::new(0);
static LOG_RESIZE_END: AtomicU64 = AtomicU64::new(0);
static LOG_RESIZE_ERR: AtomicU64 = AtomicU64::new(0);
static LOG_MAP_SIZE: AtomicU64 = AtomicU64::new(MIB);
static LOG_STORE_ERRORS: Mutex<Vec<String>> = Mutex::new(Vec::new());

thread_local! {
	/// map size last decided by a resize check made on this thread (single-thread sessions)
	static TL_MAP_SIZE: Cell<u64> = const { Cell::new(MIB) };
	static TL_RESIZES: Cell<u64> = const { Cell::new(0) };
}

struct ObserverLogger;
static OBSERVER: ObserverLogger = ObserverLogger;

impl log::Log for ObserverLogger {
	fn enabled(&self, m: &log::Metadata) -> bool {
		m.level() <= log::Level::Debug && m.target().starts_with("grin_store")
	}
	fn log(&self, r: &log::Record) {
		if !self.enabled(r.metadata()) {
			return;
		}
		let msg = r.args().to_string();
		if r.level() <= log::Level::Error {
			if msg.starts_with("Resize DB") {
				LOG_RESIZE_ERR.fetch_add(1, Ordering::SeqCst);
			}
			let mut l = LOG_STORE_ERRORS.lock().unwrap();
			if l.len() < 20 {
				l.push(msg);
			}
			return;
		}
		if let Some(rest) = msg.strip_prefix("Resizing DB to ") {
			LOG_RESIZE_DECIDED.fetch_add(1, Ordering::SeqCst);
			if let Some(n) = rest.split(' ').next().and_then(|x| x.parse::<u64>().ok()) {
				LOG_MAP_SIZE.store(n, Ordering::SeqCst);
				let _ = TL_MAP_SIZE.try_with(|c| c.set(n));
				let _ = TL_RESIZES.try_with(|c| c.set(c.get() + 1));
			}
		} else if msg.starts_with("Waiting txs to be closed") {
			LOG_RESIZE_WAIT.fetch_add(1, Ordering::SeqCst);
		} else if msg.starts_with("Start immediate resizing") {
			LOG_RESIZE_IMMEDIATE.fetch_add(1, Ordering::SeqCst);
		} else if msg.starts_with("End resizing") {
			LOG_RESIZE_END.fetch_add(1, Ordering::SeqCst);
		}
	}
	fn flush(&self) {}
}

fn install_logger() {
	let _ = log::set_logger(&OBSERVER);
	log::set_max_level(log::LevelFilter::Debug);
}

// ------------------------------------------------------------------ RefNestedMap

type KMap = BTreeMap<Vec<u8>, Vec<u8>>;
type Overlay = BTreeMap<Vec<u8>, Option<Vec<u8>>>;

/// Reference model of nested batches: committed map per key space plus a stack of
/// overlays (put = Some, delete = tombstone None) for the open batch and its children.
struct RefNestedMap {
	committed: Vec<KMap>,
	stack: Vec<Vec<Overlay>>,
}

impl RefNestedMap {
	fn new() -> RefNestedMap {
		RefNestedMap {
			committed: (0..NS).map(|_| KMap::new()).collect(),
			stack: vec![],
		}
	}
	fn begin(&mut self) {
		self.stack.push((0..NS).map(|_| Overlay::new()).collect());
	}
	fn put(&mut self, s: usize, k: &[u8], v: Vec<u8>) {
		self.stack.last_mut().expect("open batch")[s].insert(k.to_vec(), Some(v));
	}
	fn delete(&mut self, s: usize, k: &[u8]) {
		self.stack.last_mut().expect("open batch")[s].insert(k.to_vec(), None);
	}
	/// What a read through the innermost open batch must return.
	fn get_in(&self, s: usize, k: &[u8]) -> Option<&Vec<u8>> {
		for ov in self.stack.iter().rev() {
			if let Some(x) = ov[s].get(k) {
				return x.as_ref();
			}
		}
		self.committed[s].get(k)
	}
	/// What a read on a fresh read transaction must return.
	fn get_out(&self, s: usize, k: &[u8]) -> Option<&Vec<u8>> {
		self.committed[s].get(k)
	}
	fn view_in(&self, s: usize) -> KMap {
		let mut m = self.committed[s].clone();
		for ov in &self.stack {
			for (k, v) in &ov[s] {
				match v {
					Some(v) => {
						m.insert(k.clone(), v.clone());
					}
					None => {
						m.remove(k);
					}
				}
			}
		}
		m
	}
	/// Commit the innermost level: merge into the parent overlay, or into the
	/// committed maps when it is the top-level batch.
	fn commit(&mut self) {
		let top = self.stack.pop().expect("open batch");
		if let Some(parent) = self.stack.last_mut() {
			for (s, ov) in top.into_iter().enumerate() {
				for (k, v) in ov {
					parent[s].insert(k, v);
				}
			}
		} else {
			for (s, ov) in top.into_iter().enumerate() {
				for (k, v) in ov {
					match v {
						Some(v) => {
							self.committed[s].insert(k, v);
						}
						None => {
							self.committed[s].remove(&k);
						}
					}
				}
			}
		}
	}
	fn rollback(&mut self) {
		self.stack.pop().expect("open batch");
	}
	/// Canonical fingerprint of the committed state (crash scenario).
	fn fingerprint(&self) -> (u64, Vec<usize>) {
		fingerprint_maps(&self.committed)
	}
}

fn fingerprint_maps(maps: &[KMap]) -> (u64, Vec<usize>) {
	let mut h: u64 = 0xcbf2_9ce4_8422_2325;
	let mut feed = |b: &[u8]| {
		for x in b {
			h ^= *x as u64;
			h = h.wrapping_mul(0x0000_0100_0000_01B3);
		}
	};
	let mut counts = vec![];
	for (s, m) in maps.iter().enumerate() {
		feed(&[0xfe, s as u8]);
		counts.push(m.len());
		for (k, v) in m {
			feed(&(k.len() as u32).to_be_bytes());
			feed(k);
			feed(&(v.len() as u32).to_be_bytes());
			feed(v);
		}
	}
	(h, counts)
}

/// A failed oracle or an unexpected error.
#[derive(Clone, Debug)]
struct Fail {
	violation: bool,
	sig: String,
	what: String,
}

fn fail_from_err(scenario: &str, op: &str, e: &StoreError) -> Fail {
	if let Some(c) = space_error_class(e) {
		Fail {
			violation: true,
			sig: format!("{};op={};event=space_error:{}", scenario, op, c),
			what: format!("operation {} failed for lack of space: {:?}", op, e),
		}
	} else {
		Fail {
			violation: false,
			sig: format!("{};op={};event=error:{}", scenario, op, error_class(e)),
			what: format!("operation {} returned an unexpected error: {:?}", op, e),
		}
	}
}

/// Wait for a deferred map resize (if any) before a Store is dropped: `Store::batch()`
/// blocks while one is pending. (Dropping the Store earlier makes the detached resize
/// thread panic on the removed ENV_MAP entry; not part of this property.)
fn settle(store: &Store) {
	let _ = store.batch().map(drop);
}

/// Read all pairs of a key space on a fresh read transaction.
fn dump_space(store: &Store, s: usize) -> Result<Vec<KV>, StoreError> {
	let it = store.iter::<KvFn, KV>(SPACE_KEYS[s], kv_raw as KvFn)?;
	it.collect::<Result<Vec<KV>, StoreError>>()
}

fn dump_unused(store: &Store) -> Result<usize, StoreError> {
	let it = store.iter::<KvFn, KV>(Some(UNUSED_PREFIX), kv_raw as KvFn)?;
	Ok(it.collect::<Result<Vec<KV>, StoreError>>()?.len())
}

/// Compare an iteration result with the expected ordered map; returns (class, detail).
fn diff_seq(got: &[KV], exp: &KMap) -> Option<(&'static str, String)> {
	let mut gi = got.iter();
	let mut ei = exp.iter();
	let mut idx = 0usize;
	loop {
		match (gi.next(), ei.next()) {
			(None, None) => return None,
			(Some((gk, _)), None) => {
				return Some(("phantom", format!("extra key {} at position {}", short_hex(gk), idx)))
			}
			(None, Some((ek, _))) => {
				return Some(("missing", format!("key {} missing at position {}", short_hex(ek), idx)))
			}
			(Some((gk, gv)), Some((ek, ev))) => {
				if gk != ek {
					// decide which side has the odd key
					if exp.contains_key(gk) {
						if got.iter().any(|(k, _)| k == ek) {
							return Some((
								"order",
								format!("position {}: got key {} expected {}", idx, short_hex(gk), short_hex(ek)),
							));
						}
						return Some(("missing", format!("key {} missing at position {}", short_hex(ek), idx)));
					}
					return Some(("phantom", format!("extra key {} at position {}", short_hex(gk), idx)));
				}
				if gv != ev {
					return Some((
						"wrong_value",
						format!(
							"key {}: got {:?} expected {:?}",
							short_hex(gk),
							dec_val(gv).map(|v| (v.batch_id, v.seq)),
							dec_val(ev).map(|v| (v.batch_id, v.seq))
						),
					));
				}
			}
		}
		idx += 1;
	}
}

// ------------------------------------------------------------------ (1) single-thread programs

#[derive(Default)]
struct StStats {
	ops: BTreeMap<&'static str, u64>,
	programs: u64,
	sessions: u64,
	reopen_cmp: u64,
	outside_full_cmp: u64,
	chains: BTreeSet<String>,
	top_commit: u64,
	top_drop: u64,
	child_commit: u64,
	child_drop: u64,
	held_iters: u64,
	held_across_commit: u64,
	resizes: u64,
	max_keys_space: u64,
	resizes_immediate: u64,
	resizes_deferred: u64,
	sigs: Vec<(String, bool)>,
	samples: Vec<Value>,
	fails: Vec<(Fail, Value)>,
}

impl StStats {
	fn op(&mut self, name: &'static str) {
		*self.ops.entry(name).or_insert(0) += 1;
	}
	fn merge(&mut self, o: StStats) {
		for (k, v) in o.ops {
			*self.ops.entry(k).or_insert(0) += v;
		}
		self.programs += o.programs;
		self.sessions += o.sessions;
		self.reopen_cmp += o.reopen_cmp;
		self.outside_full_cmp += o.outside_full_cmp;
		self.chains.extend(o.chains);
		self.top_commit += o.top_commit;
		self.top_drop += o.top_drop;
		self.child_commit += o.child_commit;
		self.child_drop += o.child_drop;
		self.held_iters += o.held_iters;
		self.held_across_commit += o.held_across_commit;
		self.resizes += o.resizes;
		self.max_keys_space = self.max_keys_space.max(o.max_keys_space);
		self.resizes_immediate += o.resizes_immediate;
		self.resizes_deferred += o.resizes_deferred;
		self.sigs.extend(o.sigs);
		if self.samples.len() < 2 {
			self.samples.extend(o.samples);
		}
		self.fails.extend(o.fails);
	}
}

impl StStats {
	fn to_json(&self) -> Value {
		json!({
			"ops": self.ops.iter().map(|(k, v)| (k.to_string(), *v)).collect::<BTreeMap<String, u64>>(),
			"programs": self.programs, "sessions": self.sessions, "reopen_cmp": self.reopen_cmp,
			"outside_full_cmp": self.outside_full_cmp, "chains": self.chains.iter().cloned().collect::<Vec<_>>(),
			"top_commit": self.top_commit, "top_drop": self.top_drop, "child_commit": self.child_commit,
			"child_drop": self.child_drop, "held_iters": self.held_iters, "held_across_commit": self.held_across_commit,
			"resizes": self.resizes, "max_keys_space": self.max_keys_space,
			"sigs": self.sigs.iter().map(|(s, b)| json!([s, b])).collect::<Vec<_>>(),
			"samples": self.samples,
			"fails": self.fails.iter().map(|(f, r)| json!({"violation": f.violation, "sig": f.sig, "what": f.what, "replay": r})).collect::<Vec<_>>(),
			"resizes_immediate": LOG_RESIZE_IMMEDIATE.load(Ordering::SeqCst),
			"resizes_deferred": LOG_RESIZE_WAIT.load(Ordering::SeqCst),
		})
	}
	/// Counters only (op names are leaked into 'static strings: small fixed set).
	fn from_json(v: &Value) -> StStats {
		let mut st = StStats::default();
		let u = |k: &str| v.get(k).and_then(|x| x.as_u64()).unwrap_or(0);
		if let Some(o) = v.get("ops").and_then(|x| x.as_object()) {
			for (k, x) in o {
				let name: &'static str = Box::leak(k.clone().into_boxed_str());
				st.ops.insert(name, x.as_u64().unwrap_or(0));
			}
		}
		st.programs = u("programs");
		st.sessions = u("sessions");
		st.reopen_cmp = u("reopen_cmp");
		st.outside_full_cmp = u("outside_full_cmp");
		st.top_commit = u("top_commit");
		st.top_drop = u("top_drop");
		st.child_commit = u("child_commit");
		st.child_drop = u("child_drop");
		st.held_iters = u("held_iters");
		st.held_across_commit = u("held_across_commit");
		st.resizes = u("resizes");
		st.max_keys_space = u("max_keys_space");
		st.resizes_immediate = u("resizes_immediate");
		st.resizes_deferred = u("resizes_deferred");
		if let Some(a) = v.get("chains").and_then(|x| x.as_array()) {
			st.chains = a.iter().filter_map(|x| x.as_str().map(|s| s.to_string())).collect();
		}
		if let Some(a) = v.get("sigs").and_then(|x| x.as_array()) {
			for x in a {
				st.sigs.push((x[0].as_str().unwrap_or("").to_string(), x[1].as_bool().unwrap_or(false)));
			}
		}
		if let Some(a) = v.get("samples").and_then(|x| x.as_array()) {
			st.samples = a.clone();
		}
		if let Some(a) = v.get("fails").and_then(|x| x.as_array()) {
			for x in a {
				st.fails.push((
					Fail {
						violation: x["violation"].as_bool().unwrap_or(false),
						sig: x["sig"].as_str().unwrap_or("?").to_string(),
						what: x["what"].as_str().unwrap_or("?").to_string(),
					},
					x["replay"].clone(),
				));
			}
		}
		st
	}
}

struct Held {
	it: DatabaseIterator<'static, KvFn, KV>,
	expect: Vec<KV>,
	pos: usize,
	space: usize,
	commits_at_start: u64,
}

struct Sess {
	prng: Prng,
	model: RefNestedMap,
	universe: Vec<Vec<u8>>,
	growth: bool,
	ops_left: usize,
	next_bid: u64,
	next_seq: u32,
	trace: VecDeque<String>,
	held: Option<Held>,
	stats: StStats,
	batch_bytes: usize,
	batch_budget: usize,
	level_chains: Vec<BTreeSet<String>>,
	level_bids: Vec<u64>,
	commits_total: u64,
	// per program shape
	p_tops: u32,
	p_maxdepth: usize,
	p_chains: BTreeSet<String>,
	p_kinds: BTreeSet<&'static str>,
	p_committed_write: bool,
	p_dropped_write: bool,
	g_space: usize,
	g_win: usize,
}

#[derive(Clone, Copy, PartialEq, Eq, Debug)]
enum Op {
	Put,
	Delete,
	Get,
	Exists,
	IterIn,
	OutGet,
	OutExists,
	OutIter,
	HoldStart,
	HoldStep,
	Child,
	End,
}

const W_NORMAL: [(Op, u32); 12] = [
	(Op::Put, 300),
	(Op::Delete, 120),
	(Op::Get, 120),
	(Op::Exists, 60),
	(Op::IterIn, 50),
	(Op::OutGet, 60),
	(Op::OutExists, 30),
	(Op::OutIter, 30),
	(Op::HoldStart, 20),
	(Op::HoldStep, 30),
	(Op::Child, 100),
	(Op::End, 80),
];

const W_GROWTH: [(Op, u32); 12] = [
	(Op::Put, 620),
	(Op::Delete, 80),
	(Op::Get, 80),
	(Op::Exists, 30),
	(Op::IterIn, 3),
	(Op::OutGet, 40),
	(Op::OutExists, 10),
	(Op::OutIter, 3),
	(Op::HoldStart, 6),
	(Op::HoldStep, 10),
	(Op::Child, 60),
	(Op::End, 30),
];

fn make_universe(prng: &mut Prng, growth: bool) -> Vec<Vec<u8>> {
	if growth {
		return (0..4500u32).map(|i| format!("g{:05}", i).into_bytes()).collect();
	}
	let mut u: Vec<Vec<u8>> = vec![
		vec![0x00],
		vec![0x00, 0x00],
		vec![0xff],
		vec![0xff, 0xff, 0xff],
		b"a".to_vec(),
		b"a\0".to_vec(),
		b"aa".to_vec(),
		b"ab".to_vec(),
		b"b".to_vec(),
		b"h:abc".to_vec(),
		b"b:abc".to_vec(),
		b"__grin_migration_complete_x".to_vec(),
		vec![b'k'; 40],
		vec![b'L'; 300],
	];
	while u.len() < 28 {
		let n = prng.range(1, 32) as usize;
		let k = prng.bytes(n);
		if !u.contains(&k) {
			u.push(k);
		}
	}
	u
}

impl Sess {
	fn new(mut prng: Prng, growth: bool) -> Sess {
		let universe = make_universe(&mut prng, growth);
		Sess {
			prng,
			model: RefNestedMap::new(),
			universe,
			growth,
			ops_left: 0,
			next_bid: 1,
			next_seq: 0,
			trace: VecDeque::new(),
			held: None,
			stats: StStats::default(),
			batch_bytes: 0,
			batch_budget: usize::MAX,
			level_chains: vec![],
			level_bids: vec![],
			commits_total: 0,
			p_tops: 0,
			p_maxdepth: 0,
			p_chains: BTreeSet::new(),
			p_kinds: BTreeSet::new(),
			p_committed_write: false,
			p_dropped_write: false,
			g_space: 0,
			g_win: 0,
		}
	}

	fn tr(&mut self, s: String) {
		if self.trace.len() >= 250 {
			self.trace.pop_front();
		}
		self.trace.push_back(s);
	}

	fn pick_op(&mut self, depth: usize) -> Op {
		let table: &[(Op, u32)] = if self.growth { &W_GROWTH } else { &W_NORMAL };
		let total: u32 = table
			.iter()
			.filter(|(o, _)| !(*o == Op::Child && depth >= 3))
			.map(|(_, w)| *w)
			.sum();
		let mut r = self.prng.below(total as u64) as u32;
		for (o, w) in table {
			if *o == Op::Child && depth >= 3 {
				continue;
			}
			if r < *w {
				return *o;
			}
			r -= *w;
		}
		Op::End
	}

	fn pick_key(&mut self) -> Vec<u8> {
		if !self.growth && self.prng.chance(1, 12) {
			let n = self.prng.range(1, 24) as usize;
			return self.prng.bytes(n);
		}
		if self.growth {
			// growth sessions: a top-level batch works on one window of neighbouring keys of one
			// key space, so that the pages it dirties stay well below the map's free headroom
			let w = (16 * (TL_MAP_SIZE.with(|c| c.get()) / MIB) as usize).clamp(16, 96);
			let i = self.g_win + self.prng.usize_below(w);
			return self.universe[i % self.universe.len()].clone();
		}
		let i = self.prng.usize_below(self.universe.len());
		self.universe[i].clone()
	}

	fn pick_any_key(&mut self) -> Vec<u8> {
		let i = self.prng.usize_below(self.universe.len());
		self.universe[i].clone()
	}

	fn pick_space(&mut self) -> usize {
		if self.growth {
			self.g_space
		} else {
			self.prng.usize_below(NS)
		}
	}

	fn new_val(&mut self, bid: u64) -> Val {
		let len = if self.growth {
			self.prng.range(100, 500) as usize
		} else {
			match self.prng.below(100) {
				0..=69 => self.prng.range(0, 64) as usize,
				70..=94 => self.prng.range(64, 600) as usize,
				_ => self.prng.range(1500, 5000) as usize,
			}
		};
		self.next_seq = self.next_seq.wrapping_add(1);
		Val {
			batch_id: bid,
			batch_size: 0,
			seq: self.next_seq,
			payload: self.prng.bytes(len),
		}
	}

	fn mismatch(&self, ctx: &str, op: &str, depth: usize, class: &str, detail: String) -> Fail {
		Fail {
			violation: true,
			sig: format!("st;ctx={};op={};class={}", ctx, op, class),
			what: format!(
				"{} {} at nesting depth {} differs from RefNestedMap ({}): {}",
				ctx, op, depth, class, detail
			),
		}
	}

	fn err(&self, op: &str, e: &StoreError) -> Fail {
		fail_from_err("st", op, e)
	}

	/// Close the chain bookkeeping of a level with decision 'C' or 'D'.
	fn close_level(&mut self, decision: char) {
		let set = self.level_chains.pop().unwrap_or_default();
		self.level_bids.pop();
		if let Some(parent) = self.level_chains.last_mut() {
			for ch in set {
				parent.insert(format!("{}{}", ch, decision));
			}
		} else {
			for ch in set {
				let full = format!("{}{}", ch, decision);
				if full.contains('D') {
					self.p_dropped_write = true;
				} else {
					self.p_committed_write = true;
				}
				self.p_chains.insert(full.clone());
				self.stats.chains.insert(full);
			}
		}
	}

	fn check_get(
		&self,
		ctx: &str,
		op: &str,
		depth: usize,
		key: &[u8],
		got: Option<Vec<u8>>,
		exp: Option<&Vec<u8>>,
	) -> Result<(), Fail> {
		match (got, exp) {
			(None, None) => Ok(()),
			(Some(g), Some(e)) if &g == e => Ok(()),
			(Some(g), Some(e)) => Err(self.mismatch(
				ctx,
				op,
				depth,
				"wrong_value",
				format!(
					"key {}: got {:?} expected {:?}",
					short_hex(key),
					dec_val(&g).map(|v| (v.batch_id, v.seq)),
					dec_val(e).map(|v| (v.batch_id, v.seq))
				),
			)),
			(Some(g), None) => Err(self.mismatch(
				ctx,
				op,
				depth,
				"phantom",
				format!(
					"key {} present (written by batch {:?}) but must be absent",
					short_hex(key),
					dec_val(&g).map(|v| v.batch_id)
				),
			)),
			(None, Some(e)) => Err(self.mismatch(
				ctx,
				op,
				depth,
				"missing",
				format!(
					"key {} absent but must hold the value of batch {:?}",
					short_hex(key),
					dec_val(e).map(|v| v.batch_id)
				),
			)),
		}
	}

	fn outside_full_compare(&mut self, store: &Store, ctx: &str) -> Result<(), Fail> {
		for s in 0..NS {
			let got = dump_space(store, s).map_err(|e| self.err("store.iter", &e))?;
			if let Some((class, detail)) = diff_seq(&got, &self.model.committed[s]) {
				return Err(self.mismatch(ctx, "iter", 0, class, format!("space {}: {}", s, detail)));
			}
			self.stats.max_keys_space = self.stats.max_keys_space.max(got.len() as u64);
		}
		self.stats.outside_full_cmp += 1;
		Ok(())
	}

	fn hold_start(&mut self, store: &Store) -> Result<(), Fail> {
		if self.held.is_some() {
			return Ok(());
		}
		let s = self.prng.usize_below(NS);
		let expect: Vec<KV> = self.model.committed[s]
			.iter()
			.map(|(k, v)| (k.clone(), v.clone()))
			.collect();
		let it = store
			.iter::<KvFn, KV>(SPACE_KEYS[s], kv_raw as KvFn)
			.map_err(|e| self.err("store.iter", &e))?;
		self.tr(format!("hold_start s{} ({} keys)", s, expect.len()));
		self.held = Some(Held {
			it,
			expect,
			pos: 0,
			space: s,
			commits_at_start: self.commits_total,
		});
		self.stats.held_iters += 1;
		let n = self.prng.below(8) as usize;
		self.hold_step(n, false)
	}

	/// Consume `n` more items of the held iterator (all if `finish`); its read
	/// transaction started before any later commit, so it must show the old snapshot.
	fn hold_step(&mut self, n: usize, finish: bool) -> Result<(), Fail> {
		let mut h = match self.held.take() {
			Some(h) => h,
			None => return Ok(()),
		};
		let mut left = n;
		loop {
			if !finish && left == 0 {
				break;
			}
			let item = h.it.next();
			match item {
				None => {
					if h.pos != h.expect.len() {
						return Err(self.mismatch(
							"held",
							"iter",
							0,
							"missing",
							format!(
								"held snapshot iterator of space {} ended after {} of {} items",
								h.space,
								h.pos,
								h.expect.len()
							),
						));
					}
					if self.commits_total > h.commits_at_start {
						self.stats.held_across_commit += 1;
					}
					self.tr("hold_finish".into());
					return Ok(()); // dropped here
				}
				Some(Err(e)) => return Err(self.err("held.next", &e)),
				Some(Ok((k, v))) => {
					match h.expect.get(h.pos) {
						Some((ek, ev)) if *ek == k && *ev == v => {}
						Some((ek, _)) => {
							let class = if *ek == k { "wrong_value" } else { "snapshot_moved" };
							return Err(self.mismatch(
								"held",
								"iter",
								0,
								class,
								format!(
									"space {} item {}: got key {} expected key {} (snapshot taken {} commits ago)",
									h.space,
									h.pos,
									short_hex(&k),
									short_hex(ek),
									self.commits_total - h.commits_at_start
								),
							));
						}
						None => {
							return Err(self.mismatch(
								"held",
								"iter",
								0,
								"phantom",
								format!("space {} extra key {} beyond snapshot", h.space, short_hex(&k)),
							))
						}
					}
					h.pos += 1;
				}
			}
			if left > 0 {
				left -= 1;
			}
		}
		self.held = Some(h);
		Ok(())
	}
}

// progress of the single-thread session threads (hang watchdog of the st worker)
const ST_MAX_THREADS: usize = 16;
static ST_PROGRESS: [AtomicU64; ST_MAX_THREADS] = [const { AtomicU64::new(0) }; ST_MAX_THREADS];
static ST_STATE: [AtomicU64; ST_MAX_THREADS] = [const { AtomicU64::new(0) }; ST_MAX_THREADS];
static ST_SESSION: [AtomicU64; ST_MAX_THREADS] = [const { AtomicU64::new(0) }; ST_MAX_THREADS];
static ST_DONE: [AtomicBool; ST_MAX_THREADS] = [const { AtomicBool::new(false) }; ST_MAX_THREADS];
thread_local! {
	static ST_TID: Cell<usize> = const { Cell::new(usize::MAX) };
}
/// state: 0 other, 1 in Store::batch(), 3 in Batch::commit(), 6 in Store::iter(), 10 in Store::new
fn st_tick(state: u64) {
	let t = ST_TID.with(|c| c.get());
	if t < ST_MAX_THREADS {
		ST_PROGRESS[t].fetch_add(1, Ordering::Relaxed);
		ST_STATE[t].store(state, Ordering::Relaxed);
	}
}

/// Run one level (top-level batch or child) of random operations.
fn st_level(store: &Store, st: &mut Sess, batch: &mut Batch<'_>, depth: usize) -> Result<(), Fail> {
	st.p_maxdepth = st.p_maxdepth.max(depth);
	let bid = *st.level_bids.last().unwrap();
	loop {
		if st.ops_left == 0 || st.batch_bytes > st.batch_budget {
			return Ok(());
		}
		st.ops_left -= 1;
		st_tick(0);
		let op = st.pick_op(depth);
		match op {
			Op::Put if !st.growth && st.prng.chance(1, 6) => {
				// write the COMMITTED bytes of a key again after this batch changed or deleted it: values are otherwise
				// unique, so a store that compares a put with what is on disk would never be asked to "change nothing"
				let s = st.pick_space();
				let view = st.model.view_in(s);
				let cands: Vec<(Vec<u8>, Vec<u8>)> = st.model.committed[s]
					.iter()
					.filter(|(k, v)| view.get(*k) != Some(*v))
					.map(|(k, v)| (k.clone(), v.clone()))
					.collect();
				if cands.is_empty() {
					continue;
				}
				let (k, bytes) = cands[st.prng.usize_below(cands.len())].clone();
				st.batch_bytes += bytes.len() + k.len() + 16;
				st.tr(format!("d{} put s{} {} len={} (the committed value again)", depth, s, short_hex(&k), bytes.len()));
				st.stats.op("put_restoring_the_committed_value");
				st.p_kinds.insert("put");
				batch.put(SPACE_KEYS[s], &k, &bytes).map_err(|e| st.err("put", &e))?;
				st.model.put(s, &k, bytes);
				st.level_chains.last_mut().unwrap().insert(String::new());
			}
			Op::Put => {
				let s = st.pick_space();
				let k = st.pick_key();
				let v = st.new_val(bid);
				let bytes = enc_val(&v);
				st.batch_bytes += bytes.len() + k.len() + 16;
				let via_ser = st.prng.bool();
				st.tr(format!("d{} put s{} {} len={}", depth, s, short_hex(&k), bytes.len()));
				if via_ser {
					st.stats.op("put_ser");
					st.p_kinds.insert("put_ser");
					batch
						.put_ser(SPACE_KEYS[s], &k, &v)
						.map_err(|e| st.err("put_ser", &e))?;
				} else {
					st.stats.op("put");
					st.p_kinds.insert("put");
					batch.put(SPACE_KEYS[s], &k, &bytes).map_err(|e| st.err("put", &e))?;
				}
				st.model.put(s, &k, bytes);
				st.level_chains.last_mut().unwrap().insert(String::new());
			}
			Op::Delete => {
				let s = st.pick_space();
				// prefer a key that is visible from here
				let k = if st.prng.chance(3, 4) && !st.growth {
					let view = st.model.view_in(s);
					if view.is_empty() {
						st.pick_key()
					} else {
						let i = st.prng.usize_below(view.len());
						view.keys().nth(i).unwrap().clone()
					}
				} else {
					st.pick_key()
				};
				st.stats.op("delete");
				st.p_kinds.insert("delete");
				st.batch_bytes += 400;
				st.tr(format!("d{} delete s{} {}", depth, s, short_hex(&k)));
				batch.delete(SPACE_KEYS[s], &k).map_err(|e| st.err("delete", &e))?;
				st.model.delete(s, &k);
				st.level_chains.last_mut().unwrap().insert(String::new());
			}
			Op::Get => {
				let s = st.pick_space();
				let k = st.pick_key();
				st.stats.op("batch.get_ser");
				st.p_kinds.insert("get_in");
				let got = batch
					.get_ser::<Val>(SPACE_KEYS[s], &k, None)
					.map_err(|e| st.err("batch.get_ser", &e))?;
				let got = got.map(|v| enc_val(&v));
				st.check_get("inside", "get_ser", depth, &k, got, st.model.get_in(s, &k))?;
			}
			Op::Exists => {
				let s = st.pick_space();
				let k = st.pick_key();
				st.stats.op("batch.exists");
				st.p_kinds.insert("exists_in");
				let got = batch
					.exists(SPACE_KEYS[s], &k)
					.map_err(|e| st.err("batch.exists", &e))?;
				let exp = st.model.get_in(s, &k).is_some();
				if got != exp {
					return Err(st.mismatch(
						"inside",
						"exists",
						depth,
						if got { "phantom" } else { "missing" },
						format!("key {} exists={} expected {}", short_hex(&k), got, exp),
					));
				}
			}
			Op::IterIn => {
				let s = st.pick_space();
				st.stats.op("batch.iter");
				st.p_kinds.insert("iter_in");
				let got = {
					let it = batch
						.iter(SPACE_KEYS[s], |k, v| Ok((k.to_vec(), v.to_vec())))
						.map_err(|e| st.err("batch.iter", &e))?;
					it.collect::<Result<Vec<KV>, StoreError>>()
						.map_err(|e| st.err("batch.iter.next", &e))?
				};
				let view = st.model.view_in(s);
				if let Some((class, detail)) = diff_seq(&got, &view) {
					return Err(st.mismatch("inside", "iter", depth, class, format!("space {}: {}", s, detail)));
				}
			}
			Op::OutGet => {
				let s = st.pick_space();
				let k = st.pick_key();
				st.stats.op("store.get_ser(in-flight)");
				st.p_kinds.insert("get_out");
				let got = store
					.get_ser::<Val>(SPACE_KEYS[s], &k, None)
					.map_err(|e| st.err("store.get_ser", &e))?;
				let got = got.map(|v| enc_val(&v));
				st.check_get("outside", "get_ser", depth, &k, got, st.model.get_out(s, &k))?;
			}
			Op::OutExists => {
				let s = st.pick_space();
				let k = st.pick_key();
				st.stats.op("store.exists(in-flight)");
				st.p_kinds.insert("exists_out");
				let got = store
					.exists(SPACE_KEYS[s], &k)
					.map_err(|e| st.err("store.exists", &e))?;
				let exp = st.model.get_out(s, &k).is_some();
				if got != exp {
					return Err(st.mismatch(
						"outside",
						"exists",
						depth,
						if got { "phantom" } else { "missing" },
						format!("key {} exists={} expected {}", short_hex(&k), got, exp),
					));
				}
			}
			Op::OutIter => {
				let s = st.pick_space();
				st.stats.op("store.iter(in-flight)");
				st.p_kinds.insert("iter_out");
				let got = dump_space(store, s).map_err(|e| st.err("store.iter", &e))?;
				if let Some((class, detail)) = diff_seq(&got, &st.model.committed[s]) {
					return Err(st.mismatch("outside", "iter", depth, class, format!("space {}: {}", s, detail)));
				}
			}
			Op::HoldStart => {
				st.stats.op("held_iter_start");
				st.p_kinds.insert("held");
				st.hold_start(store)?;
			}
			Op::HoldStep => {
				if st.held.is_some() {
					st.stats.op("held_iter_step");
					let finish = st.prng.chance(1, 3);
					let n = st.prng.below(6) as usize;
					st.hold_step(n, finish)?;
				}
			}
			Op::Child => {
				st.stats.op("child");
				st.p_kinds.insert("child");
				st.tr(format!("d{} child()", depth));
				let mut c = batch.child().map_err(|e| st.err("child", &e))?;
				st.model.begin();
				st.level_chains.push(BTreeSet::new());
				st.next_bid += 1;
				st.level_bids.push(st.next_bid);
				st_level(store, st, &mut c, depth + 1)?;
				if st.prng.bool() {
					st.tr(format!("d{} child.commit", depth + 1));
					c.commit().map_err(|e| st.err("child.commit", &e))?;
					st.model.commit();
					st.close_level('C');
					st.stats.child_commit += 1;
				} else {
					st.tr(format!("d{} child.drop", depth + 1));
					drop(c);
					st.model.rollback();
					st.close_level('D');
					st.stats.child_drop += 1;
				}
			}
			Op::End => return Ok(()),
		}
	}
}

fn st_program(store: &Store, st: &mut Sess) -> Result<(), Fail> {
	st.ops_left = if st.growth {
		st.prng.range(400, 900) as usize
	} else {
		st.prng.range(50, 200) as usize
	};
	st.p_tops = 0;
	st.p_maxdepth = 0;
	st.p_chains.clear();
	st.p_kinds.clear();
	st.p_committed_write = false;
	st.p_dropped_write = false;
	while st.ops_left > 0 {
		// between top-level batches
		match st.prng.below(10) {
			0 => {
				st.stats.op("held_iter_start");
				st.hold_start(store)?
			}
			1 => {
				if st.held.is_some() {
					let n = st.prng.below(6) as usize;
					st.hold_step(n, false)?
				}
			}
			2 | 3 => {
				let s = st.pick_space();
				let k = st.pick_key();
				st.stats.op("store.get_ser");
				let got = store
					.get_ser::<Val>(SPACE_KEYS[s], &k, None)
					.map_err(|e| st.err("store.get_ser", &e))?
					.map(|v| enc_val(&v));
				st.check_get("outside", "get_ser", 0, &k, got, st.model.get_out(s, &k))?;
			}
			_ => {}
		}
		st.p_tops += 1;
		st.tr("batch()".into());
		st.stats.op("batch");
		st_tick(1);
		let mut b = store.batch().map_err(|e| st.err("batch", &e))?;
		st_tick(0);
		st.model.begin();
		st.level_chains.push(BTreeSet::new());
		st.next_bid += 1;
		st.level_bids.push(st.next_bid);
		st.batch_bytes = 0;
		st.batch_budget = if st.growth {
			st.g_space = st.prng.usize_below(NS);
			st.g_win = st.prng.usize_below(st.universe.len());
			((TL_MAP_SIZE.with(|c| c.get()) / 128) as usize).min(64 * 1024)
		} else {
			usize::MAX
		};
		st_level(store, st, &mut b, 0)?;
		if st.prng.chance(2, 3) {
			st.tr("top.commit".into());
			st_tick(3);
			b.commit().map_err(|e| st.err("commit", &e))?;
			st_tick(0);
			st.model.commit();
			st.close_level('C');
			st.stats.top_commit += 1;
			st.commits_total += 1;
		} else {
			st.tr("top.drop".into());
			drop(b);
			st.model.rollback();
			st.close_level('D');
			st.stats.top_drop += 1;
		}
		if st.growth {
			// same-thread nesting escapes the resize wait: never keep a reader open across batches here
			st.hold_step(0, true)?;
			if st.p_tops % 6 == 0 {
				st.outside_full_compare(store, "outside")?;
			}
		} else {
			st.outside_full_compare(store, "outside")?;
		}
	}
	st.hold_step(0, true)?;
	Ok(())
}

fn st_reopen_check(store: &Store, st: &mut Sess) -> Result<(), Fail> {
	st.outside_full_compare(store, "reopen")?;
	let sample: Vec<Vec<u8>> = if st.growth {
		(0..200).map(|_| st.pick_any_key()).collect()
	} else {
		st.universe.clone()
	};
	for s in 0..NS {
		for k in &sample {
			let got = store
				.get_ser::<Val>(SPACE_KEYS[s], k, None)
				.map_err(|e| st.err("store.get_ser", &e))?
				.map(|v| enc_val(&v));
			st.check_get("reopen", "get_ser", 0, k, got, st.model.get_out(s, k))?;
			let ex = store.exists(SPACE_KEYS[s], k).map_err(|e| st.err("store.exists", &e))?;
			if ex != st.model.get_out(s, k).is_some() {
				return Err(st.mismatch(
					"reopen",
					"exists",
					0,
					if ex { "phantom" } else { "missing" },
					format!("key {}", short_hex(k)),
				));
			}
		}
	}
	let unused = dump_unused(store).map_err(|e| st.err("store.iter", &e))?;
	if unused != 0 {
		return Err(st.mismatch(
			"reopen",
			"iter",
			0,
			"phantom",
			format!("{} keys in a key space nothing was written to", unused),
		));
	}
	st.stats.reopen_cmp += 1;
	Ok(())
}

/// Directed growth scenario: the writing thread itself holds an open read iterator (opened before, so it must see exactly
/// what was committed before) when it opens the batch at which the enlargement of the map becomes due. Every iterator
/// lives across ONE batch of at most 1/32 of the initial map (so what is written while the enlargement has to wait for the
/// thread's own reader stays far inside the 10 % headroom) and is closed before the next batch is opened; the deferred
/// enlargement must then happen, whatever the writer held when it became due. 3.5 maps' worth of data are written:
/// no operation may fail for lack of space, every iterator sees exactly its snapshot, nothing committed is lost
/// (also after reopen). Variants per batch: iterator dropped after the commit / partly consumed and dropped before the
/// commit / a nested point read under the iterator / no iterator (control).
fn st_own_iterator_growth(dir: &str, seed: u64, sess_idx: u64, stats: &mut StStats) {
	let scenario = "st_own_iterator_growth";
	let mut prng = Prng::new(seed ^ sess_idx.wrapping_mul(0x9E37_79B9_7F4A_7C15) ^ 0x0C18_17E8);
	let store = match open_store(dir, None) {
		Ok(s) => s,
		Err(e) => {
			stats.fails.push((fail_from_err(scenario, "Store::new", &e), json!({"scenario": scenario, "session": sess_idx})));
			return;
		}
	};
	let size0 = data_mdb_size(dir).max(MIB);
	let mut expect: Vec<KMap> = (0..NS).map(|_| KMap::new()).collect();
	let mut written: u64 = 0;
	let mut i: u32 = 0;
	let mut fail: Option<(Fail, Value)> = None;
	let mk_fail = |sig: String, what: String| Fail { violation: true, sig, what };
	'outer: while written < 7 * MIB / 2 {
		let variant = (sess_idx as u32 + i) % 4;
		let s = (i as usize) % NS;
		let replay = json!({"scenario": scenario, "seed": seed, "session": sess_idx, "batch": i, "variant": variant, "bytes_written": written});
		let held = if variant != 3 {
			st_tick(6);
			match store.iter::<KvFn, KV>(SPACE_KEYS[s], kv_raw as KvFn) {
				Ok(it) => Some(it),
				Err(e) => {
					fail = Some((fail_from_err(scenario, "iter", &e), replay));
					break 'outer;
				}
			}
		} else {
			None
		};
		let snapshot_len = expect[s].len();
		if variant == 2 {
			// nested point read while the iterator is open
			if let Some((k, v)) = expect[s].iter().next() {
				match store.get_ser::<Val>(SPACE_KEYS[s], k, None) {
					Ok(got) => {
						if got.map(|x| enc_val(&x)).as_ref() != Some(v) {
							fail = Some((mk_fail(format!("{};clause=nested_get", scenario), format!("get_ser({}) under an open iterator differs from the committed value", short_hex(k))), replay));
							break 'outer;
						}
					}
					Err(e) => {
						fail = Some((fail_from_err(scenario, "get_ser", &e), replay));
						break 'outer;
					}
				}
			}
		}
		let len = 12 * 1024 + prng.usize_below(18 * 1024);
		let key = format!("own{:06}", i).into_bytes();
		let val = Val { batch_id: 7_000_000 + i as u64, batch_size: 1, seq: i, payload: vec![(i % 251) as u8; len] };
		let enc = enc_val(&val);
		st_tick(1);
		let r = store.batch().and_then(|mut b| {
			st_tick(0);
			b.put_ser(SPACE_KEYS[s], &key, &val)?;
			if variant == 1 {
				Ok(Some(b))
			} else {
				st_tick(3);
				b.commit()?;
				Ok(None)
			}
		});
		st_tick(0);
		let pending = match r {
			Ok(p) => p,
			Err(e) => {
				fail = Some((fail_from_err(scenario, "batch_put_commit", &e), replay));
				break 'outer;
			}
		};
		// the iterator opened before the batch sees exactly the pairs committed before it
		if let Some(it) = held {
			match it.collect::<Result<Vec<KV>, StoreError>>() {
				Ok(got) => {
					if got.len() != snapshot_len || diff_seq(&got, &expect[s]).is_some() {
						fail = Some((mk_fail(format!("{};clause=iterator_snapshot", scenario), format!("iterator opened before batch {} returned {} pairs, {} were committed then", i, got.len(), snapshot_len)), replay));
						break 'outer;
					}
					stats.op("own_iterator_growth.iterator_snapshots_exact");
				}
				Err(e) => {
					fail = Some((fail_from_err(scenario, "iter.next", &e), replay));
					break 'outer;
				}
			}
		}
		if let Some(b) = pending {
			st_tick(3);
			if let Err(e) = b.commit() {
				fail = Some((fail_from_err(scenario, "commit", &e), replay));
				break 'outer;
			}
			st_tick(0);
		}
		expect[s].insert(key, enc);
		written += len as u64;
		stats.op(if variant == 3 { "own_iterator_growth.batches_without_iterator" } else { "own_iterator_growth.batches_under_own_iterator" });
		i += 1;
	}
	if fail.is_none() {
		settle(&store);
		for pass in 0..2 {
			let st2;
			let st_ref = if pass == 0 {
				&store
			} else {
				match open_store(dir, None) {
					Ok(x) => {
						st2 = x;
						&st2
					}
					Err(e) => {
						fail = Some((fail_from_err(scenario, "Store::new(reopen)", &e), json!({"scenario": scenario, "seed": seed, "session": sess_idx})));
						break;
					}
				}
			};
			for s in 0..NS {
				match dump_space(st_ref, s) {
					Ok(got) => {
						if let Some((cls, det)) = diff_seq(&got, &expect[s]) {
							fail = Some((
								mk_fail(format!("{};clause=final_content;class={};reopened={}", scenario, cls, pass), det),
								json!({"scenario": scenario, "seed": seed, "session": sess_idx}),
							));
						}
					}
					Err(e) => fail = Some((fail_from_err(scenario, "dump", &e), json!({"scenario": scenario, "seed": seed, "session": sess_idx}))),
				}
			}
			if pass == 0 {
				// the second pass reopens the same path: close this handle first
				continue;
			}
		}
		let size1 = data_mdb_size(dir);
		if size1 > size0 {
			stats.op("own_iterator_growth.sessions_in_which_the_map_grew");
		}
	}
	if let Some(f) = fail {
		stats.fails.push(f);
	} else {
		stats.op("own_iterator_growth.sessions_completed");
	}
}

/// One session: a store directory used by several programs with a reopen after each.
fn st_session(dir: &str, seed: u64, sess_idx: u64, growth: bool, nprog: usize, deadline: Instant) -> StStats {
	init_thread();
	TL_MAP_SIZE.with(|c| c.set(MIB));
	TL_RESIZES.with(|c| c.set(0));
	let prng = Prng::new(seed.wrapping_mul(0x9E37_79B9).wrapping_add(sess_idx).wrapping_mul(0x2545_F491_4F6C_DD1D) ^ 0xC18);
	let mut st = Sess::new(prng, growth);
	st.stats.sessions = 1;
	if growth {
		let d2 = format!("{}-own", dir);
		st_own_iterator_growth(&d2, seed, sess_idx, &mut st.stats);
		let _ = std::fs::remove_dir_all(&d2);
		if !st.stats.fails.is_empty() {
			return st.stats;
		}
	}
	let max_readers = if sess_idx % 3 == 1 { Some(64) } else { None };
	let mut store = match open_store(dir, max_readers) {
		Ok(s) => Some(s),
		Err(e) => {
			let f = fail_from_err("st", "Store::new", &e);
			st.stats.fails.push((f, json!({"session": sess_idx})));
			return st.stats;
		}
	};
	for p in 0..nprog {
		if Instant::now() > deadline {
			break;
		}
		st.tr(format!("--- program {}", p));
		let r = st_program(store.as_ref().unwrap(), &mut st).and_then(|_| {
			// durability / no trace of dropped: drop the Store, reopen the same path, compare everything
			st.held = None;
			st_tick(1);
			settle(store.as_ref().unwrap());
			st_tick(10);
			store = None;
			match open_store(dir, max_readers) {
				Ok(s) => store = Some(s),
				Err(e) => return Err(fail_from_err("st", "Store::new(reopen)", &e)),
			}
			st_reopen_check(store.as_ref().unwrap(), &mut st)
		});
		st.stats.programs += 1;
		let nontrivial = st.p_committed_write && st.p_dropped_write && st.p_maxdepth >= 1;
		let sig = format!(
			"st;growth={};tops={};maxdepth={};chains={};kinds={}",
			st.growth as u8,
			st.p_tops.min(12),
			st.p_maxdepth,
			st.p_chains.iter().cloned().collect::<Vec<_>>().join(","),
			st.p_kinds.iter().cloned().collect::<Vec<_>>().join(",")
		);
		if st.stats.samples.is_empty() && p == 1 {
			st.stats.samples.push(json!({
				"scenario": "single-thread program", "session": sess_idx, "program": p, "growth": growth,
				"shape": sig, "last_ops": st.trace.iter().rev().take(12).rev().cloned().collect::<Vec<_>>(),
			}));
		}
		st.stats.sigs.push((sig, nontrivial));
		if let Err(f) = r {
			let replay = json!({
				"scenario": "single-thread program", "seed": seed, "session": sess_idx, "program": p,
				"growth": growth, "trace_tail": st.trace.iter().cloned().collect::<Vec<_>>(),
			});
			st.stats.fails.push((f, replay));
			break; // model and store may have diverged
		}
	}
	st.held = None;
	st.stats.resizes += TL_RESIZES.with(|c| c.get());
	if let Some(s) = store.as_ref() {
		settle(s);
	}
	drop(store);
	st.stats
}

#[derive(Clone, Debug)]
struct StParams {
	seed: u64,
	base: String,
	secs: u64,
	n_threads: usize,
	n_sessions: u64,
	n_growth: u64,
	progs: usize,
	growth_progs: usize,
	/// run only this session (index, growth) - used to re-run a hung session alone
	only: Option<(u64, bool)>,
	hang_secs: u64,
	out: Option<String>,
}

fn st_args(p: &StParams) -> Vec<String> {
	vec![
		"--worker-st".into(),
		p.seed.to_string(),
		p.base.clone(),
		p.secs.to_string(),
		p.n_threads.to_string(),
		p.n_sessions.to_string(),
		p.n_growth.to_string(),
		p.progs.to_string(),
		p.growth_progs.to_string(),
		p.only.map(|o| o.0 as i64).unwrap_or(-1).to_string(),
		p.only.map(|o| o.1 as u8).unwrap_or(0).to_string(),
		p.hang_secs.to_string(),
		p.out.clone().unwrap_or_default(),
	]
}

/// All single-thread sessions, on `n_threads` threads, with a hang watchdog.
fn st_phase(p: &StParams) -> StStats {
	let deadline = Instant::now() + Duration::from_secs(p.secs);
	let session_ctr = AtomicU64::new(0);
	let growth_ctr = AtomicU64::new(0);
	let total = Arc::new(Mutex::new(StStats::default()));
	let all_done = Arc::new(AtomicBool::new(false));
	let nt = p.n_threads.min(ST_MAX_THREADS);
	let mon = {
		let (total, all_done, p) = (total.clone(), all_done.clone(), p.clone());
		std::thread::spawn(move || {
			let mut last: Vec<(u64, Instant)> = (0..nt).map(|_| (0, Instant::now())).collect();
			while !all_done.load(Ordering::SeqCst) {
				std::thread::sleep(Duration::from_millis(250));
				for t in 0..nt {
					if ST_DONE[t].load(Ordering::SeqCst) {
						continue;
					}
					let pr = ST_PROGRESS[t].load(Ordering::Relaxed);
					if pr != last[t].0 {
						last[t] = (pr, Instant::now());
					} else if last[t].1.elapsed().as_secs() >= p.hang_secs {
						let sess = ST_SESSION[t].load(Ordering::SeqCst);
						let state = state_name(ST_STATE[t].load(Ordering::Relaxed));
						eprintln!("\nHANG single-thread session {} state {}", sess, state);
						let mut v = total.lock().map(|t| t.to_json()).unwrap_or(json!({}));
						v["hang"] = json!({"session": sess % 1_000_000, "growth": sess >= 1_000_000, "state": state});
						if let Some(out) = &p.out {
							let _ = std::fs::write(out, v.to_string());
						}
						unsafe { libc::_exit(vcommon::monitor::EXIT_HANG) };
					}
				}
			}
		})
	};
	std::thread::scope(|sc| {
		for t in 0..nt {
			let (session_ctr, growth_ctr, total) = (&session_ctr, &growth_ctr, &total);
			sc.spawn(move || {
				init_thread();
				ST_TID.with(|c| c.set(t));
				let mut local = StStats::default();
				loop {
					if Instant::now() > deadline {
						break;
					}
					let (idx, growth) = if let Some((i, g)) = p.only {
						if t != 0 || session_ctr.fetch_add(1, Ordering::SeqCst) > 0 {
							break;
						}
						(if g { 1_000_000 + i } else { i }, g)
					} else if t < 2 && growth_ctr.load(Ordering::SeqCst) < p.n_growth {
						// the first threads take the growth sessions first
						let g = growth_ctr.fetch_add(1, Ordering::SeqCst);
						if g < p.n_growth {
							(1_000_000 + g, true)
						} else {
							continue;
						}
					} else {
						let i = session_ctr.fetch_add(1, Ordering::SeqCst);
						if i >= p.n_sessions {
							break;
						}
						(i, false)
					};
					ST_SESSION[t].store(idx, Ordering::SeqCst);
					st_tick(10);
					let dir = format!("{}/st-{}", p.base, idx);
					let r = st_session(&dir, p.seed, idx, growth, if growth { p.growth_progs } else { p.progs }, deadline);
					let _ = std::fs::remove_dir_all(&dir);
					local.merge(r);
					if local.programs >= 40 {
						total.lock().unwrap().merge(std::mem::take(&mut local));
					}
				}
				total.lock().unwrap().merge(local);
				ST_DONE[t].store(true, Ordering::SeqCst);
			});
		}
	});
	all_done.store(true, Ordering::SeqCst);
	let _ = mon.join();
	let r = std::mem::take(&mut *total.lock().unwrap());
	r
}

fn worker_st(args: &[String]) -> i32 {
	// --worker-st seed base secs n_threads n_sessions n_growth progs growth_progs only_idx only_growth hang_secs out
	install_logger();
	no_core_dumps();
	init_thread();
	let u = |i: usize| args[i].parse::<i64>().unwrap_or(0);
	let p = StParams {
		seed: args[0].parse::<u64>().unwrap_or(1),
		base: args[1].clone(),
		secs: u(2) as u64,
		n_threads: u(3) as usize,
		n_sessions: u(4) as u64,
		n_growth: u(5) as u64,
		progs: u(6) as usize,
		growth_progs: u(7) as usize,
		only: if u(8) >= 0 { Some((u(8) as u64, u(9) != 0)) } else { None },
		hang_secs: u(10) as u64,
		out: Some(args[11].clone()),
	};
	let _ = std::fs::create_dir_all(&p.base);
	let st = st_phase(&p);
	let _ = std::fs::write(&args[11], st.to_json().to_string());
	0
}

// ------------------------------------------------------------------ (2) multi-thread workload

#[derive(Clone, Copy, PartialEq, Eq, Debug)]
enum EStatus {
	Pending,
	Committed,
	Dropped,
}

/// One top-level batch of a writer thread, in LMDB commit order (pushed while the
/// write transaction is held, i.e. under LMDB's writer mutex).
struct Entry {
	writer: u8,
	id: u64,
	k: u32,
	deletes: Option<u32>,
	status: EStatus,
	deleted_by: Vec<u32>,
}

struct CLog {
	entries: Vec<Entry>,
	by_id: HashMap<u64, u32>,
}

impl CLog {
	/// First committed entry below `hi` that deleted all keys of entry `e`.
	fn committed_deleter_before(&self, e: usize, hi: usize) -> Option<usize> {
		self.entries[e]
			.deleted_by
			.iter()
			.map(|d| *d as usize)
			.filter(|d| *d < hi && self.entries[*d].status == EStatus::Committed)
			.min()
	}
	/// Entries whose keys exist in the state after the first `j` log entries.
	fn live_at(&self, j: usize) -> BTreeSet<usize> {
		let mut set = BTreeSet::new();
		for i in 0..j.min(self.entries.len()) {
			self.apply(i, &mut set);
		}
		set
	}
	fn apply(&self, i: usize, set: &mut BTreeSet<usize>) {
		let e = &self.entries[i];
		if e.status == EStatus::Committed {
			if let Some(d) = e.deletes {
				set.remove(&(d as usize));
			}
			set.insert(i);
		}
	}
}

fn scr(id: u64) -> u64 {
	id.wrapping_mul(0x9E37_79B9_7F4A_7C15)
}
fn mt_hash(id: u64, seq: u32, tag: u8) -> u64 {
	let mut b = [0u8; 13];
	b[..8].copy_from_slice(&id.to_be_bytes());
	b[8..12].copy_from_slice(&seq.to_be_bytes());
	b[12] = tag;
	fnv64(&b)
}
/// A third of the batches scatter their keys over the whole tree (and so over the
/// iterator's 10 000-key pages); the others write one contiguous key range.
fn mt_scattered(id: u64) -> bool {
	id % 3 == 0
}
/// A quarter of the batches spread their keys over all three key spaces.
fn mt_space(id: u64, seq: u32) -> usize {
	if id % 4 == 1 {
		match seq % 8 {
			1 => 1,
			2 => 2,
			_ => 0,
		}
	} else {
		0
	}
}
fn mt_key(id: u64, seq: u32) -> Vec<u8> {
	if mt_scattered(id) {
		format!("b{:016x}-{:05}", mt_hash(id, seq, b'k'), seq).into_bytes()
	} else {
		format!("b{:016x}-{:05}", scr(id), seq).into_bytes()
	}
}
fn mt_payload(id: u64, seq: u32) -> Vec<u8> {
	let h = mt_hash(id, seq, b'p');
	let len = if h % 97 == 0 {
		2000 + ((h >> 8) % 3000) as usize
	} else {
		8 + ((h >> 8) % 500) as usize
	};
	Prng::new(h).bytes(len)
}
fn mt_val(id: u64, k: u32, seq: u32) -> Val {
	Val {
		batch_id: id,
		batch_size: k,
		seq,
		payload: mt_payload(id, seq),
	}
}
/// Conservative estimate of the 4 KiB pages dirtied by writing (or deleting) all keys of a
/// batch: half-full leaves after splits plus two branch pages per touched region.
fn mt_pages(id: u64, k: u32) -> u64 {
	if mt_scattered(id) {
		3 * k as u64
	} else {
		let spaces: u64 = if id % 4 == 1 { 3 } else { 1 };
		(k as u64 * 330) / 2000 + 2 + 2 * spaces + (spaces - 1)
	}
}
/// Largest k with mt_pages(id, k) <= pages (at least 1).
fn mt_kmax(id: u64, pages: u64) -> u64 {
	if mt_scattered(id) {
		(pages / 3).max(1)
	} else {
		let spaces: u64 = if id % 4 == 1 { 3 } else { 1 };
		let fixed = 2 + 2 * spaces + (spaces - 1);
		if pages <= fixed {
			1
		} else {
			((pages - fixed) * 2000 / 330).max(1)
		}
	}
}
const MT_JUNK_PAGES: u64 = 9;
fn mt_expected_in_space(id: u64, k: u32, s: usize) -> u32 {
	(0..k).filter(|q| mt_space(id, *q) == s).count() as u32
}

#[derive(Clone, Debug)]
struct MtParams {
	seed: u64,
	dir: String,
	target_keys: u64,
	max_batches: u64,
	max_secs: u64,
	n_point: usize,
	n_iter: usize,
	n_hold: usize,
	hang_secs: u64,
	/// writer 1 alone fills the data file to this size before the other threads start
	prefill_kb: u64,
	out: Option<String>,
}

struct Shared {
	log: RwLock<CLog>,
	pushed: AtomicUsize,
	resolved: AtomicUsize,
	next_id: AtomicU64,
	stop: AtomicBool,
	progress: Vec<AtomicU64>,
	tstate: Vec<AtomicU64>,
	finished: Vec<AtomicBool>,
	roles: Vec<String>,
	viol: Mutex<Vec<(String, String, Value)>>,
	susp: Mutex<Vec<String>>,
	counters: Mutex<BTreeMap<String, u64>>,
	live_keys_main: AtomicU64,
	writer_active: AtomicBool,
	started: AtomicBool,
	seed: u64,
	cmd: String,
}

impl Shared {
	fn count(&self, name: &str, n: u64) {
		*self.counters.lock().unwrap().entry(name.to_string()).or_insert(0) += n;
	}
	fn set_max(&self, name: &str, n: u64) {
		let mut c = self.counters.lock().unwrap();
		let e = c.entry(name.to_string()).or_insert(0);
		if n > *e {
			*e = n;
		}
	}
	fn violation(&self, sig: &str, what: &str, detail: Value) {
		let mut v = self.viol.lock().unwrap();
		if v.len() < 20 {
			v.push((
				sig.to_string(),
				what.to_string(),
				json!({"scenario": "multi-thread", "worker_seed": self.seed, "worker_cmd": self.cmd, "detail": detail}),
			));
		}
		self.stop.store(true, Ordering::SeqCst);
	}
	fn fail(&self, f: Fail) {
		self.fail_ctx(f, json!(null))
	}
	fn fail_ctx(&self, f: Fail, detail: Value) {
		if f.violation {
			self.violation(&f.sig, &f.what, detail);
		} else {
			let mut s = self.susp.lock().unwrap();
			if s.len() < 20 {
				s.push(format!("{} :: {}", f.sig, f.what));
			}
			self.stop.store(true, Ordering::SeqCst);
		}
	}
	fn stopped(&self) -> bool {
		self.stop.load(Ordering::SeqCst)
	}
	fn tick(&self, tid: usize) {
		self.progress[tid].fetch_add(1, Ordering::Relaxed);
	}
	fn st(&self, tid: usize, s: u64) {
		self.tstate[tid].store(s, Ordering::Relaxed);
	}
	fn resolve(&self, idx: u32, status: EStatus) {
		let mut l = self.log.write().unwrap();
		l.entries[idx as usize].status = status;
		let mut rp = self.resolved.load(Ordering::SeqCst);
		while rp < l.entries.len() && l.entries[rp].status != EStatus::Pending {
			rp += 1;
		}
		self.resolved.store(rp, Ordering::SeqCst);
	}
	/// Readers and the second writer start after writer 1's solo prefill.
	fn wait_started(&self, tid: usize) {
		while !self.started.load(Ordering::SeqCst) && !self.stopped() {
			std::thread::sleep(Duration::from_millis(2));
			self.tick(tid);
		}
	}
	fn sleep_checking(&self, ms: u64) {
		let end = Instant::now() + Duration::from_millis(ms);
		while Instant::now() < end && !self.stopped() {
			std::thread::sleep(Duration::from_millis(ms.min(20).max(1)));
		}
	}
}

fn state_name(s: u64) -> &'static str {
	match s {
		0 => "idle",
		1 => "in Store::batch()",
		2 => "writing in batch",
		3 => "in Batch::commit()",
		4 => "in Store::get_ser()",
		5 => "in Store::exists()",
		6 => "in Store::iter()",
		7 => "iterating",
		8 => "holding iterator (sleep)",
		9 => "verifying",
		10 => "in Store::new / reopen",
		_ => "?",
	}
}

fn mt_put(b: &mut Batch<'_>, id: u64, k: u32, seq: u32, raw: bool) -> Result<(), Fail> {
	let v = mt_val(id, k, seq);
	let key = mt_key(id, seq);
	let sp = SPACE_KEYS[mt_space(id, seq)];
	if raw {
		b.put(sp, &key, &enc_val(&v)).map_err(|e| fail_from_err("mt", "put", &e))
	} else {
		b.put_ser(sp, &key, &v).map_err(|e| fail_from_err("mt", "put_ser", &e))
	}
}

fn mt_del_all(b: &mut Batch<'_>, id: u64, k: u32) -> Result<(), Fail> {
	for q in 0..k {
		b.delete(SPACE_KEYS[mt_space(id, q)], &mt_key(id, q))
			.map_err(|e| fail_from_err("mt", "delete", &e))?;
	}
	Ok(())
}

/// Writes that must leave no trace: done in a child that is then dropped.
fn mt_junk(b: &mut Batch<'_>, sh: &Shared, other: Option<(u64, u32)>) -> Result<(), Fail> {
	let mut c = b.child().map_err(|e| fail_from_err("mt", "child", &e))?;
	// junk ids are never registered in the log; take a contiguous-layout id (fewer pages)
	let mut jid = sh.next_id.fetch_add(1, Ordering::SeqCst);
	while mt_scattered(jid) || jid % 4 == 1 {
		jid = sh.next_id.fetch_add(1, Ordering::SeqCst);
	}
	for q in 0..3 {
		mt_put(&mut c, jid, 3, q, q % 2 == 0)?;
	}
	if let Some((oid, ok)) = other {
		// delete the first and overwrite the last key of a live committed batch
		c.delete(SPACE_KEYS[mt_space(oid, 0)], &mt_key(oid, 0))
			.map_err(|e| fail_from_err("mt", "delete", &e))?;
		let last = ok - 1;
		if last > 0 {
			c.put_ser(SPACE_KEYS[mt_space(oid, last)], &mt_key(oid, last), &mt_val(jid, 3, 0))
				.map_err(|e| fail_from_err("mt", "put_ser", &e))?;
		}
		let still = c
			.exists(SPACE_KEYS[mt_space(oid, 0)], &mt_key(oid, 0))
			.map_err(|e| fail_from_err("mt", "batch.exists", &e))?;
		if still {
			return Err(Fail {
				violation: true,
				sig: "mt;writer;class=delete_invisible_in_child".into(),
				what: "a key deleted in a child batch still exists for that child".into(),
			});
		}
	}
	drop(c);
	sh.count("mt_junk_children_dropped", 1);
	Ok(())
}

fn mt_write_batch(
	store: &Store,
	b: &mut Batch<'_>,
	sh: &Shared,
	id: u64,
	k: u32,
	victim: Option<(u64, u32)>,
	other: Option<(u64, u32)>,
	mode: u64,
) -> Result<(), Fail> {
	let half = k / 2;
	match mode {
		0 => {
			for q in 0..k {
				mt_put(b, id, k, q, true)?;
			}
			if let Some((vid, vk)) = victim {
				mt_del_all(b, vid, vk)?;
			}
		}
		1 => {
			let mut c = b.child().map_err(|e| fail_from_err("mt", "child", &e))?;
			for q in 0..k {
				mt_put(&mut c, id, k, q, false)?;
			}
			if let Some((vid, vk)) = victim {
				mt_del_all(&mut c, vid, vk)?;
			}
			c.commit().map_err(|e| fail_from_err("mt", "child.commit", &e))?;
		}
		2 => {
			for q in 0..half {
				mt_put(b, id, k, q, q % 2 == 1)?;
			}
			mt_junk(b, sh, other)?;
			let mut c = b.child().map_err(|e| fail_from_err("mt", "child", &e))?;
			for q in half..k {
				mt_put(&mut c, id, k, q, q % 2 == 1)?;
			}
			if let Some((vid, vk)) = victim {
				mt_del_all(&mut c, vid, vk)?;
			}
			c.commit().map_err(|e| fail_from_err("mt", "child.commit", &e))?;
		}
		3 => {
			let mut c = b.child().map_err(|e| fail_from_err("mt", "child", &e))?;
			for q in 0..half {
				mt_put(&mut c, id, k, q, false)?;
			}
			{
				let mut g = c.child().map_err(|e| fail_from_err("mt", "child", &e))?;
				for q in half..k {
					mt_put(&mut g, id, k, q, true)?;
				}
				g.commit().map_err(|e| fail_from_err("mt", "child.commit", &e))?;
			}
			mt_junk(&mut c, sh, other)?;
			if let Some((vid, vk)) = victim {
				mt_del_all(&mut c, vid, vk)?;
			}
			c.commit().map_err(|e| fail_from_err("mt", "child.commit", &e))?;
		}
		_ => {
			if let Some((vid, vk)) = victim {
				mt_del_all(b, vid, vk)?;
			}
			for q in 0..k {
				mt_put(b, id, k, q, false)?;
			}
			mt_junk(b, sh, other)?;
		}
	}
	// light in-batch / outside checks from the writer thread itself
	let k0 = mt_key(id, 0);
	let s0 = SPACE_KEYS[mt_space(id, 0)];
	let inside = b.exists(s0, &k0).map_err(|e| fail_from_err("mt", "batch.exists", &e))?;
	let outside = store.exists(s0, &k0).map_err(|e| fail_from_err("mt", "store.exists", &e))?;
	if !inside || outside {
		return Err(Fail {
			violation: true,
			sig: format!(
				"mt;writer;class={}",
				if outside { "uncommitted_visible_outside" } else { "own_write_invisible" }
			),
			what: format!(
				"writer before commit: own key inside={} (must be true), on a fresh read txn={} (must be false)",
				inside, outside
			),
		});
	}
	if let Some((vid, _)) = victim {
		let vk0 = mt_key(vid, 0);
		let vs0 = SPACE_KEYS[mt_space(vid, 0)];
		let inside = b
			.get_ser::<Val>(vs0, &vk0, None)
			.map_err(|e| fail_from_err("mt", "batch.get_ser", &e))?
			.is_some();
		let outside = store.exists(vs0, &vk0).map_err(|e| fail_from_err("mt", "store.exists", &e))?;
		if inside || !outside {
			return Err(Fail {
				violation: true,
				sig: format!(
					"mt;writer;class={}",
					if inside { "own_delete_invisible" } else { "uncommitted_delete_visible_outside" }
				),
				what: format!(
					"writer before commit: deleted key inside={} (must be false), outside={} (must be true)",
					inside, outside
				),
			});
		}
	}
	if let Some((oid, ok)) = other {
		let v = b
			.get_ser::<Val>(SPACE_KEYS[mt_space(oid, ok - 1)], &mt_key(oid, ok - 1), None)
			.map_err(|e| fail_from_err("mt", "batch.get_ser", &e))?;
		let first = b
			.exists(SPACE_KEYS[mt_space(oid, 0)], &mt_key(oid, 0))
			.map_err(|e| fail_from_err("mt", "batch.exists", &e))?;
		if v != Some(mt_val(oid, ok, ok - 1)) || !first {
			return Err(Fail {
				violation: true,
				sig: "mt;writer;class=dropped_child_left_trace".into(),
				what: "after dropping a child batch its delete / overwrite is visible in the parent".into(),
			});
		}
	}
	Ok(())
}

fn mt_writer(sh: &Shared, store: &Store, p: &MtParams, tid: usize, wid: u8, mut prng: Prng) {
	init_thread();
	let mut live: Vec<u32> = vec![];
	let t0 = Instant::now();
	let mut n = 0u64;
	let drop_pct = if wid == 0 { 15 } else { 30 };
	if wid != 0 {
		sh.wait_started(tid);
	}
	loop {
		if sh.stopped() {
			break;
		}
		let solo = !sh.started.load(Ordering::SeqCst);
		if solo && data_mdb_size(&p.dir) >= p.prefill_kb * 1024 {
			sh.started.store(true, Ordering::SeqCst);
		}
		if wid == 0 {
			let reached = sh.live_keys_main.load(Ordering::SeqCst) >= p.target_keys;
			if n >= p.max_batches || t0.elapsed().as_secs() >= p.max_secs {
				break;
			}
			// after the target is reached keep going for a while (steady phase), bounded by the caps
			let _ = reached;
		} else {
			let ms = prng.range(20, 120);
			sh.sleep_checking(ms);
			if sh.stopped() {
				break;
			}
		}
		sh.st(tid, 1);
		let mut b = match store.batch() {
			Ok(b) => b,
			Err(e) => {
				sh.fail(fail_from_err("mt", "batch", &e));
				break;
			}
		};
		sh.st(tid, 2);
		let id = sh.next_id.fetch_add(1, Ordering::SeqCst);
		let map = LOG_MAP_SIZE.load(Ordering::SeqCst);
		// Pages a batch may dirty: the map is only enlarged between batches (check at 90 % use),
		// so everything written after one check must fit into the remaining 10 %; with a second
		// writer queued behind a stale check that is two batches. Allow 1/32 of the map per batch.
		let budget = if solo { 16 } else { (map / 4096 / 32).clamp(8, 200) };
		let live_main = sh.live_keys_main.load(Ordering::SeqCst);
		let p_del = if live_main < p.target_keys {
			10
		} else if live_main < p.target_keys * 115 / 100 {
			65
		} else {
			95
		};
		let mut victim: Option<(usize, u32, u64, u32)> = None;
		let mut other: Option<(u64, u32)> = None;
		let mut remaining = budget - 3;
		let junk = remaining >= 20 + MT_JUNK_PAGES;
		if junk {
			remaining -= MT_JUNK_PAGES;
		}
		{
			let l = sh.log.read().unwrap();
			if !live.is_empty() && prng.below(100) < p_del {
				let vi = prng.usize_below(live.len());
				let e = &l.entries[live[vi] as usize];
				let c = mt_pages(e.id, e.k);
				if c <= remaining / 2 {
					victim = Some((vi, live[vi], e.id, e.k));
					remaining -= c;
				}
			}
			if junk && live.len() >= 2 {
				let oi = prng.usize_below(live.len());
				if victim.map(|v| v.0) != Some(oi) {
					let e = &l.entries[live[oi] as usize];
					other = Some((e.id, e.k));
				}
			}
		}
		let mut kmax = mt_kmax(id, remaining).min(2000);
		if live_main >= p.target_keys * 115 / 100 {
			// above the target: do not write more keys than the batch deletes
			kmax = kmax.min(victim.map(|v| v.3 as u64).unwrap_or(8).max(1));
		}
		let k = 1 + prng.below(kmax) as u32;
		let idx = {
			let mut l = sh.log.write().unwrap();
			let idx = l.entries.len() as u32;
			l.entries.push(Entry {
				writer: wid,
				id,
				k,
				deletes: victim.map(|v| v.1),
				status: EStatus::Pending,
				deleted_by: vec![],
			});
			l.by_id.insert(id, idx);
			if let Some(v) = victim {
				l.entries[v.1 as usize].deleted_by.push(idx);
			}
			sh.pushed.store(l.entries.len(), Ordering::SeqCst);
			idx
		};
		let mode = if junk { prng.below(5) } else { prng.below(2) };
		let ctx = |sh: &Shared| {
			json!({"writer": wid + 1, "batch_keys": k, "scattered": mt_scattered(id), "mode": mode,
				"deleted_batch_keys": victim.map(|v| v.3), "map_size_at_batch_start": map,
				"map_size_now": LOG_MAP_SIZE.load(Ordering::SeqCst), "data_mdb_bytes": data_mdb_size(&p.dir),
				"estimated_page_budget": budget, "resizes_decided": LOG_RESIZE_DECIDED.load(Ordering::SeqCst),
				"resizes_completed": LOG_RESIZE_END.load(Ordering::SeqCst),
				"other_threads": (0..sh.roles.len()).map(|t| format!("{}:{}", sh.roles[t], state_name(sh.tstate[t].load(Ordering::Relaxed)))).collect::<Vec<_>>()})
		};
		if let Err(f) = mt_write_batch(store, &mut b, sh, id, k, victim.map(|v| (v.2, v.3)), other, mode) {
			let c = ctx(sh);
			drop(b);
			sh.resolve(idx, EStatus::Dropped);
			sh.fail_ctx(f, c);
			break;
		}
		let commit = prng.below(100) >= drop_pct;
		if commit {
			sh.st(tid, 3);
			if let Err(e) = b.commit() {
				let c = ctx(sh);
				sh.resolve(idx, EStatus::Dropped);
				sh.fail_ctx(fail_from_err("mt", "commit", &e), c);
				break;
			}
			sh.resolve(idx, EStatus::Committed);
			let mut delta = mt_expected_in_space(id, k, 0) as i64;
			if let Some((vi, _, vid, vk)) = victim {
				live.swap_remove(vi);
				delta -= mt_expected_in_space(vid, vk, 0) as i64;
				sh.count("mt_batches_deleting_an_older_batch", 1);
			}
			live.push(idx);
			if delta >= 0 {
				sh.live_keys_main.fetch_add(delta as u64, Ordering::SeqCst);
			} else {
				sh.live_keys_main.fetch_sub((-delta) as u64, Ordering::SeqCst);
			}
			sh.count(if wid == 0 { "mt_w1_batches_committed" } else { "mt_w2_batches_committed" }, 1);
			sh.count("mt_keys_written_committed", k as u64);
			sh.count(&format!("mt_commit_mode_{}", mode), 1);
			sh.set_max("mt_max_batch_keys", k as u64);
		} else {
			drop(b);
			sh.resolve(idx, EStatus::Dropped);
			sh.count(if wid == 0 { "mt_w1_batches_dropped" } else { "mt_w2_batches_dropped" }, 1);
		}
		sh.st(tid, 0);
		sh.tick(tid);
		n += 1;
		if wid == 0 && prng.chance(1, 4) {
			std::thread::sleep(Duration::from_micros(prng.range(0, 2000)));
		}
	}
	if wid == 0 {
		sh.writer_active.store(false, Ordering::SeqCst);
		sh.stop.store(true, Ordering::SeqCst);
	}
	sh.st(tid, 0);
	sh.finished[tid].store(true, Ordering::SeqCst);
}

struct Obs {
	e: u32,
	seq: u32,
	present: bool,
	lo: u32,
	hi: u32,
	get: bool,
}

fn mt_verify_obs(sh: &Shared, l: &CLog, o: &Obs) {
	let e = o.e as usize;
	let (lo, hi) = (o.lo as usize, o.hi as usize);
	let ent = &l.entries[e];
	let d = l.committed_deleter_before(e, hi);
	let op = if o.get { "get_ser" } else { "exists" };
	let detail = json!({"entry": e, "batch_id": ent.id, "k": ent.k, "seq": o.seq, "writer": ent.writer,
		"status": format!("{:?}", ent.status), "committed_deleter": d, "lo": lo, "hi": hi, "op": op});
	if o.present {
		if ent.status != EStatus::Committed {
			sh.violation(
				"mt;point;class=dropped_batch_visible",
				&format!("{} found a key of batch {} which was dropped, never committed", op, ent.id),
				detail,
			);
			return;
		}
		let jmin = lo.max(e + 1);
		let jmax = hi.min(d.unwrap_or(usize::MAX));
		if jmin > jmax {
			let class = if e + 1 > hi { "future_batch_visible" } else { "deleted_key_visible" };
			sh.violation(
				&format!("mt;point;class={}", class),
				&format!(
					"{} found a key of batch {} although the batch deleting it had committed before the read began",
					op, ent.id
				),
				detail,
			);
		}
	} else {
		if ent.status == EStatus::Dropped || lo <= e {
			return;
		}
		if let Some(d) = d {
			if hi >= d + 1 {
				return;
			}
		}
		sh.violation(
			"mt;point;class=committed_write_not_visible",
			&format!(
				"{} did not find a key of batch {} committed before the read began and not deleted",
				op, ent.id
			),
			detail,
		);
	}
}

fn mt_drain_obs(sh: &Shared, queue: &mut VecDeque<Obs>, fin: bool) {
	if fin {
		let t = Instant::now();
		while let Some(o) = queue.back() {
			if sh.resolved.load(Ordering::SeqCst) >= o.hi as usize || t.elapsed().as_secs() > 20 {
				break;
			}
			std::thread::sleep(Duration::from_millis(5));
		}
	}
	let l = sh.log.read().unwrap();
	let resolved = sh.resolved.load(Ordering::SeqCst);
	let mut n = 0;
	while let Some(o) = queue.front() {
		if (o.hi as usize) > resolved {
			break;
		}
		mt_verify_obs(sh, &l, o);
		queue.pop_front();
		n += 1;
	}
	drop(l);
	sh.count("mt_point_reads_verified", n);
	if fin && !queue.is_empty() {
		sh.count("mt_point_reads_unverified", queue.len() as u64);
	}
}

fn mt_point_reader(sh: &Shared, store: &Store, tid: usize, mut prng: Prng) {
	init_thread();
	let mut floor = 0usize;
	let mut queue: VecDeque<Obs> = VecDeque::new();
	let (mut n_some, mut n_none) = (0u64, 0u64);
	sh.wait_started(tid);
	while !sh.stopped() {
		let pushed = sh.pushed.load(Ordering::SeqCst);
		if pushed == 0 {
			std::thread::sleep(Duration::from_millis(1));
			continue;
		}
		let e = if prng.bool() {
			pushed - 1 - prng.usize_below(pushed.min(16))
		} else {
			prng.usize_below(pushed)
		};
		let (id, k) = {
			let l = sh.log.read().unwrap();
			(l.entries[e].id, l.entries[e].k)
		};
		let seq = prng.below(k as u64) as u32;
		let sp = SPACE_KEYS[mt_space(id, seq)];
		let key = mt_key(id, seq);
		let lo = sh.resolved.load(Ordering::SeqCst).max(floor);
		let get = prng.chance(2, 3);
		let present = if get {
			sh.st(tid, 4);
			match store.get_ser::<Val>(sp, &key, None) {
				Ok(Some(v)) => {
					if v != mt_val(id, k, seq) {
						sh.violation(
							"mt;point;class=value_mismatch",
							&format!(
								"get_ser returned a value that is not the one batch {} wrote (got batch {} seq {} len {})",
								id,
								v.batch_id,
								v.seq,
								v.payload.len()
							),
							json!({"batch_id": id, "seq": seq}),
						);
					}
					true
				}
				Ok(None) => false,
				Err(StoreError::SerErr(e)) => {
					sh.violation(
						"mt;point;class=value_undecodable",
						&format!("get_ser could not decode a stored value: {:?}", e),
						json!({"batch_id": id, "seq": seq}),
					);
					break;
				}
				Err(e) => {
					sh.fail(fail_from_err("mt", "store.get_ser", &e));
					break;
				}
			}
		} else {
			sh.st(tid, 5);
			match store.exists(sp, &key) {
				Ok(x) => x,
				Err(e) => {
					sh.fail(fail_from_err("mt", "store.exists", &e));
					break;
				}
			}
		};
		sh.st(tid, 0);
		let hi = sh.pushed.load(Ordering::SeqCst);
		if present {
			floor = floor.max(e + 1);
			n_some += 1;
		} else {
			n_none += 1;
		}
		queue.push_back(Obs {
			e: e as u32,
			seq,
			present,
			lo: lo as u32,
			hi: hi as u32,
			get,
		});
		sh.tick(tid);
		if queue.len() >= 512 {
			sh.st(tid, 9);
			mt_drain_obs(sh, &mut queue, false);
			if queue.len() > 100_000 {
				std::thread::sleep(Duration::from_millis(20));
			}
		}
	}
	sh.st(tid, 9);
	mt_drain_obs(sh, &mut queue, true);
	sh.count("mt_point_reads_present", n_some);
	sh.count("mt_point_reads_absent", n_none);
	sh.st(tid, 0);
	sh.finished[tid].store(true, Ordering::SeqCst);
}

/// Check one single-snapshot iteration of key space `s`.
fn mt_verify_snapshot(sh: &Shared, s: usize, items: &[(Vec<u8>, Val)], lo: usize, hi: usize, floor: &mut usize, held: bool) {
	let mut counts: BTreeMap<usize, u32> = BTreeMap::new();
	{
		let l = sh.log.read().unwrap();
		let mut prev: Option<&Vec<u8>> = None;
		for (key, v) in items {
			if let Some(p) = prev {
				if p >= key {
					sh.violation(
						"mt;snap;class=order",
						"iterator returned keys out of bytewise order or twice",
						json!({"space": s, "prev": hex(p), "key": hex(key)}),
					);
					return;
				}
			}
			prev = Some(key);
			let e = match l.by_id.get(&v.batch_id) {
				Some(e) => *e as usize,
				None => {
					sh.violation(
						"mt;snap;class=dropped_child_visible",
						&format!(
							"snapshot contains a value of batch id {} which was only ever written in a dropped child batch",
							v.batch_id
						),
						json!({"space": s, "key": hex(key)}),
					);
					return;
				}
			};
			let ent = &l.entries[e];
			if ent.k != v.batch_size
				|| v.seq >= ent.k
				|| *key != mt_key(v.batch_id, v.seq)
				|| mt_space(v.batch_id, v.seq) != s
				|| v.payload != mt_payload(v.batch_id, v.seq)
			{
				sh.violation(
					"mt;snap;class=value_mismatch",
					"snapshot holds a (key, value) pair no batch wrote",
					json!({"space": s, "key": hex(key), "batch_id": v.batch_id, "seq": v.seq, "batch_size": v.batch_size}),
				);
				return;
			}
			*counts.entry(e).or_insert(0) += 1;
		}
		for (e, c) in &counts {
			let ent = &l.entries[*e];
			let exp = mt_expected_in_space(ent.id, ent.k, s);
			if *c != exp {
				sh.count("mt_partial_batch_observations", 1);
				sh.violation(
					"mt;snap;class=partial_batch",
					&format!(
						"one read snapshot of key space {} holds {} of the {} keys batch {} wrote there (batch size {}, {:?}, scattered={})",
						s, c, exp, ent.id, ent.k, ent.status, mt_scattered(ent.id)
					),
					json!({"space": s, "entry": e, "batch_id": ent.id, "seen": c, "expected": exp,
						"snapshot_keys": items.len(), "lo": lo, "hi": hi, "held": held}),
				);
				return;
			}
		}
	}
	// the snapshot must be the state after some prefix j of the commit log, lo <= j <= hi
	let t = Instant::now();
	while sh.resolved.load(Ordering::SeqCst) < hi {
		if t.elapsed().as_secs() > 30 {
			sh.count("mt_snapshots_prefix_unverified", 1);
			return;
		}
		std::thread::sleep(Duration::from_millis(2));
	}
	let l = sh.log.read().unwrap();
	let seen: BTreeSet<usize> = counts.keys().cloned().collect();
	let visible = |set: &BTreeSet<usize>| -> BTreeSet<usize> {
		set.iter()
			.cloned()
			.filter(|e| mt_expected_in_space(l.entries[*e].id, l.entries[*e].k, s) > 0)
			.collect()
	};
	let lo_eff = lo.max(*floor).min(hi);
	let mut set = l.live_at(lo_eff);
	let mut matched = None;
	for j in lo_eff..=hi {
		if visible(&set) == seen {
			matched = Some(j);
			break;
		}
		if j < hi {
			l.apply(j, &mut set);
		}
	}
	match matched {
		Some(j) => {
			*floor = (*floor).max(j);
			sh.count("mt_snapshots_checked", 1);
			if held {
				sh.count("mt_held_snapshots_checked", 1);
			}
		}
		None => {
			let mut class = "not_a_commit_prefix";
			let mut culprit = json!(null);
			for e in &seen {
				let ent = &l.entries[*e];
				if ent.status == EStatus::Dropped {
					class = "dropped_batch_visible";
					culprit = json!({"entry": e, "batch_id": ent.id});
					break;
				}
				if *e >= hi {
					class = "future_batch_visible";
					culprit = json!({"entry": e, "batch_id": ent.id});
					break;
				}
				if let Some(d) = l.committed_deleter_before(*e, lo_eff) {
					class = "deleted_batch_visible";
					culprit = json!({"entry": e, "batch_id": ent.id, "deleter": d});
					break;
				}
			}
			if class == "not_a_commit_prefix" {
				for e in visible(&l.live_at(lo_eff)) {
					if !seen.contains(&e) && l.committed_deleter_before(e, hi).is_none() {
						class = "committed_batch_missing";
						culprit = json!({"entry": e, "batch_id": l.entries[e].id});
						break;
					}
				}
			}
			sh.violation(
				&format!("mt;snap;class={}", class),
				&format!(
					"snapshot of key space {} ({} keys, {} batches) equals no state between commit {} and commit {} of the log",
					s,
					items.len(),
					seen.len(),
					lo_eff,
					hi
				),
				json!({"space": s, "lo": lo_eff, "hi": hi, "culprit": culprit, "held": held}),
			);
		}
	}
}

/// One snapshot iteration; `hold` = (items to consume first, sleep) for long-lived iterators.
fn mt_snapshot(sh: &Shared, store: &Store, tid: usize, s: usize, hold: Option<(usize, u64)>, floor: &mut usize) -> bool {
	let lo = sh.resolved.load(Ordering::SeqCst);
	let pv = store.protocol_version();
	sh.st(tid, 6);
	let waits0 = LOG_RESIZE_WAIT.load(Ordering::SeqCst);
	let writer_active = sh.writer_active.load(Ordering::SeqCst);
	let it = store.iter(SPACE_KEYS[s], move |k, mut v| {
		let val: Val = ser::deserialize(&mut v, pv, DeserializationMode::default()).map_err(StoreError::SerErr)?;
		Ok((k.to_vec(), val))
	});
	let mut it = match it {
		Ok(it) => it,
		Err(e) => {
			sh.fail(fail_from_err("mt", "store.iter", &e));
			return false;
		}
	};
	let hi = sh.pushed.load(Ordering::SeqCst);
	sh.st(tid, 7);
	let mut items: Vec<(Vec<u8>, Val)> = Vec::new();
	let mut slept = false;
	loop {
		if let Some((n, ms)) = hold {
			if !slept && items.len() >= n {
				slept = true;
				sh.st(tid, 8);
				// While holding the iterator (one open transaction of this thread) do further
				// store-level reads on the same thread: nested transactions are explicitly allowed
				// by Store::enter_tx even while a resize is pending, and the chain does this.
				for _ in 0..4 {
					sh.sleep_checking(ms / 4);
					match store.exists(SPACE_KEYS[s], b"c18-nested-probe") {
						Ok(_) => sh.count("mt_nested_reads_while_holding_iterator", 1),
						Err(e) => {
							sh.fail(fail_from_err("mt", "store.exists(nested)", &e));
							return false;
						}
					}
					if let Some((k, _)) = items.last() {
						match store.get_ser::<Val>(SPACE_KEYS[s], k, None) {
							Ok(_) => sh.count("mt_nested_reads_while_holding_iterator", 1),
							Err(e) => {
								sh.fail(fail_from_err("mt", "store.get_ser(nested)", &e));
								return false;
							}
						}
					}
					sh.tick(tid);
				}
				sh.st(tid, 7);
			}
		}
		match it.next() {
			None => break,
			Some(Ok(x)) => items.push(x),
			Some(Err(StoreError::SerErr(e))) => {
				sh.violation(
					"mt;snap;class=value_undecodable",
					&format!("iterator could not decode a stored value: {:?}", e),
					json!({"space": s}),
				);
				return false;
			}
			Some(Err(e)) => {
				sh.fail(fail_from_err("mt", "iter.next", &e));
				return false;
			}
		}
		if items.len() % 1024 == 0 {
			sh.tick(tid);
		}
	}
	drop(it);
	sh.st(tid, 9);
	if hold.is_some() && LOG_RESIZE_WAIT.load(Ordering::SeqCst) > waits0 {
		sh.count("mt_holds_with_resize_pending", 1);
	}
	sh.set_max(&format!("mt_max_snapshot_keys_space{}", s), items.len() as u64);
	if items.len() > 10_000 {
		sh.count("mt_snapshots_over_10000_keys", 1);
		if writer_active && sh.writer_active.load(Ordering::SeqCst) {
			sh.count("mt_snapshots_over_10000_keys_while_writer_active", 1);
		}
	}
	mt_verify_snapshot(sh, s, &items, lo, hi, floor, hold.is_some());
	sh.st(tid, 0);
	sh.tick(tid);
	true
}

fn mt_iter_thread(sh: &Shared, store: &Store, tid: usize, mut prng: Prng, holder: bool) {
	init_thread();
	let mut floor = 0usize;
	sh.wait_started(tid);
	while !sh.stopped() {
		let s = if prng.chance(7, 10) { 0 } else { 1 + prng.usize_below(2) };
		let hold = if holder {
			Some((prng.below(3000) as usize, prng.range(200, 1200)))
		} else {
			None
		};
		if !mt_snapshot(sh, store, tid, s, hold, &mut floor) {
			break;
		}
		if holder {
			sh.sleep_checking(prng.range(50, 400));
		} else {
			std::thread::sleep(Duration::from_micros(prng.range(0, 4000)));
		}
	}
	sh.st(tid, 0);
	sh.finished[tid].store(true, Ordering::SeqCst);
}

struct MtResult {
	counters: BTreeMap<String, u64>,
	violations: Vec<(String, String, Value)>,
	suspicious: Vec<String>,
	hang: Option<String>,
}

impl MtResult {
	fn to_json(&self) -> Value {
		json!({
			"counters": self.counters,
			"violations": self.violations.iter().map(|(s, w, r)| json!({"sig": s, "what": w, "replay": r})).collect::<Vec<_>>(),
			"suspicious": self.suspicious,
			"hang": self.hang,
		})
	}
	fn from_json(v: &Value) -> MtResult {
		let mut counters = BTreeMap::new();
		if let Some(o) = v.get("counters").and_then(|x| x.as_object()) {
			for (k, x) in o {
				counters.insert(k.clone(), x.as_u64().unwrap_or(0));
			}
		}
		let violations = v
			.get("violations")
			.and_then(|x| x.as_array())
			.map(|a| {
				a.iter()
					.map(|x| {
						(
							x["sig"].as_str().unwrap_or("?").to_string(),
							x["what"].as_str().unwrap_or("?").to_string(),
							x["replay"].clone(),
						)
					})
					.collect()
			})
			.unwrap_or_default();
		let suspicious = v
			.get("suspicious")
			.and_then(|x| x.as_array())
			.map(|a| a.iter().filter_map(|x| x.as_str().map(|s| s.to_string())).collect())
			.unwrap_or_default();
		MtResult {
			counters,
			violations,
			suspicious,
			hang: v.get("hang").and_then(|x| x.as_str()).map(|s| s.to_string()),
		}
	}
}

fn mt_collect(sh: &Shared, hang: Option<String>) -> MtResult {
	let mut counters = sh.counters.lock().unwrap().clone();
	counters.insert("mt_resizes_decided".into(), LOG_RESIZE_DECIDED.load(Ordering::SeqCst));
	counters.insert("mt_resizes_completed".into(), LOG_RESIZE_END.load(Ordering::SeqCst));
	counters.insert("mt_resizes_deferred_until_txs_closed".into(), LOG_RESIZE_WAIT.load(Ordering::SeqCst));
	counters.insert("mt_resizes_immediate".into(), LOG_RESIZE_IMMEDIATE.load(Ordering::SeqCst));
	counters.insert("mt_resize_errors".into(), LOG_RESIZE_ERR.load(Ordering::SeqCst));
	counters.insert("mt_final_map_size".into(), LOG_MAP_SIZE.load(Ordering::SeqCst));
	counters.insert("mt_log_entries".into(), sh.pushed.load(Ordering::SeqCst) as u64);
	// hook H9: the store's enlargements as seen by a count of live transactions that is kept next to every
	// transaction object, independently of the store's own gate
	verif_hooks::sched_arm(0);
	let (h9_resizes, h9_live) = verif_hooks::resize_stats_take();
	counters.insert("mt_enlargements_seen_by_the_live_transaction_monitor".into(), h9_resizes);
	for (env, n) in h9_live.iter().take(3) {
		let envc = if env.contains("/peer") { "peer" } else { "store" };
		sh.violation(
			&format!("mt;oracle=no_live_transaction_while_the_map_is_enlarged;env={}", envc),
			&format!(
				"the memory map of {} was enlarged (unsafe env.resize) while {} transaction(s) of that environment were live in this process: the store's gate did not cover them",
				env, n
			),
			json!({"environment": env, "live_transactions": n, "enlargements_in_this_run": h9_resizes}),
		);
	}
	let mut suspicious = sh.susp.lock().unwrap().clone();
	for m in LOG_STORE_ERRORS.lock().unwrap().iter() {
		suspicious.push(format!("error-level log line of grin_store: {}", m));
	}
	MtResult {
		counters,
		violations: sh.viol.lock().unwrap().clone(),
		suspicious,
		hang,
	}
}

fn mt_expected_final(l: &CLog) -> Vec<KMap> {
	let mut maps: Vec<KMap> = (0..NS).map(|_| KMap::new()).collect();
	for e in l.live_at(l.entries.len()) {
		let ent = &l.entries[e];
		for q in 0..ent.k {
			maps[mt_space(ent.id, q)].insert(mt_key(ent.id, q), enc_val(&mt_val(ent.id, ent.k, q)));
		}
	}
	maps
}

fn mt_run(p: &MtParams) -> MtResult {
	init_thread();
	let _ = verif_hooks::resize_stats_take();
	// every second run perturbs the schedule at the transaction-open points (hook H9 calls sched_point there)
	if p.seed % 2 == 1 {
		verif_hooks::sched_arm(p.seed | 1);
	}
	let store = match open_store(&p.dir, None) {
		Ok(s) => Arc::new(s),
		Err(e) => {
			return MtResult {
				counters: BTreeMap::new(),
				violations: vec![],
				suspicious: vec![format!("Store::new failed: {:?}", e)],
				hang: None,
			}
		}
	};
	let mut roles = vec!["writer-1".to_string(), "writer-2".to_string()];
	for i in 0..p.n_point {
		roles.push(format!("point-reader-{}", i));
	}
	for i in 0..p.n_iter {
		roles.push(format!("snapshot-iterator-{}", i));
	}
	for i in 0..p.n_hold {
		roles.push(format!("iterator-holder-{}", i));
	}
	let nt = roles.len();
	let sh = Arc::new(Shared {
		log: RwLock::new(CLog {
			entries: vec![],
			by_id: HashMap::new(),
		}),
		pushed: AtomicUsize::new(0),
		resolved: AtomicUsize::new(0),
		next_id: AtomicU64::new(1),
		stop: AtomicBool::new(false),
		progress: (0..nt).map(|_| AtomicU64::new(0)).collect(),
		tstate: (0..nt).map(|_| AtomicU64::new(0)).collect(),
		finished: (0..nt).map(|_| AtomicBool::new(false)).collect(),
		roles,
		viol: Mutex::new(vec![]),
		susp: Mutex::new(vec![]),
		counters: Mutex::new(BTreeMap::new()),
		live_keys_main: AtomicU64::new(0),
		writer_active: AtomicBool::new(true),
		started: AtomicBool::new(p.prefill_kb == 0),
		seed: p.seed,
		cmd: format!("c18 {}", mt_args(p).join(" ")),
	});
	let mut root = Prng::new(p.seed ^ 0xC18_C18_C18);
	let all_done = Arc::new(AtomicBool::new(false));

	// monitor: hang detection + data file size
	let mon = {
		let sh = sh.clone();
		let p = p.clone();
		let all_done = all_done.clone();
		std::thread::spawn(move || {
			let nt = sh.roles.len();
			let mut last: Vec<(u64, Instant)> = (0..nt).map(|_| (0, Instant::now())).collect();
			while !all_done.load(Ordering::SeqCst) {
				std::thread::sleep(Duration::from_millis(250));
				sh.set_max("mt_max_data_mdb_bytes", data_mdb_size(&p.dir));
				let mut stuck = vec![];
				for t in 0..nt {
					if sh.finished[t].load(Ordering::SeqCst) {
						continue;
					}
					let pr = sh.progress[t].load(Ordering::Relaxed);
					if pr != last[t].0 {
						last[t] = (pr, Instant::now());
					} else if last[t].1.elapsed().as_secs() >= p.hang_secs {
						stuck.push(format!("{}:{}", sh.roles[t], state_name(sh.tstate[t].load(Ordering::Relaxed))));
					}
				}
				if !stuck.is_empty() {
					let all: Vec<String> = (0..nt)
						.filter(|t| !sh.finished[*t].load(Ordering::SeqCst))
						.map(|t| format!("{}:{}", sh.roles[t], state_name(sh.tstate[t].load(Ordering::Relaxed))))
						.collect();
					let desc = format!("stuck={} | unfinished={}", stuck.join(","), all.join(","));
					eprintln!("\nHANG {}", desc);
					let r = mt_collect(&sh, Some(desc));
					if let Some(out) = &p.out {
						let _ = std::fs::write(out, serde_json::to_string(&r.to_json()).unwrap());
					}
					unsafe { libc::_exit(vcommon::monitor::EXIT_HANG) };
				}
			}
		})
	};

	std::thread::scope(|sc| {
		let mut tid = 0usize;
		for wid in 0..2u8 {
			let (sh, store, p) = (sh.clone(), store.clone(), p.clone());
			let prng = root.fork(100 + wid as u64);
			let t = tid;
			sc.spawn(move || mt_writer(&sh, &store, &p, t, wid, prng));
			tid += 1;
		}
		for i in 0..p.n_point {
			let (sh, store) = (sh.clone(), store.clone());
			let prng = root.fork(200 + i as u64);
			let t = tid;
			sc.spawn(move || mt_point_reader(&sh, &store, t, prng));
			tid += 1;
		}
		for i in 0..(p.n_iter + p.n_hold) {
			let (sh, store) = (sh.clone(), store.clone());
			let prng = root.fork(300 + i as u64);
			let t = tid;
			let holder = i >= p.n_iter;
			sc.spawn(move || mt_iter_thread(&sh, &store, t, prng, holder));
			tid += 1;
		}
	});
	all_done.store(true, Ordering::SeqCst);
	let _ = mon.join();

	// final contents == model (no committed write lost), then again after reopen
	if sh.viol.lock().unwrap().is_empty() && sh.susp.lock().unwrap().is_empty() {
		let expected = {
			let l = sh.log.read().unwrap();
			mt_expected_final(&l)
		};
		let compare = |store: &Store, ctx: &str| -> bool {
			for s in 0..NS {
				match dump_space(store, s) {
					Ok(got) => {
						if let Some((class, detail)) = diff_seq(&got, &expected[s]) {
							sh.violation(
								&format!("mt;{};class={}", ctx, class),
								&format!(
									"contents of key space {} after the concurrent workload ({}) differ from the committed history: {}",
									s, ctx, detail
								),
								json!({"space": s, "got_keys": got.len(), "expected_keys": expected[s].len()}),
							);
							return false;
						}
						sh.set_max(&format!("mt_final_keys_space{}", s), got.len() as u64);
					}
					Err(e) => {
						sh.fail(fail_from_err("mt", "store.iter", &e));
						return false;
					}
				}
			}
			match dump_unused(store) {
				Ok(0) => {}
				Ok(n) => sh.violation(
					&format!("mt;{};class=phantom", ctx),
					&format!("{} keys in a key space nothing was written to", n),
					json!(null),
				),
				Err(e) => sh.fail(fail_from_err("mt", "store.iter", &e)),
			}
			sh.count("mt_end_state_comparisons", 1);
			true
		};
		if compare(&store, "final") {
			match Arc::try_unwrap(store) {
				Ok(s) => {
					settle(&s);
					drop(s);
					match open_store(&p.dir, None) {
						Ok(s2) => {
							compare(&s2, "reopen");
						}
						Err(e) => sh.fail(fail_from_err("mt", "Store::new(reopen)", &e)),
					}
				}
				Err(_) => sh.susp.lock().unwrap().push("harness: store handle still shared at the end".into()),
			}
		}
	}
	sh.set_max("mt_max_data_mdb_bytes", data_mdb_size(&p.dir));
	mt_collect(&sh, None)
}

fn worker_mt(args: &[String]) -> i32 {
	// --worker-mt seed dir target_keys max_batches max_secs n_point n_iter n_hold hang_secs out
	install_logger();
	no_core_dumps();
	let u = |i: usize| args[i].parse::<u64>().unwrap_or(0);
	let p = MtParams {
		seed: u(0),
		dir: args[1].clone(),
		target_keys: u(2),
		max_batches: u(3),
		max_secs: u(4),
		n_point: u(5) as usize,
		n_iter: u(6) as usize,
		n_hold: u(7) as usize,
		hang_secs: u(8),
		prefill_kb: args.get(10).and_then(|x| x.parse().ok()).unwrap_or(0),
		out: Some(args[9].clone()),
	};
	let r = mt_run(&p);
	let _ = std::fs::write(&args[9], serde_json::to_string(&r.to_json()).unwrap());
	0
}

// ===================================================================== reader storm across enlargements (hook H9)

fn storm_key(j: u64) -> Vec<u8> {
	let mut k = b"storm-".to_vec();
	k.extend_from_slice(&j.to_be_bytes());
	k
}

fn storm_val(j: u64) -> Val {
	let n = 500 + (j % 200) as usize;
	let mut payload = Vec::with_capacity(n);
	let mut x = j.wrapping_mul(0x9E37_79B9_7F4A_7C15) | 1;
	for _ in 0..n {
		x ^= x << 13;
		x ^= x >> 7;
		x ^= x << 17;
		payload.push(x as u8);
	}
	Val {
		batch_id: j / 40,
		batch_size: 40,
		seq: (j % 40) as u32,
		payload,
	}
}

/// --worker-storm seed dir target_mib n_readers out
/// One writer grows a fresh store through several enlargements of its memory map while reader threads keep
/// short read transactions (exists / get_ser / iter) coming without a pause, the schedule perturbed at every
/// transaction-open point. Oracles: every read of a published key answers with the published value, nothing
/// fails, and the live-transaction monitor of hook H9 saw no enlargement start while a transaction was live.
fn worker_storm(args: &[String]) -> i32 {
	install_logger();
	no_core_dumps();
	init_thread();
	let seed: u64 = args[0].parse().unwrap_or(1);
	let dir = args[1].clone();
	let target_mib: u64 = args[2].parse().unwrap_or(8);
	let n_readers: usize = args[3].parse().unwrap_or(6);
	let out = args[4].clone();
	let _ = std::fs::create_dir_all(&dir);
	let store = match open_store(&dir, None) {
		Ok(s) => Arc::new(s),
		Err(e) => {
			let _ = std::fs::write(&out, json!({"broken": format!("Store::new: {:?}", e)}).to_string());
			return 0;
		}
	};
	let _ = verif_hooks::resize_stats_take();
	verif_hooks::sched_arm(seed | 1);
	let committed = Arc::new(AtomicU64::new(0));
	let stop = Arc::new(AtomicBool::new(false));
	let errors: Arc<Mutex<Vec<(String, String)>>> = Arc::new(Mutex::new(vec![]));
	let ops: Arc<Vec<AtomicU64>> = Arc::new((0..4).map(|_| AtomicU64::new(0)).collect());
	let t0 = Instant::now();
	let mut handles = vec![];
	for t in 0..n_readers {
		let (store, committed, stop, errors, ops) = (store.clone(), committed.clone(), stop.clone(), errors.clone(), ops.clone());
		handles.push(std::thread::spawn(move || {
			init_thread();
			let mut x = (seed ^ ((t as u64 + 1) << 32)).wrapping_mul(0x2545_F491_4F6C_DD1D) | 1;
			let mut fail = |class: &str, what: String| {
				let mut e = errors.lock().unwrap();
				if e.len() < 8 {
					e.push((class.to_string(), what));
				}
			};
			while !stop.load(Ordering::Relaxed) {
				x ^= x << 13;
				x ^= x >> 7;
				x ^= x << 17;
				let c = committed.load(Ordering::SeqCst);
				if c == 0 {
					std::thread::yield_now();
					continue;
				}
				let j = (x >> 8) % c;
				match x % 4 {
					0 => {
						match store.exists(SPACE_KEYS[0], &storm_key(j)) {
							Ok(true) => {}
							Ok(false) => fail("exists_false_for_a_committed_key", format!("exists(key {}) = false with {} keys committed", j, c)),
							Err(e) => fail(&format!("exists_error:{}", error_class(&e)), format!("{:?}", e)),
						}
						ops[0].fetch_add(1, Ordering::Relaxed);
					}
					1 => {
						match store.exists(SPACE_KEYS[0], &storm_key(j + (1 << 40))) {
							Ok(false) => {}
							Ok(true) => fail("exists_true_for_a_key_never_written", format!("key {}", j + (1 << 40))),
							Err(e) => fail(&format!("exists_error:{}", error_class(&e)), format!("{:?}", e)),
						}
						ops[1].fetch_add(1, Ordering::Relaxed);
					}
					2 => {
						match store.get_ser::<Val>(SPACE_KEYS[0], &storm_key(j), None) {
							Ok(Some(v)) if v == storm_val(j) => {}
							Ok(Some(v)) => fail("get_ser_wrong_value", format!("key {}: batch {} seq {} len {}", j, v.batch_id, v.seq, v.payload.len())),
							Ok(None) => fail("get_ser_none_for_a_committed_key", format!("key {} with {} keys committed", j, c)),
							Err(e) => fail(&format!("get_ser_error:{}", error_class(&e)), format!("{:?}", e)),
						}
						ops[2].fetch_add(1, Ordering::Relaxed);
					}
					_ => {
						match store.iter(SPACE_KEYS[0], |k, v| Ok((k.to_vec(), v.to_vec()))) {
							Ok(it) => {
								let mut n = 0u64;
								for item in it.take(5) {
									match item {
										Ok((k, v)) => {
											if k.len() == 14 && k.starts_with(b"storm-") {
												let mut b = [0u8; 8];
												b.copy_from_slice(&k[6..]);
												let jj = u64::from_be_bytes(b);
												if enc_val(&storm_val(jj)) != v {
													fail("iter_wrong_value", format!("key {}", jj));
												}
											} else {
												fail("iter_foreign_key", hex(&k));
											}
											n += 1;
										}
										Err(e) => fail(&format!("iter_item_error:{}", error_class(&e)), format!("{:?}", e)),
									}
								}
								if n == 0 {
									fail("iter_empty_with_committed_keys", format!("{} keys committed", c));
								}
							}
							Err(e) => fail(&format!("iter_error:{}", error_class(&e)), format!("{:?}", e)),
						}
						ops[3].fetch_add(1, Ordering::Relaxed);
					}
				}
			}
		}));
	}
	// writer; in every fourth run it keeps an iterator open on ANOTHER environment all the while (a transaction of the
	// writing thread on one environment has no say in the enlargement of another)
	let other_env = if seed % 4 == 3 {
		let d2 = format!("{}-other", dir);
		let _ = std::fs::create_dir_all(&d2);
		open_store(&d2, None).ok().map(|s2| {
			if let Ok(mut b) = s2.batch() {
				for q in 0..50u64 {
					let _ = b.put(SPACE_KEYS[0], &storm_key(q), &enc_val(&storm_val(q)));
				}
				let _ = b.commit();
			}
			s2
		})
	} else {
		None
	};
	let mut other_iter = other_env.as_ref().and_then(|s2| s2.iter(SPACE_KEYS[0], |k, v| Ok((k.to_vec(), v.to_vec()))).ok());
	let held_on_other_env = other_iter.is_some();
	if let Some(it) = other_iter.as_mut() {
		let _ = it.next();
	}
	let mut j = 0u64;
	let mut written = 0u64;
	let mut batches = 0u64;
	let mut werr: Option<String> = None;
	'w: while written < target_mib * MIB && t0.elapsed() < Duration::from_secs(90) {
		let mut b = match store.batch() {
			Ok(b) => b,
			Err(e) => {
				werr = Some(format!("batch:{}", error_class(&e)));
				break;
			}
		};
		let first = j;
		for _ in 0..40 {
			let v = enc_val(&storm_val(j));
			written += v.len() as u64 + 14;
			if let Err(e) = b.put(SPACE_KEYS[0], &storm_key(j), &v) {
				werr = Some(format!("put:{}", error_class(&e)));
				break 'w;
			}
			j += 1;
		}
		if let Err(e) = b.commit() {
			werr = Some(format!("commit:{}", error_class(&e)));
			let _ = first;
			break;
		}
		batches += 1;
		committed.store(j, Ordering::SeqCst);
	}
	stop.store(true, Ordering::SeqCst);
	for h in handles {
		let _ = h.join();
	}
	let other_items = other_iter.map(|it| 1 + it.count() as u64);
	drop(other_env);
	let _ = std::fs::remove_dir_all(format!("{}-other", dir));
	verif_hooks::sched_arm(0);
	let (resizes, live) = verif_hooks::resize_stats_take();
	// final content
	let mut missing = 0u64;
	for k in 0..j.min(committed.load(Ordering::SeqCst)) {
		if k % 7 == 0 {
			match store.get_ser::<Val>(SPACE_KEYS[0], &storm_key(k), None) {
				Ok(Some(v)) if v == storm_val(k) => {}
				_ => missing += 1,
			}
		}
	}
	let errs = errors.lock().unwrap().clone();
	let res = json!({
		"seed": seed, "keys": committed.load(Ordering::SeqCst), "batches": batches, "written_bytes": written,
		"enlargements": resizes,
		"enlargements_with_live_transactions": live.iter().map(|(e, n)| json!({"env": e, "live": n})).collect::<Vec<_>>(),
		"reads": {"exists_present": ops[0].load(Ordering::Relaxed), "exists_absent": ops[1].load(Ordering::Relaxed), "get_ser": ops[2].load(Ordering::Relaxed), "iter": ops[3].load(Ordering::Relaxed)},
		"read_errors": errs.iter().map(|(c, w)| json!({"class": c, "what": w})).collect::<Vec<_>>(),
		"writer_error": werr, "missing_at_the_end": missing, "ms": t0.elapsed().as_millis() as u64,
		"writer_held_an_iterator_on_another_environment": held_on_other_env, "items_of_that_iterator": other_items,
		"sched_points": verif_hooks::sched_stats().0,
	});
	let _ = std::fs::write(&out, res.to_string());
	0
}

fn storm_phase(run: &Run, scratch: &Scratch, seed: u64, n_jobs: usize, parallel: usize, target_mib: u64) -> (u64, u64) {
	let (mut runs_done, mut enl) = (0u64, 0u64);
	let next = AtomicUsize::new(0);
	let results: Mutex<Vec<(usize, u64, ProcOut, Option<Value>)>> = Mutex::new(vec![]);
	std::thread::scope(|sc| {
		for _ in 0..parallel {
			let (next, results) = (&next, &results);
			sc.spawn(move || loop {
				let i = next.fetch_add(1, Ordering::SeqCst);
				if i >= n_jobs {
					break;
				}
				let s = (seed.wrapping_mul(0x9E37_79B9_7F4A_7C15) ^ (i as u64 + 1).wrapping_mul(0xD6E8_FEB8_6659_FD93)) >> 1;
				let dir = scratch.sub(&format!("storm-{}", i));
				let out = scratch.sub(&format!("storm-{}.json", i));
				let r = run_worker(
					// 6, 2 or 1 readers in turn: with few readers the store often sees no open transaction when the enlargement falls due
					&["--worker-storm".to_string(), s.to_string(), dir.clone(), target_mib.to_string(), [6, 2, 1][i % 3].to_string(), out.clone()],
					&format!("{}.log", dir),
					Duration::from_secs(240),
				);
				let v = read_json(&out);
				let _ = std::fs::remove_dir_all(&dir);
				results.lock().unwrap().push((i, s, r, v));
			});
		}
	});
	let mut results = results.into_inner().unwrap();
	results.sort_by_key(|r| r.0);
	for (i, s, r, v) in results {
		let replay = json!({"scenario": "reader-storm", "worker_seed": s, "cmd": format!("c18 --worker-storm {} <dir> {} {} <out>", s, target_mib, [6, 2, 1][i % 3])});
		let v = match (r.code, r.signal, r.timed_out, v) {
			(Some(0), _, false, Some(v)) if v.get("broken").is_none() => v,
			(_, Some(sig), false, _) => {
				// a reader touching a map that is being replaced dies here
				run.violation(
					&format!("storm;oracle=process_survives;signal={}", sig),
					&format!("the reader-storm worker was killed by signal {} while the store was growing: {}", sig, r.tail),
					replay,
				);
				continue;
			}
			(c, sg, to, v) => {
				run.inconclusive(&format!("reader-storm worker {}: exit {:?} signal {:?} timed_out {} result {:?}", i, c, sg, to, v.map(|x| x.to_string())));
				continue;
			}
		};
		let u = |k: &str| v[k].as_u64().unwrap_or(0);
		run.count("storm.runs", 1);
		runs_done += 1;
		enl += u("enlargements");
		run.count("storm.enlargements_while_readers_were_running", u("enlargements"));
		run.count("storm.keys_written", u("keys"));
		for k in ["exists_present", "exists_absent", "get_ser", "iter"] {
			run.count(&format!("storm.reads.{}", k), v["reads"][k].as_u64().unwrap_or(0));
		}
		run.count("storm.sched_points", u("sched_points"));
		if v["writer_held_an_iterator_on_another_environment"].as_bool() == Some(true) {
			run.count("storm.runs_in_which_the_writer_held_an_iterator_on_another_environment", 1);
			if v["items_of_that_iterator"].as_u64() != Some(50) {
				run.violation("storm;oracle=iterator_on_the_other_environment_sees_its_snapshot", &format!("the iterator the writer held on a second environment delivered {:?} of 50 items", v["items_of_that_iterator"]), replay.clone());
			}
		}
		run.eval(&format!("storm;readers={};enlargements={}", [6, 2, 1][i % 3], u("enlargements").min(16)), u("enlargements") >= 2);
		run.eval_bulk(v["reads"].as_object().map(|o| o.values().filter_map(|x| x.as_u64()).sum()).unwrap_or(0), vec![]);
		if i == 0 {
			run.sample(json!({"scenario": "reader storm across enlargements", "result": v}));
		}
		for l in v["enlargements_with_live_transactions"].as_array().cloned().unwrap_or_default().iter().take(2) {
			run.violation(
				"storm;oracle=no_live_transaction_while_the_map_is_enlarged",
				&format!(
					"the memory map of the store was enlarged (unsafe env.resize) while {} transaction(s) of the same environment were live in this process: a read path is not covered by the store's gate",
					l["live"]
				),
				replay.clone(),
			);
		}
		for e in v["read_errors"].as_array().cloned().unwrap_or_default().iter().take(3) {
			run.violation(
				&format!("storm;oracle=reads_answer_with_committed_data;class={}", e["class"].as_str().unwrap_or("?")),
				&format!("a read during growth of the store failed or answered wrongly: {}", e["what"].as_str().unwrap_or("?")),
				replay.clone(),
			);
		}
		if let Some(w) = v["writer_error"].as_str() {
			run.violation(&format!("storm;oracle=writer_never_fails_during_growth;class={}", w), &format!("the writer failed while growing the store: {}", w), replay.clone());
		}
		if u("missing_at_the_end") > 0 {
			run.violation("storm;oracle=committed_keys_present_at_the_end", &format!("{} sampled committed keys missing or wrong after the run", u("missing_at_the_end")), replay.clone());
		}
	}
	(runs_done, enl)
}

// ===================================================================== a reader that stays (long-held iterator across a due enlargement)

/// --worker-holder seed dir batch_kb out
/// A writer fills a fresh store to just below the point where its map has to grow; another thread then opens an
/// iterator and keeps it. The enlargement has to wait for that reader, and the writer for the enlargement: nothing may
/// FAIL meanwhile. The reader lets go once the writer has made no progress for 12 s (or has finished); the writer must
/// then complete all its batches, and everything committed must be there.
fn worker_holder(args: &[String]) -> i32 {
	install_logger();
	no_core_dumps();
	init_thread();
	let seed: u64 = args[0].parse().unwrap_or(1);
	let dir = args[1].clone();
	let batch_kb: u64 = args[2].parse().unwrap_or(30);
	let out = args[3].clone();
	let _ = std::fs::create_dir_all(&dir);
	let store = match open_store(&dir, None) {
		Ok(s) => Arc::new(s),
		Err(e) => {
			let _ = std::fs::write(&out, json!({"broken": format!("Store::new: {:?}", e)}).to_string());
			return 0;
		}
	};
	let _ = verif_hooks::resize_stats_take();
	let per_batch = ((batch_kb * 1024) / 700).max(1); // values of 500..700 bytes
	let target_keys = (3 * MIB) / 620;
	let progress = Arc::new(AtomicU64::new(0));
	let done = Arc::new(AtomicBool::new(false));
	let release = Arc::new(AtomicBool::new(false));
	let holding = Arc::new(AtomicBool::new(false));
	let t0 = Instant::now();
	let mut j = 0u64;
	let mut werr: Option<String> = None;
	let mut put_batch = |j: &mut u64| -> Result<(), String> {
		let mut b = store.batch().map_err(|e| format!("batch:{}", error_class(&e)))?;
		for _ in 0..per_batch {
			let v = enc_val(&storm_val(*j ^ (seed << 40)));
			b.put(SPACE_KEYS[1], &storm_key(*j), &v).map_err(|e| format!("put:{}", error_class(&e)))?;
			*j += 1;
		}
		b.commit().map_err(|e| format!("commit:{}", error_class(&e)))
	};
	// phase 1: up to ~80 % of the initial 1 MiB map, nobody else around
	while data_mdb_size(&dir) < 800 * 1024 && werr.is_none() {
		if let Err(e) = put_batch(&mut j) {
			werr = Some(format!("prefill:{}", e));
		}
	}
	let prefill_keys = j;
	// phase 2: the reader arrives and stays
	let holder = {
		let (store, release, holding) = (store.clone(), release.clone(), holding.clone());
		std::thread::spawn(move || -> (u64, Option<String>) {
			init_thread();
			let it = store.iter(SPACE_KEYS[1], |k, v| Ok((k.to_vec(), v.to_vec())));
			let mut it = match it {
				Ok(i) => i,
				Err(e) => {
					holding.store(true, Ordering::SeqCst);
					return (0, Some(format!("iter:{}", error_class(&e))));
				}
			};
			let mut seen = 0u64;
			if it.next().is_some() {
				seen += 1;
			}
			holding.store(true, Ordering::SeqCst);
			let t = Instant::now();
			while !release.load(Ordering::SeqCst) && t.elapsed() < Duration::from_secs(90) {
				std::thread::sleep(Duration::from_millis(20));
			}
			// the snapshot is still the one taken when the iterator was opened
			let mut err = None;
			for item in it {
				match item {
					Ok(_) => seen += 1,
					Err(e) => {
						err = Some(format!("iter_item:{}", error_class(&e)));
						break;
					}
				}
			}
			(seen, err)
		})
	};
	while !holding.load(Ordering::SeqCst) {
		std::thread::sleep(Duration::from_millis(5));
	}
	let watcher = {
		let (progress, done, release) = (progress.clone(), done.clone(), release.clone());
		std::thread::spawn(move || -> u64 {
			let mut last = progress.load(Ordering::SeqCst);
			let mut since = Instant::now();
			let mut longest = 0u64;
			loop {
				std::thread::sleep(Duration::from_millis(50));
				let p = progress.load(Ordering::SeqCst);
				if p != last {
					last = p;
					since = Instant::now();
				}
				longest = longest.max(since.elapsed().as_millis() as u64);
				if done.load(Ordering::SeqCst) || since.elapsed() > Duration::from_secs(12) {
					release.store(true, Ordering::SeqCst);
				}
				if done.load(Ordering::SeqCst) {
					return longest;
				}
			}
		})
	};
	while j < target_keys && werr.is_none() && t0.elapsed() < Duration::from_secs(150) {
		match put_batch(&mut j) {
			Ok(()) => {
				progress.fetch_add(1, Ordering::SeqCst);
			}
			Err(e) => werr = Some(e),
		}
	}
	let written = if werr.is_some() { j - (j % per_batch).min(j) } else { j };
	done.store(true, Ordering::SeqCst);
	let longest_stall_ms = watcher.join().unwrap_or(0);
	let (seen, herr) = holder.join().unwrap_or((0, Some("holder thread panicked".into())));
	let (resizes, live) = verif_hooks::resize_stats_take();
	// everything committed is there (keys of a failed batch excluded)
	let committed = if werr.is_some() { (j / per_batch).saturating_sub(1) * per_batch } else { j };
	let _ = written;
	let mut missing = 0u64;
	for k in 0..committed {
		if k % 5 == 0 {
			match store.get_ser::<Val>(SPACE_KEYS[1], &storm_key(k), None) {
				Ok(Some(v)) if v == storm_val(k ^ (seed << 40)) => {}
				_ => missing += 1,
			}
		}
	}
	let res = json!({
		"seed": seed, "batch_kb": batch_kb, "keys_before_the_reader": prefill_keys, "keys": j, "target_keys": target_keys,
		"writer_error": werr, "holder_error": herr, "holder_snapshot_items": seen,
		"longest_writer_stall_ms": longest_stall_ms, "enlargements": resizes,
		"enlargements_with_live_transactions": live.len(), "missing_at_the_end": missing, "ms": t0.elapsed().as_millis() as u64,
	});
	let _ = std::fs::write(&out, res.to_string());
	0
}

fn holder_phase(run: &Run, scratch: &Scratch, seed: u64, jobs: &[u64]) -> u64 {
	let results: Mutex<Vec<(usize, ProcOut, Option<Value>)>> = Mutex::new(vec![]);
	std::thread::scope(|sc| {
		for (i, kb) in jobs.iter().enumerate() {
			let results = &results;
			sc.spawn(move || {
				let dir = scratch.sub(&format!("holder-{}", i));
				let out = scratch.sub(&format!("holder-{}.json", i));
				let r = run_worker(
					&["--worker-holder".to_string(), (seed ^ ((i as u64 + 1) << 20)).to_string(), dir.clone(), kb.to_string(), out.clone()],
					&format!("{}.log", dir),
					Duration::from_secs(300),
				);
				let v = read_json(&out);
				let _ = std::fs::remove_dir_all(&dir);
				results.lock().unwrap().push((i, r, v));
			});
		}
	});
	let mut waited = 0u64;
	let mut results = results.into_inner().unwrap();
	results.sort_by_key(|r| r.0);
	for (i, r, v) in results {
		let kb = jobs[i];
		let replay = json!({"scenario": "long-held iterator across a due enlargement", "batch_kb": kb, "cmd": format!("c18 --worker-holder {} <dir> {} <out>", seed ^ ((i as u64 + 1) << 20), kb)});
		let v = match (r.code, r.signal, r.timed_out, v) {
			(Some(0), _, false, Some(v)) if v.get("broken").is_none() => v,
			(_, Some(sig), false, _) => {
				run.violation(&format!("holder;oracle=process_survives;signal={}", sig), &format!("worker killed by signal {}: {}", sig, r.tail), replay);
				continue;
			}
			(c, sg, to, v) => {
				run.inconclusive(&format!("long-holder worker {}: exit {:?} signal {:?} timed_out {} result {:?}", i, c, sg, to, v.map(|x| x.to_string())));
				continue;
			}
		};
		let u = |k: &str| v[k].as_u64().unwrap_or(0);
		run.count("holder.runs", 1);
		run.count("holder.enlargements", u("enlargements"));
		run.set_max("holder.longest_writer_stall_ms", u("longest_writer_stall_ms"));
		let stalled = u("longest_writer_stall_ms") >= 5_000;
		if stalled {
			waited += 1;
			run.count("holder.runs_in_which_the_writer_waited_5s_or_more_for_the_reader", 1);
		}
		run.eval(&format!("holder;batch_kb={};waited={}", kb, stalled as u8), true);
		if i == 0 {
			run.sample(json!({"scenario": "long-held iterator across a due enlargement", "result": v}));
		}
		if let Some(w) = v["writer_error"].as_str() {
			run.violation(
				&format!("holder;oracle=no_operation_fails_while_another_thread_iterates;writer={}", w),
				&format!("while another thread kept an iterator open across a due enlargement of the map, the writer failed: {} (after {} of {} keys, batches of {} KB)", w, u("keys"), u("target_keys"), kb),
				replay.clone(),
			);
		}
		if let Some(w) = v["holder_error"].as_str() {
			run.violation(&format!("holder;oracle=iterator_completes;class={}", w), &format!("the long-held iterator failed: {}", w), replay.clone());
		}
		if v["writer_error"].is_null() && u("holder_snapshot_items") != u("keys_before_the_reader") {
			run.violation(
				"holder;oracle=iterator_sees_its_snapshot",
				&format!("the iterator opened when {} keys were committed delivered {} items after being held", u("keys_before_the_reader"), u("holder_snapshot_items")),
				replay.clone(),
			);
		}
		if u("missing_at_the_end") > 0 {
			run.violation("holder;oracle=committed_keys_present_at_the_end", &format!("{} sampled committed keys missing or wrong", u("missing_at_the_end")), replay.clone());
		}
		if u("enlargements_with_live_transactions") > 0 {
			run.violation("holder;oracle=no_live_transaction_while_the_map_is_enlarged", "the map was enlarged while the held iterator (or another transaction) was live", replay.clone());
		}
	}
	waited
}

// ===================================================================== batches just inside the headroom (single writer)

/// --worker-ladder seed dir out
/// The store enlarges its map when more than 90 % is used and checks that before every batch, so a single writer whose
/// every batch stays below the 10 % headroom never runs out of space, whatever the sizes of the batches before. Fresh
/// 1 MiB stores, one value per batch (overflow pages: the size on disk is the size of the value), ladders of n small
/// batches followed by large ones (up to 80 KB, 7.8 % of the initial map) until the store has grown past 1.6 MiB.
fn worker_ladder(args: &[String]) -> i32 {
	install_logger();
	no_core_dumps();
	init_thread();
	let seed: u64 = args[0].parse().unwrap_or(1);
	let base = args[1].clone();
	let out = args[2].clone();
	let mut pr = Prng::new(seed ^ 0x1ADD);
	let mut sessions = 0u64;
	let mut batches = 0u64;
	let mut failures: Vec<Value> = vec![];
	let mut profiles: Vec<(u64, u64, u64)> = vec![];
	for small in [36u64, 40, 44, 48] {
		for n_small in [7u64, 8, 9, 10, 11] {
			for large in [64u64, 72, 80] {
				profiles.push((small, n_small, large));
			}
		}
	}
	pr.shuffle(&mut profiles);
	for (pi, (small, n_small, large)) in profiles.iter().enumerate() {
		let dir = format!("{}/l{}", base, pi);
		let _ = std::fs::create_dir_all(&dir);
		let store = match open_store(&dir, None) {
			Ok(s) => s,
			Err(_) => continue,
		};
		sessions += 1;
		let mut written = 0u64;
		let mut k = 0u64;
		let mut err: Option<String> = None;
		while written < 1_700_000 && err.is_none() {
			let kb = if k < *n_small { *small } else { *large };
			let len = (kb * 1024 - pr.below(512)) as usize;
			let val = Prng::new(seed ^ (pi as u64) << 20 ^ k).bytes(len);
			let r = (|| -> Result<(), StoreError> {
				let mut b = store.batch()?;
				b.put(SPACE_KEYS[0], &storm_key(k), &val)?;
				b.commit()
			})();
			match r {
				Ok(()) => {
					written += len as u64;
					batches += 1;
				}
				Err(e) => err = Some(error_class(&e)),
			}
			k += 1;
		}
		if let Some(e) = err {
			failures.push(json!({"profile": format!("{} x {} KB then {} KB", n_small, small, large), "failed_batch": k, "bytes_committed_before": written, "error": e}));
		} else {
			// everything committed is there
			for q in 0..k {
				let want = Prng::new(seed ^ (pi as u64) << 20 ^ q).bytes(0);
				let _ = want;
				match store.exists(SPACE_KEYS[0], &storm_key(q)) {
					Ok(true) => {}
					other => {
						failures.push(json!({"profile": format!("{} x {} KB then {} KB", n_small, small, large), "missing_key": q, "exists": format!("{:?}", other.map_err(|e| error_class(&e)))}));
						break;
					}
				}
			}
		}
		drop(store);
		let _ = std::fs::remove_dir_all(&dir);
	}
	let (resizes, live) = verif_hooks::resize_stats_take();
	let _ = std::fs::write(&out, json!({"sessions": sessions, "batches": batches, "enlargements": resizes, "enlargements_with_live_transactions": live.len(), "failures": failures}).to_string());
	0
}

fn ladder_phase(run: &Run, scratch: &Scratch, seed: u64) {
	let dir = scratch.sub("ladder");
	let out = scratch.sub("ladder.json");
	let _ = std::fs::create_dir_all(&dir);
	let r = run_worker(&["--worker-ladder".to_string(), seed.to_string(), dir.clone(), out.clone()], &format!("{}.log", dir), Duration::from_secs(300));
	let v = read_json(&out);
	let _ = std::fs::remove_dir_all(&dir);
	let v = match (r.code, r.timed_out, v) {
		(Some(0), false, Some(v)) => v,
		(c, to, _) => {
			run.inconclusive(&format!("headroom ladder worker: exit {:?} timed_out {} {}", c, to, r.tail));
			return;
		}
	};
	run.count("ladder.sessions", v["sessions"].as_u64().unwrap_or(0));
	run.count("ladder.batches_each_below_the_headroom", v["batches"].as_u64().unwrap_or(0));
	run.count("ladder.enlargements", v["enlargements"].as_u64().unwrap_or(0));
	run.eval_bulk(v["batches"].as_u64().unwrap_or(0), vec![]);
	for f in v["failures"].as_array().cloned().unwrap_or_default().iter().take(3) {
		let cls = if f.get("error").is_some() { format!("writer={}", f["error"].as_str().unwrap_or("?")) } else { "committed_key_missing".to_string() };
		run.violation(
			&format!("ladder;oracle=no_operation_fails_for_lack_of_space;{}", cls),
			&format!("a single writer whose every batch stays below the 10 % headroom of the map: {}", f),
			json!({"scenario": "headroom ladder", "cmd": format!("c18 --worker-ladder {} <dir> <out>", seed), "detail": f}),
		);
	}
}

fn no_core_dumps() {
	unsafe {
		let lim = libc::rlimit {
			rlim_cur: 0,
			rlim_max: 0,
		};
		libc::setrlimit(libc::RLIMIT_CORE, &lim);
	}
}

// ------------------------------------------------------------------ (3) crash enumeration around commit

#[derive(Clone)]
enum COp {
	Put(usize, Vec<u8>, Vec<u8>),
	Del(usize, Vec<u8>),
	Child(Vec<COp>, bool),
}

struct CrashGen {
	prng: Prng,
	bid: u64,
	seq: u32,
	next_key: u32,
	big: bool,
}

impl CrashGen {
	fn val(&mut self) -> Vec<u8> {
		self.seq += 1;
		let len = if self.big {
			self.prng.range(150, 400) as usize
		} else {
			self.prng.range(0, 120) as usize
		};
		enc_val(&Val {
			batch_id: self.bid,
			batch_size: 0,
			seq: self.seq,
			payload: self.prng.bytes(len),
		})
	}
	fn old_key(&mut self) -> Vec<u8> {
		// big (resize) variant: touch only recent keys so that a batch dirties few pages
		let n = self.next_key.max(1) as u64;
		let i = if self.big { n - 1 - self.prng.below(n.min(60)) } else { self.prng.below(n) };
		format!("c{:05}", i).into_bytes()
	}
	fn new_key(&mut self) -> Vec<u8> {
		self.next_key += 1;
		format!("c{:05}", self.next_key - 1).into_bytes()
	}
	/// Ops of one level: new keys, overwrites and deletes of existing keys, nested children.
	fn ops(&mut self, depth: usize, n: usize) -> Vec<COp> {
		let mut v = vec![];
		for _ in 0..n {
			let s = match self.prng.below(10) {
				0 | 1 => 1,
				2 | 3 => 2,
				_ => 0,
			};
			match self.prng.below(100) {
				0..=54 => {
					let k = self.new_key();
					let val = self.val();
					v.push(COp::Put(s, k, val));
				}
				55..=74 => {
					let k = self.old_key();
					let val = self.val();
					v.push(COp::Put(s, k, val));
				}
				75..=89 => {
					let k = self.old_key();
					v.push(COp::Del(s, k));
				}
				_ => {
					if depth < 3 {
						self.bid += 1;
						let m = self.prng.range(2, 8) as usize;
						let inner = self.ops(depth + 1, m);
						let commit = self.prng.chance(2, 3);
						v.push(COp::Child(inner, commit));
					}
				}
			}
		}
		v
	}
}

fn crash_apply_model(m: &mut RefNestedMap, ops: &[COp]) {
	for op in ops {
		match op {
			COp::Put(s, k, v) => m.put(*s, k, v.clone()),
			COp::Del(s, k) => m.delete(*s, k),
			COp::Child(inner, commit) => {
				m.begin();
				crash_apply_model(m, inner);
				if *commit {
					m.commit()
				} else {
					m.rollback()
				}
			}
		}
	}
}

fn crash_apply_store(b: &mut Batch<'_>, ops: &[COp]) -> Result<(), StoreError> {
	for op in ops {
		match op {
			COp::Put(s, k, v) => b.put(SPACE_KEYS[*s], k, v)?,
			COp::Del(s, k) => b.delete(SPACE_KEYS[*s], k)?,
			COp::Child(inner, commit) => {
				let mut c = b.child()?;
				crash_apply_store(&mut c, inner)?;
				if *commit {
					c.commit()?;
				}
			}
		}
	}
	Ok(())
}

fn write_sync(path: &str, content: &str) {
	use std::io::Write;
	if let Ok(mut f) = std::fs::File::create(path) {
		let _ = f.write_all(content.as_bytes());
		let _ = f.sync_all();
	}
}

fn append_sync(path: &str, line: &str) {
	use std::io::Write;
	if let Ok(mut f) = std::fs::OpenOptions::new().create(true).append(true).open(path) {
		let _ = writeln!(f, "{}", line);
		let _ = f.sync_all();
	}
}

/// `--worker-crash n dir seed variant`: prefill, write the expected states to a
/// side file, arm the crash hook, run the armed batches (dies by abort at point n).
fn worker_crash(args: &[String]) -> i32 {
	install_logger();
	no_core_dumps();
	init_thread();
	let n: u64 = args[0].parse().unwrap_or(0);
	let dir = args[1].clone();
	let seed: u64 = args[2].parse().unwrap_or(1);
	let variant: u64 = args[3].parse().unwrap_or(0);
	let db = format!("{}/db", dir);
	let side = format!("{}/states.json", dir);
	let progress = format!("{}/progress.log", dir);
	let crashlog = format!("{}/crash.log", dir);
	let out = format!("{}/out.json", dir);
	let resize_variant = variant == 1;
	let store = match open_store(&db, None) {
		Ok(s) => s,
		Err(e) => {
			write_sync(&out, &json!({"error": format!("Store::new: {:?}", e)}).to_string());
			return 3;
		}
	};
	let mut g = CrashGen {
		prng: Prng::new(seed ^ (variant << 32) ^ 0xC4A5),
		bid: 1,
		seq: 0,
		next_key: 0,
		big: resize_variant,
	};
	let mut model = RefNestedMap::new();
	// prefill (not armed)
	let mut prefill = 0u64;
	loop {
		if resize_variant {
			if data_mdb_size(&db) >= 900 * 1024 || prefill > 600 {
				break;
			}
		} else if prefill >= 6 {
			break;
		}
		g.bid += 1;
		let nops = if resize_variant { 30 } else { 25 };
		let ops = g.ops(0, nops);
		model.begin();
		crash_apply_model(&mut model, &ops);
		model.commit();
		let r = store.batch().and_then(|mut b| {
			crash_apply_store(&mut b, &ops)?;
			b.commit()
		});
		if let Err(e) = r {
			write_sync(&out, &json!({"error": format!("prefill: {:?}", e)}).to_string());
			return 3;
		}
		prefill += 1;
	}
	// armed batches: generated and modelled BEFORE arming
	let n_armed = if resize_variant { 8 } else { 4 };
	let mut armed: Vec<(Vec<COp>, bool)> = vec![];
	let mut states = vec![model.fingerprint()];
	for i in 0..n_armed {
		g.bid += 1;
		let nops = if resize_variant { 50 } else { g.prng.range(12, 40) as usize };
		let mut ops = g.ops(0, nops);
		// make sure every armed batch has a committed and a dropped child with writes
		g.bid += 1;
		let c1 = g.ops(1, 4);
		g.bid += 1;
		let c2 = g.ops(1, 4);
		ops.push(COp::Child(c1, true));
		ops.push(COp::Child(c2, false));
		let commit = !(i == 1); // the second armed batch is dropped: no crash point, no trace
		model.begin();
		crash_apply_model(&mut model, &ops);
		if commit {
			model.commit();
			states.push(model.fingerprint());
		} else {
			model.rollback();
		}
		armed.push((ops, commit));
	}
	write_sync(
		&side,
		&json!({
			"prefill_batches": prefill,
			"armed_batches": n_armed,
			"states": states.iter().map(|(fp, c)| json!({"fp": format!("{:016x}", fp), "keys": c})).collect::<Vec<_>>(),
		})
		.to_string(),
	);
	let resizes0 = LOG_RESIZE_END.load(Ordering::SeqCst);
	verif_hooks::crash_arm(n, Some(crashlog.clone()));
	for (i, (ops, commit)) in armed.iter().enumerate() {
		let mut b = match store.batch() {
			Ok(b) => b,
			Err(e) => {
				write_sync(&out, &json!({"error": format!("armed batch(): {:?}", e)}).to_string());
				return 3;
			}
		};
		append_sync(
			&progress,
			&format!("batch {} resizes_since_arm {}", i, LOG_RESIZE_END.load(Ordering::SeqCst) - resizes0),
		);
		if let Err(e) = crash_apply_store(&mut b, ops) {
			write_sync(&out, &json!({"error": format!("armed ops: {:?}", e)}).to_string());
			return 3;
		}
		if *commit {
			if let Err(e) = b.commit() {
				write_sync(&out, &json!({"error": format!("armed commit: {:?}", e)}).to_string());
				return 3;
			}
		} else {
			drop(b);
		}
	}
	let labels = verif_hooks::crash_disarm();
	write_sync(
		&out,
		&json!({"labels": labels, "resizes_armed": LOG_RESIZE_END.load(Ordering::SeqCst) - resizes0,
			"prefill_batches": prefill, "map_size": LOG_MAP_SIZE.load(Ordering::SeqCst)})
		.to_string(),
	);
	0
}

/// `--worker-dump dir out`: reopen a (possibly crashed) store, fingerprint it, then
/// check it is still writable.
fn worker_dump(args: &[String]) -> i32 {
	install_logger();
	no_core_dumps();
	init_thread();
	let db = format!("{}/db", args[0]);
	let out = args[1].clone();
	let res = (|| -> Result<Value, String> {
		let store = open_store(&db, None).map_err(|e| format!("Store::new: {:?}", e))?;
		let dump = |store: &Store| -> Result<Vec<KMap>, String> {
			let mut maps = vec![];
			for s in 0..NS {
				let v = dump_space(store, s).map_err(|e| format!("iter: {:?}", e))?;
				let mut m = KMap::new();
				let n = v.len();
				for (k, val) in v {
					m.insert(k, val);
				}
				if m.len() != n {
					return Err("duplicate keys in iteration".into());
				}
				maps.push(m);
			}
			Ok(maps)
		};
		let maps = dump(&store)?;
		let (fp, counts) = fingerprint_maps(&maps);
		let unused = dump_unused(&store).map_err(|e| format!("iter: {:?}", e))?;
		// usable after the crash: one more batch
		let mut post_ok = true;
		let mut post_err = String::new();
		let r = store.batch().and_then(|mut b| {
			for i in 0..20u32 {
				b.put(SPACE_KEYS[(i % 3) as usize], format!("zz-post-{}", i).as_bytes(), &[7u8; 200])?;
			}
			b.commit()
		});
		match r {
			Err(e) => {
				post_ok = false;
				post_err = format!("{:?}", e);
			}
			Ok(()) => {
				drop(store);
				let store = open_store(&db, None).map_err(|e| format!("Store::new(2): {:?}", e))?;
				let mut maps2 = dump(&store)?;
				for i in 0..20u32 {
					if maps2[(i % 3) as usize].remove(format!("zz-post-{}", i).as_bytes()).is_none() {
						post_ok = false;
						post_err = "post-crash write lost".into();
					}
				}
				if fingerprint_maps(&maps2).0 != fp {
					post_ok = false;
					post_err = "content changed by an unrelated post-crash batch".into();
				}
			}
		}
		Ok(json!({"fp": format!("{:016x}", fp), "keys": counts, "unused": unused, "post_ok": post_ok, "post_err": post_err}))
	})();
	match res {
		Ok(v) => {
			write_sync(&out, &v.to_string());
			0
		}
		Err(e) => {
			write_sync(&out, &json!({"error": e}).to_string());
			3
		}
	}
}

/// `--worker-probe dir out`: informational probes outside the property's scope:
/// one batch larger than the free headroom of the map; writes on a thread that
/// keeps its own read iterator open (nested-tx escape of the resize wait).
fn worker_probe(args: &[String]) -> i32 {
	install_logger();
	no_core_dumps();
	init_thread();
	let out = args[1].clone();
	let mut res = serde_json::Map::new();
	{
		let store = open_store(&format!("{}/big", args[0]), None).unwrap();
		let r = store.batch().and_then(|mut b| {
			for i in 0..3000u32 {
				b.put(SPACE_KEYS[0], format!("big{:05}", i).as_bytes(), &[1u8; 400])?;
			}
			b.commit()
		});
		res.insert(
			"single_batch_1.2MB_into_fresh_1MiB_map".into(),
			json!(match r {
				Ok(()) => "ok".to_string(),
				Err(e) => format!("{:?}", e),
			}),
		);
	}
	{
		let store = open_store(&format!("{}/nested", args[0]), None).unwrap();
		let mut outcome = "ok".to_string();
		let held = store.iter::<KvFn, KV>(SPACE_KEYS[0], kv_raw as KvFn);
		'o: for j in 0..150u32 {
			let r = store.batch().and_then(|mut b| {
				for i in 0..40u32 {
					b.put(SPACE_KEYS[0], format!("n{:04}-{:03}", j, i).as_bytes(), &[2u8; 300])?;
				}
				b.commit()
			});
			if let Err(e) = r {
				outcome = format!("batch {}: {:?}", j, e);
				break 'o;
			}
		}
		drop(held);
		res.insert("1.8MB_in_16KB_batches_while_same_thread_holds_an_iterator".into(), json!(outcome));
	}
	write_sync(&out, &Value::Object(res).to_string());
	0
}

// ------------------------------------------------------------------ process helper

struct ProcOut {
	code: Option<i32>,
	signal: Option<i32>,
	timed_out: bool,
	tail: String,
}

fn run_worker(args: &[String], log_path: &str, timeout: Duration) -> ProcOut {
	use std::os::unix::process::ExitStatusExt;
	let exe = std::env::current_exe().expect("current_exe");
	let logf = std::fs::File::create(log_path).ok();
	let mut cmd = std::process::Command::new(exe);
	cmd.args(args).stdin(std::process::Stdio::null());
	if let Some(f) = logf {
		if let Ok(f2) = f.try_clone() {
			cmd.stdout(f).stderr(f2);
		}
	}
	let mut child = match cmd.spawn() {
		Ok(c) => c,
		Err(e) => {
			return ProcOut {
				code: None,
				signal: None,
				timed_out: false,
				tail: format!("spawn failed: {}", e),
			}
		}
	};
	let t0 = Instant::now();
	let mut timed_out = false;
	let status = loop {
		match child.try_wait() {
			Ok(Some(s)) => break Some(s),
			Ok(None) => {
				if t0.elapsed() > timeout {
					let _ = child.kill();
					timed_out = true;
					break child.wait().ok();
				}
				std::thread::sleep(Duration::from_millis(10));
			}
			Err(_) => break None,
		}
	};
	let tail = std::fs::read(log_path)
		.map(|b| String::from_utf8_lossy(&b[b.len().saturating_sub(1200)..]).to_string())
		.unwrap_or_default();
	ProcOut {
		code: status.and_then(|s| s.code()),
		signal: status.and_then(|s| s.signal()),
		timed_out,
		tail,
	}
}

fn read_json(path: &str) -> Option<Value> {
	std::fs::read_to_string(path).ok().and_then(|s| serde_json::from_str(&s).ok())
}

// ------------------------------------------------------------------ parent side: crash enumeration

#[derive(Default)]
struct CrashStats {
	points: u64,
	pre_points: u64,
	post_points: u64,
	reopen_cmp: u64,
	post_crash_writes_ok: u64,
	resizes_in_armed_phase: u64,
	labels: BTreeSet<String>,
	sigs: Vec<(String, bool)>,
	violations: Vec<(String, String, Value)>,
	inconclusive: Vec<String>,
	sample: Option<Value>,
}

fn crash_enumerate(base: &str, seed: u64, variant: u64) -> CrashStats {
	let mut cs = CrashStats::default();
	let tag = format!("crash-s{}-v{}", seed, variant);
	let mk = |n: u64| -> String {
		let d = format!("{}/{}-p{}", base, tag, n);
		let _ = std::fs::remove_dir_all(&d);
		let _ = std::fs::create_dir_all(&d);
		d
	};
	let wargs = |n: u64, d: &str| -> Vec<String> {
		vec!["--worker-crash".into(), n.to_string(), d.to_string(), seed.to_string(), variant.to_string()]
	};
	// count mode
	let d0 = mk(0);
	let r = run_worker(&wargs(0, &d0), &format!("{}/worker.log", d0), Duration::from_secs(120));
	let out0 = read_json(&format!("{}/out.json", d0));
	let labels: Vec<String> = out0
		.as_ref()
		.and_then(|v| v.get("labels"))
		.and_then(|x| x.as_array())
		.map(|a| a.iter().filter_map(|x| x.as_str().map(|s| s.to_string())).collect())
		.unwrap_or_default();
	if r.code != Some(0) || labels.is_empty() {
		cs.inconclusive.push(format!(
			"{}: count-mode worker failed (code {:?} signal {:?} timeout {}): {} {}",
			tag,
			r.code,
			r.signal,
			r.timed_out,
			out0.map(|v| v.to_string()).unwrap_or_default(),
			r.tail
		));
		return cs;
	}
	let states0 = read_json(&format!("{}/states.json", d0));
	// the un-crashed run must end in the last model state as well
	let n_points = labels.len() as u64;
	for n in 0..=n_points {
		let d = if n == 0 { d0.clone() } else { mk(n) };
		let mut expected_idx;
		let label;
		if n == 0 {
			expected_idx = labels.iter().filter(|l| l.as_str() == "lmdb.commit.post").count();
			label = "none".to_string();
		} else {
			let r = run_worker(&wargs(n, &d), &format!("{}/worker.log", d), Duration::from_secs(120));
			if r.signal != Some(libc::SIGABRT) {
				cs.inconclusive.push(format!(
					"{} point {}: worker did not die by SIGABRT (code {:?} signal {:?} timeout {}): {}",
					tag, n, r.code, r.signal, r.timed_out, r.tail
				));
				continue;
			}
			let log = std::fs::read_to_string(format!("{}/crash.log", d)).unwrap_or_default();
			let lines: Vec<&str> = log.lines().collect();
			let last = lines.last().cloned().unwrap_or("");
			if !last.starts_with("CRASH ") {
				cs.inconclusive.push(format!("{} point {}: crash log has no CRASH line: {:?}", tag, n, last));
				continue;
			}
			label = last.split(' ').nth(2).unwrap_or("?").to_string();
			expected_idx = lines.iter().filter(|l| l.ends_with("lmdb.commit.post")).count();
			if label != labels[(n - 1) as usize] {
				cs.inconclusive.push(format!(
					"{} point {}: label {} differs from count mode {}",
					tag,
					n,
					label,
					labels[(n - 1) as usize]
				));
				continue;
			}
			cs.points += 1;
			cs.labels.insert(label.clone());
			if label.ends_with(".pre") {
				cs.pre_points += 1;
			} else {
				cs.post_points += 1;
			}
			// a map resize between armed batches before this point?
			let prog = std::fs::read_to_string(format!("{}/progress.log", d)).unwrap_or_default();
			if prog
				.lines()
				.last()
				.and_then(|l| l.split(' ').last())
				.and_then(|x| x.parse::<u64>().ok())
				.unwrap_or(0) > 0
			{
				cs.resizes_in_armed_phase += 1;
			}
		}
		let states = if n == 0 { states0.clone() } else { read_json(&format!("{}/states.json", d)) };
		let states: Vec<(String, Value)> = states
			.as_ref()
			.and_then(|v| v.get("states"))
			.and_then(|x| x.as_array())
			.map(|a| {
				a.iter()
					.map(|x| (x["fp"].as_str().unwrap_or("").to_string(), x["keys"].clone()))
					.collect()
			})
			.unwrap_or_default();
		if states.is_empty() || expected_idx >= states.len() {
			cs.inconclusive.push(format!("{} point {}: side file unusable", tag, n));
			continue;
		}
		expected_idx = expected_idx.min(states.len() - 1);
		// reopen in a fresh process
		let dump_out = format!("{}/dump.json", d);
		let r = run_worker(
			&["--worker-dump".to_string(), d.clone(), dump_out.clone()],
			&format!("{}/dump.log", d),
			Duration::from_secs(120),
		);
		let dump = read_json(&dump_out);
		let replay = json!({"scenario": "crash", "seed": seed, "variant": variant, "crash_point": n, "label": label,
			"cmd": format!("c18 --worker-crash {} <dir> {} {}; c18 --worker-dump <dir> <out>", n, seed, variant)});
		let kind = if label.ends_with(".pre") { "pre" } else if label.ends_with(".post") { "post" } else { "none" };
		let dump = match (r.code, dump) {
			(Some(0), Some(v)) => v,
			(code, v) => {
				if r.signal.is_some() || v.as_ref().map(|v| v.get("error").is_some()).unwrap_or(false) {
					cs.violations.push((
						format!("crash;at={};event=reopen_failed", kind),
						format!(
							"store cannot be reopened / read after a kill at {} (exit {:?} signal {:?}): {} {}",
							label,
							code,
							r.signal,
							v.map(|v| v.to_string()).unwrap_or_default(),
							r.tail
						),
						replay,
					));
				} else {
					cs.inconclusive.push(format!("{} point {}: dump worker failed: {}", tag, n, r.tail));
				}
				continue;
			}
		};
		cs.reopen_cmp += 1;
		let got = dump["fp"].as_str().unwrap_or("").to_string();
		cs.sigs.push((
			format!("crash;variant={};at={};commit_index={};states={}", variant, kind, expected_idx, states.len()),
			n > 0,
		));
		if got != states[expected_idx].0 {
			let other = states.iter().position(|s| s.0 == got);
			let class = match other {
				Some(i) if i < expected_idx => "committed_batch_lost",
				Some(_) => "uncommitted_batch_visible",
				None => "mixture",
			};
			cs.violations.push((
				format!("crash;at={};class={}", kind, class),
				format!(
					"after a kill at {} (crash point {}, {} commits completed) the reopened store holds {} (keys {}), expected state {} (keys {})",
					label,
					n,
					expected_idx,
					match other {
						Some(i) => format!("state {}", i),
						None => "a state that is neither before nor after the interrupted commit".to_string(),
					},
					dump["keys"],
					expected_idx,
					states[expected_idx].1
				),
				replay.clone(),
			));
		} else if dump["unused"].as_u64().unwrap_or(0) != 0 {
			cs.violations.push((
				format!("crash;at={};class=phantom", kind),
				"keys in a key space nothing was written to".into(),
				replay.clone(),
			));
		}
		if dump["post_ok"].as_bool() == Some(true) {
			cs.post_crash_writes_ok += 1;
		} else {
			let e = dump["post_err"].as_str().unwrap_or("").to_string();
			let space = ["MDB_MAP_FULL", "MDB_MAP_RESIZED", "MDB_TXN_FULL", "MDB_PAGE_FULL"]
				.iter()
				.find(|c| e.contains(**c));
			if let Some(c) = space {
				cs.violations.push((
					format!("crash;at={};op=post_crash_batch;event=space_error:{}", kind, c),
					format!("first batch after reopening a store killed at {} failed for lack of space: {}", label, e),
					replay,
				));
			} else if e.contains("lost") || e.contains("changed") {
				cs.violations.push((
					format!("crash;at={};class=post_crash_write_wrong", kind),
					format!("after reopening a store killed at {}: {}", label, e),
					replay,
				));
			} else {
				cs.inconclusive.push(format!("{} point {}: post-crash batch failed: {}", tag, n, e));
			}
		}
		if cs.sample.is_none() && n == 2 {
			cs.sample = Some(json!({"scenario": "crash", "seed": seed, "variant": variant, "crash_point": n, "label": label,
				"commits_completed": expected_idx, "reopened_fp": got, "expected_fp": states[expected_idx].0,
				"keys_per_space": dump["keys"]}));
		}
		if n > 0 {
			let _ = std::fs::remove_dir_all(&d);
		}
	}
	let _ = std::fs::remove_dir_all(&d0);
	cs
}

// ------------------------------------------------------------------ parent side: multi-thread workers

fn mt_args(p: &MtParams) -> Vec<String> {
	vec![
		"--worker-mt".into(),
		p.seed.to_string(),
		p.dir.clone(),
		p.target_keys.to_string(),
		p.max_batches.to_string(),
		p.max_secs.to_string(),
		p.n_point.to_string(),
		p.n_iter.to_string(),
		p.n_hold.to_string(),
		p.hang_secs.to_string(),
		p.out.clone().unwrap_or_default(),
		p.prefill_kb.to_string(),
	]
}

enum MtOutcome {
	Done(MtResult),
	Hang(String, Option<MtResult>),
	Killed(String),
	Broken(String),
}

fn mt_spawn(p: &MtParams) -> MtOutcome {
	let _ = std::fs::remove_dir_all(&p.dir);
	let _ = std::fs::create_dir_all(&p.dir);
	let out = p.out.clone().unwrap();
	let _ = std::fs::remove_file(&out);
	let r = run_worker(
		&mt_args(p),
		&format!("{}.log", p.dir),
		Duration::from_secs(p.max_secs * 3 + p.hang_secs + 240),
	);
	let res = read_json(&out).map(|v| MtResult::from_json(&v));
	let _ = std::fs::remove_dir_all(&p.dir);
	if r.code == Some(vcommon::monitor::EXIT_HANG) {
		let d = res.as_ref().and_then(|r| r.hang.clone()).unwrap_or_else(|| r.tail.clone());
		return MtOutcome::Hang(d, res);
	}
	if r.timed_out {
		return MtOutcome::Hang("worker exceeded its wall-clock limit and was killed".into(), res);
	}
	if let Some(sig) = r.signal {
		return MtOutcome::Killed(format!("signal {}: {}", sig, r.tail));
	}
	match (r.code, res) {
		(Some(0), Some(res)) => MtOutcome::Done(res),
		(c, _) => MtOutcome::Broken(format!("exit {:?}: {}", c, r.tail)),
	}
}

enum StOutcome {
	Done(StStats),
	Hang(StStats, Value),
	Broken(String),
}

fn st_spawn(p: &StParams) -> StOutcome {
	let _ = std::fs::remove_dir_all(&p.base);
	let _ = std::fs::create_dir_all(&p.base);
	let out = p.out.clone().unwrap();
	let _ = std::fs::remove_file(&out);
	let r = run_worker(&st_args(p), &format!("{}.log", p.base), Duration::from_secs(p.secs + p.hang_secs + 240));
	let v = read_json(&out);
	let _ = std::fs::remove_dir_all(&p.base);
	if r.code == Some(vcommon::monitor::EXIT_HANG) {
		let v = v.unwrap_or(json!({}));
		return StOutcome::Hang(StStats::from_json(&v), v.get("hang").cloned().unwrap_or(json!({})));
	}
	if r.timed_out {
		return StOutcome::Broken(format!("timeout: {}", r.tail));
	}
	if let Some(sig) = r.signal {
		return StOutcome::Broken(format!("signal {}: {}", sig, r.tail));
	}
	match (r.code, v) {
		(Some(0), Some(v)) => StOutcome::Done(StStats::from_json(&v)),
		(c, _) => StOutcome::Broken(format!("exit {:?}: {}", c, r.tail)),
	}
}

fn merge_mt(run: &Run, res: &MtResult, agg: &mut BTreeMap<String, u64>, mins: &mut BTreeMap<String, u64>) {
	for (k, v) in &res.counters {
		if k.contains("max_") || k.contains("final_") {
			let e = agg.entry(k.clone()).or_insert(0);
			*e = (*e).max(*v);
		} else {
			*agg.entry(k.clone()).or_insert(0) += *v;
		}
	}
	for k in ["mt_resizes_completed", "mt_max_snapshot_keys_space0", "mt_resizes_deferred_until_txs_closed"] {
		let v = *res.counters.get(k).unwrap_or(&0);
		let e = mins.entry(k.to_string()).or_insert(u64::MAX);
		*e = (*e).min(v);
	}
	for (sig, what, replay) in &res.violations {
		run.violation(sig, what, replay.clone());
	}
	for s in &res.suspicious {
		run.count("suspicious_non_space_errors", 1);
		run.inconclusive(&format!("suspicious (not a space error), needs triage: {}", s));
	}
}

// ------------------------------------------------------------------ main

fn flush_st(run: &Run, st: StStats) -> StStats {
	for (sig, nt) in &st.sigs {
		run.eval(sig, *nt);
	}
	for (f, replay) in &st.fails {
		if f.violation {
			run.violation(&f.sig, &f.what, replay.clone());
		} else {
			run.count("suspicious_non_space_errors", 1);
			run.inconclusive(&format!("suspicious (not a space error), needs triage: {} :: {}", f.sig, f.what));
		}
	}
	for s in &st.samples {
		run.sample(s.clone());
	}
	st
}

fn report_st(run: &Run, st: &StStats) {
	run.count("st_programs_run", st.programs);
	run.count("st_sessions", st.sessions);
	for (k, v) in &st.ops {
		run.count(&format!("st_op_{}", k), *v);
	}
	run.count("st_reopen_comparisons", st.reopen_cmp);
	run.count("st_outside_full_comparisons", st.outside_full_cmp);
	run.count("st_top_level_commits", st.top_commit);
	run.count("st_top_level_drops", st.top_drop);
	run.count("st_child_commits", st.child_commit);
	run.count("st_child_drops", st.child_drop);
	run.count("st_held_outside_iterators", st.held_iters);
	run.count("st_held_iterators_finished_after_a_later_commit", st.held_across_commit);
	run.count("st_map_resizes_in_growth_sessions", st.resizes);
	run.count("st_resizes_immediate_no_open_tx", st.resizes_immediate);
	run.count("st_resizes_deferred_own_iterator_open", st.resizes_deferred);
	run.count("st_max_keys_in_one_space", st.max_keys_space);
	run.count("st_distinct_nesting_fate_chains", st.chains.len() as u64);
	run.extra(
		"st_nesting_fate_chains",
		json!({"explanation": "decision (C=commit, D=drop) of the level that wrote, then of every enclosing level up to the top-level batch",
			"seen": st.chains.iter().cloned().collect::<Vec<_>>()}),
	);
}

fn main() {
	let raw: Vec<String> = std::env::args().skip(1).collect();
	for (flag, f) in [
		("--worker-mt", worker_mt as fn(&[String]) -> i32),
		("--worker-st", worker_st),
		("--worker-crash", worker_crash),
		("--worker-dump", worker_dump),
		("--worker-probe", worker_probe),
		("--worker-storm", worker_storm),
		("--worker-holder", worker_holder),
		("--worker-ladder", worker_ladder),
	] {
		if let Some(i) = raw.iter().position(|a| a == flag) {
			std::process::exit(f(&raw[i + 1..]));
		}
	}
	install_logger();
	init_thread();
	let run = Run::from_env("C18", "exploration");
	let san: Option<String> = run
		.args
		.iter()
		.position(|a| a == "--san")
		.and_then(|i| run.args.get(i + 1))
		.cloned();
	// own encoder == grin ser
	{
		let v = Val {
			batch_id: 0x0102030405060708,
			batch_size: 7,
			seq: 9,
			payload: vec![1, 2, 3],
		};
		let a = ser::ser_vec(&v, ProtocolVersion(3)).unwrap();
		assert_eq!(a, enc_val(&v), "harness encoder differs from grin ser");
		assert_eq!(dec_val(&a), Some(v));
	}
	run.set_rule(
		"(1) single-thread: random programs of 50-200 ops (growth sessions 400-900) over 3 key spaces (prefix dbs 'b','h' and the default db) on a real Store: \
		 put/put_ser/delete/get_ser/exists/iter in the top-level batch and in children nested to depth 3, commit or drop chosen at random at every level, reads on fresh read txns \
		 while batches are open, outside iterators held across later commits, Store dropped and reopened after every program; every read is compared with RefNestedMap. \
		 A program is non-trivial if it has a write whose whole chain committed, a write under a dropped level and a child batch; distinct = distinct (number of top-level batches, max depth, set of commit/drop fate chains, op kinds). \
		 (2) multi-thread worker: writer + occasional second writer commit/drop batches of k fresh unique keys (contiguous or scattered over the tree and over 3 key spaces, partly via committed/dropped children, optionally deleting all keys of one older batch), \
		 point readers, snapshot iterators and iterator holders run meanwhile; every snapshot must hold all or none of each batch's keys and equal the state after a prefix of the commit log between the commits finished before and started before its creation. \
		 (3) crash: worker killed by abort at every crash point around Batch::commit of a sequence of nested batches; reopened content must equal exactly the model state for the number of completed commits.",
	);
	run.assume("the map is only enlarged in Store::batch() when > 90 % is used, so what is written after one check must fit into the remaining 10 % (26 pages for the 1 MiB test map, 12.8 MB in production); the workloads size a batch to an estimated <= 1/32 of the current map (two queued writers + estimation error stay below 10 %). A batch larger than the headroom, or several writers queued behind a stale check with large batches, can hit MDB_MAP_FULL; that is reported only as extra.headroom_probe, not as a violation");
	run.assume("a thread that keeps its own read iterator open while writing bypasses the resize wait (nested-tx escape in enter_tx); the single-thread growth sessions close held iterators at the end of each top-level batch");
	run.assume("iterators are dropped before the Store that created them (TxCounter::drop unwraps the ENV_MAP entry removed by Store::drop)");
	let scratch = Scratch::new("c18");
	let seed = run.seed;

	if let Some(kind) = san {
		main_san(&run, &scratch, &kind);
	} else {
		main_full(&run, &scratch, seed);
	}
	drop(scratch);
	run.finish();
}

fn main_san(run: &Run, scratch: &Scratch, kind: &str) {
	let seed = run.seed;
	let mut st = StStats::default();
	for i in 0..3u64 {
		let r = st_session(
			&scratch.sub(&format!("san-st-{}", i)),
			seed,
			i,
			false,
			3,
			Instant::now() + Duration::from_secs(600),
		);
		st.merge(flush_st(run, r));
	}
	report_st(run, &st);
	let p = MtParams {
		seed: seed ^ 0x5A,
		dir: scratch.sub("san-mt"),
		target_keys: 2500,
		max_batches: if kind == "valgrind" { 260 } else { 320 },
		max_secs: 900,
		n_point: 2,
		n_iter: 1,
		n_hold: 1,
		hang_secs: 1500,
		prefill_kb: 780,
		out: None,
	};
	let res = mt_run(&p);
	let mut agg = BTreeMap::new();
	let mut mins = BTreeMap::new();
	merge_mt(run, &res, &mut agg, &mut mins);
	for (k, v) in &agg {
		run.count(k, *v);
	}
	run.eval(&format!("mt;san={};in-process", kind), true);
	run.eval_bulk(
		agg.get("mt_snapshots_checked").cloned().unwrap_or(0) + agg.get("mt_point_reads_verified").cloned().unwrap_or(0),
		vec![],
	);
	run.require("san: single-thread programs", st.programs, 6);
	run.require("san: map resizes completed in the multi-thread workload", *agg.get("mt_resizes_completed").unwrap_or(&0), 1);
	run.require("san: snapshots checked", *agg.get("mt_snapshots_checked").unwrap_or(&0), 5);
	run.require("san: final == model comparisons (before and after reopen)", *agg.get("mt_end_state_comparisons").unwrap_or(&0), 2);
	let susp = run.counter("suspicious_non_space_errors");
	run.require("operations without unexpected non-space errors (1 = none)", if susp == 0 { 1 } else { 0 }, 1);
}

fn main_full(run: &Run, scratch: &Scratch, seed: u64) {
	let tier = run.tier;
	let n_sessions: u64 = tier.pick(96, 900);
	let n_growth: u64 = tier.pick(2, 10);
	let progs_per_session = 8usize;
	let n_st_threads = tier.pick(5, 6);
	let mut seeds = Prng::new(seed ^ 0xC18);

	// multi-thread worker parameters
	let n_mt: usize = tier.pick(2, 6);
	let mt_parallel: usize = 2;
	let mt_params: Vec<MtParams> = (0..n_mt)
		.map(|i| MtParams {
			seed: seeds.next_u64() >> 1,
			dir: scratch.sub(&format!("mt-{}", i)),
			target_keys: tier.pick(12_500, 30_000),
			max_batches: tier.pick(2_500, 12_000),
			max_secs: tier.pick(40, 150),
			n_point: 3,
			n_iter: 2,
			n_hold: if i % 2 == 0 { 1 } else { 2 },
			hang_secs: 60,
			prefill_kb: if i % 2 == 1 { 700 } else { 0 },
			out: Some(scratch.sub(&format!("mt-{}.json", i))),
		})
		.collect();
	let crash_jobs: Vec<(u64, u64)> = (0..tier.pick(3u64, 12))
		.flat_map(|i| {
			let s = seeds.next_u64() >> 1;
			let _ = i;
			vec![(s, 0u64), (s, 1u64)]
		})
		.collect();

	let st_params = StParams {
		seed,
		base: scratch.sub("st"),
		secs: tier.pick(45, 520),
		n_threads: n_st_threads,
		n_sessions,
		n_growth,
		progs: progs_per_session,
		growth_progs: 60,
		only: None,
		hang_secs: 60,
		out: Some(scratch.sub("st.json")),
	};
	let st_outcome: Mutex<Option<StOutcome>> = Mutex::new(None);
	let mt_outcomes: Mutex<Vec<(usize, MtOutcome)>> = Mutex::new(vec![]);
	let mt_next = AtomicUsize::new(0);
	let crash_total: Mutex<Vec<CrashStats>> = Mutex::new(vec![]);
	let crash_next = AtomicUsize::new(0);
	let probe: Mutex<Option<Value>> = Mutex::new(None);

	let holder_waited = AtomicU64::new(0);
	std::thread::scope(|sc| {
		// (1) single-thread sessions: one worker process (own hang watchdog)
		{
			let (st_outcome, st_params) = (&st_outcome, &st_params);
			sc.spawn(move || {
				let o = st_spawn(st_params);
				*st_outcome.lock().unwrap() = Some(o);
			});
		}
		// (2) multi-thread workers
		for _ in 0..mt_parallel {
			let (mt_next, mt_params, mt_outcomes) = (&mt_next, &mt_params, &mt_outcomes);
			sc.spawn(move || loop {
				let i = mt_next.fetch_add(1, Ordering::SeqCst);
				if i >= mt_params.len() {
					break;
				}
				let o = mt_spawn(&mt_params[i]);
				mt_outcomes.lock().unwrap().push((i, o));
			});
		}
		// (3) crash enumeration
		for _ in 0..tier.pick(3, 4) {
			let (crash_next, crash_jobs, crash_total) = (&crash_next, &crash_jobs, &crash_total);
			let base = scratch.sub("crash");
			sc.spawn(move || loop {
				let i = crash_next.fetch_add(1, Ordering::SeqCst);
				if i >= crash_jobs.len() {
					break;
				}
				let cs = crash_enumerate(&base, crash_jobs[i].0, crash_jobs[i].1);
				crash_total.lock().unwrap().push(cs);
			});
		}
		// (5) long-held iterators across a due enlargement (mostly waiting: run next to everything else)
		{
			let holder_waited = &holder_waited;
			sc.spawn(move || {
				let n = holder_phase(run, scratch, seed, if tier.pick(0, 1) == 0 { &[30, 60] } else { &[30, 60, 30, 90] });
				holder_waited.store(n, Ordering::SeqCst);
			});
		}
		// informational probe
		{
			let probe = &probe;
			let dir = scratch.sub("probe");
			let out = scratch.sub("probe.json");
			sc.spawn(move || {
				let _ = std::fs::create_dir_all(&dir);
				let r = run_worker(
					&["--worker-probe".to_string(), dir.clone(), out.clone()],
					&format!("{}.log", dir),
					Duration::from_secs(120),
				);
				let v = read_json(&out).unwrap_or(json!({"probe_failed": format!("code {:?} signal {:?}", r.code, r.signal)}));
				*probe.lock().unwrap() = Some(v);
				let _ = std::fs::remove_dir_all(&dir);
			});
		}
	});

	// ---- (6) single-writer ladders of batches just inside the headroom
	ladder_phase(run, scratch, seed);

	// ---- (4) reader storm across enlargements (after the other phases, so that its readers have the cores)
	let (storm_runs, storm_enl) = storm_phase(run, scratch, seed, tier.pick(24, 240), tier.pick(3, 4), 8);

	// ---- (1) report, re-running a hung session alone
	let mut st = StStats::default();
	match st_outcome.into_inner().unwrap() {
		Some(StOutcome::Done(r)) => st.merge(flush_st(run, r)),
		Some(StOutcome::Hang(partial, hang)) => {
			st.merge(flush_st(run, partial));
			let sess = hang["session"].as_u64().unwrap_or(0);
			let growth = hang["growth"].as_bool().unwrap_or(false);
			let mut p2 = st_params.clone();
			p2.only = Some((sess, growth));
			p2.secs = 150;
			let replay = json!({"scenario": "single-thread session", "seed": seed, "session": sess, "growth": growth,
				"cmd": format!("c18 {}", st_args(&p2).join(" "))});
			match st_spawn(&p2) {
				StOutcome::Hang(_, h2) => run.violation(
					&format!("st;event=hang;state={}", h2["state"].as_str().unwrap_or("?").replace(' ', "_")),
					&format!("single-thread session made no progress for 60 s, reproduced when re-run alone: first {} | again {}", hang, h2),
					replay,
				),
				StOutcome::Done(r) => {
					st.merge(flush_st(run, r));
					run.inconclusive(&format!("single-thread session {} hung once ({}) but not when re-run alone", sess, hang));
				}
				StOutcome::Broken(d) => run.inconclusive(&format!("single-thread session {} hung once ({}), re-run broke: {}", sess, hang, d)),
			}
		}
		Some(StOutcome::Broken(d)) => {
			// killed by a signal? only a reproduced kill is a violation
			if d.starts_with("signal") {
				match st_spawn(&st_params) {
					StOutcome::Broken(d2) if d2.starts_with("signal") => run.violation(
						&format!("st;event=worker_killed;{}", d2.split(':').next().unwrap_or("signal").replace(' ', "_")),
						&format!("the process running the single-thread programs was killed by a signal twice: {} | {}", d, d2),
						json!({"scenario": "single-thread sessions", "seed": seed, "cmd": format!("c18 {}", st_args(&st_params).join(" "))}),
					),
					StOutcome::Done(r) => {
						st.merge(flush_st(run, r));
						run.inconclusive(&format!("single-thread worker killed once ({}), not reproduced", d));
					}
					_ => run.inconclusive(&format!("single-thread worker killed once ({}), re-run inconclusive", d)),
				}
			} else {
				run.inconclusive(&format!("single-thread worker broke: {}", d));
			}
		}
		None => run.inconclusive("single-thread worker did not run"),
	}
	report_st(run, &st);

	// ---- (2) report, re-running hangs / crashes alone
	let mut agg: BTreeMap<String, u64> = BTreeMap::new();
	let mut mins: BTreeMap<String, u64> = BTreeMap::new();
	let mut done = 0u64;
	let mut outcomes = mt_outcomes.into_inner().unwrap();
	outcomes.sort_by_key(|(i, _)| *i);
	for (i, o) in outcomes {
		let p = &mt_params[i];
		let replay = json!({"scenario": "multi-thread", "worker_seed": p.seed, "cmd": format!("c18 {}", mt_args(p).join(" "))});
		match o {
			MtOutcome::Done(res) => {
				done += 1;
				merge_mt(run, &res, &mut agg, &mut mins);
				let c = |k: &str| *res.counters.get(k).unwrap_or(&0);
				run.eval(
					&format!(
						"mt;resizes={};deferred={};paging={};holders={}",
						c("mt_resizes_completed").min(12),
						(c("mt_resizes_deferred_until_txs_closed") > 0) as u8,
						(c("mt_snapshots_over_10000_keys") > 0) as u8,
						p.n_hold
					),
					true,
				);
				run.eval_bulk(c("mt_snapshots_checked") + c("mt_point_reads_verified"), vec![]);
				if i == 0 {
					run.sample(json!({"scenario": "multi-thread worker", "worker_seed": p.seed, "counters": res.counters}));
				}
			}
			MtOutcome::Hang(desc, partial) => {
				if let Some(res) = &partial {
					for (sig, what, rp) in &res.violations {
						run.violation(sig, what, rp.clone());
					}
				}
				// only a reproduced hang is a violation: re-run this seed alone
				match mt_spawn(p) {
					MtOutcome::Hang(desc2, _) => {
						// stable signature: where the main writer is blocked
						let stuck = |d: &str| -> String {
							d.split("unfinished=")
								.nth(1)
								.unwrap_or("")
								.split(',')
								.find_map(|x| x.trim().strip_prefix("writer-1:").map(|s| s.to_string()))
								.unwrap_or_else(|| "writer-1:finished".to_string())
								.replace(' ', "_")
						};
						run.violation(
							&format!("mt;event=hang;writer1={}", stuck(&desc2)),
							&format!("no progress for 60 s, reproduced when the seed was re-run alone. first: {} | second: {}", desc, desc2),
							replay,
						);
					}
					MtOutcome::Done(res) => {
						done += 1;
						merge_mt(run, &res, &mut agg, &mut mins);
						run.inconclusive(&format!("multi-thread worker seed {} hung once ({}) but not when re-run alone", p.seed, desc));
					}
					_ => run.inconclusive(&format!("multi-thread worker seed {} hung once ({}), re-run broke", p.seed, desc)),
				}
			}
			MtOutcome::Killed(desc) => {
				let mut reproduced = None;
				for _ in 0..2 {
					if let MtOutcome::Killed(d2) = mt_spawn(p) {
						reproduced = Some(d2);
						break;
					}
				}
				match reproduced {
					Some(d2) => run.violation(
						&format!("mt;event=worker_killed;{}", d2.split(':').next().unwrap_or("signal").replace(' ', "_")),
						&format!("the process running the concurrent workload was killed by a signal, reproduced on re-run. first: {} | again: {}", desc, d2),
						replay,
					),
					None => run.inconclusive(&format!("multi-thread worker seed {} killed once ({}), not reproduced in 2 re-runs", p.seed, desc)),
				}
			}
			MtOutcome::Broken(desc) => run.inconclusive(&format!("multi-thread worker seed {} broke: {}", p.seed, desc)),
		}
	}
	for (k, v) in &agg {
		run.count(k, *v);
	}
	run.count("mt_workers_completed", done);
	for (k, v) in &mins {
		run.count(&format!("{}_min_over_workers", k), if *v == u64::MAX { 0 } else { *v });
	}

	// ---- (3) report
	let mut cr = CrashStats::default();
	for c in crash_total.into_inner().unwrap() {
		cr.points += c.points;
		cr.pre_points += c.pre_points;
		cr.post_points += c.post_points;
		cr.reopen_cmp += c.reopen_cmp;
		cr.post_crash_writes_ok += c.post_crash_writes_ok;
		cr.resizes_in_armed_phase += c.resizes_in_armed_phase;
		cr.labels.extend(c.labels);
		for (sig, nt) in &c.sigs {
			run.eval(sig, *nt);
		}
		for (sig, what, rp) in c.violations {
			run.violation(&sig, &what, rp);
		}
		for s in c.inconclusive {
			run.inconclusive(&s);
		}
		if let Some(s) = c.sample {
			run.sample(s);
		}
	}
	run.count("crash_points_exercised", cr.points);
	run.count("crash_points_pre_commit", cr.pre_points);
	run.count("crash_points_post_commit", cr.post_points);
	run.count("crash_reopen_comparisons", cr.reopen_cmp);
	run.count("crash_post_crash_batches_ok", cr.post_crash_writes_ok);
	run.count("crash_points_after_a_map_resize_in_the_armed_phase", cr.resizes_in_armed_phase);
	run.extra("crash_point_labels", json!(cr.labels.iter().cloned().collect::<Vec<_>>()));
	if let Some(p) = probe.into_inner().unwrap() {
		run.extra(
			"headroom_probe",
			json!({"note": "informational, outside the property as stated: the map is only enlarged in Store::batch(), so one batch larger than the free headroom, or writes on a thread that keeps its own iterator open, can run out of map", "observed": p}),
		);
	}

	// ---- minimum observations
	let g = |k: &str| *agg.get(k).unwrap_or(&0);
	let m = |k: &str| {
		let v = *mins.get(k).unwrap_or(&0);
		if v == u64::MAX {
			0
		} else {
			v
		}
	};
	run.require("single-thread programs run", st.programs, tier.pick(200, 2000));
	run.require("reopen comparisons after programs", st.reopen_cmp, tier.pick(180, 1800));
	run.require("distinct commit/drop fate chains over nesting depth 0..3 (30 possible)", st.chains.len() as u64, 30);
	run.require("outside iterators finished after a later commit", st.held_across_commit, 20);
	run.require("map resizes in single-thread growth sessions", st.resizes, 2);
	run.require(
		"growth sessions in which every batch was opened under the thread's own iterator and the map grew",
		*st.ops.get("own_iterator_growth.sessions_in_which_the_map_grew").unwrap_or(&0),
		1,
	);
	run.require(
		"batches opened while the writing thread held its own iterator (growth)",
		*st.ops.get("own_iterator_growth.batches_under_own_iterator").unwrap_or(&0),
		100,
	);
	run.require("multi-thread workers completed", done, n_mt as u64);
	run.require("reader-storm runs completed", storm_runs, tier.pick(10, 100));
	run.require("single-writer batches just inside the headroom", run.counter("ladder.batches_each_below_the_headroom"), 800);
	run.require("runs in which the writer waited 5 s or more for a reader that kept its iterator", holder_waited.load(Ordering::SeqCst), 1);
	run.require("map enlargements while 6 / 2 / 1 readers kept read transactions coming", storm_enl, tier.pick(40, 400));
	run.require("map resizes completed, minimum over workers", m("mt_resizes_completed"), tier.pick(2, 4));
	run.require("largest single-snapshot iteration (keys), minimum over workers", m("mt_max_snapshot_keys_space0"), 10_001);
	run.require(
		"snapshot iterations over > 10 000 keys while the writer was committing",
		g("mt_snapshots_over_10000_keys_while_writer_active"),
		5,
	);
	run.require("snapshots checked", g("mt_snapshots_checked"), tier.pick(300, 2000));
	run.require("held (long-lived) snapshots checked", g("mt_held_snapshots_checked"), tier.pick(10, 60));
	run.require("resizes deferred until open transactions closed", g("mt_resizes_deferred_until_txs_closed"), 1);
	run.require("point reads verified", g("mt_point_reads_verified"), tier.pick(10_000, 100_000));
	run.require("second-writer batches committed", g("mt_w2_batches_committed"), tier.pick(20, 200));
	run.require("final == model comparisons (before and after reopen)", g("mt_end_state_comparisons"), 2 * n_mt as u64);
	run.require("crash points exercised", cr.points, tier.pick(20, 100));
	run.require("crash labels seen (pre and post)", cr.labels.len() as u64, 2);
	run.require("crash reopen comparisons", cr.reopen_cmp, cr.points.max(1));
	run.require("crash points reached after a map resize between armed batches", cr.resizes_in_armed_phase, 1);
	let susp = run.counter("suspicious_non_space_errors");
	run.require("operations without unexpected non-space errors (1 = none)", if susp == 0 { 1 } else { 0 }, 1);
}
