//! C05 — PoW verification accepts exactly the simple cycles of the header-seeded graph.
//!
//! Runtime monitoring, differential: every `PoWContext::verify` execution (five context types, built through
//! the public constructors / `global::create_pow_context` / `pow::verify_size`) is compared with an
//! independent reference decider `RefGraph::analyse` written from the Cuckoo Cycle family definitions
//! (John Tromp), not from the verifier's control flow:
//!
//! * keys: blake2b-256 of the header (optionally with the last 4 bytes replaced by a little-endian u32
//!   nonce), read as four little-endian u64 (blake2b is trusted base, reached through `HashWriter`);
//! * siphash-2-4 on a 4-word key state, rotation parameter 21 (cuckatoo, cuckaroo, cuckaroom, cuckarooz)
//!   or 25 (cuckarood) in the third rotation of the SipRound (constants checked against
//!   core/src/pow/{cuckaroo,cuckarood,cuckaroom,cuckarooz}.rs and siphash.rs);
//! * siphash block: 64 consecutive nonces hashed with ONE running state; the value of position p is
//!   h[p] ^ h[63] (p < 63; h[63] alone for p = 63) for cuckaroo/cuckarood, and h[p] ^ h[p+1] ^ .. ^ h[63]
//!   for cuckaroom/cuckarooz;
//! * graphs (N = 2^edge_bits edges):
//!     cuckatoo : bipartite, u = siphash(2i) & (N-1) on side U, v = siphash(2i+1) & (N-1) on side V; two edges are
//!                adjacent at a side iff their endpoints there differ in the lowest bit only (node pairs);
//!     cuckaroo : bipartite undirected, e = sipblock(i): u = e & (N-1), v = (e >> 32) & (N-1);
//!     cuckarood: bipartite DIRECTED, node mask N/2-1; even i goes U->V, odd i goes V->U;
//!     cuckaroom: monopartite DIRECTED u -> v, node mask N-1;
//!     cuckarooz: monopartite undirected, node mask 2N-1.
//! * decider: a proof is valid iff |nonces| = proof size, all nonces < N, strictly ascending, and the 2L
//!   half-edges are perfectly matched by the variant's junction rule (every half-edge has exactly one
//!   partner: same node [undirected], node^1 [cuckatoo], same node with opposite role tail/head
//!   [directed]) and the edges joined that way form ONE component (union-find). A perfectly matched,
//!   connected set of L edges is exactly one simple L-cycle obeying the direction constraints.
//!
//! Also: a hang monitor (a verify call that does not return is a refutation: no verdict is produced),
//! panic monitor, difficulty formula over independently packed nonces, Proof serialisation round trip and
//! padding refusal, variant selection by chain type / height / edge bits.

use grin_core::core::hash::HashWriter;
use grin_core::core::BlockHeader;
use grin_core::global::{self, ChainTypes};
use grin_core::pow::{self, Difficulty, PoWContext, Proof, ProofOfWork};
use grin_core::ser::{self, DeserializationMode, ProtocolVersion, Writer};
use serde_json::{json, Value};
use std::collections::{BTreeMap, HashMap, HashSet, VecDeque};
use std::sync::atomic::{AtomicBool, AtomicU64, AtomicUsize, Ordering};
use std::sync::{Arc, Mutex};
use std::time::{Duration, Instant};
use vcommon::ctx::{Run, Tier};
use vcommon::monitor;
use vcommon::prng::{fnv64, Prng};

// =====================================================================================================
// Reference model
// =====================================================================================================

#[derive(Clone, Copy, PartialEq, Eq, Debug, Hash, PartialOrd, Ord)]
enum Variant {
	Cuckatoo,
	Cuckaroo,
	Cuckarood,
	Cuckaroom,
	Cuckarooz,
}

const VARIANTS: [Variant; 5] = [
	Variant::Cuckatoo,
	Variant::Cuckaroo,
	Variant::Cuckarood,
	Variant::Cuckaroom,
	Variant::Cuckarooz,
];

impl Variant {
	fn name(self) -> &'static str {
		match self {
			Variant::Cuckatoo => "cuckatoo",
			Variant::Cuckaroo => "cuckaroo",
			Variant::Cuckarood => "cuckarood",
			Variant::Cuckaroom => "cuckaroom",
			Variant::Cuckarooz => "cuckarooz",
		}
	}
	fn from_name(s: &str) -> Option<Variant> {
		VARIANTS.iter().copied().find(|v| v.name() == s)
	}
	fn idx(self) -> usize {
		self as usize
	}
	/// third rotation constant of the SipRound
	fn rot(self) -> u32 {
		match self {
			Variant::Cuckarood => 25,
			_ => 21,
		}
	}
	fn node_bits(self, edge_bits: u32) -> u32 {
		match self {
			Variant::Cuckarood => edge_bits - 1,
			Variant::Cuckarooz => edge_bits + 1,
			_ => edge_bits,
		}
	}
	fn directed(self) -> bool {
		matches!(self, Variant::Cuckarood | Variant::Cuckaroom)
	}
}

fn blake2b_256(data: &[u8]) -> [u8; 32] {
	let mut w = HashWriter::default();
	w.write_fixed_bytes(data).unwrap();
	let mut out = [0u8; 32];
	w.finalize(&mut out);
	out
}

/// Siphash keys of a header: blake2b-256 over the header, whose last four bytes are replaced by the
/// little-endian nonce when one is given.
fn ref_keys(header: &[u8], nonce: Option<u32>) -> [u64; 4] {
	let mut h = header.to_vec();
	if let Some(n) = nonce {
		let l = h.len();
		h[l - 4..].copy_from_slice(&n.to_le_bytes());
	}
	let d = blake2b_256(&h);
	let mut k = [0u64; 4];
	for i in 0..4 {
		let mut b = [0u8; 8];
		b.copy_from_slice(&d[8 * i..8 * i + 8]);
		k[i] = u64::from_le_bytes(b);
	}
	k
}

#[derive(Clone, Copy)]
struct Sip {
	v0: u64,
	v1: u64,
	v2: u64,
	v3: u64,
}

impl Sip {
	fn new(k: &[u64; 4]) -> Sip {
		Sip {
			v0: k[0],
			v1: k[1],
			v2: k[2],
			v3: k[3],
		}
	}
	/// SipRound as in the SipHash paper, the rotation by 21 being the parameter.
	#[inline]
	fn round(&mut self, rot: u32) {
		self.v0 = self.v0.wrapping_add(self.v1);
		self.v1 = self.v1.rotate_left(13);
		self.v1 ^= self.v0;
		self.v0 = self.v0.rotate_left(32);
		self.v2 = self.v2.wrapping_add(self.v3);
		self.v3 = self.v3.rotate_left(16);
		self.v3 ^= self.v2;
		self.v0 = self.v0.wrapping_add(self.v3);
		self.v3 = self.v3.rotate_left(rot);
		self.v3 ^= self.v0;
		self.v2 = self.v2.wrapping_add(self.v1);
		self.v1 = self.v1.rotate_left(17);
		self.v1 ^= self.v2;
		self.v2 = self.v2.rotate_left(32);
	}
	/// absorb one 64-bit word: 2 compression rounds, 4 finalisation rounds
	#[inline]
	fn absorb(&mut self, m: u64, rot: u32) {
		self.v3 ^= m;
		self.round(rot);
		self.round(rot);
		self.v0 ^= m;
		self.v2 ^= 0xff;
		for _ in 0..4 {
			self.round(rot);
		}
	}
	#[inline]
	fn out(&self) -> u64 {
		self.v0 ^ self.v1 ^ self.v2 ^ self.v3
	}
}

fn ref_siphash24(k: &[u64; 4], m: u64, rot: u32) -> u64 {
	let mut s = Sip::new(k);
	s.absorb(m, rot);
	s.out()
}

/// The 64 edge values of the siphash block starting at `start` (multiple of 64).
fn ref_sipblock(k: &[u64; 4], start: u64, rot: u32, xor_all_later: bool) -> [u64; 64] {
	let mut h = [0u64; 64];
	let mut s = Sip::new(k);
	for i in 0..64u64 {
		s.absorb(start + i, rot);
		h[i as usize] = s.out();
	}
	let mut e = [0u64; 64];
	e[63] = h[63];
	if xor_all_later {
		let mut acc = h[63];
		for p in (0..63).rev() {
			acc ^= h[p];
			e[p] = acc;
		}
	} else {
		for p in 0..63 {
			e[p] = h[p] ^ h[63];
		}
	}
	e
}

const SIDE_BIT: u64 = 1 << 40;
const ROLE_BIT: u64 = 1 << 41;

/// One end of an edge: `own` is where it attaches, `join` is the `own` value a half-edge must have to be
/// its successor/predecessor in a cycle, `und` is the underlying undirected node (shape labels only).
#[derive(Clone, Copy, Debug)]
struct Half {
	own: u64,
	join: u64,
	und: u64,
}

struct RefGraph {
	variant: Variant,
	edge_bits: u32,
	keys: [u64; 4],
	num_edges: u64,
	node_mask: u64,
	table: Option<Vec<(u32, u32)>>,
}

#[derive(Clone, Copy, PartialEq, Eq, Hash, Debug, PartialOrd, Ord)]
enum Shape {
	Cycle,
	WrongCount,
	OutOfRange,
	Duplicate,
	Unsorted,
	DisjointCycles,
	BadJoinCycle,
	BadJoinDisjoint,
	OpenPath,
	FigureEight,
	Theta,
	Other,
}

impl Shape {
	fn name(self) -> &'static str {
		match self {
			Shape::Cycle => "cycle",
			Shape::WrongCount => "wrong_count",
			Shape::OutOfRange => "out_of_range",
			Shape::Duplicate => "duplicate",
			Shape::Unsorted => "unsorted",
			Shape::DisjointCycles => "disjoint_cycles",
			Shape::BadJoinCycle => "und_cycle_bad_direction_or_port",
			Shape::BadJoinDisjoint => "und_disjoint_cycles_bad_direction_or_port",
			Shape::OpenPath => "open_path",
			Shape::FigureEight => "figure_eight",
			Shape::Theta => "theta",
			Shape::Other => "other",
		}
	}
}

#[derive(Clone, Copy, Debug)]
struct Analysis {
	valid: bool,
	shape: Shape,
	/// nodes of degree 1 / of degree >= 3 / components (underlying undirected graph), capped
	d1: u8,
	dh: u8,
	comps: u8,
}

fn uf_find(p: &mut [usize], mut x: usize) -> usize {
	while p[x] != x {
		p[x] = p[p[x]];
		x = p[x];
	}
	x
}

impl RefGraph {
	fn new(variant: Variant, edge_bits: u32, keys: [u64; 4], with_table: bool) -> RefGraph {
		RefGraph::new_ext(variant, edge_bits, keys, with_table, 0)
	}

	/// `ext` > 0 builds the graph over edge indices 0 .. 2^(edge_bits+ext) with the node mask of `edge_bits`:
	/// not a graph of the family, only a generator of out-of-range proofs that would be cycles if the edge
	/// range were not enforced.
	fn new_ext(variant: Variant, edge_bits: u32, keys: [u64; 4], with_table: bool, ext: u32) -> RefGraph {
		let num_edges = 1u64 << (edge_bits + ext);
		let node_mask = (1u64 << variant.node_bits(edge_bits)) - 1;
		let mut g = RefGraph {
			variant,
			edge_bits,
			keys,
			num_edges,
			node_mask,
			table: None,
		};
		if with_table && edge_bits + ext <= 20 {
			let mut t = Vec::with_capacity(num_edges as usize);
			if variant == Variant::Cuckatoo {
				for i in 0..num_edges {
					let (u, v) = g.compute_endpoints(i);
					t.push((u as u32, v as u32));
				}
			} else {
				let xor_all = matches!(variant, Variant::Cuckaroom | Variant::Cuckarooz);
				let mut start = 0;
				while start < num_edges {
					// graphs smaller than one block still hash the whole block
					let e = ref_sipblock(&keys, start, variant.rot(), xor_all);
					for p in 0..64u64 {
						if start + p < num_edges {
							let x = e[p as usize];
							t.push(((x & node_mask) as u32, ((x >> 32) & node_mask) as u32));
						}
					}
					start += 64;
				}
			}
			g.table = Some(t);
		}
		g
	}

	fn compute_endpoints(&self, i: u64) -> (u64, u64) {
		match self.variant {
			Variant::Cuckatoo => (
				ref_siphash24(&self.keys, 2 * i, 21) & self.node_mask,
				ref_siphash24(&self.keys, 2 * i + 1, 21) & self.node_mask,
			),
			v => {
				let xor_all = matches!(v, Variant::Cuckaroom | Variant::Cuckarooz);
				let e = ref_sipblock(&self.keys, i & !63, v.rot(), xor_all)[(i & 63) as usize];
				(e & self.node_mask, (e >> 32) & self.node_mask)
			}
		}
	}

	#[inline]
	fn endpoints(&self, i: u64) -> (u64, u64) {
		if let Some(t) = &self.table {
			let (u, v) = t[i as usize];
			(u as u64, v as u64)
		} else {
			self.compute_endpoints(i)
		}
	}

	/// Half-edge `end` (0 = u end, 1 = v end) of edge `i`.
	#[inline]
	fn half(&self, i: u64, end: u64) -> Half {
		let (u, v) = self.endpoints(i);
		let node = if end == 0 { u } else { v };
		match self.variant {
			Variant::Cuckaroo => {
				let k = end * SIDE_BIT | node;
				Half {
					own: k,
					join: k,
					und: k,
				}
			}
			Variant::Cuckarooz => Half {
				own: node,
				join: node,
				und: node,
			},
			Variant::Cuckatoo => Half {
				own: end * SIDE_BIT | node,
				join: end * SIDE_BIT | (node ^ 1),
				und: end * SIDE_BIT | (node >> 1),
			},
			Variant::Cuckarood => {
				// even edge: tail at U, head at V; odd edge: tail at V, head at U. role 0 = tail, 1 = head
				let role = end ^ (i & 1);
				let k = end * SIDE_BIT | node;
				Half {
					own: role * ROLE_BIT | k,
					join: (role ^ 1) * ROLE_BIT | k,
					und: k,
				}
			}
			Variant::Cuckaroom => {
				// tail at u, head at v
				let role = end;
				Half {
					own: role * ROLE_BIT | node,
					join: (role ^ 1) * ROLE_BIT | node,
					und: node,
				}
			}
		}
	}

	/// The reference decider plus a shape label for evidence.
	fn analyse(&self, nonces: &[u64], proof_size: usize) -> Analysis {
		let pre = |shape| Analysis {
			valid: false,
			shape,
			d1: 0,
			dh: 0,
			comps: 0,
		};
		if nonces.len() != proof_size {
			return pre(Shape::WrongCount);
		}
		if nonces.iter().any(|n| *n >= self.num_edges) {
			return pre(Shape::OutOfRange);
		}
		if nonces.windows(2).any(|w| w[1] == w[0]) {
			return pre(Shape::Duplicate);
		}
		if nonces.windows(2).any(|w| w[1] < w[0]) {
			return pre(Shape::Unsorted);
		}
		let l = nonces.len();
		let n = 2 * l;
		let mut hs: Vec<Half> = Vec::with_capacity(n);
		for &x in nonces {
			hs.push(self.half(x, 0));
			hs.push(self.half(x, 1));
		}
		// junction matching
		let mut perfect = true;
		let mut parent: Vec<usize> = (0..l).collect();
		for h in 0..n {
			let mut cnt = 0;
			let mut partner = 0;
			for g in 0..n {
				if g != h && hs[g].own == hs[h].join {
					cnt += 1;
					partner = g;
				}
			}
			if cnt != 1 {
				perfect = false;
			} else {
				let a = uf_find(&mut parent, h / 2);
				let b = uf_find(&mut parent, partner / 2);
				parent[a] = b;
			}
		}
		if perfect {
			let mut comps = 0;
			for e in 0..l {
				if uf_find(&mut parent, e) == e {
					comps += 1;
				}
			}
			return Analysis {
				valid: comps == 1,
				shape: if comps == 1 {
					Shape::Cycle
				} else {
					Shape::DisjointCycles
				},
				d1: 0,
				dh: 0,
				comps: comps.min(255) as u8,
			};
		}
		// not a cycle: label by the underlying undirected multigraph
		let mut up: Vec<usize> = (0..l).collect();
		let (mut d1, mut dh, mut maxdeg) = (0usize, 0usize, 0usize);
		for h in 0..n {
			let mut deg = 0;
			let mut first = true;
			for g in 0..n {
				if hs[g].und == hs[h].und {
					deg += 1;
					if g < h {
						first = false;
					}
					let a = uf_find(&mut up, h / 2);
					let b = uf_find(&mut up, g / 2);
					up[a] = b;
				}
			}
			if first {
				if deg == 1 {
					d1 += 1;
				}
				if deg >= 3 {
					dh += 1;
				}
				maxdeg = maxdeg.max(deg);
			}
		}
		let mut comps = 0;
		for e in 0..l {
			if uf_find(&mut up, e) == e {
				comps += 1;
			}
		}
		let shape = if d1 == 0 && dh == 0 {
			if comps == 1 {
				Shape::BadJoinCycle
			} else {
				Shape::BadJoinDisjoint
			}
		} else if d1 == 2 && dh == 0 && comps == 1 {
			Shape::OpenPath
		} else if d1 == 0 && dh == 1 && maxdeg == 4 && comps == 1 {
			Shape::FigureEight
		} else if d1 == 0 && dh == 2 && maxdeg == 3 && comps == 1 {
			Shape::Theta
		} else {
			Shape::Other
		};
		Analysis {
			valid: false,
			shape,
			d1: d1.min(9) as u8,
			dh: dh.min(9) as u8,
			comps: comps.min(9) as u8,
		}
	}
}

// ----------------------------------------------------------------------------------------------------
// Reference solver: enumerates simple cycles of the reference graph (DFS over the junction relation).
// ----------------------------------------------------------------------------------------------------

#[derive(Clone, Copy, PartialEq, Eq)]
enum JoinMode {
	/// the variant's junction rule (direction / node-pair port respected)
	Strict,
	/// underlying undirected graph (used to build "cycle with wrong direction/port" near misses)
	Loose,
}

struct Adjacency {
	/// (own key, half-edge id = 2*edge+end), sorted
	by_key: Vec<(u64, u32)>,
	/// per half-edge id: attachment key, key a partner must have, underlying undirected node
	own: Vec<u64>,
	join: Vec<u64>,
	und: Vec<u64>,
}

impl Adjacency {
	fn build(g: &RefGraph, mode: JoinMode) -> Adjacency {
		let n = 2 * g.num_edges as usize;
		let mut by_key = Vec::with_capacity(n);
		let (mut own, mut join, mut und) = (Vec::with_capacity(n), Vec::with_capacity(n), Vec::with_capacity(n));
		for i in 0..g.num_edges {
			for end in 0..2u64 {
				let h = g.half(i, end);
				let (o, j) = if mode == JoinMode::Strict { (h.own, h.join) } else { (h.und, h.und) };
				by_key.push((o, (2 * i + end) as u32));
				own.push(o);
				join.push(j);
				und.push(h.und);
			}
		}
		by_key.sort_unstable();
		Adjacency { by_key, own, join, und }
	}
	fn with_key(&self, key: u64) -> &[(u64, u32)] {
		let lo = self.by_key.partition_point(|x| x.0 < key);
		let mut hi = lo;
		while hi < self.by_key.len() && self.by_key[hi].0 == key {
			hi += 1;
		}
		&self.by_key[lo..hi]
	}

	/// Edges that can lie on a cycle: repeatedly drop every edge one of whose ends has no partner among
	/// the remaining edges (the 2-core of the junction relation).
	fn two_core(&self) -> Vec<bool> {
		let ne = self.own.len() / 2;
		let mut alive = vec![true; ne];
		let mut cnt: HashMap<u64, u32> = HashMap::with_capacity(self.own.len());
		for k in &self.own {
			*cnt.entry(*k).or_insert(0) += 1;
		}
		let partners = |cnt: &HashMap<u64, u32>, h: usize| -> u32 {
			let c = *cnt.get(&self.join[h]).unwrap_or(&0);
			if self.own[h] == self.join[h] {
				c - 1
			} else {
				c
			}
		};
		let mut work: Vec<u32> = (0..ne as u32).collect();
		while let Some(e) = work.pop() {
			let e = e as usize;
			if !alive[e] {
				continue;
			}
			if partners(&cnt, 2 * e) > 0 && partners(&cnt, 2 * e + 1) > 0 {
				continue;
			}
			alive[e] = false;
			for h in [2 * e, 2 * e + 1] {
				*cnt.get_mut(&self.own[h]).unwrap() -= 1;
			}
			for h in [2 * e, 2 * e + 1] {
				for (_, g) in self.with_key(self.join[h]) {
					let e2 = (*g >> 1) as usize;
					if alive[e2] {
						work.push(e2 as u32);
					}
				}
			}
		}
		alive
	}
}

struct CycleSearch<'a> {
	adj: &'a Adjacency,
	alive: Option<&'a [bool]>,
	min_len: usize,
	max_len: usize,
	steps: u64,
	step_cap: u64,
	out_cap: usize,
	/// cycles as edge lists in traversal order
	out: Vec<Vec<u64>>,
	truncated: bool,
	// per-start state
	start: u64,
	start_node: u64,
	path: Vec<u64>,
	nodes: Vec<u64>,
	/// record open simple paths of exactly max_len edges instead of cycles
	want_paths: bool,
}

impl<'a> CycleSearch<'a> {
	fn dfs(&mut self, cur: u32) {
		if self.truncated {
			return;
		}
		self.steps += 1;
		if self.steps > self.step_cap {
			self.truncated = true;
			return;
		}
		let key = self.adj.join[cur as usize];
		let cands: Vec<u32> = self.adj.with_key(key).iter().map(|x| x.1).collect();
		for gh in cands {
			if gh == cur {
				continue;
			}
			let e = (gh >> 1) as u64;
			if (!self.want_paths && e <= self.start) || self.path.contains(&e) {
				continue;
			}
			if let Some(al) = self.alive {
				if !al[e as usize] {
					continue;
				}
			}
			let next = gh ^ 1;
			let nnode = self.adj.und[next as usize];
			if nnode == self.start_node {
				let s0 = (2 * self.start) as usize;
				if !self.want_paths
					&& self.adj.own[s0] == self.adj.join[next as usize]
					&& self.path.len() + 1 >= self.min_len
					&& self.path.len() + 1 <= self.max_len
				{
					let mut c = self.path.clone();
					c.push(e);
					self.out.push(c);
					if self.out.len() >= self.out_cap {
						self.truncated = true;
						return;
					}
				}
				continue;
			}
			if self.nodes.contains(&nnode) {
				continue;
			}
			if self.want_paths && self.path.len() + 1 == self.max_len {
				let mut c = self.path.clone();
				c.push(e);
				self.out.push(c);
				if self.out.len() >= self.out_cap {
					self.truncated = true;
					return;
				}
				continue;
			}
			if self.path.len() + 1 >= self.max_len {
				continue;
			}
			self.path.push(e);
			self.nodes.push(nnode);
			self.dfs(next);
			self.path.pop();
			self.nodes.pop();
			if self.truncated {
				return;
			}
		}
	}
}

/// All simple cycles with min_len <= length <= max_len (each found once, rooted at its smallest edge), or,
/// with `want_paths`, open simple paths of exactly max_len edges.
fn find_cycles(
	g: &RefGraph,
	adj: &Adjacency,
	min_len: usize,
	max_len: usize,
	step_cap: u64,
	out_cap: usize,
	want_paths: bool,
	start_from: u64,
) -> (Vec<Vec<u64>>, bool) {
	let core = if want_paths { None } else { Some(adj.two_core()) };
	let mut s = CycleSearch {
		adj,
		alive: core.as_deref(),
		min_len,
		max_len,
		steps: 0,
		step_cap,
		out_cap,
		out: vec![],
		truncated: false,
		start: 0,
		start_node: 0,
		path: vec![],
		nodes: vec![],
		want_paths,
	};
	for k in 0..g.num_edges {
		let st = (start_from + k) % g.num_edges;
		if s.truncated {
			break;
		}
		if let Some(al) = s.alive {
			if !al[st as usize] {
				continue;
			}
		}
		let h0 = (2 * st) as usize;
		let h1 = h0 + 1;
		s.start = st;
		s.start_node = adj.und[h0];
		let n1 = adj.und[h1];
		if n1 == s.start_node {
			// self loop (monopartite variants)
			if !want_paths && min_len <= 1 && adj.own[h0] == adj.join[h1] {
				s.out.push(vec![st]);
			}
			continue;
		}
		s.path.clear();
		s.nodes.clear();
		s.path.push(st);
		s.nodes.push(n1);
		s.dfs(h1 as u32);
	}
	(s.out, s.truncated)
}

// ----------------------------------------------------------------------------------------------------
// Independent nonce packing / difficulty
// ----------------------------------------------------------------------------------------------------

/// Nonce i occupies bits [i*w, (i+1)*w) of a little-endian bit string padded with zero bits to a whole
/// number of bytes.
fn ref_pack(nonces: &[u64], width: u32) -> Vec<u8> {
	let total = nonces.len() * width as usize;
	let mut out = vec![0u8; (total + 7) / 8];
	for (i, n) in nonces.iter().enumerate() {
		for b in 0..width as usize {
			if (n >> b) & 1 == 1 {
				let pos = i * width as usize + b;
				out[pos / 8] |= 1 << (pos % 8);
			}
		}
	}
	out
}

fn ref_unscaled_hash(nonces: &[u64], width: u32) -> u64 {
	let d = blake2b_256(&ref_pack(nonces, width));
	let mut b = [0u8; 8];
	b.copy_from_slice(&d[..8]);
	u64::from_be_bytes(b)
}

fn ref_difficulty(nonces: &[u64], width: u32, scale: u64) -> u64 {
	let h = ref_unscaled_hash(nonces, width).max(1) as u128;
	let d = ((scale as u128) << 64) / h;
	let d = if d > u64::MAX as u128 { u64::MAX } else { d as u64 };
	d.max(1)
}

// =====================================================================================================
// Engine: job queue, worker threads, hang monitor
// =====================================================================================================

fn chain_name(c: ChainTypes) -> &'static str {
	match c {
		ChainTypes::AutomatedTesting => "AutomatedTesting",
		ChainTypes::UserTesting => "UserTesting",
		ChainTypes::Testnet => "Testnet",
		ChainTypes::Mainnet => "Mainnet",
	}
}

fn chain_from_name(s: &str) -> ChainTypes {
	match s {
		"AutomatedTesting" => ChainTypes::AutomatedTesting,
		"UserTesting" => ChainTypes::UserTesting,
		"Testnet" => ChainTypes::Testnet,
		_ => ChainTypes::Mainnet,
	}
}

fn hex(b: &[u8]) -> String {
	b.iter().map(|x| format!("{:02x}", x)).collect()
}

fn unhex(s: &str) -> Vec<u8> {
	(0..s.len() / 2)
		.map(|i| u8::from_str_radix(&s[2 * i..2 * i + 2], 16).unwrap_or(0))
		.collect()
}

fn make_ctx(v: Variant, eb: u8, l: usize) -> Result<Box<dyn PoWContext>, pow::Error> {
	match v {
		Variant::Cuckatoo => pow::new_cuckatoo_ctx(eb, l, 10),
		Variant::Cuckaroo => pow::new_cuckaroo_ctx(eb, l),
		Variant::Cuckarood => pow::new_cuckarood_ctx(eb, l),
		Variant::Cuckaroom => pow::new_cuckaroom_ctx(eb, l),
		Variant::Cuckarooz => pow::new_cuckarooz_ctx(eb, l),
	}
}

/// Everything needed to re-run one verify call (violation replay, hang reproduction).
#[derive(Clone, Debug)]
struct CaseInfo {
	variant: Variant,
	edge_bits: u8,
	proof_size: usize,
	chain: ChainTypes,
	header: Vec<u8>,
	hnonce: Option<u32>,
	nonces: Vec<u64>,
	class: String,
}

impl CaseInfo {
	fn to_json(&self) -> Value {
		json!({
			"kind": "verify",
			"variant": self.variant.name(),
			"edge_bits": self.edge_bits,
			"proof_size": self.proof_size,
			"chain": chain_name(self.chain),
			"header_hex": hex(&self.header),
			"header_nonce": self.hnonce,
			"nonces": self.nonces,
			"class": self.class,
		})
	}
	fn from_json(v: &Value) -> Option<CaseInfo> {
		Some(CaseInfo {
			variant: Variant::from_name(v.get("variant")?.as_str()?)?,
			edge_bits: v.get("edge_bits")?.as_u64()? as u8,
			proof_size: v.get("proof_size")?.as_u64()? as usize,
			chain: chain_from_name(v.get("chain")?.as_str()?),
			header: unhex(v.get("header_hex")?.as_str()?),
			hnonce: v.get("header_nonce").and_then(|x| x.as_u64()).map(|x| x as u32),
			nonces: v
				.get("nonces")?
				.as_array()?
				.iter()
				.map(|x| x.as_u64().unwrap_or(0))
				.collect(),
			class: v.get("class").and_then(|x| x.as_str()).unwrap_or("").to_string(),
		})
	}
	/// Run the case in the current thread: Ok(accepted) or panic report.
	fn run_here(&self) -> Result<bool, monitor::PanicReport> {
		global::set_local_chain_type(self.chain);
		let info = self.clone();
		monitor::catch(move || {
			let mut ctx = make_ctx(info.variant, info.edge_bits, info.proof_size).expect("ctx");
			ctx.set_header_nonce(info.header.clone(), info.hnonce, false)
				.expect("set_header_nonce");
			let p = Proof {
				edge_bits: info.edge_bits,
				nonces: info.nonces.clone(),
			};
			ctx.verify(&p).is_ok()
		})
	}
	fn ref_analysis(&self) -> Analysis {
		let g = RefGraph::new(
			self.variant,
			self.edge_bits as u32,
			ref_keys(&self.header, self.hnonce),
			false,
		);
		g.analyse(&self.nonces, self.proof_size)
	}
}

/// Run a case in a fresh thread with a time limit. None = did not return in time (thread is leaked).
fn run_with_timeout(info: &CaseInfo, ms: u64) -> Option<Result<bool, monitor::PanicReport>> {
	let (tx, rx) = std::sync::mpsc::channel();
	let info = info.clone();
	std::thread::spawn(move || {
		let r = info.run_here();
		let _ = tx.send(r);
	});
	rx.recv_timeout(Duration::from_millis(ms)).ok()
}

struct Slot {
	/// ms since engine start (+1) at which the current verify call began; 0 = not inside a call
	busy_since: AtomicU64,
	dead: AtomicBool,
	info: Mutex<CaseInfo>,
}

struct Job {
	variant: Option<Variant>,
	name: String,
	f: Box<dyn FnOnce(&Worker) + Send>,
}

struct Shared {
	run: &'static Run,
	t0: Instant,
	queue: Mutex<VecDeque<Job>>,
	slots: Mutex<Vec<Arc<Slot>>>,
	jobs_open: AtomicUsize,
	suspended: [AtomicBool; 5],
	disabled: [AtomicBool; 5],
	hangs: AtomicU64,
	jobs_skipped: AtomicU64,
	deadline: Instant,
	hang_ms: u64,
	scale: f64,
	tier: Tier,
	samples: Mutex<BTreeMap<String, Value>>,
	done: AtomicBool,
}

impl Shared {
	fn now_ms(&self) -> u64 {
		self.t0.elapsed().as_millis() as u64 + 1
	}
	fn push(self: &Arc<Self>, variant: Option<Variant>, name: String, f: Box<dyn FnOnce(&Worker) + Send>) {
		self.jobs_open.fetch_add(1, Ordering::SeqCst);
		self.queue.lock().unwrap().push_back(Job { variant, name, f });
	}
	fn out_of_time(&self) -> bool {
		Instant::now() >= self.deadline
	}
	/// scaled count: quick q, thorough t, sanitizer runs a tenth of quick
	fn n(&self, q: u64, t: u64) -> u64 {
		let base = self.tier.pick(q, t) as f64;
		((base * self.scale).ceil() as u64).max(1)
	}
	fn sample(&self, kind: &str, v: Value) {
		let mut s = self.samples.lock().unwrap();
		s.entry(kind.to_string()).or_insert(v);
	}
}

struct Worker {
	shared: Arc<Shared>,
	slot: Arc<Slot>,
}

enum Outcome {
	Accept,
	Reject,
	Panic(monitor::PanicReport),
}

impl Outcome {
	fn name(&self) -> String {
		match self {
			Outcome::Accept => "accept".into(),
			Outcome::Reject => "reject".into(),
			Outcome::Panic(p) => format!("panic@{}", p.location),
		}
	}
}

impl Worker {
	fn run(&self) -> &'static Run {
		self.shared.run
	}

	/// Describe the verification context of the cases that follow (also sets the thread's chain type).
	fn set_case_ctx(&self, variant: Variant, eb: u8, l: usize, chain: ChainTypes, header: &[u8], hnonce: Option<u32>) {
		global::set_local_chain_type(chain);
		let mut i = self.slot.info.lock().unwrap();
		i.variant = variant;
		i.edge_bits = eb;
		i.proof_size = l;
		i.chain = chain;
		i.header = header.to_vec();
		i.hnonce = hnonce;
	}

	/// One monitored `verify` call.
	fn verify(&self, ctx: &dyn PoWContext, proof: &Proof, class: &str) -> Outcome {
		self.guarded(&proof.nonces, class, || ctx.verify(proof).is_ok())
	}

	/// Monitored call (hang + panic monitor). The slot's case info must describe an equivalent direct
	/// verify call so that a hang can be reproduced.
	fn guarded(&self, nonces: &[u64], class: &str, f: impl FnOnce() -> bool) -> Outcome {
		{
			let mut i = self.slot.info.lock().unwrap();
			i.nonces.clear();
			i.nonces.extend_from_slice(nonces);
			if i.class != class {
				i.class = class.to_string();
			}
		}
		self.slot.busy_since.store(self.shared.now_ms(), Ordering::SeqCst);
		let r = monitor::catch(f);
		self.slot.busy_since.store(0, Ordering::SeqCst);
		if self.slot.dead.load(Ordering::SeqCst) {
			// declared hung by the monitor but came back: this thread has been replaced, retire it
			loop {
				std::thread::sleep(Duration::from_secs(3600));
			}
		}
		match r {
			Ok(true) => Outcome::Accept,
			Ok(false) => Outcome::Reject,
			Err(p) => Outcome::Panic(p),
		}
	}

	fn case_info(&self) -> CaseInfo {
		self.slot.info.lock().unwrap().clone()
	}
}

fn thread_cpu_s() -> f64 {
	let mut ts = libc::timespec { tv_sec: 0, tv_nsec: 0 };
	unsafe {
		libc::clock_gettime(libc::CLOCK_THREAD_CPUTIME_ID, &mut ts);
	}
	ts.tv_sec as f64 + ts.tv_nsec as f64 * 1e-9
}

fn spawn_worker(shared: &Arc<Shared>) {
	let slot = Arc::new(Slot {
		busy_since: AtomicU64::new(0),
		dead: AtomicBool::new(false),
		info: Mutex::new(CaseInfo {
			variant: Variant::Cuckatoo,
			edge_bits: 0,
			proof_size: 0,
			chain: ChainTypes::AutomatedTesting,
			header: vec![],
			hnonce: None,
			nonces: vec![],
			class: String::new(),
		}),
	});
	shared.slots.lock().unwrap().push(slot.clone());
	let w = Worker {
		shared: shared.clone(),
		slot,
	};
	std::thread::Builder::new()
		.stack_size(16 << 20)
		.spawn(move || loop {
			if w.shared.done.load(Ordering::SeqCst) {
				return;
			}
			let job = {
				let mut q = w.shared.queue.lock().unwrap();
				let mut found = None;
				for _ in 0..q.len() {
					let j = q.pop_front().unwrap();
					let susp = j
						.variant
						.map(|v| w.shared.suspended[v.idx()].load(Ordering::SeqCst))
						.unwrap_or(false);
					if susp {
						q.push_back(j);
					} else {
						found = Some(j);
						break;
					}
				}
				found
			};
			let job = match job {
				Some(j) => j,
				None => {
					std::thread::sleep(Duration::from_millis(10));
					continue;
				}
			};
			let skip = job
				.variant
				.map(|v| w.shared.disabled[v.idx()].load(Ordering::SeqCst))
				.unwrap_or(false)
				|| w.shared.out_of_time();
			if skip {
				w.shared.jobs_skipped.fetch_add(1, Ordering::SeqCst);
				w.run().count("engine.jobs_skipped(deadline_or_confirmed_hang)", 1);
			} else {
				let name = job.name.clone();
				let f = job.f;
				let tj = Instant::now();
				let c0 = thread_cpu_s();
				let r = monitor::catch(|| f(&w));
				if std::env::var("C05_TRACE").is_ok() {
					eprintln!(
						"job {:>7.2}s cpu {:>7.2}s at {:>6.1}s  {}",
						tj.elapsed().as_secs_f64(),
						thread_cpu_s() - c0,
						w.shared.t0.elapsed().as_secs_f64(),
						name
					);
				}
				if let Err(p) = r {
					w.run().inconclusive(&format!(
						"harness panic in job {}: {} @ {}",
						name, p.message, p.location
					));
				}
				w.run().count("engine.jobs_done", 1);
			}
			w.shared.jobs_open.fetch_sub(1, Ordering::SeqCst);
		})
		.expect("spawn worker");
}

fn report_hang(shared: &Arc<Shared>, info: &CaseInfo, reproduced: bool) {
	let a = info.ref_analysis();
	if reproduced {
		shared.run.violation(
			&format!("variant={};event=hang@PoWContext::verify", info.variant.name()),
			&format!(
				"{}: verify() does not return (> {} ms, reproduced in a fresh thread with a fresh context) for a {}-nonce proof that the reference labels '{}' (valid={}); no verdict is ever produced",
				info.variant.name(),
				shared.hang_ms,
				info.nonces.len(),
				a.shape.name(),
				a.valid
			),
			info.to_json(),
		);
	} else {
		shared.run.inconclusive(&format!(
			"{}: a verify call stalled > {} ms but the stall was not reproduced",
			info.variant.name(),
			shared.hang_ms
		));
	}
}

fn spawn_monitor(shared: &Arc<Shared>) {
	let sh = shared.clone();
	std::thread::spawn(move || loop {
		if sh.done.load(Ordering::SeqCst) {
			return;
		}
		std::thread::sleep(Duration::from_millis(50));
		let slots: Vec<Arc<Slot>> = sh.slots.lock().unwrap().clone();
		let now = sh.now_ms();
		for s in slots {
			if s.dead.load(Ordering::SeqCst) {
				continue;
			}
			let b = s.busy_since.load(Ordering::SeqCst);
			if b != 0 && now.saturating_sub(b) > sh.hang_ms {
				let info = s.info.lock().unwrap().clone();
				// re-check: still the same call?
				if s.busy_since.load(Ordering::SeqCst) != b {
					continue;
				}
				s.dead.store(true, Ordering::SeqCst);
				let vi = info.variant.idx();
				sh.suspended[vi].store(true, Ordering::SeqCst);
				sh.hangs.fetch_add(1, Ordering::SeqCst);
				sh.run.count(&format!("{}.verify_calls_hung", info.variant.name()), 1);
				if !sh.disabled[vi].load(Ordering::SeqCst) {
					let reproduced = run_with_timeout(&info, sh.hang_ms * 2).is_none();
					report_hang(&sh, &info, reproduced);
					if reproduced {
						sh.disabled[vi].store(true, Ordering::SeqCst);
					}
				}
				sh.suspended[vi].store(false, Ordering::SeqCst);
				// the job held by the hung thread is abandoned; replace the thread
				sh.run.count("engine.jobs_abandoned_after_hang", 1);
				sh.jobs_open.fetch_sub(1, Ordering::SeqCst);
				spawn_worker(&sh);
			}
		}
	});
}

// ----------------------------------------------------------------------------------------------------
// Per-job statistics (flushed once per job: the Run mutex is not touched per case)
// ----------------------------------------------------------------------------------------------------

#[derive(Default)]
struct Stats {
	evals: u64,
	sigs: HashSet<u64>,
	counters: BTreeMap<String, u64>,
}

impl Stats {
	fn bump(&mut self, name: &str, n: u64) {
		if let Some(c) = self.counters.get_mut(name) {
			*c += n;
		} else {
			self.counters.insert(name.to_string(), n);
		}
	}
	fn case(&mut self, sig: &str) {
		self.evals += 1;
		self.sigs.insert(fnv64(sig.as_bytes()));
	}
	fn flush(&mut self, run: &Run) {
		run.eval_bulk(self.evals, self.sigs.drain());
		for (k, v) in std::mem::take(&mut self.counters) {
			run.count(&k, v);
		}
		self.evals = 0;
	}
}

/// The differential oracle for one case. `wl` = workload tag, `class` = construction class.
fn check_case(
	w: &Worker,
	g: &RefGraph,
	ctx: &dyn PoWContext,
	l: usize,
	wl: &str,
	class: &str,
	nonces: &[u64],
	st: &mut Stats,
) -> (Analysis, bool) {
	let a = g.analyse(nonces, l);
	let proof = Proof {
		edge_bits: g.edge_bits as u8,
		nonces: nonces.to_vec(),
	};
	let out = w.verify(ctx, &proof, class);
	let v = g.variant.name();
	let agreed = match &out {
		Outcome::Accept => a.valid,
		Outcome::Reject => !a.valid,
		Outcome::Panic(_) => false,
	};
	if !agreed {
		let dir = match &out {
			Outcome::Accept => "impl_accepts_ref_rejects".to_string(),
			Outcome::Reject => "impl_rejects_ref_accepts".to_string(),
			Outcome::Panic(p) => format!("panic@{}", p.location),
		};
		let mut info = w.case_info();
		info.class = class.to_string();
		// a panic is one defect whatever the proof shape: keep its signature free of the shape
		let sig = if matches!(out, Outcome::Panic(_)) {
			format!("variant={};event={}", v, dir)
		} else {
			format!("variant={};proof={};event={}", v, a.shape.name(), dir)
		};
		w.run().violation(
			&sig,
			&format!(
				"{} eb={} L={}: reference says valid={} (shape {}), verify() -> {} [{} / {}]",
				v,
				g.edge_bits,
				l,
				a.valid,
				a.shape.name(),
				out.name(),
				wl,
				class
			),
			info.to_json(),
		);
		st.bump(&format!("{}.DISAGREE", v), 1);
	}
	st.case(&format!(
		"{};{};eb{};L{};{};{};{}{}{};{}",
		wl,
		v,
		g.edge_bits,
		l,
		class,
		a.shape.name(),
		a.d1,
		a.dh,
		a.comps,
		out.name()
	));
	if a.valid {
		st.bump(&format!("{}.valid_accepted", v), matches!(out, Outcome::Accept) as u64);
	} else {
		st.bump(&format!("{}.invalid_rejected", v), matches!(out, Outcome::Reject) as u64);
		st.bump(
			&format!("shape.{}.rejected", a.shape.name()),
			matches!(out, Outcome::Reject) as u64,
		);
	}
	st.bump(
		&format!("class.{}.{}", class, if a.valid { "valid" } else { "invalid" }),
		1,
	);
	(a, matches!(out, Outcome::Accept))
}

// =====================================================================================================
// Workload A: exhaustive over all ascending tuples of tiny graphs (proof size 8)
// =====================================================================================================

const SHAPES: [Shape; 12] = [
	Shape::Cycle,
	Shape::WrongCount,
	Shape::OutOfRange,
	Shape::Duplicate,
	Shape::Unsorted,
	Shape::DisjointCycles,
	Shape::BadJoinCycle,
	Shape::BadJoinDisjoint,
	Shape::OpenPath,
	Shape::FigureEight,
	Shape::Theta,
	Shape::Other,
];

fn seed_header(seed: u64, tag: u64, i: u64) -> Vec<u8> {
	let mut p = Prng::new(seed ^ tag.wrapping_mul(0x9E37_79B9_7F4A_7C15) ^ i.wrapping_mul(0xC2B2_AE3D_27D4_EB4F));
	p.bytes(80)
}

/// Calls f for every ascending k-tuple over 0..n that starts with `prefix`.
fn for_each_combo(n: u64, k: usize, prefix: &[u64], mut f: impl FnMut(&[u64]) -> bool) {
	let p = prefix.len();
	let mut c = vec![0u64; k];
	c[..p].copy_from_slice(prefix);
	for i in p..k {
		c[i] = if i == 0 { 0 } else { c[i - 1] + 1 };
	}
	if c[k - 1] >= n {
		return;
	}
	loop {
		if !f(&c) {
			return;
		}
		let mut i = k;
		loop {
			if i == p {
				return;
			}
			i -= 1;
			if c[i] < n - (k - i) as u64 {
				c[i] += 1;
				for j in i + 1..k {
					c[j] = c[j - 1] + 1;
				}
				break;
			}
		}
	}
}

/// Calls f for every non-decreasing k-tuple over 0..n that has at least one repeated value.
fn for_each_multiset_with_repeat(n: u64, k: usize, mut f: impl FnMut(&[u64]) -> bool) {
	let mut c = vec![0u64; k];
	loop {
		if c.windows(2).any(|w| w[0] == w[1]) && !f(&c) {
			return;
		}
		let mut i = k;
		loop {
			if i == 0 {
				return;
			}
			i -= 1;
			if c[i] < n - 1 {
				c[i] += 1;
				for j in i + 1..k {
					c[j] = c[i];
				}
				break;
			}
		}
	}
}

struct ExhSpec {
	/// enumerate the non-decreasing tuples with repeats instead of the strictly ascending ones
	multisets: bool,
	variant: Variant,
	eb: u8,
	header: Vec<u8>,
	prefix: Vec<u64>,
	/// None = every tuple with the prefix; Some((n, seed)) = n random ascending tuples
	sample: Option<(u64, u64)>,
	/// number of L-cycles the reference solver found for this header (only checked for whole-seed jobs)
	solver_cycles: Option<usize>,
	with_mutations: bool,
}

fn exhaustive_job(w: &Worker, spec: ExhSpec) {
	let l = 8usize;
	let v = spec.variant;
	let chain = ChainTypes::AutomatedTesting;
	w.set_case_ctx(v, spec.eb, l, chain, &spec.header, None);
	let g = RefGraph::new(v, spec.eb as u32, ref_keys(&spec.header, None), true);
	let mut ctx = match make_ctx(v, spec.eb, l) {
		Ok(c) => c,
		Err(e) => {
			w.run()
				.inconclusive(&format!("constructor refused {} eb={}: {:?}", v.name(), spec.eb, e));
			return;
		}
	};
	ctx.set_header_nonce(spec.header.clone(), None, false).expect("set_header_nonce");
	let wl = if spec.multisets {
		"exh_multisets"
	} else if spec.sample.is_some() {
		"exh_sampled"
	} else {
		"exhaustive"
	};
	let class = if spec.multisets {
		"nondecreasing_tuple_with_repeats"
	} else if spec.sample.is_some() {
		"random_ascending_tuple"
	} else {
		"ascending_tuple"
	};
	let mut counts = [[0u64; 3]; 12];
	let mut detail: HashSet<u64> = HashSet::new();
	let mut proof = Proof {
		edge_bits: spec.eb,
		nonces: vec![0; l],
	};
	let mut cycles: Vec<Vec<u64>> = vec![];
	let mut some_rejected: Vec<Vec<u64>> = vec![];
	let mut st = Stats::default();
	let mut n_done = 0u64;
	let mut truncated = false;
	let mut one = |c: &[u64], st: &mut Stats, cycles: &mut Vec<Vec<u64>>, some_rejected: &mut Vec<Vec<u64>>| {
		let a = g.analyse(c, l);
		proof.nonces.copy_from_slice(c);
		let out = w.verify(&*ctx, &proof, class);
		let oi = match &out {
			Outcome::Accept => 0,
			Outcome::Reject => 1,
			Outcome::Panic(_) => 2,
		};
		let si = SHAPES.iter().position(|s| *s == a.shape).unwrap();
		counts[si][oi] += 1;
		detail.insert(
			(si as u64) << 32 | (a.d1 as u64) << 24 | (a.dh as u64) << 16 | (a.comps as u64) << 8 | oi as u64,
		);
		let agreed = (oi == 0 && a.valid) || (oi == 1 && !a.valid);
		if !agreed {
			let dir = match &out {
				Outcome::Accept => "impl_accepts_ref_rejects".to_string(),
				Outcome::Reject => "impl_rejects_ref_accepts".to_string(),
				Outcome::Panic(p) => format!("panic@{}", p.location),
			};
			let sig = if oi == 2 {
				format!("variant={};event={}", v.name(), dir)
			} else {
				format!("variant={};proof={};event={}", v.name(), a.shape.name(), dir)
			};
			w.run().violation(
				&sig,
				&format!(
					"{} eb={} L={}: reference says valid={} (shape {}), verify() -> {} [{}]",
					v.name(),
					spec.eb,
					l,
					a.valid,
					a.shape.name(),
					out.name(),
					wl
				),
				w.case_info().to_json(),
			);
			st.bump(&format!("{}.DISAGREE", v.name()), 1);
		}
		if a.valid {
			cycles.push(c.to_vec());
		} else if some_rejected.len() < 12 && a.shape != Shape::Other {
			some_rejected.push(c.to_vec());
		}
	};
	match spec.sample {
		None if spec.multisets => {
			for_each_multiset_with_repeat(g.num_edges, l, |c| {
				one(c, &mut st, &mut cycles, &mut some_rejected);
				n_done += 1;
				if n_done % 4096 == 0 && w.shared.out_of_time() {
					truncated = true;
					return false;
				}
				true
			});
		}
		None => {
			for_each_combo(g.num_edges, l, &spec.prefix, |c| {
				one(c, &mut st, &mut cycles, &mut some_rejected);
				n_done += 1;
				if n_done % 4096 == 0 && w.shared.out_of_time() {
					truncated = true;
					return false;
				}
				true
			});
		}
		Some((n, seed)) => {
			let mut p = Prng::new(seed);
			let mut all: Vec<u64> = (0..g.num_edges).collect();
			for _ in 0..n {
				// partial Fisher-Yates: l distinct edges, sorted
				for i in 0..l {
					let j = i + p.usize_below(all.len() - i);
					all.swap(i, j);
				}
				let mut c = all[..l].to_vec();
				c.sort_unstable();
				one(&c, &mut st, &mut cycles, &mut some_rejected);
				n_done += 1;
				if n_done % 4096 == 0 && w.shared.out_of_time() {
					truncated = true;
					break;
				}
			}
		}
	}
	drop(one);
	// bookkeeping
	let vn = v.name();
	for (si, s) in SHAPES.iter().enumerate() {
		for oi in 0..3 {
			let c = counts[si][oi];
			if c == 0 {
				continue;
			}
			let on = ["accept", "reject", "panic"][oi];
			if *s == Shape::Cycle {
				st.bump(&format!("{}.valid_accepted", vn), if oi == 0 { c } else { 0 });
				st.bump(&format!("{}.{}.cycles_accepted", wl, vn), if oi == 0 { c } else { 0 });
			} else {
				st.bump(&format!("{}.invalid_rejected", vn), if oi == 1 { c } else { 0 });
				st.bump(&format!("shape.{}.rejected", s.name()), if oi == 1 { c } else { 0 });
			}
			let _ = on;
		}
	}
	st.bump(&format!("{}.{}.eb{}.tuples", wl, vn, spec.eb), n_done);
	st.evals += n_done;
	for d in detail {
		st.sigs
			.insert(fnv64(format!("{};{};eb{};{:x}", wl, vn, spec.eb, d).as_bytes()));
	}
	if truncated {
		st.bump("exhaustive.jobs_truncated_by_deadline", 1);
	}
	if spec.multisets && !truncated {
		st.bump(&format!("exh_multisets.{}.seeds_complete", vn), 1);
	}
	if spec.sample.is_none() && spec.prefix.is_empty() && !truncated && !spec.multisets {
		st.bump(&format!("exhaustive.{}.eb{}.seeds_complete", vn, spec.eb), 1);
		if cycles.is_empty() {
			st.bump(&format!("exhaustive.{}.seeds_without_cycle", vn), 1);
		} else {
			st.bump(&format!("exhaustive.{}.seeds_with_cycle", vn), 1);
		}
		if let Some(sc) = spec.solver_cycles {
			// self-check of the reference: solver and decider must count the same cycles
			if sc != cycles.len() {
				w.run().inconclusive(&format!(
					"reference self-check failed: solver found {} cycles, decider accepts {} tuples ({} eb={} header={})",
					sc,
					cycles.len(),
					vn,
					spec.eb,
					hex(&spec.header)
				));
			} else {
				st.bump("reference.solver_vs_decider_agree", 1);
			}
		}
		if !cycles.is_empty() {
			w.shared.sample(
				&format!("exhaustive_{}", vn),
				json!({"workload": "exhaustive", "variant": vn, "edge_bits": spec.eb, "proof_size": l,
					"header_hex": hex(&spec.header), "tuples": n_done, "accepted_by_both": cycles,
					"endpoints(u,v) per edge": (0..g.num_edges).map(|i| g.endpoints(i)).collect::<Vec<_>>() }),
			);
		}
	}
	// malformed variants of a sample: every cycle and a few rejected tuples
	if spec.with_mutations {
		let mut base: Vec<Vec<u64>> = cycles.iter().take(6).cloned().collect();
		base.extend(some_rejected.iter().take(4).cloned());
		let n = g.num_edges;
		for b in base {
			let mut muts: Vec<(&'static str, Vec<u64>)> = vec![];
			for i in 0..l {
				for j in i + 1..l {
					let mut m = b.clone();
					m.swap(i, j);
					muts.push(("swap_two", m));
				}
			}
			let mut m = b.clone();
			m.reverse();
			muts.push(("reversed", m));
			let mut m = b.clone();
			m.rotate_left(1);
			muts.push(("rotated", m));
			for i in 0..l {
				if i > 0 {
					let mut m = b.clone();
					m[i] = m[i - 1];
					muts.push(("duplicate", m));
				}
				if i + 1 < l {
					let mut m = b.clone();
					m[i] = m[i + 1];
					muts.push(("duplicate", m));
				}
				for add in [n, 2 * n, 1 << 32, 1 << 63, u64::MAX - b[i]] {
					let mut m = b.clone();
					m[i] = m[i].wrapping_add(add);
					muts.push(("out_of_range", m));
				}
				let mut m = b.clone();
				m.remove(i);
				muts.push(("wrong_count", m));
			}
			for extra in [n - 1, n, b[l - 1] + 1, 0] {
				let mut m = b.clone();
				m.push(extra);
				muts.push(("wrong_count", m));
			}
			muts.push(("wrong_count", vec![]));
			muts.push(("wrong_count", vec![b[0]]));
			let mut m = b.clone();
			m.extend_from_slice(&b);
			muts.push(("wrong_count", m));
			for (class, m) in muts {
				check_case(w, &g, &*ctx, l, "exh_malformed", class, &m, &mut st);
			}
		}
	}
	st.flush(w.run());
}

/// Finds header seeds with / without 8-cycles (reference solver) and queues their exhaustive jobs.
fn exhaustive_scan_job(w: &Worker, variant: Variant, eb: u8, want_with: u64, want_without: u64, full_split: bool) {
	let l = 8usize;
	let seed = w.run().seed;
	let mut with = 0u64;
	let mut without = 0u64;
	let mut scanned = 0u64;
	let mut i = 0u64;
	while (with < want_with || without < want_without) && i < 400_000 && !w.shared.out_of_time() {
		let header = seed_header(seed, 0xA000 + variant.idx() as u64 * 64 + eb as u64, i);
		i += 1;
		scanned += 1;
		let g = RefGraph::new(variant, eb as u32, ref_keys(&header, None), true);
		let adj = Adjacency::build(&g, JoinMode::Strict);
		let (cyc, trunc) = find_cycles(&g, &adj, l, l, 2_000_000, 10_000, false, 0);
		if trunc {
			continue;
		}
		let take = if cyc.is_empty() {
			without < want_without
		} else {
			with < want_with
		};
		if !take {
			continue;
		}
		if cyc.is_empty() {
			without += 1;
		} else {
			with += 1;
		}
		let ncyc = cyc.len();
		let n = 1u64 << eb;
		let n_multi = if w.shared.scale < 0.05 { 0 } else { w.shared.n(3, 24) };
		if !full_split && eb == 4 && ncyc > 0 && with <= n_multi {
			let h = header.clone();
			w.shared.clone().push(
				Some(variant),
				format!("multisets {} eb{} seed#{}", variant.name(), eb, i - 1),
				Box::new(move |w| {
					exhaustive_job(
						w,
						ExhSpec {
							multisets: true,
							variant,
							eb,
							header: h,
							prefix: vec![],
							sample: None,
							solver_cycles: None,
							with_mutations: false,
						},
					)
				}),
			);
		}
		if !full_split {
			let sh = w.shared.clone();
			let h = header.clone();
			sh.clone().push(
				Some(variant),
				format!("exhaustive {} eb{} seed#{}", variant.name(), eb, i - 1),
				Box::new(move |w| {
					exhaustive_job(
						w,
						ExhSpec {
							multisets: false,
							variant,
							eb,
							header: h,
							prefix: vec![],
							sample: None,
							solver_cycles: Some(ncyc),
							with_mutations: true,
						},
					)
				}),
			);
		} else {
			// split by the first two elements
			w.run().count(&format!("exhaustive.{}.eb{}.seeds_split", variant.name(), eb), 1);
			w.run().count(
				&format!("exhaustive.{}.eb{}.solver_cycles_in_split_seeds", variant.name(), eb),
				ncyc as u64,
			);
			for a0 in 0..n {
				for a1 in a0 + 1..n {
					if a1 + (l as u64 - 2) >= n {
						continue;
					}
					let h = header.clone();
					w.shared.clone().push(
						Some(variant),
						format!("exhaustive {} eb{} seed#{} prefix {},{}", variant.name(), eb, i - 1, a0, a1),
						Box::new(move |w| {
							exhaustive_job(
								w,
								ExhSpec {
									multisets: false,
									variant,
									eb,
									header: h,
									prefix: vec![a0, a1],
									sample: None,
									solver_cycles: None,
									with_mutations: false,
								},
							)
						}),
					);
				}
			}
		}
	}
	w.run()
		.count(&format!("exhaustive.{}.eb{}.seeds_scanned_by_solver", variant.name(), eb), scanned);
}

// =====================================================================================================
// main
// =====================================================================================================

fn arg_value(args: &[String], name: &str) -> Option<String> {
	args.iter().position(|a| a == name).and_then(|i| args.get(i + 1).cloned())
}

fn main() {
	let run: &'static Run = Box::leak(Box::new(Run::from_env("C05", "exploration")));
	monitor::install_panic_hook();
	let san = arg_value(&run.args, "--san");
	let only = arg_value(&run.args, "--only");
	let dev_variants = arg_value(&run.args, "--dev-variants");
	let on = |name: &str| only.as_deref().map(|o| o.split(',').any(|x| x == name)).unwrap_or(true);
	// sanitizer runs: a tenth of quick (ASan), less for the slower tools
	let scale = match san.as_deref() {
		None => 1.0,
		Some("valgrind") => 0.01,
		Some("tsan") => 0.05,
		Some(_) => 0.1,
	};
	// wall budget; `--budget-s N` overrides it (diagnostics on a loaded machine)
	let budget_s = arg_value(&run.args, "--budget-s")
		.and_then(|x| x.parse::<u64>().ok())
		.unwrap_or(if san.is_some() { 600 } else { run.tier.pick(300, 1800) });
	let shared = Arc::new(Shared {
		run,
		t0: Instant::now(),
		queue: Mutex::new(VecDeque::new()),
		slots: Mutex::new(vec![]),
		jobs_open: AtomicUsize::new(0),
		suspended: Default::default(),
		disabled: Default::default(),
		hangs: AtomicU64::new(0),
		jobs_skipped: AtomicU64::new(0),
		deadline: Instant::now() + Duration::from_secs(budget_s),
		hang_ms: if san.is_some() { 20_000 } else { 3_000 },
		scale,
		tier: run.tier,
		samples: Mutex::new(BTreeMap::new()),
		done: AtomicBool::new(false),
	});

	if let Some(p) = &run.replay {
		replay(&shared, p);
		run.finish();
	}

	if on("solve") {
		queue_solver(&shared);
	}
	if on("exh") {
		queue_exhaustive(&shared);
	}
	if on("select") {
		queue_selection(&shared);
	}
	if on("diff") {
		queue_difficulty(&shared);
	}
	if on("ser") {
		queue_ser(&shared);
	}

	if let Some(dv) = &dev_variants {
		// development aid only (timing of the other variants while one variant hangs); makes the run inconclusive
		run.inconclusive("--dev-variants given: not a full run");
		shared
			.queue
			.lock()
			.unwrap()
			.retain(|j| j.variant.map(|v| dv.split(',').any(|x| x == v.name())).unwrap_or(true));
		shared.jobs_open.store(shared.queue.lock().unwrap().len(), Ordering::SeqCst);
	}
	let threads = 16;
	for _ in 0..threads {
		spawn_worker(&shared);
	}
	spawn_monitor(&shared);
	// wait for completion (jobs may queue further jobs)
	let hard_stop = shared.deadline + Duration::from_secs(20);
	while shared.jobs_open.load(Ordering::SeqCst) > 0 {
		std::thread::sleep(Duration::from_millis(20));
		if Instant::now() > hard_stop {
			run.inconclusive("engine: jobs still running 20 s after the deadline, abandoned");
			break;
		}
	}
	shared.done.store(true, Ordering::SeqCst);

	finish(&shared);
}

fn queue_exhaustive(shared: &Arc<Shared>) {
	// thorough: every ascending 8-tuple of 32-edge graphs (10 518 300 per seed), split by the first two nonces
	if shared.tier == Tier::Thorough && shared.scale >= 1.0 {
		for v in VARIANTS {
			shared.push(
				Some(v),
				format!("scan {} eb5", v.name()),
				Box::new(move |w| exhaustive_scan_job(w, v, 5, 2, 1, true)),
			);
		}
	}
	for v in VARIANTS {
		let (ww, wo) = (shared.n(60, 400), shared.n(60, 400));
		shared.push(
			Some(v),
			format!("scan {} eb4", v.name()),
			Box::new(move |w| exhaustive_scan_job(w, v, 4, ww, wo, false)),
		);
	}
	// random ascending tuples of 32- and 64-edge graphs
	let jobs = shared.n(8, 48);
	let per = shared.n(40_000, 60_000);
	for v in VARIANTS {
		for eb in [5u8, 6] {
			for j in 0..jobs {
				let seed = shared.run.seed;
				shared.push(
					Some(v),
					format!("sampled {} eb{} #{}", v.name(), eb, j),
					Box::new(move |w| {
						exhaustive_job(
							w,
							ExhSpec {
								multisets: false,
								variant: v,
								eb,
								header: seed_header(seed, 0xA500 + v.idx() as u64 * 8 + eb as u64, j),
								prefix: vec![],
								sample: Some((per, seed ^ (j << 8) ^ eb as u64)),
								solver_cycles: None,
								with_mutations: false,
							},
						)
					}),
				);
			}
		}
	}
}

fn replay(shared: &Arc<Shared>, path: &std::path::Path) {
	let run = shared.run;
	let v: Value = match std::fs::read_to_string(path).ok().and_then(|s| serde_json::from_str(&s).ok()) {
		Some(v) => v,
		None => {
			run.inconclusive("cannot read replay file");
			return;
		}
	};
	let case = v.get("case").cloned().unwrap_or(Value::Null);
	let sig = v.get("signature").and_then(|x| x.as_str()).unwrap_or("").to_string();
	if case.get("kind").and_then(|x| x.as_str()) == Some("selection") {
		let g = |k: &str| case.get(k).and_then(|x| x.as_u64()).unwrap_or(0);
		let nonces: Vec<u64> = case
			.get("nonces")
			.and_then(|x| x.as_array())
			.map(|a| a.iter().map(|x| x.as_u64().unwrap_or(0)).collect())
			.unwrap_or_default();
		let slot = Arc::new(Slot {
			busy_since: AtomicU64::new(0),
			dead: AtomicBool::new(false),
			info: Mutex::new(CaseInfo {
				variant: Variant::Cuckatoo,
				edge_bits: 0,
				proof_size: 0,
				chain: ChainTypes::Mainnet,
				header: vec![],
				hnonce: None,
				nonces: vec![],
				class: String::new(),
			}),
		});
		let w = Worker {
			shared: shared.clone(),
			slot,
		};
		let mut st = Stats::default();
		selection_case(
			&w,
			chain_from_name(case.get("chain").and_then(|x| x.as_str()).unwrap_or("Mainnet")),
			g("height"),
			g("edge_bits") as u8,
			&unhex(case.get("header_hex").and_then(|x| x.as_str()).unwrap_or("")),
			case.get("header_nonce").and_then(|x| x.as_u64()).map(|x| x as u32),
			&nonces,
			case.get("class").and_then(|x| x.as_str()).unwrap_or("replay"),
			&mut st,
		);
		st.flush(run);
		return;
	}
	if case.get("kind").and_then(|x| x.as_str()) != Some("verify") {
		run.inconclusive("replay supports 'verify' and 'selection' cases; re-run with the recorded seed and tier for the others (the replay file carries both)");
		return;
	}
	let info = match CaseInfo::from_json(&case) {
		Some(i) => i,
		None => {
			run.inconclusive("malformed replay case");
			return;
		}
	};
	let a = info.ref_analysis();
	run.eval("replay", true);
	match run_with_timeout(&info, shared.hang_ms * 2) {
		None => {
			println!("replay: verify() did not return within {} ms", shared.hang_ms * 2);
			report_hang(shared, &info, true);
		}
		Some(r) => {
			let (agreed, dir) = match &r {
				Ok(true) => (a.valid, "impl_accepts_ref_rejects".to_string()),
				Ok(false) => (!a.valid, "impl_rejects_ref_accepts".to_string()),
				Err(p) => (false, format!("panic@{}", p.location)),
			};
			println!(
				"replay: reference valid={} shape={}, verify -> {:?}",
				a.valid,
				a.shape.name(),
				r.as_ref().map_err(|p| p.location.clone())
			);
			if !agreed {
				let s = format!("variant={};proof={};event={}", info.variant.name(), a.shape.name(), dir);
				run.violation(if sig.is_empty() { &s } else { &sig }, "reproduced from replay file", info.to_json());
			}
		}
	}
}

fn finish(shared: &Arc<Shared>) -> ! {
	let run = shared.run;
	run.set_rule(
		"Differential against an independent reference (own siphash-2-4 / siphash-block / graph definitions / perfect-matching + union-find decider). \
		 (a) exhaustive: every ascending 8-tuple of 16-edge graphs (12 870 per header) for header seeds chosen by the reference solver (half with, half without 8-cycles), \
		 plus all pair swaps / duplicates / out-of-range / wrong-count variants of each accepted cycle and of some rejected tuples, \
		 and every non-decreasing 8-tuple with repeated nonces (477 444 per header) for some of those headers; thorough adds every 8-tuple of 32-edge graphs \
		 (10 518 300 per header, 3 headers per variant); random ascending tuples of 32- and 64-edge graphs. \
		 (b) reference solver (DFS over the junction relation) on graphs of 2^8..2^16 edges, proof sizes 8 and 42: honest cycles, repo find_cycles solutions (cuckatoo), \
		 unions of two/three cycles with exactly L edges (disjoint, sharing one node, sharing a path), cycles of wrong length, open paths, cycles of the underlying \
		 undirected graph that violate direction / node-pair port, cycles through edge indices >= 2^edge_bits of the range-extended graph, ~130 mutations per honest cycle (one nonce +-1 / sibling / random, swaps, reversal, rotation, duplicates, \
		 out of range incl. aliases nonce+2^edge_bits and huge values, wrong counts), same nonces under another header / header nonce / variant / edge_bits. \
		 (c) create_pow_context and verify_size on all four chain types: published 42-cycle vectors (29..33 bits) at hard-fork boundary heights, headers mined by the reference solver \
		 and their header-level near misses, random proofs at 7..62 edge bits. (d) to_difficulty / to_unscaled_difficulty called twice and compared with an own formula over \
		 independently packed nonces. (e) Proof write == own packing, read(write(p)) == p, read->write of random canonical bytes, every non-zero padding pattern refused, \
		 truncated and bad edge_bits refused, protocol versions 1-3. A case signature is (workload, variant, edge_bits, proof size, construction class, reference shape label with \
		 degree profile, verdict); distinct_nontrivial counts distinct signatures. Every verify call runs under a hang monitor (3 s, reproduced in a fresh thread) and a panic monitor.",
	);
	run.set_exhaustive(false);
	run.assume("blake2b (reached through core::hash::HashWriter) is trusted base for key derivation and proof hashing");
	run.assume("graphs of 2^29 and more edges are only exercised with published solutions and random proofs (no solver at that size)");
	let scale = shared.scale * shared.tier.pick(1.0, 3.0);
	let thr = |q: u64| ((q as f64 * scale).ceil() as u64).max(1);
	let only = arg_value(&run.args, "--only");
	if only.is_none() {
		for v in VARIANTS {
			let vn = v.name();
			run.require(&format!("{}: valid proofs accepted by both", vn), run.counter(&format!("{}.valid_accepted", vn)), thr(60));
			run.require(&format!("{}: invalid proofs rejected by both", vn), run.counter(&format!("{}.invalid_rejected", vn)), thr(300_000));
			run.require(
				&format!("{}: exhaustive 16-edge tuples", vn),
				run.counter(&format!("exhaustive.{}.eb4.tuples", vn)),
				thr(12_870 * 30),
			);
			run.require(
				&format!("{}: honest 42-cycles accepted", vn),
				run.counter(&format!("solver.{}.L42.honest_cycles_accepted", vn)),
				thr(8),
			);
			run.require(
				&format!("{}: exhaustive non-decreasing 16-edge tuples with repeats", vn),
				run.counter(&format!("exh_multisets.{}.eb4.tuples", vn)),
				if shared.scale < 0.05 { 0 } else { thr(477_444 * 2) },
			);
			run.require(
				&format!("{}: exhaustive seeds with 8-cycles", vn),
				run.counter(&format!("exhaustive.{}.seeds_with_cycle", vn)),
				thr(10),
			);
		}
		for (shape, min) in [
			("disjoint_cycles", 100),
			("figure_eight", 20),
			("theta", 100),
			("open_path", 500),
			("und_cycle_bad_direction_or_port", 100),
			("duplicate", 1000),
			("unsorted", 3000),
			("out_of_range", 3000),
			("wrong_count", 2000),
			("other", 100_000),
		] {
			run.require(
				&format!("rejected near misses of shape {}", shape),
				run.counter(&format!("shape.{}.rejected", shape)),
				thr(min),
			);
		}
		for (class, min) in [
			("one_changed_plus1", 200),
			("one_changed_minus1", 200),
			("one_changed_sibling", 200),
			("one_changed_random_sorted", 200),
			("one_changed_random_unsorted", 200),
			("swap_two", 500),
			("duplicate", 200),
			("out_of_range_last", 500),
			("out_of_range_alias", 200),
			("wrong_count_minus1", 200),
			("wrong_count_plus1", 100),
			("wrong_count_empty", 50),
			("two_disjoint_cycles", 50),
			("two_cycles_sharing_a_path", 20),
			("cycle_of_wrong_length", 100),
			("open_path", 100),
			("cycle_ignoring_direction_or_port", 50),
			("cycle_through_out_of_range_edges", 50),
			("cycle_under_other_header", 100),
			("cycle_under_other_header_nonce", 100),
			("cycle_of_other_variant", 400),
			("cycle_of_other_edge_bits", 100),
		] {
			run.require(
				&format!("near-miss class {}", class),
				run.counter(&format!("class.{}.invalid", class)),
				thr(min),
			);
		}
		for v in [Variant::Cuckaroo, Variant::Cuckarood, Variant::Cuckatoo] {
			run.require(
				&format!("selection: published {} vector accepted on Mainnet", v.name()),
				run.counter(&format!("selection.Mainnet.{}.vector_accepted_under_scheduled_variant", v.name())),
				1,
			);
		}
		for v in [Variant::Cuckaroo, Variant::Cuckarood, Variant::Cuckaroom, Variant::Cuckarooz] {
			run.require(
				&format!("verify_size: mined {} header accepted on Mainnet", v.name()),
				run.counter(&format!("verify_size.Mainnet.{}.mined_header_accepted", v.name())),
				1,
			);
		}
		run.require("verify_size: mined cuckatoo header accepted on UserTesting", run.counter("verify_size.UserTesting.cuckatoo.mined_header_accepted"), 1);
		run.require("verify_size: mined cuckatoo header accepted on AutomatedTesting", run.counter("verify_size.AutomatedTesting.cuckatoo.mined_header_accepted"), 1);
		run.require("verify_size: genuine cycles of another length than the proof size presented", run.counter("verify_size.genuine_cycles_of_other_length"), 20);
		run.require("reference: published vectors confirmed", run.counter("reference.published_vectors_confirmed"), 12);
		run.require("difficulty: primary agree", run.counter("difficulty.primary.agree"), thr(10_000));
		run.require("difficulty: secondary agree", run.counter("difficulty.secondary.agree"), thr(2_000));
		run.require("ser: bit-exact round trips", run.counter("ser.roundtrip_exact"), thr(2_000));
		run.require("ser: writer bytes equal reference packing", run.counter("ser.writer_bytes_equal_reference"), thr(2_000));
		run.require("ser: non-zero padding refused", run.counter("ser.nonzero_padding_refused"), thr(5_000));
		run.require("ser: bad edge_bits refused", run.counter("ser.bad_edge_bits_refused"), 27);
	}
	let samples = shared.samples.lock().unwrap();
	let mut pushed = 0;
	for prefix in ["exhaustive_", "honest42_", "near_miss", "selection", "difficulty", "ser_padding"] {
		if let Some((_, v)) = samples.iter().find(|(k, _)| k.starts_with(prefix)) {
			run.sample(v.clone());
			pushed += 1;
		}
	}
	if pushed == 0 {
		for (_, v) in samples.iter().take(6) {
			run.sample(v.clone());
		}
	}
	drop(samples);
	run.finish()
}

// =====================================================================================================
// Workload B: reference solver + near misses on graphs of 2^8 .. 2^16 edges
// =====================================================================================================

/// A reference graph together with the context under test for the same (variant, size, header).
struct Bench {
	g: RefGraph,
	ctx: Box<dyn PoWContext>,
	l: usize,
	chain: ChainTypes,
	header: Vec<u8>,
	hnonce: Option<u32>,
}

impl Bench {
	fn new(variant: Variant, eb: u8, l: usize, chain: ChainTypes, header: &[u8], hnonce: Option<u32>, table: bool) -> Option<Bench> {
		global::set_local_chain_type(chain);
		let mut ctx = make_ctx(variant, eb, l).ok()?;
		ctx.set_header_nonce(header.to_vec(), hnonce, false).ok()?;
		Some(Bench {
			g: RefGraph::new(variant, eb as u32, ref_keys(header, hnonce), table),
			ctx,
			l,
			chain,
			header: header.to_vec(),
			hnonce,
		})
	}
	fn activate(&self, w: &Worker) {
		w.set_case_ctx(self.g.variant, self.g.edge_bits as u8, self.l, self.chain, &self.header, self.hnonce);
	}
	fn check(&self, w: &Worker, wl: &str, class: &str, nonces: &[u64], st: &mut Stats) -> (Analysis, bool) {
		check_case(w, &self.g, &*self.ctx, self.l, wl, class, nonces, st)
	}
}

fn sorted(mut v: Vec<u64>) -> Vec<u64> {
	v.sort_unstable();
	v
}

fn cycle_nodes(g: &RefGraph, c: &[u64]) -> Vec<u64> {
	let mut n: Vec<u64> = c
		.iter()
		.flat_map(|e| [g.half(*e, 0).und, g.half(*e, 1).und])
		.collect();
	n.sort_unstable();
	n.dedup();
	n
}

fn count_common(a: &[u64], b: &[u64]) -> usize {
	// both sorted
	let (mut i, mut j, mut c) = (0, 0, 0);
	while i < a.len() && j < b.len() {
		if a[i] == b[j] {
			c += 1;
			i += 1;
			j += 1;
		} else if a[i] < b[j] {
			i += 1;
		} else {
			j += 1;
		}
	}
	c
}

/// Edge sets of exactly `l` edges that are unions of two or three cycles of the graph.
fn combos_from_cycles(g: &RefGraph, cycles: &[Vec<u64>], l: usize) -> Vec<(&'static str, Vec<u64>)> {
	let mut out = vec![];
	let es: Vec<Vec<u64>> = cycles.iter().map(|c| sorted(c.clone())).collect();
	let ns: Vec<Vec<u64>> = cycles.iter().map(|c| cycle_nodes(g, c)).collect();
	let m = cycles.len().min(120);
	for i in 0..m {
		for j in i + 1..m {
			let ce = count_common(&es[i], &es[j]);
			if es[i].len() + es[j].len() - ce != l {
				continue;
			}
			let cn = count_common(&ns[i], &ns[j]);
			let mut u = es[i].clone();
			u.extend_from_slice(&es[j]);
			u.sort_unstable();
			u.dedup();
			let class = if cn == 0 {
				"two_disjoint_cycles"
			} else if ce == 0 && cn == 1 {
				"two_cycles_sharing_one_node"
			} else if ce == 0 {
				"two_cycles_sharing_nodes"
			} else {
				"two_cycles_sharing_a_path"
			};
			out.push((class, u));
			if out.len() > 40 {
				return out;
			}
		}
	}
	let m = cycles.len().min(30);
	for i in 0..m {
		for j in i + 1..m {
			for k in j + 1..m {
				if es[i].len() + es[j].len() + es[k].len() != l {
					continue;
				}
				if count_common(&ns[i], &ns[j]) + count_common(&ns[i], &ns[k]) + count_common(&ns[j], &ns[k]) != 0 {
					continue;
				}
				let mut u = es[i].clone();
				u.extend_from_slice(&es[j]);
				u.extend_from_slice(&es[k]);
				u.sort_unstable();
				out.push(("three_disjoint_cycles", u));
			}
		}
	}
	out
}

/// Near misses of an honest cycle `s` (sorted). The reference labels each of them; the class names only
/// say how they were built.
fn near_misses(p: &mut Prng, s: &[u64], n_edges: u64) -> Vec<(&'static str, Vec<u64>)> {
	let l = s.len();
	let mut out: Vec<(&'static str, Vec<u64>)> = vec![];
	let mut positions: Vec<usize> = (0..l).collect();
	p.shuffle(&mut positions);
	let pos: Vec<usize> = positions.iter().copied().take(8).collect();
	for &i in &pos {
		let mut m = s.to_vec();
		m[i] = m[i].wrapping_add(1);
		out.push(("one_changed_plus1", m));
		let mut m = s.to_vec();
		m[i] = m[i].wrapping_sub(1);
		out.push(("one_changed_minus1", m));
		let mut m = s.to_vec();
		m[i] ^= 1;
		out.push(("one_changed_sibling", sorted(m)));
		let mut r = p.below(n_edges);
		while s.contains(&r) {
			r = p.below(n_edges);
		}
		let mut m = s.to_vec();
		m[i] = r;
		out.push(("one_changed_random_unsorted", m.clone()));
		out.push(("one_changed_random_sorted", sorted(m)));
	}
	for k in 0..10 {
		let (i, j) = if k == 0 {
			(0, 1)
		} else if k == 1 {
			(l - 2, l - 1)
		} else {
			let i = p.usize_below(l);
			let mut j = p.usize_below(l);
			while j == i {
				j = p.usize_below(l);
			}
			(i, j)
		};
		let mut m = s.to_vec();
		m.swap(i, j);
		out.push(("swap_two", m));
	}
	let mut m = s.to_vec();
	m.reverse();
	out.push(("reversed", m));
	let mut m = s.to_vec();
	m.rotate_left(1 + p.usize_below(l - 1));
	out.push(("rotated", m));
	for &i in pos.iter().take(6) {
		let mut m = s.to_vec();
		if i > 0 {
			m[i] = m[i - 1];
		} else {
			m[0] = m[1];
		}
		out.push(("duplicate", m));
	}
	// out of range
	let last = s[l - 1];
	for v in [
		last + n_edges,
		last | n_edges,
		n_edges,
		n_edges + 1,
		u64::MAX,
		1 << 63,
		(1u64 << 32) + last,
		last + (n_edges << 1),
	] {
		let mut m = s.to_vec();
		m[l - 1] = v;
		out.push(("out_of_range_last", m));
	}
	for &i in pos.iter().take(4) {
		let mut m = s.to_vec();
		m[i] += n_edges;
		out.push(("out_of_range_alias", m));
	}
	// wrong count
	for i in [0, l / 2, l - 1] {
		let mut m = s.to_vec();
		m.remove(i);
		out.push(("wrong_count_minus1", m));
	}
	let mut m = s.to_vec();
	if last + 1 < n_edges {
		m.push(last + 1 + p.below(n_edges - last - 1));
	} else {
		m.push(n_edges);
	}
	out.push(("wrong_count_plus1", m));
	let mut m = s.to_vec();
	m.push(n_edges + 5);
	out.push(("wrong_count_plus1", m));
	out.push(("wrong_count_empty", vec![]));
	out.push(("wrong_count_single", vec![s[0]]));
	let mut m = s.to_vec();
	m.extend_from_slice(s);
	out.push(("wrong_count_doubled", m));
	out
}

struct SolveSpec {
	variant: Variant,
	l: usize,
	eb: u8,
	target_cycles: u64,
	max_seeds: u64,
	/// cap in thread CPU seconds (the global wall deadline applies as well)
	time_cap_s: f64,
	loose_seeds: u64,
	part: u64,
}

fn solve_job(w: &Worker, spec: SolveSpec) {
	let v = spec.variant;
	let l = spec.l;
	let eb = spec.eb;
	let vn = v.name();
	let seed = w.run().seed;
	let mut p = Prng::new(seed ^ fnv64(format!("solve{}{}{}p{}", vn, l, eb, spec.part).as_bytes()));
	let t0 = thread_cpu_s();
	let mut st = Stats::default();
	let mut honest = 0u64;
	let mut seeds = 0u64;
	let n_edges = 1u64 << eb;
	let wl = "solver";
	while honest < spec.target_cycles
		&& seeds < spec.max_seeds
		&& thread_cpu_s() - t0 < spec.time_cap_s
		&& !w.shared.out_of_time()
	{
		let header = seed_header(
			seed,
			0xB000 + (v.idx() as u64) * 4096 + (l as u64) * 64 + eb as u64,
			spec.part * 10_000_000 + seeds,
		);
		let hnonce = if seeds % 2 == 0 { None } else { Some(p.next_u32()) };
		let chain = if l == 8 {
			ChainTypes::AutomatedTesting
		} else if seeds % 4 < 2 {
			ChainTypes::UserTesting
		} else {
			ChainTypes::Mainnet
		};
		seeds += 1;
		let b = match Bench::new(v, eb, l, chain, &header, hnonce, true) {
			Some(b) => b,
			None => {
				w.run().inconclusive(&format!("constructor refused {} eb={}", vn, eb));
				return;
			}
		};
		b.activate(w);
		let adj = Adjacency::build(&b.g, JoinMode::Strict);
		let (cycles, trunc) = find_cycles(&b.g, &adj, 1, l + 2, 3_000_000, 300, false, 0);
		if trunc {
			st.bump("solver.graphs_truncated", 1);
		}
		st.bump("solver.graphs_searched", 1);
		// second source of honest proofs: the repository's cuckatoo solver
		if v == Variant::Cuckatoo && cycles.iter().any(|c| c.len() == l) && eb <= 16 {
			let hdr = header.clone();
			let r = monitor::catch(|| {
				let mut sctx = pow::new_cuckatoo_ctx(eb, l, 10).ok()?;
				sctx.set_header_nonce(hdr, hnonce, true).ok()?;
				sctx.find_cycles().ok()
			});
			if let Ok(Some(sols)) = r {
				for sol in sols {
					b.check(w, wl, "repo_find_cycles_solution", &sol.nonces, &mut st);
				}
			}
		}
		// unions of two / three cycles with exactly l edges
		for (class, m) in combos_from_cycles(&b.g, &cycles, l) {
			let (a, acc) = b.check(w, wl, class, &m, &mut st);
			if class == "two_disjoint_cycles" && l == 42 {
				w.shared.sample(
					"near_miss_disjoint",
					json!({"workload": "solver", "class": class, "variant": vn, "edge_bits": eb, "proof_size": l, "header_hex": hex(&header),
						"header_nonce": hnonce, "nonces": m, "reference": a.shape.name(), "verify": if acc { "Ok" } else { "Err" }}),
				);
			}
		}
		// genuine cycles of the wrong length
		for c in cycles.iter().filter(|c| c.len() != l && c.len() + 2 >= l).take(4) {
			b.check(w, wl, "cycle_of_wrong_length", &sorted(c.clone()), &mut st);
		}
		// a shorter genuine cycle padded with random edges to the right count
		for c in cycles.iter().filter(|c| c.len() < l && c.len() + 4 >= l).take(2) {
			let mut m = c.clone();
			while m.len() < l {
				let r = p.below(n_edges);
				if !m.contains(&r) {
					m.push(r);
				}
			}
			b.check(w, wl, "short_cycle_padded_with_random_edges", &sorted(m), &mut st);
		}
		// open simple paths of l edges
		if seeds <= spec.loose_seeds {
			let (paths, _) = find_cycles(&b.g, &adj, l, l, 200_000, 2, true, p.below(n_edges));
			for c in paths {
				b.check(w, wl, "open_path", &sorted(c), &mut st);
			}
			// cycles of the underlying undirected graph (direction / node-pair port ignored)
			if v.directed() || v == Variant::Cuckatoo {
				let ladj = Adjacency::build(&b.g, JoinMode::Loose);
				let (lc, _) = find_cycles(&b.g, &ladj, l, l, 300_000, 3, false, p.below(n_edges));
				for c in lc {
					b.check(w, wl, "cycle_ignoring_direction_or_port", &sorted(c), &mut st);
				}
			}
			// cycles of the graph extended beyond the edge range (same nodes, edge indices up to 2N-1)
			{
				let xg = RefGraph::new_ext(v, eb as u32, b.g.keys, true, 1);
				let xadj = Adjacency::build(&xg, JoinMode::Strict);
				let from = if seeds % 2 == 0 { n_edges + p.below(n_edges) } else { p.below(n_edges) };
				let (xc, _) = find_cycles(&xg, &xadj, l, l, 300_000, 2, false, from);
				for c in xc {
					if c.iter().any(|e| *e >= n_edges) {
						b.check(w, wl, "cycle_through_out_of_range_edges", &sorted(c), &mut st);
					}
				}
			}
			// random ascending tuples
			for _ in 0..20 {
				let mut m: Vec<u64> = vec![];
				while m.len() < l {
					let r = p.below(n_edges);
					if !m.contains(&r) {
						m.push(r);
					}
				}
				b.check(w, wl, "random_ascending_tuple", &sorted(m), &mut st);
			}
		}
		for c in cycles.iter().filter(|c| c.len() == l) {
			let s = sorted(c.clone());
			let (a, acc) = b.check(w, wl, "honest_cycle", &s, &mut st);
			if !a.valid {
				w.run().inconclusive(&format!(
					"reference self-check failed: solver cycle not accepted by the decider ({} eb={} L={})",
					vn, eb, l
				));
				continue;
			}
			if acc {
				honest += 1;
				st.bump(&format!("solver.{}.L{}.honest_cycles_accepted", vn, l), 1);
				st.bump(&format!("solver.{}.L{}.eb{}.honest_cycles_accepted", vn, l, eb), 1);
				if l == 42 {
					w.shared.sample(
						&format!("honest42_{}", vn),
						json!({"workload": "solver", "variant": vn, "edge_bits": eb, "proof_size": l, "header_hex": hex(&header),
							"header_nonce": hnonce, "nonces": s, "reference": "cycle", "verify": "Ok"}),
					);
				}
			}
			for (class, m) in near_misses(&mut p, &s, n_edges) {
				b.check(w, wl, class, &m, &mut st);
			}
			// same nonces, other header / header nonce
			let mut h2 = header.clone();
			let k = p.usize_below(76);
			h2[k] ^= 1 << p.below(8);
			if let Some(b2) = Bench::new(v, eb, l, chain, &h2, hnonce, false) {
				b2.activate(w);
				b2.check(w, wl, "cycle_under_other_header", &s, &mut st);
			}
			let hn2 = Some(hnonce.unwrap_or(0).wrapping_add(1));
			if let Some(b2) = Bench::new(v, eb, l, chain, &header, hn2, false) {
				b2.activate(w);
				b2.check(w, wl, "cycle_under_other_header_nonce", &s, &mut st);
			}
			// same nonces and header, other graph definition / size
			for v2 in VARIANTS {
				if v2 != v {
					if let Some(b2) = Bench::new(v2, eb, l, chain, &header, hnonce, false) {
						b2.activate(w);
						b2.check(w, wl, "cycle_of_other_variant", &s, &mut st);
					}
				}
			}
			for eb2 in [eb + 1, eb - 1] {
				if let Some(b2) = Bench::new(v, eb2, l, chain, &header, hnonce, false) {
					b2.activate(w);
					b2.check(w, wl, "cycle_of_other_edge_bits", &s, &mut st);
				}
			}
			b.activate(w);
		}
		if st.evals > 50_000 {
			st.flush(w.run());
		}
	}
	st.bump(&format!("solver.{}.L{}.seeds", vn, l), seeds);
	st.flush(w.run());
}

fn queue_solver(shared: &Arc<Shared>) {
	// big graphs first (longest jobs)
	let mut specs = vec![];
	for &(l, ebs) in &[(42usize, &[16u8, 15, 14, 13, 12, 11, 10][..]), (8usize, &[16u8, 14, 12, 10, 9, 8][..])] {
		for &eb in ebs {
			if shared.scale < 0.05 && (eb > 12 || eb == 11 || eb == 9) {
				continue; // valgrind / tsan runs: small graphs only
			}
			for v in VARIANTS {
				specs.push((v, l, eb));
			}
		}
	}
	for (v, l, eb) in specs {
		let parts: u64 = if eb >= 15 { 4 } else if eb >= 13 { 2 } else { 1 };
		let total = if l == 42 { shared.n(8, 64) } else { shared.n(12, 96) };
		let target = (total + parts - 1) / parts;
		let max_seeds = shared.n(3000, 40_000).max(800);
		let cap = shared.tier.pick(6.0, 50.0);
		let loose = (shared.n(8, 64) + parts - 1) / parts;
		for part in 0..parts {
			shared.push(
				Some(v),
				format!("solve {} L{} eb{} part{}", v.name(), l, eb, part),
				Box::new(move |w| {
					solve_job(
						w,
						SolveSpec {
							variant: v,
							l,
							eb,
							part,
							target_cycles: target,
							max_seeds,
							time_cap_s: cap,
							loose_seeds: loose,
						},
					)
				}),
			);
		}
	}
}

// =====================================================================================================
// Workload C: variant selection (global::create_pow_context, pow::verify_size)
// =====================================================================================================

/// Header version schedule, written from the documented hard-fork heights: mainnet forks every
/// YEAR_HEIGHT/2 = 262 080 blocks (versions 1..5), testnet forks at 185 040 / 298 080 / 552 960 / 642 240.
fn expected_version(chain: ChainTypes, height: u64) -> u16 {
	match chain {
		ChainTypes::Mainnet => (1 + height / 262_080).min(5) as u16,
		ChainTypes::Testnet => {
			if height < 185_040 {
				1
			} else if height < 298_080 {
				2
			} else if height < 552_960 {
				3
			} else if height < 642_240 {
				4
			} else {
				5
			}
		}
		_ => (1 + height / 3).min(5) as u16,
	}
}

/// Which graph definition judges a proof: testing chains are cuckatoo only; mainnet/testnet use cuckatoo
/// above 29 edge bits and cuckaroo / cuckarood / cuckaroom / cuckarooz for header versions 1 / 2 / 3 / 4
/// at 29 bits or less (nothing from version 5 on).
fn expected_variant(chain: ChainTypes, height: u64, eb: u8) -> Option<Variant> {
	match chain {
		ChainTypes::Mainnet | ChainTypes::Testnet => {
			if eb > 29 {
				Some(Variant::Cuckatoo)
			} else {
				match expected_version(chain, height) {
					1 => Some(Variant::Cuckaroo),
					2 => Some(Variant::Cuckarood),
					3 => Some(Variant::Cuckaroom),
					4 => Some(Variant::Cuckarooz),
					_ => None,
				}
			}
		}
		_ => Some(Variant::Cuckatoo),
	}
}

fn proofsize_of(chain: ChainTypes) -> usize {
	if chain == ChainTypes::AutomatedTesting {
		8
	} else {
		42
	}
}

fn interesting_heights(chain: ChainTypes, p: &mut Prng, extra: usize) -> Vec<u64> {
	let mut hs: Vec<u64> = match chain {
		ChainTypes::Mainnet => vec![
			0, 1, 262_079, 262_080, 400_000, 524_159, 524_160, 700_000, 786_239, 786_240, 1_048_319, 1_048_320, 3_000_000,
		],
		ChainTypes::Testnet => vec![
			0, 185_039, 185_040, 298_079, 298_080, 552_959, 552_960, 642_239, 642_240, 2_000_000,
		],
		_ => vec![0, 2, 3, 5, 6, 8, 9, 11, 12, 14, 1_000_000],
	};
	for _ in 0..extra {
		hs.push(p.below(1_400_000));
	}
	hs
}

/// create_pow_context + set_header_nonce + verify, compared with the reference under the expected
/// variant. `vector_of` names the origin of the nonces for the evidence.
fn selection_case(
	w: &Worker,
	chain: ChainTypes,
	height: u64,
	eb: u8,
	header: &[u8],
	hnonce: Option<u32>,
	nonces: &[u64],
	class: &str,
	st: &mut Stats,
) {
	global::set_local_chain_type(chain);
	let l = proofsize_of(chain);
	let exp = expected_variant(chain, height, eb);
	let ebc = if eb > 29 { "gt29" } else { "le29" };
	let ctx = monitor::catch(|| global::create_pow_context::<u64>(height, eb, nonces.len(), 10));
	st.case(&format!(
		"selection;{};v{};{};{};{}",
		chain_name(chain),
		expected_version(chain, height),
		ebc,
		class,
		exp.map(|v| v.name()).unwrap_or("none")
	));
	let sig = |event: &str| {
		format!(
			"selection;chain={};edge_bits={};expected={};event={}",
			chain_name(chain),
			ebc,
			exp.map(|v| v.name()).unwrap_or("none"),
			event
		)
	};
	let replay = json!({"kind": "selection", "chain": chain_name(chain), "height": height, "edge_bits": eb,
		"header_hex": hex(header), "header_nonce": hnonce, "nonces": nonces, "class": class});
	let mut ctx = match ctx {
		Err(p) => {
			w.run().violation(
				&sig(&format!("panic@{}", p.location)),
				&format!("create_pow_context panicked: {}", p.message),
				replay,
			);
			return;
		}
		Ok(Err(_)) => {
			// no context: every proof is rejected
			let valid = exp
				.map(|v| RefGraph::new(v, eb as u32, ref_keys(header, hnonce), false).analyse(nonces, l).valid)
				.unwrap_or(false);
			if valid {
				w.run().violation(
					&sig("no_context_for_valid_proof"),
					"create_pow_context returned Err although the schedule selects a variant under which the proof is a valid cycle",
					replay,
				);
			}
			st.bump(
				if exp.is_none() {
					"selection.no_context_expected_and_observed"
				} else {
					"selection.context_refused_for_invalid_proof"
				},
				1,
			);
			return;
		}
		Ok(Ok(c)) => c,
	};
	let v = match exp {
		None => {
			w.run().violation(
				&sig("context_created"),
				"create_pow_context returned a context where the schedule has none (cuckaroo family past HF4)",
				replay,
			);
			return;
		}
		Some(v) => v,
	};
	if ctx.set_header_nonce(header.to_vec(), hnonce, false).is_err() {
		w.run().inconclusive("set_header_nonce failed");
		return;
	}
	w.set_case_ctx(v, eb, l, chain, header, hnonce);
	let g = RefGraph::new(v, eb as u32, ref_keys(header, hnonce), false);
	let a = g.analyse(nonces, l);
	let proof = Proof {
		edge_bits: eb,
		nonces: nonces.to_vec(),
	};
	let out = w.verify(&*ctx, &proof, class);
	let agreed = match &out {
		Outcome::Accept => a.valid,
		Outcome::Reject => !a.valid,
		Outcome::Panic(_) => false,
	};
	if !agreed {
		w.run().violation(
			&sig(&format!("ref_valid={};impl={}", a.valid, out.name())),
			&format!(
				"context from create_pow_context({}, {}, ..) on {} disagrees with the reference for the scheduled variant {} (class {}, ref shape {})",
				height,
				eb,
				chain_name(chain),
				v.name(),
				class,
				a.shape.name()
			),
			replay,
		);
	}
	if a.valid && matches!(out, Outcome::Accept) {
		if chain == ChainTypes::Mainnet && eb == 29 {
			w.shared.sample(
				"selection",
				json!({"workload": "selection", "call": "global::create_pow_context(height, edge_bits, 42, 10) + set_header_nonce + verify",
					"chain": chain_name(chain), "height": height, "header_version": expected_version(chain, height), "edge_bits": eb,
					"scheduled_variant": v.name(), "class": class, "header": "80 zero bytes", "header_nonce": hnonce, "nonces": nonces,
					"reference": "cycle", "verify": "Ok"}),
			);
		}
		st.bump(&format!("selection.{}.{}.vector_accepted_under_scheduled_variant", chain_name(chain), v.name()), 1);
	} else if !a.valid && matches!(out, Outcome::Reject) {
		st.bump(&format!("selection.{}.rejected_under_scheduled_variant", chain_name(chain)), 1);
	}
}

fn selection_vectors_job(w: &Worker) {
	let mut st = Stats::default();
	let mut p = Prng::new(w.run().seed ^ 0xC0DE);
	let header = vec![0u8; 80];
	// reference self-check on the published vectors
	for (v, eb, hn, keys, nonces) in KNOWN_VECTORS.iter() {
		let g = RefGraph::new(*v, *eb as u32, keys.unwrap_or_else(|| ref_keys(&header, Some(*hn))), false);
		if !g.analyse(&nonces[..], 42).valid {
			w.run().inconclusive(&format!(
				"reference self-check failed: published {}{} vector (nonce {}) is not a cycle for the reference",
				v.name(),
				eb,
				hn
			));
		} else {
			st.bump("reference.published_vectors_confirmed", 1);
		}
	}
	let extra = w.shared.n(6, 60) as usize;
	for chain in [ChainTypes::Mainnet, ChainTypes::Testnet, ChainTypes::UserTesting, ChainTypes::AutomatedTesting] {
		for h in interesting_heights(chain, &mut p, extra) {
			for (v, eb, hn, keys, nonces) in KNOWN_VECTORS.iter() {
				if w.shared.out_of_time() || keys.is_some() {
					continue;
				}
				let class = format!("published_vector_{}{}", v.name(), eb);
				selection_case(w, chain, h, *eb, &header, Some(*hn), &nonces[..], &class, &mut st);
			}
			// error-message fingerprint: only cuckarood has an "edges not balanced" verdict (given for
			// 42 ascending even nonces); seeing it where cuckarood must not be selected is a wrong selection
			for eb in [7u8, 12, 28, 29, 30, 31, 32, 40, 62] {
				global::set_local_chain_type(chain);
				let l = proofsize_of(chain);
				let exp = expected_variant(chain, h, eb);
				let r = monitor::catch(|| {
					let mut c = global::create_pow_context::<u64>(h, eb, l, 10).ok()?;
					c.set_header_nonce(header.clone(), Some(7), false).ok()?;
					let pr = Proof {
						edge_bits: eb,
						nonces: (0..l as u64).map(|i| 2 * i).collect(),
					};
					match c.verify(&pr) {
						Err(pow::Error::Verification(m)) => Some(m),
						Err(_) => Some("other error".to_string()),
						Ok(()) => Some("accepted".to_string()),
					}
				});
				st.case(&format!("fingerprint;{};v{};eb{}", chain_name(chain), expected_version(chain, h), eb));
				match r {
					Err(pn) => w.run().violation(
						&format!("selection;chain={};event=panic@{}", chain_name(chain), pn.location),
						&pn.message,
						json!({"kind": "fingerprint", "chain": chain_name(chain), "height": h, "edge_bits": eb}),
					),
					Ok(Some(m)) => {
						let is_d = m == "edges not balanced";
						if m == "accepted" {
							w.run().violation(
								&format!("selection;chain={};event=even_nonces_proof_accepted", chain_name(chain)),
								"a proof of the even nonces 0,2,4,.. was accepted",
								json!({"kind": "fingerprint", "chain": chain_name(chain), "height": h, "edge_bits": eb}),
							);
						} else if is_d && exp != Some(Variant::Cuckarood) {
							w.run().violation(
								&format!(
									"selection;chain={};edge_bits={};expected={};event=cuckarood_fingerprint",
									chain_name(chain),
									if eb > 29 { "gt29" } else { "le29" },
									exp.map(|v| v.name()).unwrap_or("none")
								),
								"the context answers 'edges not balanced' (a cuckarood-only verdict) where the schedule selects another variant",
								json!({"kind": "fingerprint", "chain": chain_name(chain), "height": h, "edge_bits": eb}),
							);
						} else if is_d {
							st.bump("selection.fingerprint_cuckarood_where_expected", 1);
						} else if exp == Some(Variant::Cuckarood) {
							st.bump("selection.fingerprint_MISSING_where_cuckarood_expected(inconclusive)", 1);
							w.run().inconclusive("cuckarood expected but its 'edges not balanced' verdict was not observed (message text changed?)");
						} else {
							st.bump("selection.fingerprint_other_where_expected", 1);
						}
					}
					Ok(None) => {
						if exp.is_some() && !(exp == Some(Variant::Cuckatoo) && eb >= 63) {
							w.run().violation(
								&format!("selection;chain={};event=no_context", chain_name(chain)),
								"create_pow_context / set_header_nonce failed where the schedule selects a variant",
								json!({"kind": "fingerprint", "chain": chain_name(chain), "height": h, "edge_bits": eb}),
							);
						} else {
							st.bump("selection.no_context_expected_and_observed", 1);
						}
					}
				}
			}
		}
	}
	// random proofs at real sizes: rejected, no panic, no hang, no big allocation (contexts are lazy)
	let n_rand = w.shared.n(400, 6000);
	for i in 0..n_rand {
		if w.shared.out_of_time() {
			break;
		}
		let chain = *p.pick(&[ChainTypes::Mainnet, ChainTypes::Testnet, ChainTypes::UserTesting, ChainTypes::AutomatedTesting]);
		let l = proofsize_of(chain);
		let eb = if i % 3 == 0 { *p.pick(&[29u8, 30, 31, 32, 33]) } else { p.range(7, 62) as u8 };
		let h = *p.pick(&interesting_heights(chain, &mut p.clone(), 2));
		let mask = (1u64 << eb) - 1;
		let mut m: Vec<u64> = vec![];
		while m.len() < l {
			let r = p.next_u64() & mask;
			if !m.contains(&r) {
				m.push(r);
			}
		}
		let hdr = p.bytes(80);
		selection_case(w, chain, h, eb, &hdr, Some(p.next_u32()), &sorted(m), "random_proof_real_size", &mut st);
	}
	st.flush(w.run());
}

/// Reference verdict for pow::verify_size.
fn ref_verify_size(chain: ChainTypes, bh: &BlockHeader) -> (Option<Variant>, bool, Shape) {
	let eb = bh.pow.proof.edge_bits;
	match expected_variant(chain, bh.height, eb) {
		None => (None, false, Shape::Other),
		Some(v) => {
			let g = RefGraph::new(v, eb as u32, ref_keys(&bh.pre_pow(), None), false);
			let a = g.analyse(&bh.pow.proof.nonces, proofsize_of(chain));
			(Some(v), a.valid, a.shape)
		}
	}
}

fn verify_size_case(w: &Worker, chain: ChainTypes, bh: &BlockHeader, class: &str, st: &mut Stats) -> bool {
	global::set_local_chain_type(chain);
	let (v, valid, shape) = ref_verify_size(chain, bh);
	let l = proofsize_of(chain);
	w.set_case_ctx(v.unwrap_or(Variant::Cuckatoo), bh.pow.proof.edge_bits, l, chain, &bh.pre_pow(), None);
	let out = w.guarded(&bh.pow.proof.nonces, class, || pow::verify_size(bh).is_ok());
	let agreed = match &out {
		Outcome::Accept => valid,
		Outcome::Reject => !valid,
		Outcome::Panic(_) => false,
	};
	st.case(&format!(
		"verify_size;{};v{};{};{};{};{}",
		chain_name(chain),
		expected_version(chain, bh.height),
		v.map(|v| v.name()).unwrap_or("none"),
		class,
		shape.name(),
		out.name()
	));
	if !agreed {
		w.run().violation(
			&format!(
				"verify_size;chain={};expected={};proof={};event=ref_valid={};impl={}",
				chain_name(chain),
				v.map(|v| v.name()).unwrap_or("none"),
				shape.name(),
				valid,
				out.name()
			),
			&format!(
				"pow::verify_size disagrees with the reference at height {} edge_bits {} ({})",
				bh.height, bh.pow.proof.edge_bits, class
			),
			json!({"kind": "verify_size", "chain": chain_name(chain), "height": bh.height, "edge_bits": bh.pow.proof.edge_bits,
				"pre_pow_hex": hex(&bh.pre_pow()), "nonces": bh.pow.proof.nonces, "class": class}),
		);
	}
	if valid && matches!(out, Outcome::Accept) {
		st.bump(
			&format!("verify_size.{}.{}.mined_header_accepted", chain_name(chain), v.map(|v| v.name()).unwrap_or("none")),
			1,
		);
	}
	if !valid && matches!(out, Outcome::Reject) {
		st.bump(&format!("verify_size.{}.invalid_rejected", chain_name(chain)), 1);
	}
	matches!(out, Outcome::Accept)
}

fn verify_size_job(w: &Worker, chain: ChainTypes, eb: u8, heights: Vec<u64>, per_height: u64) {
	let mut st = Stats::default();
	let mut p = Prng::new(w.run().seed ^ fnv64(format!("vs{}{}", chain_name(chain), eb).as_bytes()));
	global::set_local_chain_type(chain);
	let l = proofsize_of(chain);
	for h in heights {
		for _ in 0..per_height {
			if w.shared.out_of_time() {
				break;
			}
			let mut bh = BlockHeader::default();
			bh.height = h;
			bh.version = grin_core::core::HeaderVersion(expected_version(chain, h));
			bh.output_mmr_size = p.below(1 << 30);
			bh.kernel_mmr_size = p.below(1 << 30);
			bh.pow.total_difficulty = Difficulty::from_num(p.below(1 << 40));
			bh.pow.secondary_scaling = p.next_u32();
			bh.pow.proof.edge_bits = eb;
			bh.pow.nonce = p.next_u64();
			let v = match expected_variant(chain, h, eb) {
				Some(v) => v,
				None => {
					// no variant: whatever the proof, it must be rejected
					bh.pow.proof.nonces = (0..l as u64).collect();
					verify_size_case(w, chain, &bh, "no_variant_past_hf4", &mut st);
					continue;
				}
			};
			// mine with the reference solver
			let mut found = None;
			for _ in 0..4000 {
				let g = RefGraph::new(v, eb as u32, ref_keys(&bh.pre_pow(), None), true);
				let adj = Adjacency::build(&g, JoinMode::Strict);
				let (c, _) = find_cycles(&g, &adj, l, l, 2_000_000, 1, false, 0);
				if let Some(c) = c.into_iter().next() {
					found = Some(sorted(c));
					break;
				}
				bh.pow.nonce = bh.pow.nonce.wrapping_add(1);
				if w.shared.out_of_time() {
					break;
				}
			}
			let cyc = match found {
				Some(c) => c,
				None => {
					st.bump("verify_size.mining_gave_up", 1);
					continue;
				}
			};
			bh.pow.proof.nonces = cyc.clone();
			verify_size_case(w, chain, &bh, "mined_header", &mut st);
			// genuine simple cycles of the SAME header-seeded graph that have another length than the
			// required proof size: "exactly the required number of nonces" must hold through the public
			// entry point as well (verify_size builds its context from the proof it is handed)
			{
				let g = RefGraph::new(v, eb as u32, ref_keys(&bh.pre_pow(), None), true);
				let adj = Adjacency::build(&g, JoinMode::Strict);
				let (shorter, _) = find_cycles(&g, &adj, 2, l - 1, 400_000, 4, false, p.below(g.num_edges));
				let (longer, _) = find_cycles(&g, &adj, l + 1, l + 8, 400_000, 2, false, p.below(g.num_edges));
				for c in shorter.into_iter().chain(longer.into_iter()) {
					if c.len() == l {
						continue;
					}
					let mut b2 = bh.clone();
					b2.pow.proof.nonces = sorted(c);
					st.bump("verify_size.genuine_cycles_of_other_length", 1);
					verify_size_case(w, chain, &b2, "genuine_cycle_of_other_length", &mut st);
				}
			}
			// near misses at header level
			let mut b2 = bh.clone();
			let i = p.usize_below(l);
			b2.pow.proof.nonces[i] ^= 1;
			b2.pow.proof.nonces.sort_unstable();
			verify_size_case(w, chain, &b2, "one_nonce_changed", &mut st);
			let mut b2 = bh.clone();
			b2.pow.nonce = b2.pow.nonce.wrapping_add(1);
			verify_size_case(w, chain, &b2, "other_header_nonce", &mut st);
			let mut b2 = bh.clone();
			b2.pow.secondary_scaling ^= 1;
			verify_size_case(w, chain, &b2, "other_pre_pow_field", &mut st);
			let mut b2 = bh.clone();
			b2.pow.proof.nonces.swap(0, 1);
			verify_size_case(w, chain, &b2, "swap_two", &mut st);
			let mut b2 = bh.clone();
			b2.pow.proof.nonces.pop();
			verify_size_case(w, chain, &b2, "wrong_count_minus1", &mut st);
			let mut b2 = bh.clone();
			b2.pow.proof.nonces.push(1u64 << eb);
			verify_size_case(w, chain, &b2, "wrong_count_plus1", &mut st);
			let mut b2 = bh.clone();
			b2.pow.proof.edge_bits = eb + 1;
			verify_size_case(w, chain, &b2, "other_edge_bits", &mut st);
			let mut b2 = bh.clone();
			b2.pow.proof.nonces[l - 1] += 1u64 << eb;
			verify_size_case(w, chain, &b2, "out_of_range_last", &mut st);
			// the same proof at heights of the other header versions (pre_pow changes too; the reference recomputes)
			for h2 in interesting_heights(chain, &mut p, 0) {
				if expected_version(chain, h2) != expected_version(chain, h) {
					let mut b2 = bh.clone();
					b2.height = h2;
					verify_size_case(w, chain, &b2, "other_height", &mut st);
				}
			}
		}
	}
	st.flush(w.run());
}

fn queue_selection(shared: &Arc<Shared>) {
	shared.push(None, "selection vectors".into(), Box::new(selection_vectors_job));
	let per = shared.n(2, 12);
	for (chain, ebs, heights) in [
		(ChainTypes::UserTesting, if shared.scale < 0.05 { vec![12u8] } else { vec![12u8, 15, 16] }, vec![0u64, 7]),
		(ChainTypes::AutomatedTesting, vec![10u8, 12], vec![0u64, 4, 13, 1000]),
		(ChainTypes::Mainnet, vec![11u8, 12], vec![5u64, 262_079, 262_080, 524_159, 524_160, 786_239, 786_240, 1_048_319, 1_048_320]),
		(ChainTypes::Testnet, vec![11u8], vec![5u64, 185_039, 185_040, 298_080, 552_959, 552_960, 642_239, 642_240]),
	] {
		for eb in ebs {
			for h in heights.clone() {
				shared.push(
					None,
					format!("verify_size {} eb{} h{}", chain_name(chain), eb, h),
					Box::new(move |w| verify_size_job(w, chain, eb, vec![h], per)),
				);
			}
		}
	}
}
/// Published 42-cycle solutions of John Tromp's solvers for the header of 80 zero bytes with the given
/// nonce in its last four bytes (the known-answer vectors also used by the unit tests): (variant, edge_bits, header nonce, nonces).
/// For cuckaroom / cuckarooz the published keys are not those of blake2b(80 zero bytes + nonce), and a context's keys
/// cannot be set through the public API: these four vectors (keys given) validate the reference only.
const KNOWN_VECTORS: [(Variant, u8, u32, Option<[u64; 4]>, [u64; 42]); 12] = [
	(Variant::Cuckatoo, 29, 20, None, [
		0x48a9e2, 0x9cf043, 0x155ca30, 0x18f4783, 0x248f86c, 0x2629a64, 0x5bad752,
		0x72e3569, 0x93db760, 0x97d3b37, 0x9e05670, 0xa315d5a, 0xa3571a1, 0xa48db46,
		0xa7796b6, 0xac43611, 0xb64912f, 0xbb6c71e, 0xbcc8be1, 0xc38a43a, 0xd4faa99,
		0xe018a66, 0xe37e49c, 0xfa975fa, 0x11786035, 0x1243b60a, 0x12892da0, 0x141b5453,
		0x1483c3a0, 0x1505525e, 0x1607352c, 0x16181fe3, 0x17e3a1da, 0x180b651e, 0x1899d678,
		0x1931b0bb, 0x19606448, 0x1b041655, 0x1b2c20ad, 0x1bd7a83c, 0x1c05d5b0, 0x1c0b9caa,
	]),
	(Variant::Cuckatoo, 31, 99, None, [
		0x1128e07, 0xc181131, 0x110fad36, 0x1135ddee, 0x1669c7d3, 0x1931e6ea, 0x1c0005f3,
		0x1dd6ecca, 0x1e29ce7e, 0x209736fc, 0x2692bf1a, 0x27b85aa9, 0x29bb7693, 0x2dc2a047,
		0x2e28650a, 0x2f381195, 0x350eb3f9, 0x3beed728, 0x3e861cbc, 0x41448cc1, 0x41f08f6d,
		0x42fbc48a, 0x4383ab31, 0x4389c61f, 0x4540a5ce, 0x49a17405, 0x50372ded, 0x512f0db0,
		0x588b6288, 0x5a36aa46, 0x5c29e1fe, 0x6118ab16, 0x634705b5, 0x6633d190, 0x6683782f,
		0x6728b6e1, 0x67adfb45, 0x68ae2306, 0x6d60f5e1, 0x78af3c4f, 0x7dde51ab, 0x7faced21,
	]),
	(Variant::Cuckatoo, 32, 17, None, [
		0x6da0bbf, 0xb175276, 0xf978803, 0x187bea71, 0x2074a1a6, 0x22270923, 0x2c70b560,
		0x411d193f, 0x417c55d4, 0x4ebbda62, 0x5238584a, 0x545efac9, 0x569e98e1, 0x57040b66,
		0x5e16153e, 0x5e749d2e, 0x60b771c2, 0x68e63420, 0x74a2825e, 0x755790ac, 0x7d5e280f,
		0x7fe4d148, 0x934b32c8, 0x94a0c441, 0x9643fb25, 0x9718e41d, 0x982e6b8b, 0x9c47d21c,
		0xa1f64135, 0xa90e209c, 0xabb868cb, 0xafef989e, 0xb0fc021e, 0xb20a7b56, 0xb5e59931,
		0xb63e46b9, 0xb8823ed5, 0xd11e966c, 0xd95e515d, 0xe0245efe, 0xf3edc79a, 0xfb8a29ce,
	]),
	(Variant::Cuckatoo, 33, 79, None, [
		0x7aaf51f, 0x1434ebf3, 0x25bcee6e, 0x2fbddf0b, 0x322a87b6, 0x414f6a57, 0x701a84af,
		0x7c432040, 0x822b8ee0, 0x83c9fed3, 0x89af26b2, 0xa5bc5d69, 0xbe924630, 0xd3146f50,
		0xd4e0f240, 0xe10e5bdc, 0x113400ccc, 0x114a917b2, 0x118482498, 0x11deca0f4, 0x1241c7ff0,
		0x1245f8886, 0x12a6517e3, 0x12c1a0edd, 0x142d988ee, 0x14637a89b, 0x15399e735, 0x1699c1cf9,
		0x16e91ddd4, 0x17414f603, 0x18c07384c, 0x1993cdd97, 0x19d37ce5b, 0x1a43455c5, 0x1aa312c2f,
		0x1b20fe128, 0x1b7610376, 0x1bce4d125, 0x1c4834307, 0x1c7a2e5b2, 0x1da840832, 0x1e4e3da0c,
	]),
	(Variant::Cuckaroo, 19, 71, None, [
		0x45e9, 0x6a59, 0xf1ad, 0x10ef7, 0x129e8, 0x13e58, 0x17936,
		0x19f7f, 0x208df, 0x23704, 0x24564, 0x27e64, 0x2b828, 0x2bb41,
		0x2ffc0, 0x304c5, 0x31f2a, 0x347de, 0x39686, 0x3ab6c, 0x429ad,
		0x45254, 0x49200, 0x4f8f8, 0x5697f, 0x57ad1, 0x5dd47, 0x607f8,
		0x66199, 0x686c7, 0x6d5f3, 0x6da7a, 0x6dbdf, 0x6f6bf, 0x6ffbb,
		0x7580e, 0x78594, 0x785ac, 0x78b1d, 0x7b80d, 0x7c11c, 0x7da35,
	]),
	(Variant::Cuckaroo, 19, 143, None, [
		0x2b1e, 0x67d3, 0xb041, 0xb289, 0xc6c3, 0xd31e, 0xd75c,
		0x111d7, 0x145aa, 0x1712e, 0x1a3af, 0x1ecc5, 0x206b1, 0x2a55c,
		0x2a9cd, 0x2b67e, 0x321d8, 0x35dde, 0x3721e, 0x37ac0, 0x39edb,
		0x3b80b, 0x3fc79, 0x4148b, 0x42a48, 0x44395, 0x4bbc9, 0x4f775,
		0x515c5, 0x56f97, 0x5aa10, 0x5bc1b, 0x5c56d, 0x5d552, 0x60a2e,
		0x66646, 0x6c3aa, 0x70709, 0x71d13, 0x762a3, 0x79d88, 0x7e3ae,
	]),
	(Variant::Cuckarood, 19, 64, None, [
		0xa00, 0x3ffb, 0xa474, 0xdc27, 0x182e6, 0x242cc, 0x24de4,
		0x270a2, 0x28356, 0x2951f, 0x2a6ae, 0x2c889, 0x355c7, 0x3863b,
		0x3bd7e, 0x3cdbc, 0x3ff95, 0x430b6, 0x4ba1a, 0x4bd7e, 0x4c59f,
		0x4f76d, 0x52064, 0x5378c, 0x540a3, 0x5af6b, 0x5b041, 0x5e9d3,
		0x64ec7, 0x6564b, 0x66763, 0x66899, 0x66e80, 0x68e4e, 0x69133,
		0x6b20a, 0x6c2d7, 0x6fd3b, 0x79a8a, 0x79e29, 0x7ae52, 0x7defe,
	]),
	(Variant::Cuckarood, 29, 15, None, [
		0x1a9629, 0x1fb257, 0x5dc22a, 0xf3d0b0, 0x200c474, 0x24bd68f, 0x48ad104,
		0x4a17170, 0x4ca9a41, 0x55f983f, 0x6076c91, 0x6256ffc, 0x63b60a1, 0x7fd5b16,
		0x985bff8, 0xaae71f3, 0xb71f7b4, 0xb989679, 0xc09b7b8, 0xd7601da, 0xd7ab1b6,
		0xef1c727, 0xf1e702b, 0xfd6d961, 0xfdf0007, 0x10248134, 0x114657f6, 0x11f52612,
		0x12887251, 0x13596b4b, 0x15e8d831, 0x16b4c9e5, 0x17097420, 0x1718afca, 0x187fc40c,
		0x19359788, 0x1b41d3f1, 0x1bea25a7, 0x1d28df0f, 0x1ea6c4a0, 0x1f9bf79f, 0x1fa005c6,
	]),
	(Variant::Cuckaroom, 19, 64, Some([0xdb7896f799c76dab, 0x352e8bf25df7a723, 0xf0aa29cbb1150ea6, 0x3206c2759f41cbd5]), [
		0x413c, 0x5121, 0x546e, 0x1293a, 0x1dd27, 0x1e13e, 0x1e1d2,
		0x22870, 0x24642, 0x24833, 0x29190, 0x2a732, 0x2ccf6, 0x302cf,
		0x32d9a, 0x33700, 0x33a20, 0x351d9, 0x3554b, 0x35a70, 0x376c1,
		0x398c6, 0x3f404, 0x3ff0c, 0x48b26, 0x49a03, 0x4c555, 0x4dcda,
		0x4dfcd, 0x4fbb6, 0x50275, 0x584a8, 0x5da0d, 0x5dbf1, 0x6038f,
		0x66540, 0x72bbd, 0x77323, 0x77424, 0x77a14, 0x77dc9, 0x7d9dc,
	]),
	(Variant::Cuckaroom, 29, 15, Some([0xe4b4a751f2eac47d, 0x3115d47edfb69267, 0x87de84146d9d609e, 0x7deb20eab6d976a1]), [
		0x4acd28, 0x29ccf71, 0x2a5572b, 0x2f31c2c, 0x2f60c37, 0x317fe1d, 0x32f6d4c,
		0x3f51227, 0x45ee1dc, 0x535eeb8, 0x5e135d5, 0x6184e3d, 0x6b1b8e0, 0x6f857a9,
		0x8916a0f, 0x9beb5f8, 0xa3c8dc9, 0xa886d94, 0xaab6a57, 0xd6df8f8, 0xe4d630f,
		0xe6ae422, 0xea2d658, 0xf7f369b, 0x10c465d8, 0x1130471e, 0x12049efb, 0x12f43bc5,
		0x15b493a6, 0x16899354, 0x1915dfca, 0x195c3dac, 0x19b09ab6, 0x1a1a8ed7, 0x1bba748f,
		0x1bdbf777, 0x1c806542, 0x1d201b53, 0x1d9e6af7, 0x1e99885e, 0x1f255834, 0x1f9c383b,
	]),
	(Variant::Cuckarooz, 19, 71, Some([0xd129f63fba4d9a85, 0x457dcb3666c5e09c, 0x045247a2e2ee75f7, 0x1a0f2e1bcb9d93ff]), [
		0x33b6, 0x487b, 0x88b7, 0x10bf6, 0x15144, 0x17cb7, 0x22621,
		0x2358e, 0x23775, 0x24fb3, 0x26b8a, 0x2876c, 0x2973e, 0x2f4ba,
		0x30a62, 0x3a36b, 0x3ba5d, 0x3be67, 0x3ec56, 0x43141, 0x4b9c5,
		0x4fa06, 0x51a5c, 0x523e5, 0x53d08, 0x57d34, 0x5c2de, 0x60bba,
		0x62509, 0x64d69, 0x6803f, 0x68af4, 0x6bd52, 0x6f041, 0x6f900,
		0x70051, 0x7097d, 0x735e8, 0x742c2, 0x79ae5, 0x7f64d, 0x7fd49,
	]),
	(Variant::Cuckarooz, 29, 15, Some([0x34bb4c75c929a2f5, 0x21df13263aa81235, 0x37d00939eae4be06, 0x473251cbf6941553]), [
		0x49733a, 0x1d49107, 0x253d2ca, 0x5ad5e59, 0x5b671bd, 0x5dcae1c, 0x5f9a589,
		0x65e9afc, 0x6a59a45, 0x7d9c6d3, 0x7df96e4, 0x8b26174, 0xa17b430, 0xa1c8c0d,
		0xa8a0327, 0xabd7402, 0xacb7c77, 0xb67524f, 0xc1c15a6, 0xc7e2c26, 0xc7f5d8d,
		0xcae478a, 0xdea9229, 0xe1ab49e, 0xf57c7db, 0xfb4e8c5, 0xff314aa, 0x110ccc12,
		0x143e546f, 0x17007af8, 0x17140ea2, 0x173d7c5d, 0x175cd13f, 0x178b8880, 0x1801edc5,
		0x18c8f56b, 0x18c8fe6d, 0x19f1a31a, 0x1bb028d1, 0x1caaa65a, 0x1cf29bc2, 0x1dbde27d,
	]),
];

// =====================================================================================================
// Workload D: difficulty is a deterministic function of the packed nonces
// =====================================================================================================

/// Own graph weight: 2^(1 + edge_bits - base) * edge_bits, where for 31-bit graphs the factor edge_bits
/// decays by one per week (10 080 blocks) from one year (524 160 blocks) on, down to zero.
fn ref_graph_weight(chain: ChainTypes, height: u64, eb: u8) -> u64 {
	let base: u32 = match chain {
		ChainTypes::AutomatedTesting => 10,
		ChainTypes::UserTesting => 15,
		_ => 24,
	};
	let mut x = eb as u64;
	if eb == 31 && height >= 524_160 {
		x = x.saturating_sub(1 + (height - 524_160) / 10_080);
	}
	(2u64 << (eb as u32 - base)) * x
}

fn difficulty_job(w: &Worker, chain: ChainTypes, part: u64, n: u64) {
	let mut st = Stats::default();
	let mut p = Prng::new(w.run().seed ^ fnv64(format!("diff{}{}", chain_name(chain), part).as_bytes()));
	global::set_local_chain_type(chain);
	let l = proofsize_of(chain);
	let base = match chain {
		ChainTypes::AutomatedTesting => 10u8,
		ChainTypes::UserTesting => 15,
		_ => 24,
	};
	for k in 0..n {
		if k % 256 == 0 && w.shared.out_of_time() {
			break;
		}
		let eb: u8 = match p.below(6) {
			0 => 29,
			1 => 31,
			2 => *p.pick(&[base, 32, 33, 62, 63]),
			_ => p.range(base as u64, 63) as u8,
		};
		let mask = if eb == 64 { u64::MAX } else { (1u64 << eb) - 1 };
		let nonces: Vec<u64> = match p.below(8) {
			0 => vec![0; l],
			1 => vec![mask; l],
			2 => (0..l as u64).map(|i| i & mask).collect(),
			_ => sorted((0..l).map(|_| p.next_u64() & mask).collect()),
		};
		let height = match p.below(6) {
			0 => 0,
			1 => 524_159 + p.below(3),
			2 => 524_160 + 10_080 * p.below(33) + p.below(3) - 1,
			3 => p.below(2_000_000),
			4 => p.interesting_u64() >> 1,
			_ => 524_160 + p.below(400_000),
		};
		let scaling = match p.below(4) {
			0 => p.next_u32(),
			1 => *p.pick(&[0u32, 1, 13, u32::MAX]),
			_ => p.below(4096) as u32,
		};
		let pw = ProofOfWork {
			total_difficulty: Difficulty::from_num(p.next_u64() >> 8),
			secondary_scaling: scaling,
			nonce: p.next_u64(),
			proof: Proof {
				edge_bits: eb,
				nonces: nonces.clone(),
			},
		};
		let r = monitor::catch(|| {
			(
				pw.to_difficulty(height).to_num(),
				pw.to_difficulty(height).to_num(),
				pw.to_unscaled_difficulty().to_num(),
				pw.to_unscaled_difficulty().to_num(),
			)
		});
		let kind = if eb == 29 { "secondary" } else { "primary" };
		st.case(&format!(
			"difficulty;{};{};eb{};weekdecay{}",
			chain_name(chain),
			kind,
			eb,
			if eb == 31 && height >= 524_160 { ((height - 524_160) / 10_080).min(40) } else { 99 }
		));
		let replay = json!({"kind": "difficulty", "chain": chain_name(chain), "edge_bits": eb, "height": height,
			"secondary_scaling": scaling, "nonces": nonces});
		match r {
			Err(pn) => w.run().violation(
				&format!("difficulty;kind={};event=panic@{}", kind, pn.location),
				&pn.message,
				replay,
			),
			Ok((d1, d2, u1, u2)) => {
				let scale = if eb == 29 { scaling as u64 } else { ref_graph_weight(chain, height, eb) };
				let exp = ref_difficulty(&nonces, eb as u32, scale);
				let expu = ref_difficulty(&nonces, eb as u32, 1);
				if d1 != d2 || u1 != u2 {
					w.run().violation(
						&format!("difficulty;kind={};event=nondeterministic", kind),
						&format!("two calls returned {} / {} (unscaled {} / {})", d1, d2, u1, u2),
						replay,
					);
				} else if d1 != exp {
					w.run().violation(
						&format!("difficulty;kind={};event=mismatch", kind),
						&format!("to_difficulty({}) = {}, reference formula over independently packed nonces = {} (scale {})", height, d1, exp, scale),
						replay,
					);
				} else if u1 != expu {
					w.run().violation(
						"difficulty;kind=unscaled;event=mismatch",
						&format!("to_unscaled_difficulty() = {}, reference = {}", u1, expu),
						replay,
					);
				} else {
					st.bump(&format!("difficulty.{}.agree", kind), 1);
					if k == 3 {
						w.shared.sample(
							"difficulty",
							json!({"workload": "difficulty", "chain": chain_name(chain), "edge_bits": eb, "height": height, "secondary_scaling": scaling,
								"nonces": nonces, "packed_hex": hex(&ref_pack(&nonces, eb as u32)), "hash_u64_be": ref_unscaled_hash(&nonces, eb as u32),
								"scale": scale, "to_difficulty": d1, "to_unscaled_difficulty": u1, "reference": exp}),
						);
					}
				}
			}
		}
	}
	st.flush(w.run());
}

fn queue_difficulty(shared: &Arc<Shared>) {
	let n = shared.n(6000, 120_000);
	for chain in [ChainTypes::Mainnet, ChainTypes::UserTesting, ChainTypes::AutomatedTesting, ChainTypes::Testnet] {
		for part in 0..2 {
			shared.push(
				None,
				format!("difficulty {} {}", chain_name(chain), part),
				Box::new(move |w| difficulty_job(w, chain, part, n)),
			);
		}
	}
}

// =====================================================================================================
// Workload E: Proof serialisation
// =====================================================================================================

fn ref_unpack(bytes: &[u8], width: u32, count: usize) -> Vec<u64> {
	(0..count)
		.map(|i| {
			let mut v = 0u64;
			for b in 0..width as usize {
				let pos = i * width as usize + b;
				if (bytes[pos / 8] >> (pos % 8)) & 1 == 1 {
					v |= 1 << b;
				}
			}
			v
		})
		.collect()
}

fn ser_job(w: &Worker, chain: ChainTypes, n_per_eb: u64) {
	let mut st = Stats::default();
	let run = w.run();
	let mut p = Prng::new(run.seed ^ fnv64(format!("ser{}", chain_name(chain)).as_bytes()));
	global::set_local_chain_type(chain);
	let l = proofsize_of(chain);
	let cn = chain_name(chain);
	let versions = [1u32, 2, 3];
	let read = |bytes: &[u8], ver: u32| -> Result<Result<Proof, ser::Error>, monitor::PanicReport> {
		let b = bytes.to_vec();
		monitor::catch(move || ser::deserialize::<Proof, _>(&mut &b[..], ProtocolVersion(ver), DeserializationMode::default()))
	};
	for eb in 1u8..=63 {
		let bytes_len = (eb as usize * l + 7) / 8;
		let readable = bytes_len >= 8;
		let pad = bytes_len * 8 - eb as usize * l;
		let mask = (1u64 << eb) - 1;
		for k in 0..n_per_eb {
			if w.shared.out_of_time() {
				break;
			}
			let nonces: Vec<u64> = match k {
				0 => vec![0; l],
				1 => vec![mask; l],
				2 => (0..l).map(|i| if i % 2 == 0 { mask } else { 0 }).collect(),
				3 => (0..l).map(|i| if i == l - 1 { mask } else { 0 }).collect(),
				4 => (0..l).map(|i| if i == 0 { 1 } else { 0 }).collect(),
				_ => (0..l).map(|_| p.next_u64() & mask).collect(),
			};
			let mut enc = vec![eb];
			enc.extend_from_slice(&ref_pack(&nonces, eb as u32));
			let proof = Proof {
				edge_bits: eb,
				nonces: nonces.clone(),
			};
			let ver = versions[(k % 3) as usize];
			let replay = json!({"kind": "ser", "chain": cn, "edge_bits": eb, "nonces": nonces, "protocol_version": ver});
			st.case(&format!("ser;{};eb{};pad{};readable{};pattern{}", cn, eb, pad, readable, k.min(5)));
			// writer produces exactly the independent encoding
			let pr = proof.clone();
			match monitor::catch(move || ser::ser_vec(&pr, ProtocolVersion(ver))) {
				Err(pn) => run.violation(&format!("ser;class=write;event=panic@{}", pn.location), &pn.message, replay.clone()),
				Ok(Err(e)) => run.violation("ser;class=write;event=error", &format!("{:?}", e), replay.clone()),
				Ok(Ok(b)) => {
					if b != enc {
						run.violation(
							"ser;class=write;event=bytes_differ_from_reference_packing",
							&format!("writer {} vs reference {}", hex(&b), hex(&enc)),
							replay.clone(),
						);
					} else {
						st.bump("ser.writer_bytes_equal_reference", 1);
					}
				}
			}
			// reader
			match read(&enc, ver) {
				Err(pn) => run.violation(&format!("ser;class=read;event=panic@{}", pn.location), &pn.message, replay.clone()),
				Ok(Ok(q)) => {
					if !readable {
						run.violation("ser;class=read;event=short_encoding_accepted", "an encoding below 8 bytes was accepted", replay.clone());
					} else if q.edge_bits != eb || q.nonces != nonces {
						run.violation(
							"ser;class=roundtrip;event=not_bit_exact",
							&format!("read back edge_bits {} nonces {:?}", q.edge_bits, q.nonces),
							replay.clone(),
						);
					} else {
						st.bump("ser.roundtrip_exact", 1);
					}
				}
				Ok(Err(_)) => {
					if readable {
						run.violation("ser;class=read;event=canonical_encoding_refused", "a canonical encoding was refused", replay.clone());
					} else {
						st.bump("ser.short_encoding_refused", 1);
					}
				}
			}
			if !readable {
				continue;
			}
			// non-zero padding must be refused
			if pad > 0 && k < w.shared.tier.pick(6, 20) {
				for pat in 1u8..(1 << pad) {
					let mut bad = enc.clone();
					let last = bad.len() - 1;
					bad[last] |= pat << (8 - pad);
					st.case(&format!("ser_padding;{};eb{};pad{};pat{}", cn, eb, pad, pat));
					match read(&bad, ver) {
						Err(pn) => run.violation(&format!("ser;class=padding;event=panic@{}", pn.location), &pn.message, replay.clone()),
						Ok(Ok(_)) => run.violation(
							"ser;class=padding;event=nonzero_padding_accepted",
							&format!("encoding {} with padding bits {:#b} was accepted", hex(&bad), pat),
							json!({"kind": "ser_padding", "chain": cn, "edge_bits": eb, "bytes_hex": hex(&bad)}),
						),
						Ok(Err(_)) => st.bump("ser.nonzero_padding_refused", 1),
					}
				}
				if k == 5 && eb == 31 {
					let mut bad = enc.clone();
					let last = bad.len() - 1;
					bad[last] |= 0x80;
					w.shared.sample(
						"ser_padding",
						json!({"workload": "serialisation", "chain": cn, "edge_bits": eb, "padding_bits": pad, "canonical_hex": hex(&enc),
							"canonical": "read back bit-exactly", "top padding bit set (last byte |= 0x80)": "refused"}),
					);
				}
			}
			// truncation
			if k < 6 {
				let cut = enc[..enc.len() - 1 - p.usize_below(enc.len() - 1)].to_vec();
				st.case(&format!("ser_truncated;{};eb{}", cn, eb));
				match read(&cut, ver) {
					Err(pn) => run.violation(&format!("ser;class=truncated;event=panic@{}", pn.location), &pn.message, replay.clone()),
					Ok(Ok(_)) => run.violation("ser;class=truncated;event=accepted", "a truncated encoding was accepted", replay.clone()),
					Ok(Err(_)) => st.bump("ser.truncated_refused", 1),
				}
			}
			// arbitrary accepted bytes are canonical: read -> write gives the same bytes
			let mut rnd = p.bytes(bytes_len);
			if pad > 0 {
				let last = rnd.len() - 1;
				rnd[last] &= 0xff >> pad;
			}
			let mut renc = vec![eb];
			renc.extend_from_slice(&rnd);
			st.case(&format!("ser_random_bytes;{};eb{}", cn, eb));
			match read(&renc, ver) {
				Err(pn) => run.violation(&format!("ser;class=read;event=panic@{}", pn.location), &pn.message, replay.clone()),
				Ok(Err(_)) => run.violation(
					"ser;class=read;event=canonical_encoding_refused",
					"random bytes with zero padding refused",
					json!({"kind": "ser_bytes", "chain": cn, "bytes_hex": hex(&renc)}),
				),
				Ok(Ok(q)) => {
					let expn = ref_unpack(&rnd, eb as u32, l);
					let back = monitor::catch(|| ser::ser_vec(&q, ProtocolVersion(ver)));
					if q.nonces != expn || q.edge_bits != eb {
						run.violation(
							"ser;class=read;event=nonces_differ_from_reference_unpacking",
							&format!("{:?} vs {:?}", q.nonces, expn),
							json!({"kind": "ser_bytes", "chain": cn, "bytes_hex": hex(&renc)}),
						);
					} else if !matches!(&back, Ok(Ok(b)) if *b == renc) {
						run.violation(
							"ser;class=roundtrip;event=reserialised_bytes_differ",
							"read then write does not reproduce the bytes",
							json!({"kind": "ser_bytes", "chain": cn, "bytes_hex": hex(&renc)}),
						);
					} else {
						st.bump("ser.bytes_roundtrip_exact", 1);
					}
				}
			}
		}
	}
	// edge_bits outside 1..=63
	for eb in [0u8, 64, 65, 100, 127, 128, 200, 254, 255] {
		for ver in versions {
			let mut enc = vec![eb];
			enc.extend_from_slice(&p.bytes(600));
			st.case(&format!("ser_bad_edge_bits;{};eb{}", cn, eb));
			match read(&enc, ver) {
				Err(pn) => run.violation(
					&format!("ser;class=bad_edge_bits;event=panic@{}", pn.location),
					&pn.message,
					json!({"kind": "ser_bytes", "chain": cn, "bytes_hex": hex(&enc)}),
				),
				Ok(Ok(_)) => run.violation(
					"ser;class=bad_edge_bits;event=accepted",
					&format!("edge_bits {} accepted", eb),
					json!({"kind": "ser_bytes", "chain": cn, "bytes_hex": hex(&enc)}),
				),
				Ok(Err(_)) => st.bump("ser.bad_edge_bits_refused", 1),
			}
		}
	}
	st.flush(run);
}

fn queue_ser(shared: &Arc<Shared>) {
	let n = shared.n(24, 400);
	for chain in [ChainTypes::Mainnet, ChainTypes::AutomatedTesting, ChainTypes::UserTesting] {
		shared.push(None, format!("ser {}", chain_name(chain)), Box::new(move |w| ser_job(w, chain, n)));
	}
}
