//! C05 — PoW verification accepts exactly the simple cycles of the header-seeded graph.
//!
//! Runtime monitoring, differential: every `PoWContext::verify` execution (five context types, built through
//! the public constructors / `global::create_pow_context` / `pow::verify_size`) is compared with an
//! independent reference decider `RefGraph::analyse` written from the Cuckoo Cycle family definitions
//! (John Tromp), not from the verifier's control flow:
//!
//! * keys: blake2b-256 of the header (optionally with the last 4 bytes replaced by a little-endian u32
//!   nonce), read as four little-endian u64 (blake2b is trusted base, reached through `HashWriter`);
//! * siphash-2-4 on a 4-word key state, rotation parameter 21 (cuckatoo, cuckaroo, cuckaroom, cuckarooz)
//!   or 25 (cuckarood) in the third rotation of the SipRound (constants checked against
//!   core/src/pow/{cuckaroo,cuckarood,cuckaroom,cuckarooz}.rs and siphash.rs);
//! * siphash block: 64 consecutive nonces hashed with ONE running state; the value of position p is
//!   h[p] ^ h[63] (p < 63; h[63] alone for p = 63) for cuckaroo/cuckarood, and h[p] ^ h[p+1] ^ .. ^ h[63]
//!   for cuckaroom/cuckarooz;
//! * graphs (N = 2^edge_bits edges):
//!     cuckatoo : bipartite, u = siphash(2i) & (N-1) on side U, v = siphash(2i+1) & (N-1) on side V; two edges are
//!                adjacent at a side iff their endpoints there differ in the lowest bit only (node pairs);
//!     cuckaroo : bipartite undirected, e = sipblock(i): u = e & (N-1), v = (e >> 32) & (N-1);
//!     cuckarood: bipartite DIRECTED, node mask N/2-1; even i goes U->V, odd i goes V->U;
//!     cuckaroom: monopartite DIRECTED u -> v, node mask N-1;
//!     cuckarooz: monopartite undirected, node mask 2N-1.
//! * decider: a proof is valid iff |nonces| = proof size, all nonces < N, strictly ascending, and the 2L
//!   half-edges are perfectly matched by the variant's junction rule (every half-edge has exactly one
//!   partner: same node [undirected], node^1 [cuckatoo], same node with opposite role tail/head
//!   [directed]) and the edges joined that way form ONE component (union-find). A perfectly matched,
//!   connected set of L edges is exactly one simple L-cycle obeying the direction constraints.
//!
//! Also: a hang monitor (a verify call that does not return is a refutation: no verdict is produced),
//! panic monitor, difficulty formula over independently packed nonces, Proof serialisation round trip and
//! padding refusal, variant selection by chain type / height / edge bits.

use grin_core::consensus;
use grin_core::core::hash::HashWriter;
use grin_core::core::BlockHeader;
use grin_core::global::{self, ChainTypes};
use grin_core::pow::{self, Difficulty, PoWContext, Proof, ProofOfWork};
use grin_core::ser::{self, DeserializationMode, ProtocolVersion, Writer};
use serde_json::{json, Value};
use std::collections::{BTreeMap, HashSet, VecDeque};
use std::sync::atomic::{AtomicBool, AtomicU64, AtomicUsize, Ordering};
use std::sync::{Arc, Mutex};
use std::time::{Duration, Instant};
use vcommon::ctx::{Run, Tier};
use vcommon::monitor;
use vcommon::prng::{fnv64, Prng};

// =====================================================================================================
// Reference model
// =====================================================================================================

#[derive(Clone, Copy, PartialEq, Eq, Debug, Hash, PartialOrd, Ord)]
enum Variant {
	Cuckatoo,
	Cuckaroo,
	Cuckarood,
	Cuckaroom,
	Cuckarooz,
}

const VARIANTS: [Variant; 5] = [
	Variant::Cuckatoo,
	Variant::Cuckaroo,
	Variant::Cuckarood,
	Variant::Cuckaroom,
	Variant::Cuckarooz,
];

impl Variant {
	fn name(self) -> &'static str {
		match self {
			Variant::Cuckatoo => "cuckatoo",
			Variant::Cuckaroo => "cuckaroo",
			Variant::Cuckarood => "cuckarood",
			Variant::Cuckaroom => "cuckaroom",
			Variant::Cuckarooz => "cuckarooz",
		}
	}
	fn from_name(s: &str) -> Option<Variant> {
		VARIANTS.iter().copied().find(|v| v.name() == s)
	}
	fn idx(self) -> usize {
		self as usize
	}
	/// third rotation constant of the SipRound
	fn rot(self) -> u32 {
		match self {
			Variant::Cuckarood => 25,
			_ => 21,
		}
	}
	fn node_bits(self, edge_bits: u32) -> u32 {
		match self {
			Variant::Cuckarood => edge_bits - 1,
			Variant::Cuckarooz => edge_bits + 1,
			_ => edge_bits,
		}
	}
	fn directed(self) -> bool {
		matches!(self, Variant::Cuckarood | Variant::Cuckaroom)
	}
}

fn blake2b_256(data: &[u8]) -> [u8; 32] {
	let mut w = HashWriter::default();
	w.write_fixed_bytes(data).unwrap();
	let mut out = [0u8; 32];
	w.finalize(&mut out);
	out
}

/// Siphash keys of a header: blake2b-256 over the header, whose last four bytes are replaced by the
/// little-endian nonce when one is given.
fn ref_keys(header: &[u8], nonce: Option<u32>) -> [u64; 4] {
	let mut h = header.to_vec();
	if let Some(n) = nonce {
		let l = h.len();
		h[l - 4..].copy_from_slice(&n.to_le_bytes());
	}
	let d = blake2b_256(&h);
	let mut k = [0u64; 4];
	for i in 0..4 {
		let mut b = [0u8; 8];
		b.copy_from_slice(&d[8 * i..8 * i + 8]);
		k[i] = u64::from_le_bytes(b);
	}
	k
}

#[derive(Clone, Copy)]
struct Sip {
	v0: u64,
	v1: u64,
	v2: u64,
	v3: u64,
}

impl Sip {
	fn new(k: &[u64; 4]) -> Sip {
		Sip {
			v0: k[0],
			v1: k[1],
			v2: k[2],
			v3: k[3],
		}
	}
	/// SipRound as in the SipHash paper, the rotation by 21 being the parameter.
	#[inline]
	fn round(&mut self, rot: u32) {
		self.v0 = self.v0.wrapping_add(self.v1);
		self.v1 = self.v1.rotate_left(13);
		self.v1 ^= self.v0;
		self.v0 = self.v0.rotate_left(32);
		self.v2 = self.v2.wrapping_add(self.v3);
		self.v3 = self.v3.rotate_left(16);
		self.v3 ^= self.v2;
		self.v0 = self.v0.wrapping_add(self.v3);
		self.v3 = self.v3.rotate_left(rot);
		self.v3 ^= self.v0;
		self.v2 = self.v2.wrapping_add(self.v1);
		self.v1 = self.v1.rotate_left(17);
		self.v1 ^= self.v2;
		self.v2 = self.v2.rotate_left(32);
	}
	/// absorb one 64-bit word: 2 compression rounds, 4 finalisation rounds
	#[inline]
	fn absorb(&mut self, m: u64, rot: u32) {
		self.v3 ^= m;
		self.round(rot);
		self.round(rot);
		self.v0 ^= m;
		self.v2 ^= 0xff;
		for _ in 0..4 {
			self.round(rot);
		}
	}
	#[inline]
	fn out(&self) -> u64 {
		self.v0 ^ self.v1 ^ self.v2 ^ self.v3
	}
}

fn ref_siphash24(k: &[u64; 4], m: u64, rot: u32) -> u64 {
	let mut s = Sip::new(k);
	s.absorb(m, rot);
	s.out()
}

/// The 64 edge values of the siphash block starting at `start` (multiple of 64).
fn ref_sipblock(k: &[u64; 4], start: u64, rot: u32, xor_all_later: bool) -> [u64; 64] {
	let mut h = [0u64; 64];
	let mut s = Sip::new(k);
	for i in 0..64u64 {
		s.absorb(start + i, rot);
		h[i as usize] = s.out();
	}
	let mut e = [0u64; 64];
	e[63] = h[63];
	if xor_all_later {
		let mut acc = h[63];
		for p in (0..63).rev() {
			acc ^= h[p];
			e[p] = acc;
		}
	} else {
		for p in 0..63 {
			e[p] = h[p] ^ h[63];
		}
	}
	e
}

const SIDE_BIT: u64 = 1 << 40;
const ROLE_BIT: u64 = 1 << 41;

/// One end of an edge: `own` is where it attaches, `join` is the `own` value a half-edge must have to be
/// its successor/predecessor in a cycle, `und` is the underlying undirected node (shape labels only).
#[derive(Clone, Copy, Debug)]
struct Half {
	own: u64,
	join: u64,
	und: u64,
}

struct RefGraph {
	variant: Variant,
	edge_bits: u32,
	keys: [u64; 4],
	num_edges: u64,
	node_mask: u64,
	table: Option<Vec<(u32, u32)>>,
}

#[derive(Clone, Copy, PartialEq, Eq, Hash, Debug, PartialOrd, Ord)]
enum Shape {
	Cycle,
	WrongCount,
	OutOfRange,
	Duplicate,
	Unsorted,
	DisjointCycles,
	BadJoinCycle,
	BadJoinDisjoint,
	OpenPath,
	FigureEight,
	Theta,
	Other,
}

impl Shape {
	fn name(self) -> &'static str {
		match self {
			Shape::Cycle => "cycle",
			Shape::WrongCount => "wrong_count",
			Shape::OutOfRange => "out_of_range",
			Shape::Duplicate => "duplicate",
			Shape::Unsorted => "unsorted",
			Shape::DisjointCycles => "disjoint_cycles",
			Shape::BadJoinCycle => "und_cycle_bad_direction_or_port",
			Shape::BadJoinDisjoint => "und_disjoint_cycles_bad_direction_or_port",
			Shape::OpenPath => "open_path",
			Shape::FigureEight => "figure_eight",
			Shape::Theta => "theta",
			Shape::Other => "other",
		}
	}
}

#[derive(Clone, Copy, Debug)]
struct Analysis {
	valid: bool,
	shape: Shape,
	/// nodes of degree 1 / of degree >= 3 / components (underlying undirected graph), capped
	d1: u8,
	dh: u8,
	comps: u8,
}

fn uf_find(p: &mut [usize], mut x: usize) -> usize {
	while p[x] != x {
		p[x] = p[p[x]];
		x = p[x];
	}
	x
}

impl RefGraph {
	fn new(variant: Variant, edge_bits: u32, keys: [u64; 4], with_table: bool) -> RefGraph {
		let num_edges = 1u64 << edge_bits;
		let node_mask = (1u64 << variant.node_bits(edge_bits)) - 1;
		let mut g = RefGraph {
			variant,
			edge_bits,
			keys,
			num_edges,
			node_mask,
			table: None,
		};
		if with_table && edge_bits <= 20 {
			let mut t = Vec::with_capacity(num_edges as usize);
			if variant == Variant::Cuckatoo {
				for i in 0..num_edges {
					let (u, v) = g.compute_endpoints(i);
					t.push((u as u32, v as u32));
				}
			} else {
				let xor_all = matches!(variant, Variant::Cuckaroom | Variant::Cuckarooz);
				let mut start = 0;
				while start < num_edges {
					// graphs smaller than one block still hash the whole block
					let e = ref_sipblock(&keys, start, variant.rot(), xor_all);
					for p in 0..64u64 {
						if start + p < num_edges {
							let x = e[p as usize];
							t.push(((x & node_mask) as u32, ((x >> 32) & node_mask) as u32));
						}
					}
					start += 64;
				}
			}
			g.table = Some(t);
		}
		g
	}

	fn compute_endpoints(&self, i: u64) -> (u64, u64) {
		match self.variant {
			Variant::Cuckatoo => (
				ref_siphash24(&self.keys, 2 * i, 21) & self.node_mask,
				ref_siphash24(&self.keys, 2 * i + 1, 21) & self.node_mask,
			),
			v => {
				let xor_all = matches!(v, Variant::Cuckaroom | Variant::Cuckarooz);
				let e = ref_sipblock(&self.keys, i & !63, v.rot(), xor_all)[(i & 63) as usize];
				(e & self.node_mask, (e >> 32) & self.node_mask)
			}
		}
	}

	#[inline]
	fn endpoints(&self, i: u64) -> (u64, u64) {
		if let Some(t) = &self.table {
			let (u, v) = t[i as usize];
			(u as u64, v as u64)
		} else {
			self.compute_endpoints(i)
		}
	}

	/// Half-edge `end` (0 = u end, 1 = v end) of edge `i`.
	#[inline]
	fn half(&self, i: u64, end: u64) -> Half {
		let (u, v) = self.endpoints(i);
		let node = if end == 0 { u } else { v };
		match self.variant {
			Variant::Cuckaroo => {
				let k = end * SIDE_BIT | node;
				Half {
					own: k,
					join: k,
					und: k,
				}
			}
			Variant::Cuckarooz => Half {
				own: node,
				join: node,
				und: node,
			},
			Variant::Cuckatoo => Half {
				own: end * SIDE_BIT | node,
				join: end * SIDE_BIT | (node ^ 1),
				und: end * SIDE_BIT | (node >> 1),
			},
			Variant::Cuckarood => {
				// even edge: tail at U, head at V; odd edge: tail at V, head at U. role 0 = tail, 1 = head
				let role = end ^ (i & 1);
				let k = end * SIDE_BIT | node;
				Half {
					own: role * ROLE_BIT | k,
					join: (role ^ 1) * ROLE_BIT | k,
					und: k,
				}
			}
			Variant::Cuckaroom => {
				// tail at u, head at v
				let role = end;
				Half {
					own: role * ROLE_BIT | node,
					join: (role ^ 1) * ROLE_BIT | node,
					und: node,
				}
			}
		}
	}

	/// The reference decider plus a shape label for evidence.
	fn analyse(&self, nonces: &[u64], proof_size: usize) -> Analysis {
		let pre = |shape| Analysis {
			valid: false,
			shape,
			d1: 0,
			dh: 0,
			comps: 0,
		};
		if nonces.len() != proof_size {
			return pre(Shape::WrongCount);
		}
		if nonces.iter().any(|n| *n >= self.num_edges) {
			return pre(Shape::OutOfRange);
		}
		if nonces.windows(2).any(|w| w[1] == w[0]) {
			return pre(Shape::Duplicate);
		}
		if nonces.windows(2).any(|w| w[1] < w[0]) {
			return pre(Shape::Unsorted);
		}
		let l = nonces.len();
		let n = 2 * l;
		let mut hs: Vec<Half> = Vec::with_capacity(n);
		for &x in nonces {
			hs.push(self.half(x, 0));
			hs.push(self.half(x, 1));
		}
		// junction matching
		let mut perfect = true;
		let mut parent: Vec<usize> = (0..l).collect();
		for h in 0..n {
			let mut cnt = 0;
			let mut partner = 0;
			for g in 0..n {
				if g != h && hs[g].own == hs[h].join {
					cnt += 1;
					partner = g;
				}
			}
			if cnt != 1 {
				perfect = false;
			} else {
				let a = uf_find(&mut parent, h / 2);
				let b = uf_find(&mut parent, partner / 2);
				parent[a] = b;
			}
		}
		if perfect {
			let mut comps = 0;
			for e in 0..l {
				if uf_find(&mut parent, e) == e {
					comps += 1;
				}
			}
			return Analysis {
				valid: comps == 1,
				shape: if comps == 1 {
					Shape::Cycle
				} else {
					Shape::DisjointCycles
				},
				d1: 0,
				dh: 0,
				comps: comps.min(255) as u8,
			};
		}
		// not a cycle: label by the underlying undirected multigraph
		let mut up: Vec<usize> = (0..l).collect();
		let (mut d1, mut dh, mut maxdeg) = (0usize, 0usize, 0usize);
		for h in 0..n {
			let mut deg = 0;
			let mut first = true;
			for g in 0..n {
				if hs[g].und == hs[h].und {
					deg += 1;
					if g < h {
						first = false;
					}
					let a = uf_find(&mut up, h / 2);
					let b = uf_find(&mut up, g / 2);
					up[a] = b;
				}
			}
			if first {
				if deg == 1 {
					d1 += 1;
				}
				if deg >= 3 {
					dh += 1;
				}
				maxdeg = maxdeg.max(deg);
			}
		}
		let mut comps = 0;
		for e in 0..l {
			if uf_find(&mut up, e) == e {
				comps += 1;
			}
		}
		let shape = if d1 == 0 && dh == 0 {
			if comps == 1 {
				Shape::BadJoinCycle
			} else {
				Shape::BadJoinDisjoint
			}
		} else if d1 == 2 && dh == 0 && comps == 1 {
			Shape::OpenPath
		} else if d1 == 0 && dh == 1 && maxdeg == 4 && comps == 1 {
			Shape::FigureEight
		} else if d1 == 0 && dh == 2 && maxdeg == 3 && comps == 1 {
			Shape::Theta
		} else {
			Shape::Other
		};
		Analysis {
			valid: false,
			shape,
			d1: d1.min(9) as u8,
			dh: dh.min(9) as u8,
			comps: comps.min(9) as u8,
		}
	}
}

// ----------------------------------------------------------------------------------------------------
// Reference solver: enumerates simple cycles of the reference graph (DFS over the junction relation).
// ----------------------------------------------------------------------------------------------------

#[derive(Clone, Copy, PartialEq, Eq)]
enum JoinMode {
	/// the variant's junction rule (direction / node-pair port respected)
	Strict,
	/// underlying undirected graph (used to build "cycle with wrong direction/port" near misses)
	Loose,
}

struct Adjacency {
	/// (own key, half-edge id = 2*edge+end), sorted
	by_key: Vec<(u64, u32)>,
	mode: JoinMode,
}

impl Adjacency {
	fn build(g: &RefGraph, mode: JoinMode) -> Adjacency {
		let mut by_key = Vec::with_capacity(2 * g.num_edges as usize);
		for i in 0..g.num_edges {
			for end in 0..2u64 {
				let h = g.half(i, end);
				let k = if mode == JoinMode::Strict { h.own } else { h.und };
				by_key.push((k, (2 * i + end) as u32));
			}
		}
		by_key.sort_unstable();
		Adjacency { by_key, mode }
	}
	fn own(&self, g: &RefGraph, he: u32) -> u64 {
		let h = g.half((he >> 1) as u64, (he & 1) as u64);
		if self.mode == JoinMode::Strict {
			h.own
		} else {
			h.und
		}
	}
	fn join(&self, g: &RefGraph, he: u32) -> u64 {
		let h = g.half((he >> 1) as u64, (he & 1) as u64);
		if self.mode == JoinMode::Strict {
			h.join
		} else {
			h.und
		}
	}
	fn with_key(&self, key: u64) -> &[(u64, u32)] {
		let lo = self.by_key.partition_point(|x| x.0 < key);
		let mut hi = lo;
		while hi < self.by_key.len() && self.by_key[hi].0 == key {
			hi += 1;
		}
		&self.by_key[lo..hi]
	}
}

struct CycleSearch<'a> {
	g: &'a RefGraph,
	adj: &'a Adjacency,
	min_len: usize,
	max_len: usize,
	steps: u64,
	step_cap: u64,
	out_cap: usize,
	/// cycles as edge lists in traversal order
	out: Vec<Vec<u64>>,
	truncated: bool,
	// per-start state
	start: u64,
	start_node: u64,
	path: Vec<u64>,
	nodes: Vec<u64>,
	/// record open simple paths of exactly max_len edges instead of cycles
	want_paths: bool,
}

impl<'a> CycleSearch<'a> {
	fn dfs(&mut self, cur: u32) {
		if self.truncated {
			return;
		}
		self.steps += 1;
		if self.steps > self.step_cap {
			self.truncated = true;
			return;
		}
		let key = self.adj.join(self.g, cur);
		let cands: Vec<u32> = self.adj.with_key(key).iter().map(|x| x.1).collect();
		for gh in cands {
			if gh == cur {
				continue;
			}
			let e = (gh >> 1) as u64;
			if (!self.want_paths && e <= self.start) || self.path.contains(&e) {
				continue;
			}
			let next = gh ^ 1;
			let nnode = self.g.half(e, (next & 1) as u64).und;
			if nnode == self.start_node {
				let s0 = (2 * self.start) as u32;
				if !self.want_paths
					&& self.adj.own(self.g, s0) == self.adj.join(self.g, next)
					&& self.path.len() + 1 >= self.min_len
					&& self.path.len() + 1 <= self.max_len
				{
					let mut c = self.path.clone();
					c.push(e);
					self.out.push(c);
					if self.out.len() >= self.out_cap {
						self.truncated = true;
						return;
					}
				}
				continue;
			}
			if self.nodes.contains(&nnode) {
				continue;
			}
			if self.want_paths && self.path.len() + 1 == self.max_len {
				let mut c = self.path.clone();
				c.push(e);
				self.out.push(c);
				if self.out.len() >= self.out_cap {
					self.truncated = true;
					return;
				}
				continue;
			}
			if self.path.len() + 1 >= self.max_len {
				continue;
			}
			self.path.push(e);
			self.nodes.push(nnode);
			self.dfs(next);
			self.path.pop();
			self.nodes.pop();
			if self.truncated {
				return;
			}
		}
	}
}

/// All simple cycles with min_len <= length <= max_len (each found once, rooted at its smallest edge).
fn find_cycles(
	g: &RefGraph,
	adj: &Adjacency,
	min_len: usize,
	max_len: usize,
	step_cap: u64,
	out_cap: usize,
	want_paths: bool,
	start_from: u64,
) -> (Vec<Vec<u64>>, bool) {
	let mut s = CycleSearch {
		g,
		adj,
		min_len,
		max_len,
		steps: 0,
		step_cap,
		out_cap,
		out: vec![],
		truncated: false,
		start: 0,
		start_node: 0,
		path: vec![],
		nodes: vec![],
		want_paths,
	};
	for k in 0..g.num_edges {
		let st = (start_from + k) % g.num_edges;
		if s.truncated {
			break;
		}
		let h0 = (2 * st) as u32;
		let h1 = h0 + 1;
		s.start = st;
		s.start_node = g.half(st, 0).und;
		let n1 = g.half(st, 1).und;
		if n1 == s.start_node {
			// self loop (monopartite variants)
			if !want_paths && min_len <= 1 && adj.own(g, h0) == adj.join(g, h1) {
				s.out.push(vec![st]);
			}
			continue;
		}
		s.path.clear();
		s.nodes.clear();
		s.path.push(st);
		s.nodes.push(n1);
		s.dfs(h1);
	}
	(s.out, s.truncated)
}

// ----------------------------------------------------------------------------------------------------
// Independent nonce packing / difficulty
// ----------------------------------------------------------------------------------------------------

/// Nonce i occupies bits [i*w, (i+1)*w) of a little-endian bit string padded with zero bits to a whole
/// number of bytes.
fn ref_pack(nonces: &[u64], width: u32) -> Vec<u8> {
	let total = nonces.len() * width as usize;
	let mut out = vec![0u8; (total + 7) / 8];
	for (i, n) in nonces.iter().enumerate() {
		for b in 0..width as usize {
			if (n >> b) & 1 == 1 {
				let pos = i * width as usize + b;
				out[pos / 8] |= 1 << (pos % 8);
			}
		}
	}
	out
}

fn ref_unscaled_hash(nonces: &[u64], width: u32) -> u64 {
	let d = blake2b_256(&ref_pack(nonces, width));
	let mut b = [0u8; 8];
	b.copy_from_slice(&d[..8]);
	u64::from_be_bytes(b)
}

fn ref_difficulty(nonces: &[u64], width: u32, scale: u64) -> u64 {
	let h = ref_unscaled_hash(nonces, width).max(1) as u128;
	let d = ((scale as u128) << 64) / h;
	let d = if d > u64::MAX as u128 { u64::MAX } else { d as u64 };
	d.max(1)
}

// =====================================================================================================
// Engine: job queue, worker threads, hang monitor
// =====================================================================================================

fn chain_name(c: ChainTypes) -> &'static str {
	match c {
		ChainTypes::AutomatedTesting => "AutomatedTesting",
		ChainTypes::UserTesting => "UserTesting",
		ChainTypes::Testnet => "Testnet",
		ChainTypes::Mainnet => "Mainnet",
	}
}

fn chain_from_name(s: &str) -> ChainTypes {
	match s {
		"AutomatedTesting" => ChainTypes::AutomatedTesting,
		"UserTesting" => ChainTypes::UserTesting,
		"Testnet" => ChainTypes::Testnet,
		_ => ChainTypes::Mainnet,
	}
}

fn chain_for_size(l: usize) -> ChainTypes {
	if l == 8 {
		ChainTypes::AutomatedTesting
	} else {
		ChainTypes::UserTesting
	}
}

fn hex(b: &[u8]) -> String {
	b.iter().map(|x| format!("{:02x}", x)).collect()
}

fn unhex(s: &str) -> Vec<u8> {
	(0..s.len() / 2)
		.map(|i| u8::from_str_radix(&s[2 * i..2 * i + 2], 16).unwrap_or(0))
		.collect()
}

fn make_ctx(v: Variant, eb: u8, l: usize) -> Result<Box<dyn PoWContext>, pow::Error> {
	match v {
		Variant::Cuckatoo => pow::new_cuckatoo_ctx(eb, l, 10),
		Variant::Cuckaroo => pow::new_cuckaroo_ctx(eb, l),
		Variant::Cuckarood => pow::new_cuckarood_ctx(eb, l),
		Variant::Cuckaroom => pow::new_cuckaroom_ctx(eb, l),
		Variant::Cuckarooz => pow::new_cuckarooz_ctx(eb, l),
	}
}

/// Everything needed to re-run one verify call (violation replay, hang reproduction).
#[derive(Clone, Debug)]
struct CaseInfo {
	variant: Variant,
	edge_bits: u8,
	proof_size: usize,
	chain: ChainTypes,
	header: Vec<u8>,
	hnonce: Option<u32>,
	nonces: Vec<u64>,
	class: String,
}

impl CaseInfo {
	fn to_json(&self) -> Value {
		json!({
			"kind": "verify",
			"variant": self.variant.name(),
			"edge_bits": self.edge_bits,
			"proof_size": self.proof_size,
			"chain": chain_name(self.chain),
			"header_hex": hex(&self.header),
			"header_nonce": self.hnonce,
			"nonces": self.nonces,
			"class": self.class,
		})
	}
	fn from_json(v: &Value) -> Option<CaseInfo> {
		Some(CaseInfo {
			variant: Variant::from_name(v.get("variant")?.as_str()?)?,
			edge_bits: v.get("edge_bits")?.as_u64()? as u8,
			proof_size: v.get("proof_size")?.as_u64()? as usize,
			chain: chain_from_name(v.get("chain")?.as_str()?),
			header: unhex(v.get("header_hex")?.as_str()?),
			hnonce: v.get("header_nonce").and_then(|x| x.as_u64()).map(|x| x as u32),
			nonces: v
				.get("nonces")?
				.as_array()?
				.iter()
				.map(|x| x.as_u64().unwrap_or(0))
				.collect(),
			class: v.get("class").and_then(|x| x.as_str()).unwrap_or("").to_string(),
		})
	}
	/// Run the case in the current thread: Ok(accepted) or panic report.
	fn run_here(&self) -> Result<bool, monitor::PanicReport> {
		global::set_local_chain_type(self.chain);
		let info = self.clone();
		monitor::catch(move || {
			let mut ctx = make_ctx(info.variant, info.edge_bits, info.proof_size).expect("ctx");
			ctx.set_header_nonce(info.header.clone(), info.hnonce, false)
				.expect("set_header_nonce");
			let p = Proof {
				edge_bits: info.edge_bits,
				nonces: info.nonces.clone(),
			};
			ctx.verify(&p).is_ok()
		})
	}
	fn ref_analysis(&self) -> Analysis {
		let g = RefGraph::new(
			self.variant,
			self.edge_bits as u32,
			ref_keys(&self.header, self.hnonce),
			false,
		);
		g.analyse(&self.nonces, self.proof_size)
	}
}

/// Run a case in a fresh thread with a time limit. None = did not return in time (thread is leaked).
fn run_with_timeout(info: &CaseInfo, ms: u64) -> Option<Result<bool, monitor::PanicReport>> {
	let (tx, rx) = std::sync::mpsc::channel();
	let info = info.clone();
	std::thread::spawn(move || {
		let r = info.run_here();
		let _ = tx.send(r);
	});
	rx.recv_timeout(Duration::from_millis(ms)).ok()
}

struct Slot {
	/// ms since engine start (+1) at which the current verify call began; 0 = not inside a call
	busy_since: AtomicU64,
	dead: AtomicBool,
	info: Mutex<CaseInfo>,
}

struct Job {
	variant: Option<Variant>,
	name: String,
	f: Box<dyn FnOnce(&Worker) + Send>,
}

struct Shared {
	run: &'static Run,
	t0: Instant,
	queue: Mutex<VecDeque<Job>>,
	slots: Mutex<Vec<Arc<Slot>>>,
	jobs_open: AtomicUsize,
	suspended: [AtomicBool; 5],
	disabled: [AtomicBool; 5],
	hangs: AtomicU64,
	jobs_skipped: AtomicU64,
	deadline: Instant,
	hang_ms: u64,
	scale: f64,
	tier: Tier,
	samples: Mutex<BTreeMap<String, Value>>,
	done: AtomicBool,
}

impl Shared {
	fn now_ms(&self) -> u64 {
		self.t0.elapsed().as_millis() as u64 + 1
	}
	fn push(self: &Arc<Self>, variant: Option<Variant>, name: String, f: Box<dyn FnOnce(&Worker) + Send>) {
		self.jobs_open.fetch_add(1, Ordering::SeqCst);
		self.queue.lock().unwrap().push_back(Job { variant, name, f });
	}
	fn out_of_time(&self) -> bool {
		Instant::now() >= self.deadline
	}
	/// scaled count: quick q, thorough t, sanitizer runs a tenth of quick
	fn n(&self, q: u64, t: u64) -> u64 {
		let base = self.tier.pick(q, t) as f64;
		((base * self.scale).ceil() as u64).max(1)
	}
	fn sample(&self, kind: &str, v: Value) {
		let mut s = self.samples.lock().unwrap();
		s.entry(kind.to_string()).or_insert(v);
	}
}

struct Worker {
	shared: Arc<Shared>,
	slot: Arc<Slot>,
}

enum Outcome {
	Accept,
	Reject,
	Panic(monitor::PanicReport),
}

impl Outcome {
	fn name(&self) -> String {
		match self {
			Outcome::Accept => "accept".into(),
			Outcome::Reject => "reject".into(),
			Outcome::Panic(p) => format!("panic@{}", p.location),
		}
	}
}

impl Worker {
	fn run(&self) -> &'static Run {
		self.shared.run
	}

	/// Describe the verification context of the cases that follow (also sets the thread's chain type).
	fn set_case_ctx(&self, variant: Variant, eb: u8, l: usize, chain: ChainTypes, header: &[u8], hnonce: Option<u32>) {
		global::set_local_chain_type(chain);
		let mut i = self.slot.info.lock().unwrap();
		i.variant = variant;
		i.edge_bits = eb;
		i.proof_size = l;
		i.chain = chain;
		i.header = header.to_vec();
		i.hnonce = hnonce;
	}

	/// One monitored `verify` call.
	fn verify(&self, ctx: &dyn PoWContext, proof: &Proof, class: &str) -> Outcome {
		{
			let mut i = self.slot.info.lock().unwrap();
			i.nonces.clear();
			i.nonces.extend_from_slice(&proof.nonces);
			if i.class != class {
				i.class = class.to_string();
			}
		}
		self.slot.busy_since.store(self.shared.now_ms(), Ordering::SeqCst);
		let r = monitor::catch(|| ctx.verify(proof).is_ok());
		self.slot.busy_since.store(0, Ordering::SeqCst);
		if self.slot.dead.load(Ordering::SeqCst) {
			// declared hung by the monitor but came back: this thread has been replaced, retire it
			loop {
				std::thread::sleep(Duration::from_secs(3600));
			}
		}
		match r {
			Ok(true) => Outcome::Accept,
			Ok(false) => Outcome::Reject,
			Err(p) => Outcome::Panic(p),
		}
	}

	fn case_info(&self) -> CaseInfo {
		self.slot.info.lock().unwrap().clone()
	}
}

fn spawn_worker(shared: &Arc<Shared>) {
	let slot = Arc::new(Slot {
		busy_since: AtomicU64::new(0),
		dead: AtomicBool::new(false),
		info: Mutex::new(CaseInfo {
			variant: Variant::Cuckatoo,
			edge_bits: 0,
			proof_size: 0,
			chain: ChainTypes::AutomatedTesting,
			header: vec![],
			hnonce: None,
			nonces: vec![],
			class: String::new(),
		}),
	});
	shared.slots.lock().unwrap().push(slot.clone());
	let w = Worker {
		shared: shared.clone(),
		slot,
	};
	std::thread::Builder::new()
		.stack_size(16 << 20)
		.spawn(move || loop {
			if w.shared.done.load(Ordering::SeqCst) {
				return;
			}
			let job = {
				let mut q = w.shared.queue.lock().unwrap();
				let mut found = None;
				for _ in 0..q.len() {
					let j = q.pop_front().unwrap();
					let susp = j
						.variant
						.map(|v| w.shared.suspended[v.idx()].load(Ordering::SeqCst))
						.unwrap_or(false);
					if susp {
						q.push_back(j);
					} else {
						found = Some(j);
						break;
					}
				}
				found
			};
			let job = match job {
				Some(j) => j,
				None => {
					std::thread::sleep(Duration::from_millis(10));
					continue;
				}
			};
			let skip = job
				.variant
				.map(|v| w.shared.disabled[v.idx()].load(Ordering::SeqCst))
				.unwrap_or(false)
				|| w.shared.out_of_time();
			if skip {
				w.shared.jobs_skipped.fetch_add(1, Ordering::SeqCst);
				w.run().count("engine.jobs_skipped(deadline_or_confirmed_hang)", 1);
			} else {
				let name = job.name.clone();
				let f = job.f;
				if let Err(p) = monitor::catch(|| f(&w)) {
					w.run().inconclusive(&format!(
						"harness panic in job {}: {} @ {}",
						name, p.message, p.location
					));
				}
				w.run().count("engine.jobs_done", 1);
			}
			w.shared.jobs_open.fetch_sub(1, Ordering::SeqCst);
		})
		.expect("spawn worker");
}

fn report_hang(shared: &Arc<Shared>, info: &CaseInfo, reproduced: bool) {
	let a = info.ref_analysis();
	if reproduced {
		shared.run.violation(
			&format!("variant={};event=hang@PoWContext::verify", info.variant.name()),
			&format!(
				"{}: verify() does not return (> {} ms, reproduced in a fresh thread with a fresh context) for a {}-nonce proof that the reference labels '{}' (valid={}); no verdict is ever produced",
				info.variant.name(),
				shared.hang_ms,
				info.nonces.len(),
				a.shape.name(),
				a.valid
			),
			info.to_json(),
		);
	} else {
		shared.run.inconclusive(&format!(
			"{}: a verify call stalled > {} ms but the stall was not reproduced",
			info.variant.name(),
			shared.hang_ms
		));
	}
}

fn spawn_monitor(shared: &Arc<Shared>) {
	let sh = shared.clone();
	std::thread::spawn(move || loop {
		if sh.done.load(Ordering::SeqCst) {
			return;
		}
		std::thread::sleep(Duration::from_millis(50));
		let slots: Vec<Arc<Slot>> = sh.slots.lock().unwrap().clone();
		let now = sh.now_ms();
		for s in slots {
			if s.dead.load(Ordering::SeqCst) {
				continue;
			}
			let b = s.busy_since.load(Ordering::SeqCst);
			if b != 0 && now.saturating_sub(b) > sh.hang_ms {
				let info = s.info.lock().unwrap().clone();
				// re-check: still the same call?
				if s.busy_since.load(Ordering::SeqCst) != b {
					continue;
				}
				s.dead.store(true, Ordering::SeqCst);
				let vi = info.variant.idx();
				sh.suspended[vi].store(true, Ordering::SeqCst);
				sh.hangs.fetch_add(1, Ordering::SeqCst);
				sh.run.count(&format!("{}.verify_calls_hung", info.variant.name()), 1);
				if !sh.disabled[vi].load(Ordering::SeqCst) {
					let reproduced = run_with_timeout(&info, sh.hang_ms * 2).is_none();
					report_hang(&sh, &info, reproduced);
					if reproduced {
						sh.disabled[vi].store(true, Ordering::SeqCst);
					}
				}
				sh.suspended[vi].store(false, Ordering::SeqCst);
				// the job held by the hung thread is abandoned; replace the thread
				sh.run.count("engine.jobs_abandoned_after_hang", 1);
				sh.jobs_open.fetch_sub(1, Ordering::SeqCst);
				spawn_worker(&sh);
			}
		}
	});
}

// ----------------------------------------------------------------------------------------------------
// Per-job statistics (flushed once per job: the Run mutex is not touched per case)
// ----------------------------------------------------------------------------------------------------

#[derive(Default)]
struct Stats {
	evals: u64,
	sigs: HashSet<u64>,
	counters: BTreeMap<String, u64>,
}

impl Stats {
	fn bump(&mut self, name: &str, n: u64) {
		if let Some(c) = self.counters.get_mut(name) {
			*c += n;
		} else {
			self.counters.insert(name.to_string(), n);
		}
	}
	fn case(&mut self, sig: &str) {
		self.evals += 1;
		self.sigs.insert(fnv64(sig.as_bytes()));
	}
	fn flush(&mut self, run: &Run) {
		run.eval_bulk(self.evals, self.sigs.drain());
		for (k, v) in std::mem::take(&mut self.counters) {
			run.count(&k, v);
		}
		self.evals = 0;
	}
}

/// The differential oracle for one case. `wl` = workload tag, `class` = construction class.
fn check_case(
	w: &Worker,
	g: &RefGraph,
	ctx: &dyn PoWContext,
	l: usize,
	wl: &str,
	class: &str,
	nonces: &[u64],
	st: &mut Stats,
) -> (Analysis, bool) {
	let a = g.analyse(nonces, l);
	let proof = Proof {
		edge_bits: g.edge_bits as u8,
		nonces: nonces.to_vec(),
	};
	let out = w.verify(ctx, &proof, class);
	let v = g.variant.name();
	let agreed = match &out {
		Outcome::Accept => a.valid,
		Outcome::Reject => !a.valid,
		Outcome::Panic(_) => false,
	};
	if !agreed {
		let dir = match &out {
			Outcome::Accept => "impl_accepts_ref_rejects".to_string(),
			Outcome::Reject => "impl_rejects_ref_accepts".to_string(),
			Outcome::Panic(p) => format!("panic@{}", p.location),
		};
		let mut info = w.case_info();
		info.class = class.to_string();
		w.run().violation(
			&format!("variant={};proof={};event={}", v, a.shape.name(), dir),
			&format!(
				"{} eb={} L={}: reference says valid={} (shape {}), verify() -> {} [{} / {}]",
				v,
				g.edge_bits,
				l,
				a.valid,
				a.shape.name(),
				out.name(),
				wl,
				class
			),
			info.to_json(),
		);
		st.bump(&format!("{}.DISAGREE", v), 1);
	}
	st.case(&format!(
		"{};{};eb{};L{};{};{};{}{}{};{}",
		wl,
		v,
		g.edge_bits,
		l,
		class,
		a.shape.name(),
		a.d1,
		a.dh,
		a.comps,
		out.name()
	));
	if a.valid {
		st.bump(&format!("{}.valid_accepted", v), matches!(out, Outcome::Accept) as u64);
	} else {
		st.bump(&format!("{}.invalid_rejected", v), matches!(out, Outcome::Reject) as u64);
		st.bump(
			&format!("shape.{}.rejected", a.shape.name()),
			matches!(out, Outcome::Reject) as u64,
		);
	}
	st.bump(
		&format!("class.{}.{}", class, if a.valid { "valid" } else { "invalid" }),
		1,
	);
	(a, matches!(out, Outcome::Accept))
}

// =====================================================================================================
// Workload A: exhaustive over all ascending tuples of tiny graphs (proof size 8)
// =====================================================================================================

const SHAPES: [Shape; 12] = [
	Shape::Cycle,
	Shape::WrongCount,
	Shape::OutOfRange,
	Shape::Duplicate,
	Shape::Unsorted,
	Shape::DisjointCycles,
	Shape::BadJoinCycle,
	Shape::BadJoinDisjoint,
	Shape::OpenPath,
	Shape::FigureEight,
	Shape::Theta,
	Shape::Other,
];

fn seed_header(seed: u64, tag: u64, i: u64) -> Vec<u8> {
	let mut p = Prng::new(seed ^ tag.wrapping_mul(0x9E37_79B9_7F4A_7C15) ^ i.wrapping_mul(0xC2B2_AE3D_27D4_EB4F));
	p.bytes(80)
}

/// Calls f for every ascending k-tuple over 0..n that starts with `prefix`.
fn for_each_combo(n: u64, k: usize, prefix: &[u64], mut f: impl FnMut(&[u64]) -> bool) {
	let p = prefix.len();
	let mut c = vec![0u64; k];
	c[..p].copy_from_slice(prefix);
	for i in p..k {
		c[i] = if i == 0 { 0 } else { c[i - 1] + 1 };
	}
	if c[k - 1] >= n {
		return;
	}
	loop {
		if !f(&c) {
			return;
		}
		let mut i = k;
		loop {
			if i == p {
				return;
			}
			i -= 1;
			if c[i] < n - (k - i) as u64 {
				c[i] += 1;
				for j in i + 1..k {
					c[j] = c[j - 1] + 1;
				}
				break;
			}
		}
	}
}

struct ExhSpec {
	variant: Variant,
	eb: u8,
	header: Vec<u8>,
	prefix: Vec<u64>,
	/// None = every tuple with the prefix; Some((n, seed)) = n random ascending tuples
	sample: Option<(u64, u64)>,
	/// number of L-cycles the reference solver found for this header (only checked for whole-seed jobs)
	solver_cycles: Option<usize>,
	with_mutations: bool,
}

fn exhaustive_job(w: &Worker, spec: ExhSpec) {
	let l = 8usize;
	let v = spec.variant;
	let chain = ChainTypes::AutomatedTesting;
	w.set_case_ctx(v, spec.eb, l, chain, &spec.header, None);
	let g = RefGraph::new(v, spec.eb as u32, ref_keys(&spec.header, None), true);
	let mut ctx = match make_ctx(v, spec.eb, l) {
		Ok(c) => c,
		Err(e) => {
			w.run()
				.inconclusive(&format!("constructor refused {} eb={}: {:?}", v.name(), spec.eb, e));
			return;
		}
	};
	ctx.set_header_nonce(spec.header.clone(), None, false).expect("set_header_nonce");
	let wl = if spec.sample.is_some() { "exh_sampled" } else { "exhaustive" };
	let class = if spec.sample.is_some() {
		"random_ascending_tuple"
	} else {
		"ascending_tuple"
	};
	let mut counts = [[0u64; 3]; 12];
	let mut detail: HashSet<u64> = HashSet::new();
	let mut proof = Proof {
		edge_bits: spec.eb,
		nonces: vec![0; l],
	};
	let mut cycles: Vec<Vec<u64>> = vec![];
	let mut some_rejected: Vec<Vec<u64>> = vec![];
	let mut st = Stats::default();
	let mut n_done = 0u64;
	let mut truncated = false;
	let mut one = |c: &[u64], st: &mut Stats, cycles: &mut Vec<Vec<u64>>, some_rejected: &mut Vec<Vec<u64>>| {
		let a = g.analyse(c, l);
		proof.nonces.copy_from_slice(c);
		let out = w.verify(&*ctx, &proof, class);
		let oi = match &out {
			Outcome::Accept => 0,
			Outcome::Reject => 1,
			Outcome::Panic(_) => 2,
		};
		let si = SHAPES.iter().position(|s| *s == a.shape).unwrap();
		counts[si][oi] += 1;
		detail.insert(
			(si as u64) << 32 | (a.d1 as u64) << 24 | (a.dh as u64) << 16 | (a.comps as u64) << 8 | oi as u64,
		);
		let agreed = (oi == 0 && a.valid) || (oi == 1 && !a.valid);
		if !agreed {
			let dir = match &out {
				Outcome::Accept => "impl_accepts_ref_rejects".to_string(),
				Outcome::Reject => "impl_rejects_ref_accepts".to_string(),
				Outcome::Panic(p) => format!("panic@{}", p.location),
			};
			w.run().violation(
				&format!("variant={};proof={};event={}", v.name(), a.shape.name(), dir),
				&format!(
					"{} eb={} L={}: reference says valid={} (shape {}), verify() -> {} [{}]",
					v.name(),
					spec.eb,
					l,
					a.valid,
					a.shape.name(),
					out.name(),
					wl
				),
				w.case_info().to_json(),
			);
			st.bump(&format!("{}.DISAGREE", v.name()), 1);
		}
		if a.valid {
			cycles.push(c.to_vec());
		} else if some_rejected.len() < 12 && a.shape != Shape::Other {
			some_rejected.push(c.to_vec());
		}
	};
	match spec.sample {
		None => {
			for_each_combo(g.num_edges, l, &spec.prefix, |c| {
				one(c, &mut st, &mut cycles, &mut some_rejected);
				n_done += 1;
				if n_done % 4096 == 0 && w.shared.out_of_time() {
					truncated = true;
					return false;
				}
				true
			});
		}
		Some((n, seed)) => {
			let mut p = Prng::new(seed);
			let mut all: Vec<u64> = (0..g.num_edges).collect();
			for _ in 0..n {
				// partial Fisher-Yates: l distinct edges, sorted
				for i in 0..l {
					let j = i + p.usize_below(all.len() - i);
					all.swap(i, j);
				}
				let mut c = all[..l].to_vec();
				c.sort_unstable();
				one(&c, &mut st, &mut cycles, &mut some_rejected);
				n_done += 1;
				if n_done % 4096 == 0 && w.shared.out_of_time() {
					truncated = true;
					break;
				}
			}
		}
	}
	drop(one);
	// bookkeeping
	let vn = v.name();
	for (si, s) in SHAPES.iter().enumerate() {
		for oi in 0..3 {
			let c = counts[si][oi];
			if c == 0 {
				continue;
			}
			let on = ["accept", "reject", "panic"][oi];
			if *s == Shape::Cycle {
				st.bump(&format!("{}.valid_accepted", vn), if oi == 0 { c } else { 0 });
				st.bump(&format!("{}.{}.cycles_accepted", wl, vn), if oi == 0 { c } else { 0 });
			} else {
				st.bump(&format!("{}.invalid_rejected", vn), if oi == 1 { c } else { 0 });
				st.bump(&format!("shape.{}.rejected", s.name()), if oi == 1 { c } else { 0 });
			}
			let _ = on;
		}
	}
	st.bump(&format!("{}.{}.eb{}.tuples", wl, vn, spec.eb), n_done);
	st.evals += n_done;
	for d in detail {
		st.sigs
			.insert(fnv64(format!("{};{};eb{};{:x}", wl, vn, spec.eb, d).as_bytes()));
	}
	if truncated {
		st.bump("exhaustive.jobs_truncated_by_deadline", 1);
	}
	if spec.sample.is_none() && spec.prefix.is_empty() && !truncated {
		st.bump(&format!("exhaustive.{}.eb{}.seeds_complete", vn, spec.eb), 1);
		if cycles.is_empty() {
			st.bump(&format!("exhaustive.{}.seeds_without_cycle", vn), 1);
		} else {
			st.bump(&format!("exhaustive.{}.seeds_with_cycle", vn), 1);
		}
		if let Some(sc) = spec.solver_cycles {
			// self-check of the reference: solver and decider must count the same cycles
			if sc != cycles.len() {
				w.run().inconclusive(&format!(
					"reference self-check failed: solver found {} cycles, decider accepts {} tuples ({} eb={} header={})",
					sc,
					cycles.len(),
					vn,
					spec.eb,
					hex(&spec.header)
				));
			} else {
				st.bump("reference.solver_vs_decider_agree", 1);
			}
		}
		if !cycles.is_empty() {
			w.shared.sample(
				&format!("exhaustive_{}", vn),
				json!({"workload": "exhaustive", "variant": vn, "edge_bits": spec.eb, "proof_size": l,
					"header_hex": hex(&spec.header), "tuples": n_done, "accepted_by_both": cycles,
					"endpoints(u,v) per edge": (0..g.num_edges).map(|i| g.endpoints(i)).collect::<Vec<_>>() }),
			);
		}
	}
	// malformed variants of a sample: every cycle and a few rejected tuples
	if spec.with_mutations {
		let mut base: Vec<Vec<u64>> = cycles.iter().take(6).cloned().collect();
		base.extend(some_rejected.iter().take(4).cloned());
		let n = g.num_edges;
		for b in base {
			let mut muts: Vec<(&'static str, Vec<u64>)> = vec![];
			for i in 0..l {
				for j in i + 1..l {
					let mut m = b.clone();
					m.swap(i, j);
					muts.push(("swap_two", m));
				}
			}
			let mut m = b.clone();
			m.reverse();
			muts.push(("reversed", m));
			let mut m = b.clone();
			m.rotate_left(1);
			muts.push(("rotated", m));
			for i in 0..l {
				if i > 0 {
					let mut m = b.clone();
					m[i] = m[i - 1];
					muts.push(("duplicate", m));
				}
				if i + 1 < l {
					let mut m = b.clone();
					m[i] = m[i + 1];
					muts.push(("duplicate", m));
				}
				for add in [n, 2 * n, 1 << 32, 1 << 63, u64::MAX - b[i]] {
					let mut m = b.clone();
					m[i] = m[i].wrapping_add(add);
					muts.push(("out_of_range", m));
				}
				let mut m = b.clone();
				m.remove(i);
				muts.push(("wrong_count", m));
			}
			for extra in [n - 1, n, b[l - 1] + 1, 0] {
				let mut m = b.clone();
				m.push(extra);
				muts.push(("wrong_count", m));
			}
			muts.push(("wrong_count", vec![]));
			muts.push(("wrong_count", vec![b[0]]));
			let mut m = b.clone();
			m.extend_from_slice(&b);
			muts.push(("wrong_count", m));
			for (class, m) in muts {
				check_case(w, &g, &*ctx, l, "exh_malformed", class, &m, &mut st);
			}
		}
	}
	st.flush(w.run());
}

/// Finds header seeds with / without 8-cycles (reference solver) and queues their exhaustive jobs.
fn exhaustive_scan_job(w: &Worker, variant: Variant, eb: u8, want_with: u64, want_without: u64, full_split: bool) {
	let l = 8usize;
	let seed = w.run().seed;
	let mut with = 0u64;
	let mut without = 0u64;
	let mut scanned = 0u64;
	let mut i = 0u64;
	while (with < want_with || without < want_without) && i < 400_000 && !w.shared.out_of_time() {
		let header = seed_header(seed, 0xA000 + variant.idx() as u64 * 64 + eb as u64, i);
		i += 1;
		scanned += 1;
		let g = RefGraph::new(variant, eb as u32, ref_keys(&header, None), true);
		let adj = Adjacency::build(&g, JoinMode::Strict);
		let (cyc, trunc) = find_cycles(&g, &adj, l, l, 2_000_000, 10_000, false, 0);
		if trunc {
			continue;
		}
		let take = if cyc.is_empty() {
			without < want_without
		} else {
			with < want_with
		};
		if !take {
			continue;
		}
		if cyc.is_empty() {
			without += 1;
		} else {
			with += 1;
		}
		let ncyc = cyc.len();
		let n = 1u64 << eb;
		if !full_split {
			let sh = w.shared.clone();
			let h = header.clone();
			sh.clone().push(
				Some(variant),
				format!("exhaustive {} eb{} seed#{}", variant.name(), eb, i - 1),
				Box::new(move |w| {
					exhaustive_job(
						w,
						ExhSpec {
							variant,
							eb,
							header: h,
							prefix: vec![],
							sample: None,
							solver_cycles: Some(ncyc),
							with_mutations: true,
						},
					)
				}),
			);
		} else {
			// split by the first two elements
			w.run().count(&format!("exhaustive.{}.eb{}.seeds_split", variant.name(), eb), 1);
			w.run().count(
				&format!("exhaustive.{}.eb{}.solver_cycles_in_split_seeds", variant.name(), eb),
				ncyc as u64,
			);
			for a0 in 0..n {
				for a1 in a0 + 1..n {
					if a1 + (l as u64 - 2) >= n {
						continue;
					}
					let h = header.clone();
					w.shared.clone().push(
						Some(variant),
						format!("exhaustive {} eb{} seed#{} prefix {},{}", variant.name(), eb, i - 1, a0, a1),
						Box::new(move |w| {
							exhaustive_job(
								w,
								ExhSpec {
									variant,
									eb,
									header: h,
									prefix: vec![a0, a1],
									sample: None,
									solver_cycles: None,
									with_mutations: false,
								},
							)
						}),
					);
				}
			}
		}
	}
	w.run()
		.count(&format!("exhaustive.{}.eb{}.seeds_scanned_by_solver", variant.name(), eb), scanned);
}

// =====================================================================================================
// main
// =====================================================================================================

fn arg_value(args: &[String], name: &str) -> Option<String> {
	args.iter().position(|a| a == name).and_then(|i| args.get(i + 1).cloned())
}

fn main() {
	let run: &'static Run = Box::leak(Box::new(Run::from_env("C05", "exploration")));
	monitor::install_panic_hook();
	let san = arg_value(&run.args, "--san");
	let only = arg_value(&run.args, "--only");
	let on = |name: &str| only.as_deref().map(|o| o.split(',').any(|x| x == name)).unwrap_or(true);
	let scale = if san.is_some() { 0.1 } else { 1.0 };
	let budget_s = if san.is_some() { 600 } else { run.tier.pick(70, 600) };
	let shared = Arc::new(Shared {
		run,
		t0: Instant::now(),
		queue: Mutex::new(VecDeque::new()),
		slots: Mutex::new(vec![]),
		jobs_open: AtomicUsize::new(0),
		suspended: Default::default(),
		disabled: Default::default(),
		hangs: AtomicU64::new(0),
		jobs_skipped: AtomicU64::new(0),
		deadline: Instant::now() + Duration::from_secs(budget_s),
		hang_ms: if san.is_some() { 20_000 } else { 3_000 },
		scale,
		tier: run.tier,
		samples: Mutex::new(BTreeMap::new()),
		done: AtomicBool::new(false),
	});

	if let Some(p) = &run.replay {
		replay(&shared, p);
		run.finish();
	}

	if on("exh") {
		queue_exhaustive(&shared);
	}

	let threads = 16;
	for _ in 0..threads {
		spawn_worker(&shared);
	}
	spawn_monitor(&shared);
	// wait for completion (jobs may queue further jobs)
	let hard_stop = shared.deadline + Duration::from_secs(20);
	while shared.jobs_open.load(Ordering::SeqCst) > 0 {
		std::thread::sleep(Duration::from_millis(20));
		if Instant::now() > hard_stop {
			run.inconclusive("engine: jobs still running 20 s after the deadline, abandoned");
			break;
		}
	}
	shared.done.store(true, Ordering::SeqCst);

	finish(&shared);
}

fn queue_exhaustive(shared: &Arc<Shared>) {
	for v in VARIANTS {
		let (ww, wo) = (shared.n(24, 160), shared.n(24, 160));
		shared.push(
			Some(v),
			format!("scan {} eb4", v.name()),
			Box::new(move |w| exhaustive_scan_job(w, v, 4, ww, wo, false)),
		);
	}
}

fn replay(shared: &Arc<Shared>, path: &std::path::Path) {
	let run = shared.run;
	let v: Value = match std::fs::read_to_string(path).ok().and_then(|s| serde_json::from_str(&s).ok()) {
		Some(v) => v,
		None => {
			run.inconclusive("cannot read replay file");
			return;
		}
	};
	let case = v.get("case").cloned().unwrap_or(Value::Null);
	let sig = v.get("signature").and_then(|x| x.as_str()).unwrap_or("").to_string();
	if case.get("kind").and_then(|x| x.as_str()) != Some("verify") {
		run.inconclusive("replay supports 'verify' cases only; re-run with the recorded seed and tier for the others");
		return;
	}
	let info = match CaseInfo::from_json(&case) {
		Some(i) => i,
		None => {
			run.inconclusive("malformed replay case");
			return;
		}
	};
	let a = info.ref_analysis();
	run.eval("replay", true);
	match run_with_timeout(&info, shared.hang_ms * 2) {
		None => {
			println!("replay: verify() did not return within {} ms", shared.hang_ms * 2);
			report_hang(shared, &info, true);
		}
		Some(r) => {
			let (agreed, dir) = match &r {
				Ok(true) => (a.valid, "impl_accepts_ref_rejects".to_string()),
				Ok(false) => (!a.valid, "impl_rejects_ref_accepts".to_string()),
				Err(p) => (false, format!("panic@{}", p.location)),
			};
			println!(
				"replay: reference valid={} shape={}, verify -> {:?}",
				a.valid,
				a.shape.name(),
				r.as_ref().map_err(|p| p.location.clone())
			);
			if !agreed {
				let s = format!("variant={};proof={};event={}", info.variant.name(), a.shape.name(), dir);
				run.violation(if sig.is_empty() { &s } else { &sig }, "reproduced from replay file", info.to_json());
			}
		}
	}
}

fn finish(shared: &Arc<Shared>) -> ! {
	let run = shared.run;
	run.set_rule("see source");
	for (_, v) in shared.samples.lock().unwrap().iter().take(6) {
		run.sample(v.clone());
	}
	run.finish()
}
