//! C15 — the committed unspent-output bitmap is independent of the path taken.
//!
//! Oracle: from-scratch bitmap commitment over the replayed unspent set
//! (`RefState::bitmap_root`) compared with the node's incremental accumulator
//! after every accepted block, reorg and reopen, on worlds whose outputs span
//! several 1024-bit chunks; forged blocks whose output_root commits to another
//! bitmap (everything else right) must be refused.

use grin_chain::types::{Options, Tip};
use grin_chain::Chain;
use grin_core::core::hash::{Hash, Hashed};
use grin_core::core::Block;
use grin_core::global;
use serde_json::json;
use vcommon::forktree::{hist_from_json, hist_to_json, GenBlock, Hist};
use vcommon::ledger::bitmap_root_from_idx;
use vcommon::snapshot::{compare_with_ref, snapshot};
use vcommon::world::{init_globals, init_thread, open_chain, Coin, PowMode};
use vcommon::{Prng, Run, Scratch};

const OUTS_PER_TX: usize = 9;

/// Build the trunk: block i carries one transaction spending the coinbase of
/// block i-4 into 9 outputs. All proofs are created in parallel.
fn build_trunk(seed: u64, n_blocks: u64) -> Hist {
	vcommon::scenarios::build_multi_chunk_trunk(seed, n_blocks, OUTS_PER_TX)
}

struct Node {
	chain: Option<Chain>,
	dir: String,
}

struct Ctx<'a> {
	run: &'a Run,
	scenario: &'a str,
	opts: Options,
	checks: u64,
	chunks_max: u64,
}

/// Deliver a block expected to be accepted and compare the node with the replayed reference.
fn deliver_ok(cx: &mut Ctx, node: &mut Node, h: &mut Hist, b: &Block, what: &str) -> bool {
	let chain = node.chain.as_ref().unwrap();
	if let Err(e) = chain.process_block(b.clone(), cx.opts) {
		cx.run.violation(
			&format!("C15;{};valid_block_rejected;{}", cx.scenario, what),
			&format!("block {} (h {}) valid by replay rejected: {:?}", b.hash(), b.header.height, e),
			json!({"scenario": cx.scenario, "step": what}),
		);
		return false;
	}
	check_state(cx, node, h, what)
}

fn check_state(cx: &mut Ctx, node: &mut Node, h: &mut Hist, what: &str) -> bool {
	let chain = node.chain.as_ref().unwrap();
	let head = chain.head().unwrap().last_block_h;
	let st = h.state(&head);
	cx.checks += 1;
	cx.run.eval(
		&format!("{};{};outputs_band={};unspent_in_first_chunk_band={}", cx.scenario, what, st.outs.len() / 128, st.unspent_idx().iter().filter(|i| **i < 1024).count() / 64),
		st.outs.len() > 1024,
	);
	// the cheap, central comparison: incremental accumulator vs from-scratch commitment
	let roots = chain.txhashset().read().roots().unwrap();
	let want = st.bitmap_root();
	let n_chunks = st.unspent_idx().last().map(|x| x / 1024 + 1).unwrap_or(0);
	cx.chunks_max = cx.chunks_max.max(n_chunks);
	if roots.output_roots.bitmap_root != want {
		cx.run.violation(
			&format!("C15;{};bitmap_root_differs_from_scratch;{}", cx.scenario, what),
			&format!(
				"at head {} (h {}, {} outputs, {} chunks): node bitmap root {} != from-scratch {}",
				head,
				st.height,
				st.outs.len(),
				n_chunks,
				roots.output_roots.bitmap_root,
				want
			),
			json!({"scenario": cx.scenario, "step": what}),
		);
		return false;
	}
	true
}

fn full_check(cx: &mut Ctx, node: &mut Node, h: &mut Hist, what: &str) -> bool {
	let chain = node.chain.as_ref().unwrap();
	let commits = h.all_commits();
	match snapshot(chain, &commits) {
		Ok(s) => {
			let st = h.state(&s.head.0);
			if let Some(d) = compare_with_ref(&s, &st) {
				cx.run.violation(
					&format!("C15;{};state_vs_replay;{};{}", cx.scenario, what, d.split(':').next().unwrap_or("")),
					&d,
					json!({"scenario": cx.scenario, "step": what}),
				);
				return false;
			}
			true
		}
		Err(e) => {
			cx.run.violation(&format!("C15;{};snapshot_failed;{}", cx.scenario, what), &e, json!({"scenario": cx.scenario}));
			false
		}
	}
}

fn reopen(cx: &mut Ctx, node: &mut Node, h: &mut Hist, what: &str) -> bool {
	let before = node.chain.as_ref().unwrap().txhashset().read().roots().unwrap().output_roots.bitmap_root;
	node.chain = None;
	node.chain = Some(open_chain(&node.dir, &h.genesis).expect("reopen"));
	let after = node.chain.as_ref().unwrap().txhashset().read().roots().unwrap().output_roots.bitmap_root;
	cx.run.count("reopen_comparisons", 1);
	if before != after {
		cx.run.violation(
			&format!("C15;{};bitmap_root_changed_by_restart;{}", cx.scenario, what),
			&format!("bitmap root {} before restart, {} after", before, after),
			json!({"scenario": cx.scenario, "step": what}),
		);
		return false;
	}
	check_state(cx, node, h, what) && full_check(cx, node, h, what)
}

/// Unspent, spendable coins of the state at `tip` whose output index lies in [lo, hi).
fn coins_in_range(h: &mut Hist, tip: &Hash, lo: u64, hi: u64) -> Vec<(u64, Coin)> {
	let st = h.state(tip);
	let next_h = st.height + 1;
	let mat = global::coinbase_maturity();
	let mut v = vec![];
	for (c, &i) in &st.utxo {
		let idx = i as u64;
		if idx < lo || idx >= hi {
			continue;
		}
		if let Some(coin) = h.coins.get(&c.0.to_vec()) {
			if coin.coinbase && next_h < st.outs[i].height + mat {
				continue;
			}
			v.push((idx, coin.clone()));
		}
	}
	v.sort_by_key(|x| x.0);
	v
}

/// Block on `parent` spending `coins` (≤ 8 inputs) into one output each.
fn spend_block(h: &mut Hist, parent: &Hash, coins: &[Coin], difficulty: u64) -> Block {
	let mut txs = vec![];
	for chunk in coins.chunks(4) {
		txs.push(h.spend_tx(chunk, 1, None));
	}
	let k = h.fresh_key();
	let w = h.world.clone();
	let mut p = h.prng.fork(99);
	let b = h
		.ledger
		.make_block(&w, &mut p, parent, &txs, &k, PowMode::Skip { difficulty }, 60)
		.expect("spend block");
	let fees: u64 = txs.iter().map(|t| t.fee()).sum();
	let cb = w.coin(grin_core::consensus::reward(fees), &k, true);
	h.coins.insert(cb.commit.0.to_vec(), cb);
	b
}

/// Block on `parent` with a big transaction creating 9 outputs from one coin.
fn grow_block(h: &mut Hist, parent: &Hash, difficulty: u64) -> Block {
	let avail = {
		let st = h.state(parent);
		let n = st.outs.len() as u64;
		coins_in_range(h, parent, 0, n)
	};
	let txs = match avail.iter().rev().find(|(_, c)| c.value > 20_000_000) {
		Some((_, c)) => vec![h.spend_tx(&[c.clone()], OUTS_PER_TX, None)],
		None => vec![],
	};
	let k = h.fresh_key();
	let w = h.world.clone();
	let mut p = h.prng.fork(98);
	let b = h
		.ledger
		.make_block(&w, &mut p, parent, &txs, &k, PowMode::Skip { difficulty }, 60)
		.expect("grow block");
	let fees: u64 = txs.iter().map(|t| t.fee()).sum();
	let cb = w.coin(grin_core::consensus::reward(fees), &k, true);
	h.coins.insert(cb.commit.0.to_vec(), cb);
	b
}

fn run_scenario(run: &Run, scenario: usize, h: &mut Hist, sc: &Scratch, n_trunk: usize) {
	let names = [
		"old_chunk_and_boundary_spends",
		"reorg_across_chunk_boundary",
		"tampered_output_root",
		"random_mix",
		"multi_block_rewind_newer_block_spends_older_chunk",
		"head_reset_without_a_following_block",
		"head_reset_across_the_chunk_boundary",
	];
	let name = names[scenario % names.len()];
	let mut cx = Ctx {
		run,
		scenario: name,
		opts: Options::SKIP_POW,
		checks: 0,
		chunks_max: 0,
	};
	let mut node = Node {
		dir: sc.sub(&format!("n{}", scenario)),
		chain: None,
	};
	node.chain = Some(open_chain(&node.dir, &h.genesis).expect("open"));
	let mut prng = Prng::new(run.seed ^ (scenario as u64 + 1) * 0xC15);
	// where to stop the trunk for the reorg scenario: last block with < 1024 outputs
	let trunk: Vec<GenBlock> = h.blocks[..n_trunk].to_vec();
	let mut deliver_upto = n_trunk;
	if name == "reorg_across_chunk_boundary" {
		deliver_upto = n_trunk; // whole trunk first (crosses the boundary), fork point computed below
	}
	for (i, gb) in trunk.iter().enumerate().take(deliver_upto) {
		if !deliver_ok(&mut cx, &mut node, h, &gb.block, "trunk") {
			return;
		}
		if i % 25 == 24 && !full_check(&mut cx, &mut node, h, "trunk") {
			return;
		}
	}
	let tip = trunk[deliver_upto - 1].hash;
	let n_out = h.state(&tip).outs.len() as u64;
	let last_chunk_start = (n_out - 1) / 1024 * 1024;
	let mut ok = true;
	match name {
		"old_chunk_and_boundary_spends" => {
			let mut cur = tip;
			// boundary indices first
			let bcoins: Vec<Coin> = coins_in_range(h, &cur, 1020, 1028.min(n_out)).into_iter().map(|x| x.1).collect();
			if !bcoins.is_empty() {
				let b = spend_block(h, &cur, &bcoins[..bcoins.len().min(8)], 10);
				ok &= deliver_ok(&mut cx, &mut node, h, &b, "spend_at_indices_1020_1027");
				cur = b.hash();
				run.count("boundary_index_spends", bcoins.len().min(8) as u64);
			}
			// spends concentrated in the oldest chunk
			for round in 0..4 {
				if !ok {
					break;
				}
				let mut old: Vec<Coin> = coins_in_range(h, &cur, 0, 1024).into_iter().map(|x| x.1).collect();
				prng.shuffle(&mut old);
				old.truncate(8);
				if old.is_empty() {
					break;
				}
				let b = spend_block(h, &cur, &old, 10);
				ok &= deliver_ok(&mut cx, &mut node, h, &b, "spend_in_oldest_chunk");
				cur = b.hash();
				run.count("old_chunk_spends", old.len() as u64);
				if round == 1 {
					ok &= reopen(&mut cx, &mut node, h, "after_old_chunk_spends");
				}
			}
			// last partial chunk
			if ok {
				let n_now = h.state(&cur).outs.len() as u64;
				let last: Vec<Coin> = coins_in_range(h, &cur, last_chunk_start, n_now).into_iter().map(|x| x.1).collect();
				if !last.is_empty() {
					let b = spend_block(h, &cur, &last[..last.len().min(8)], 10);
					ok &= deliver_ok(&mut cx, &mut node, h, &b, "spend_in_last_partial_chunk");
					run.count("last_partial_chunk_spends", last.len().min(8) as u64);
				}
			}
			if ok {
				ok &= reopen(&mut cx, &mut node, h, "end");
			}
		}
		"reorg_across_chunk_boundary" => {
			// fork point: the last trunk block whose state has fewer than 1024 outputs
			let mut fp = None;
			for gb in trunk.iter().rev() {
				if (h.state(&gb.hash).outs.len() as u64) < 1024 - 20 {
					fp = Some(gb.hash);
					break;
				}
			}
			let fp = match fp {
				Some(x) => x,
				None => {
					run.inconclusive("no fork point below 1024 outputs");
					return;
				}
			};
			let head_td = h.ledger.get(&tip).total_difficulty;
			let fp_td = h.ledger.get(&fp).total_difficulty;
			// fork of small blocks with more work: after the reorg the output set is back below the boundary
			let mut cur = fp;
			let b1 = spend_block(h, &cur, &[], head_td - fp_td + 50);
			ok &= deliver_ok(&mut cx, &mut node, h, &b1, "reorg_shrinks_output_set_below_1024");
			cur = b1.hash();
			run.count("reorgs_shrinking_across_boundary", 1);
			if ok {
				let n_after = h.state(&cur).outs.len();
				if n_after >= 1024 {
					run.inconclusive("fork did not shrink the output set below the chunk boundary");
				}
				ok &= full_check(&mut cx, &mut node, h, "after_shrinking_reorg");
			}
			// spend on the fork some coins that the old branch had spent differently, then grow past the boundary again
			for _ in 0..4 {
				if !ok {
					break;
				}
				let b = grow_block(h, &cur, 10);
				ok &= deliver_ok(&mut cx, &mut node, h, &b, "fork_grows_across_boundary_again");
				cur = b.hash();
			}
			if ok {
				ok &= reopen(&mut cx, &mut node, h, "on_fork");
			}
			// reorg back: extend the original branch beyond the fork's work
			if ok {
				let fork_td = h.ledger.get(&cur).total_difficulty;
				let old: Vec<Coin> = coins_in_range(h, &tip, 0, 1024).into_iter().map(|x| x.1).take(6).collect();
				let b = spend_block(h, &tip, &old, fork_td - head_td + 77);
				ok &= deliver_ok(&mut cx, &mut node, h, &b, "reorg_back_to_original_branch");
				run.count("reorgs_back", 1);
				if ok {
					ok &= full_check(&mut cx, &mut node, h, "after_reorg_back");
					ok &= reopen(&mut cx, &mut node, h, "end");
				}
			}
		}
		"tampered_output_root" => {
			let mut cur = tip;
			for round in 0..6 {
				if !ok {
					break;
				}
				// an honest block, then copies of it whose output_root commits to another bitmap
				let old: Vec<Coin> = coins_in_range(h, &cur, 0, n_out).into_iter().map(|x| x.1).collect();
				let mut pick = old.clone();
				prng.shuffle(&mut pick);
				pick.truncate(3);
				let honest = spend_block(h, &cur, &pick, 10);
				let mut st = (*h.state(&cur)).clone();
				let parent_header = h.ledger.header(&cur).clone();
				st.header_mmr.push(&parent_header);
				st.apply_unchecked(&honest);
				let idx = st.unspent_idx();
				let mut variants: Vec<(&str, Vec<u64>)> = vec![];
				// a spent output marked unspent
				let spent_idx: Vec<u64> = (0..st.outs.len() as u64).filter(|i| idx.binary_search(i).is_err()).collect();
				if let Some(&s) = spent_idx.get(prng.usize_below(spent_idx.len().max(1))) {
					let mut v = idx.clone();
					v.push(s);
					v.sort();
					variants.push(("spent_marked_unspent", v));
				}
				// an unspent output marked spent (old chunk and last chunk)
				{
					let mut v = idx.clone();
					v.remove(prng.usize_below(v.len() / 2));
					variants.push(("unspent_marked_spent_old", v));
					let mut v = idx.clone();
					v.pop();
					variants.push(("newest_output_marked_spent", v));
				}
				// the bitmap of the parent state (block's own effects not applied)
				variants.push(("bitmap_of_parent_state", h.state(&cur).unspent_idx()));
				// an extra bit beyond the MMR
				{
					let mut v = idx.clone();
					v.push(st.outs.len() as u64 + 1024);
					variants.push(("extra_chunk", v));
				}
				for (vn, vidx) in variants {
					let mut b = honest.clone();
					let mut r = st.roots();
					r.bitmap_root = bitmap_root_from_idx(&vidx);
					b.header.output_root = r.output_root_for(b.header.version);
					// the block hash covers the proof only: without real PoW every variant needs
					// its own pseudo-proof, otherwise it would share the honest block's hash
					vcommon::world::skip_pow_proof(&mut b.header, &mut prng);
					let res = node.chain.as_ref().unwrap().process_block(b.clone(), cx.opts);
					run.count(&format!("tampered_refused.{}", vn), 1);
					run.eval(&format!("tampered;{};round{}", vn, round), true);
					if res.is_ok() {
						run.violation(
							&format!("C15;tampered_output_root_accepted;{}", vn),
							&format!("block {} whose output_root commits to bitmap variant '{}' was accepted", b.hash(), vn),
							json!({"scenario": name, "variant": vn, "round": round}),
						);
						ok = false;
						break;
					}
				}
				if ok {
					ok &= deliver_ok(&mut cx, &mut node, h, &honest, "honest_after_tampered");
					cur = honest.hash();
				}
			}
		}
		"head_reset_without_a_following_block" => {
			// A rewind that no block follows in the same unit of work: `Chain::reset_chain_head` (the owner API's head
			// reset) commits the rewound state as it is. Coinbase-only blocks on the tip (one output each, so odd and
			// even output counts alternate, and rewinding them restores nothing), then the head is stepped back one
			// block at a time, and later two and three blocks at once; the held bitmap commitment must be the one of
			// the state reset to, also after a restart.
			let mut cur = tip;
			let mut line = vec![tip];
			for _ in 0..6 {
				let b = spend_block(h, &cur, &[], 10);
				ok &= deliver_ok(&mut cx, &mut node, h, &b, "coinbase_only_block");
				cur = b.hash();
				line.push(cur);
				if !ok {
					break;
				}
			}
			let mut reset_to = |cx: &mut Ctx, node: &mut Node, h: &mut Hist, target: Hash, headers_too: bool, what: &str| -> bool {
				let chain = node.chain.as_ref().unwrap();
				let hdr = match chain.get_block_header(&target) {
					Ok(x) => x,
					Err(e) => {
						run.inconclusive(&format!("head reset: header of the target not readable: {:?}", e));
						return false;
					}
				};
				if let Err(e) = chain.reset_chain_head(Tip::from_header(&hdr), headers_too) {
					run.inconclusive(&format!("head reset to an ancestor of the head refused: {:?}", e));
					return false;
				}
				if chain.head().map(|t| t.last_block_h).ok() != Some(target) {
					run.inconclusive("head reset did not move the head to the target");
					return false;
				}
				run.count("head_resets_checked", 1);
				if h.state(&target).outs.len() % 2 == 0 {
					run.count("head_resets_onto_an_even_output_count", 1);
				}
				check_state(cx, node, h, what)
			};
			for j in (3..6).rev() {
				if !ok {
					break;
				}
				ok &= reset_to(&mut cx, &mut node, h, line[j], j % 2 == 0, "head_reset_one_block_back");
				if ok && j == 4 {
					ok &= reopen(&mut cx, &mut node, h, "after_head_reset");
				}
			}
			// two, then three blocks at once (the header chain is reset with the body here, so the blocks that follow extend both)
			if ok {
				ok &= reset_to(&mut cx, &mut node, h, line[1], true, "head_reset_two_blocks_back");
			}
			if ok {
				let mut cur = line[1];
				let mut line2 = vec![cur];
				for _ in 0..4 {
					let b = spend_block(h, &cur, &[], 10);
					ok &= deliver_ok(&mut cx, &mut node, h, &b, "coinbase_only_block_after_head_reset");
					cur = b.hash();
					line2.push(cur);
					if !ok {
						break;
					}
				}
				if ok {
					ok &= reset_to(&mut cx, &mut node, h, line2[1], true, "head_reset_three_blocks_back");
				}
				if ok {
					ok &= full_check(&mut cx, &mut node, h, "after_head_resets");
					ok &= reopen(&mut cx, &mut node, h, "end");
				}
				if ok {
					let b = grow_block(h, &line2[1], 10);
					ok &= deliver_ok(&mut cx, &mut node, h, &b, "block_after_head_reset");
				}
			}
		}
		"head_reset_across_the_chunk_boundary" => {
			// A heavier fork of coinbase-only blocks leaves the trunk below the chunk boundary and grows across it (one
			// output per block: rewinding these blocks restores nothing anywhere). Then the head is reset, with no block
			// following, to fork blocks whose output set ends in the chunk BEFORE the one the head's ends in.
			let mut fp = None;
			for gb in trunk.iter().rev() {
				if (h.state(&gb.hash).outs.len() as u64) < 1024 - 8 {
					fp = Some(gb.hash);
					break;
				}
			}
			let fp = match fp {
				Some(x) => x,
				None => {
					run.inconclusive("no fork point below 1024 outputs");
					return;
				}
			};
			let head_td = h.ledger.get(&tip).total_difficulty;
			let fp_td = h.ledger.get(&fp).total_difficulty;
			let n_fp = h.state(&fp).outs.len() as u64;
			let mut cur = fp;
			let mut line: Vec<(Hash, u64)> = vec![];
			let n_fork = (1024 - n_fp) + 12;
			for i in 0..n_fork {
				let b = spend_block(h, &cur, &[], if i == 0 { head_td - fp_td + 50 } else { 10 });
				ok &= deliver_ok(&mut cx, &mut node, h, &b, "coinbase_only_fork_block");
				cur = b.hash();
				line.push((cur, h.state(&cur).outs.len() as u64));
				if !ok {
					break;
				}
			}
			if ok && line.last().map(|x| x.1 > 1024).unwrap_or(false) {
				ok &= full_check(&mut cx, &mut node, h, "coinbase_only_fork_across_the_boundary");
				// targets: the last block below the boundary, exactly on it, and well below
				let targets: Vec<(Hash, u64)> = [1023u64, 1024, 1019]
					.iter()
					.filter_map(|n| line.iter().find(|x| x.1 == *n).cloned())
					.collect();
				let mut first = true;
				for (t, n_t) in targets {
					if !ok {
						break;
					}
					let chain = node.chain.as_ref().unwrap();
					let hdr = match chain.get_block_header(&t) {
						Ok(x) => x,
						Err(e) => {
							run.inconclusive(&format!("head reset: header of the target not readable: {:?}", e));
							break;
						}
					};
					if let Err(e) = chain.reset_chain_head(Tip::from_header(&hdr), true) {
						run.inconclusive(&format!("head reset to an ancestor of the head refused: {:?}", e));
						break;
					}
					run.count("head_resets_across_the_chunk_boundary", 1);
					ok &= check_state(&mut cx, &mut node, h, &format!("head_reset_across_the_boundary_to_{}_outputs", n_t));
					if ok && first {
						ok &= reopen(&mut cx, &mut node, h, "after_head_reset_across_the_boundary");
					}
					first = false;
					// back up across the boundary for the next target
					if ok {
						let mut c2 = t;
						for _ in 0..(1024 - n_t.min(1024) + 6) {
							let b = spend_block(h, &c2, &[], 10);
							ok &= deliver_ok(&mut cx, &mut node, h, &b, "coinbase_only_block_after_head_reset");
							c2 = b.hash();
							if !ok {
								break;
							}
						}
					}
				}
				if ok {
					ok &= full_check(&mut cx, &mut node, h, "after_head_resets_across_the_boundary");
				}
			} else if ok {
				run.inconclusive("coinbase-only fork did not cross the chunk boundary");
			}
		}
		"multi_block_rewind_newer_block_spends_older_chunk" => {
			// M1..Mk on the tip where only the NEWEST block spends outputs of the OLDEST chunk (the older
			// ones touch the last chunk only), then a heavier fork from the tip rewinds all of them at once;
			// repeated with different k and with the fork first delivered as a losing block
			let mut cur = tip;
			for round in 0..3 {
				if !ok {
					break;
				}
				let k = 2 + round % 2;
				let base = cur;
				let base_td = h.ledger.get(&base).total_difficulty;
				let mut m = base;
				for j in 0..k {
					let coins: Vec<Coin> = if j + 1 == k {
						let mut c: Vec<Coin> = coins_in_range(h, &m, 0, 1024).into_iter().map(|x| x.1).collect();
						prng.shuffle(&mut c);
						c.truncate(1 + prng.usize_below(3));
						c
					} else {
						vec![]
					};
					let b = spend_block(h, &m, &coins, 10);
					ok &= deliver_ok(&mut cx, &mut node, h, &b, "branch_to_be_rewound");
					m = b.hash();
					if !ok {
						break;
					}
				}
				if !ok {
					break;
				}
				let m_td = h.ledger.get(&m).total_difficulty;
				// honest fork block on the base: first a losing one (validated against a rewound extension,
				// must be accepted as a fork), then a winning one (real reorg)
				let f_lose = spend_block(h, &base, &[], 1);
				ok &= deliver_ok(&mut cx, &mut node, h, &f_lose, "losing_fork_block_after_multi_block_rewind");
				if !ok {
					break;
				}
				let f_win = spend_block(h, &base, &[], m_td - base_td + 9);
				ok &= deliver_ok(&mut cx, &mut node, h, &f_win, "winning_fork_block_after_multi_block_rewind");
				run.count("multi_block_rewinds_with_newer_block_spending_older_chunk", 1);
				if ok {
					ok &= full_check(&mut cx, &mut node, h, "after_multi_block_rewind");
				}
				if ok && round == 1 {
					ok &= reopen(&mut cx, &mut node, h, "after_multi_block_rewind");
				}
				cur = f_win.hash();
			}
		}
		_ => {
			// random mix: spends anywhere, small forks near the tip, reopen at random points
			let mut cur = tip;
			for step in 0..14 {
				if !ok {
					break;
				}
				match prng.below(5) {
					0 | 1 => {
						let n_now = h.state(&cur).outs.len() as u64;
						let mut c: Vec<Coin> = coins_in_range(h, &cur, 0, n_now).into_iter().map(|x| x.1).collect();
						prng.shuffle(&mut c);
						c.truncate(1 + prng.usize_below(8));
						let b = spend_block(h, &cur, &c, 10);
						ok &= deliver_ok(&mut cx, &mut node, h, &b, "random_spends");
						cur = b.hash();
					}
					2 => {
						let b = grow_block(h, &cur, 10);
						ok &= deliver_ok(&mut cx, &mut node, h, &b, "grow");
						cur = b.hash();
					}
					3 => {
						// fork from 1-3 blocks below the tip that wins
						let depth = 1 + prng.usize_below(3);
						let anc = h.ledger.ancestry(&cur);
						let fp = anc[anc.len() - 1 - depth];
						let td_gap = h.ledger.get(&cur).total_difficulty - h.ledger.get(&fp).total_difficulty;
						let n_fp = h.state(&fp).outs.len() as u64;
						let mut c: Vec<Coin> = coins_in_range(h, &fp, 0, n_fp).into_iter().map(|x| x.1).collect();
						prng.shuffle(&mut c);
						c.truncate(prng.usize_below(6));
						let b = spend_block(h, &fp, &c, td_gap + 5);
						ok &= deliver_ok(&mut cx, &mut node, h, &b, "winning_fork");
						cur = b.hash();
						run.count("random_reorgs", 1);
					}
					_ => {
						ok &= reopen(&mut cx, &mut node, h, &format!("random_step_{}", step % 3));
					}
				}
			}
			if ok {
				ok &= full_check(&mut cx, &mut node, h, "end");
			}
		}
	}
	if ok {
		if let Err(e) = node.chain.as_ref().unwrap().validate(true) {
			run.violation(&format!("C15;{};final_validate", name), &format!("validate(true): {:?}", e), json!({"scenario": name}));
		}
	}
	run.count("bitmap_root_comparisons", cx.checks);
	run.set_max("max_chunks_in_a_checked_state", cx.chunks_max);
	run.eval(&format!("scenario;{};chunks={}", name, cx.chunks_max), cx.chunks_max >= 2);
	run.sample(json!({"scenario": name, "trunk_blocks": n_trunk, "outputs_at_trunk_tip": n_out, "bitmap_root_comparisons": cx.checks,
		"chunks": cx.chunks_max, "completed": ok}));
	node.chain = None;
	let _ = std::fs::remove_dir_all(&node.dir);
}

// ---------------------------------------------------------------- accumulator-level programs

/// The chain-level worlds cannot afford output sets in which a whole interior 1024-bit chunk is spent (every output costs
/// a range proof). The accumulator itself is cheap: it is driven here exactly as the txhashset extension drives it — per
/// block `apply(sorted affected indices, unspent indices from the start of the first affected chunk, leaf count)`, per
/// rewind the same with the restored indices plus the last leaf of the target state, per restart `init` from index 0 —
/// over output sets of up to ~20 chunks with whole chunks spent, spends at chunk boundaries, growth by exact multiples of
/// 1024, and rewinds across several chunk boundaries. After every step root and `as_bitmap` must equal the from-scratch
/// commitment over the model's unspent set.
fn accumulator_programs(run: &Run, n_programs: u64) {
	use grin_chain::txhashset::BitmapAccumulator;
	use std::collections::BTreeSet;
	for pidx in 0..n_programs {
		let mut p = Prng::new(run.seed.wrapping_mul(0x9E37_79B9_7F4A_7C15) ^ (0xACC0_0000 + pidx));
		let mut acc = BitmapAccumulator::new();
		let mut size: u64 = 0;
		let mut unspent: BTreeSet<u64> = BTreeSet::new();
		let mut saved: Vec<(u64, BTreeSet<u64>)> = vec![];
		let n_steps = 15 + p.usize_below(40);
		let mut trace: Vec<String> = vec![];
		let mut failed = false;
		for step in 0..n_steps {
			if failed {
				break;
			}
			let kind = if size == 0 { 0 } else { p.below(10) };
			let step_name;
			let r: Result<(), String> = if kind <= 6 {
				// ---- a block: spends of older outputs + new outputs
				let mut spends: BTreeSet<u64> = BTreeSet::new();
				let pattern = p.below(6);
				let chunks_now = (size + 1023) / 1024;
				match pattern {
					0 => {
						for _ in 0..p.below(5) {
							if let Some(&x) = unspent.iter().nth(p.usize_below(unspent.len().max(1))) {
								spends.insert(x);
							}
						}
					}
					1 if chunks_now >= 3 => {
						// every unspent output of one INTERIOR chunk
						let c = 1 + p.below(chunks_now - 2);
						spends.extend(unspent.range(c * 1024..(c + 1) * 1024).cloned());
						run.count("accumulator.whole_interior_chunk_spent", 1);
					}
					2 if chunks_now >= 2 => {
						// the first chunk that still has unspent outputs, emptied
						if let Some(&first) = unspent.iter().next() {
							let c = first / 1024;
							if (c + 1) * 1024 < size {
								spends.extend(unspent.range(c * 1024..(c + 1) * 1024).cloned());
								run.count("accumulator.oldest_occupied_chunk_emptied", 1);
							}
						}
					}
					3 => {
						// around chunk boundaries
						for c in 1..=chunks_now {
							for d in [c * 1024 - 1, c * 1024, c * 1024 + 1] {
								if unspent.contains(&d) && p.chance(1, 2) {
									spends.insert(d);
									run.count("accumulator.boundary_index_spends", 1);
								}
							}
						}
					}
					4 => {
						// a run of consecutive outputs crossing a boundary
						if size > 1100 {
							let c = 1 + p.below(chunks_now.saturating_sub(1).max(1));
							let lo = (c * 1024).saturating_sub(p.below(40));
							let hi = c * 1024 + p.below(40);
							spends.extend(unspent.range(lo..hi).cloned());
						}
					}
					_ => {}
				}
				let to_boundary = 1024 - (size % 1024);
				let m = match p.below(8) {
					0 => 1,
					1 => 2,
					2 => 9,
					3 => 300,
					4 => to_boundary,
					5 => to_boundary + 1,
					6 => 1024,
					_ => 1500 + p.below(1500),
				};
				let m = if size + m > 22_000 { 1 } else { m };
				saved.push((size, unspent.clone()));
				if saved.len() > 6 {
					saved.remove(0);
				}
				for x in &spends {
					unspent.remove(x);
				}
				let mut affected: Vec<u64> = spends.iter().cloned().collect();
				for i in size..size + m {
					unspent.insert(i);
					affected.push(i);
				}
				size += m;
				affected.sort_unstable();
				let min_idx = affected[0];
				step_name = format!("block(pattern {}, {} spends, +{} outputs)", pattern, spends.len(), m);
				acc.apply(affected, unspent.range(BitmapAccumulator::chunk_start_idx(min_idx)..).cloned(), size).map_err(|e| format!("{:?}", e))
			} else if kind <= 8 && !saved.is_empty() {
				// ---- rewind to an earlier block boundary
				let j = p.usize_below(saved.len());
				let (tsize, tunspent) = saved[j].clone();
				saved.truncate(j);
				if tsize == 0 {
					step_name = "rewind_to_genesis(skipped)".to_string();
					Ok(())
				} else {
					let mut affected: Vec<u64> = tunspent.iter().filter(|x| !unspent.contains(x)).cloned().collect();
					affected.push(tsize - 1);
					affected.sort_unstable();
					affected.dedup();
					let min_idx = affected[0];
					let chunks_crossed = (size + 1023) / 1024 - (tsize + 1023) / 1024;
					if chunks_crossed >= 1 {
						run.count("accumulator.rewinds_shrinking_across_a_chunk_boundary", 1);
					}
					step_name = format!("rewind({} -> {} leaves, {} restored)", size, tsize, affected.len() - 1);
					size = tsize;
					unspent = tunspent;
					acc.apply(affected, unspent.range(BitmapAccumulator::chunk_start_idx(min_idx)..).cloned(), size).map_err(|e| format!("{:?}", e))
				}
			} else {
				// ---- restart: rebuilt from the leaf set
				step_name = "restart(init)".to_string();
				acc = BitmapAccumulator::new();
				run.count("accumulator.restarts", 1);
				acc.init(unspent.iter().cloned(), size).map_err(|e| format!("{:?}", e))
			};
			trace.push(step_name.clone());
			let desc = json!({"part": "accumulator", "program": pidx, "step": step, "steps": trace, "leaves": size, "unspent": unspent.len()});
			if let Err(e) = r {
				run.violation(&format!("accumulator;{};clause=error", step_name.split('(').next().unwrap_or("")), &format!("step failed: {}", e), desc);
				failed = true;
				continue;
			}
			let idx: Vec<u64> = unspent.iter().cloned().collect();
			let exp = bitmap_root_from_idx(&idx);
			let got = acc.root();
			let chunks = (size + 1023) / 1024;
			let empty_interior = (1..chunks.saturating_sub(1)).filter(|c| unspent.range(c * 1024..(c + 1) * 1024).next().is_none()).count();
			run.eval(&format!("acc:{}:chunks{}:empty{}", step_name.split('(').next().unwrap_or(""), chunks.min(24), empty_interior.min(3)), chunks >= 2);
			run.count("accumulator.states_compared", 1);
			if empty_interior > 0 {
				run.count("accumulator.states_with_a_fully_spent_interior_chunk", 1);
			}
			run.set_max("max_accumulator_chunks_in_a_checked_state", chunks);
			if got != exp {
				run.violation(
					&format!("accumulator;{};clause=root", step_name.split('(').next().unwrap_or("")),
					&format!("after {}: accumulator root {} differs from the commitment computed from scratch {} ({} leaves, {} unspent, {} fully spent interior chunks)", step_name, got, exp, size, unspent.len(), empty_interior),
					desc,
				);
				failed = true;
				continue;
			}
			match acc.as_bitmap() {
				Err(e) => {
					run.violation("accumulator;clause=as_bitmap_error", &format!("{:?}", e), desc);
					failed = true;
				}
				Ok(bm) => {
					let v: Vec<u64> = bm.iter().map(|x| x as u64).collect();
					if v != idx {
						run.violation(
							&format!("accumulator;{};clause=as_bitmap", step_name.split('(').next().unwrap_or("")),
							&format!("after {}: as_bitmap() holds {} indices, the model {}", step_name, v.len(), idx.len()),
							desc,
						);
						failed = true;
					}
				}
			}
		}
		run.count("accumulator.programs", 1);
	}
}

fn main() {
	let run = Run::from_env("C15", "exploration");
	init_globals(true);
	let san = run.args.iter().any(|a| a == "--san");
	// 1 + 4 + 10*(n-4) outputs: 107 blocks -> 1035 outputs (2 chunks); 335 -> 3315 (4 chunks)
	let n_blocks: u64 = if san { 30 } else { run.tier.pick(107, 335) };
	let n_scen: usize = run.tier.pick(7, 14);
	if let Some((shard, n)) = run.worker_shard() {
		init_thread(true);
		let dir = run.arg_value("--dir").expect("--dir");
		let sc = Scratch::new("c15w");
		for s in 0..n_scen {
			if s % n != shard {
				continue;
			}
			let txt = std::fs::read_to_string(format!("{}/trunk.json", dir)).expect("trunk file");
			let mut h = hist_from_json(&serde_json::from_str(&txt).unwrap());
			h.next_key = 2_000_000 + (s as u32) * 100_000;
			h.prng = Prng::new(run.seed ^ (s as u64 * 7919));
			let n_trunk = h.blocks.len();
			run_scenario(&run, s, &mut h, &sc, n_trunk);
		}
		drop(sc);
		run.finish_worker();
	}
	run.set_rule(
		"world: a trunk of blocks each spending the coinbase of 4 blocks earlier into 9 outputs (all proofs built in parallel) so that the \
		 output set spans 2 (quick) / 4 (thorough) 1024-bit chunks; scenarios on top of it, each on its own node: (1) spends at indices \
		 1020-1027, spends concentrated in the oldest chunk, spends in the last partial chunk, reopen; (2) a reorg to a fork from below \
		 the 1024-output boundary (rewind shrinks the output set across a chunk boundary), growth across the boundary on the fork, reorg \
		 back; (3) blocks identical to an honest one except that output_root commits to another bitmap (spent marked unspent, unspent \
		 marked spent, parent-state bitmap, extra chunk) must be refused; (4) random mix of spends, growth, winning forks and reopen; (5) branches of 2-3 blocks where only the newest block spends \
		 outputs of the oldest chunk, rewound at once by a losing and then a winning fork block; (6) coinbase-only blocks (odd and even output \
		 counts alternate), then Chain::reset_chain_head steps the head back one, two and three blocks with no block following, restart. \
		 After EVERY accepted block: node bitmap root == commitment computed from scratch over the replayed unspent set; at \
		 checkpoints the full reference comparison; restart must not change the root. One evaluation per compared state (distinct by scenario, step kind, output-count band, occupancy band of the first chunk; non-trivial = state with >= 2 chunks) and per forged variant.",
	);
	run.assume("SKIP_POW delivery; heights >= 6 so the merged (bitmap-binding) output root is in force for the scenario blocks");
	let sc = Scratch::new("c15");
	let h = build_trunk(run.seed ^ 0xC15C15, n_blocks);
	std::fs::write(format!("{}/trunk.json", sc.path.display()), serde_json::to_string(&hist_to_json(&h)).unwrap()).unwrap();
	run.count("trunk_build_seconds", run.elapsed_s() as u64);
	run.count("trunk_outputs", {
		let mut hh = h;
		let tip = hh.blocks.last().unwrap().hash;
		hh.state(&tip).outs.len() as u64
	});
	std::thread::scope(|t| {
		let run = &run;
		let n = if san { 20 } else { run.tier.pick(400u64, 4000u64) };
		t.spawn(move || accumulator_programs(run, n));
		run.spawn_workers(n_scen.min(16), &["--dir".to_string(), sc.path.display().to_string()], run.tier.pick(600, 3000));
	});
	drop(sc);
	if !san {
		run.require("bitmap_root_comparisons", run.counter("bitmap_root_comparisons"), run.tier.pick(400, 2500));
		run.require("max_chunks_in_a_checked_state", run.counter("max_chunks_in_a_checked_state").min(4), run.tier.pick(2, 4));
		run.require("reorgs_shrinking_across_boundary", run.counter("reorgs_shrinking_across_boundary"), 1);
		run.require(
			"multi_block_rewinds_with_newer_block_spending_older_chunk",
			run.counter("multi_block_rewinds_with_newer_block_spending_older_chunk"),
			2,
		);
		run.require("head_resets_checked", run.counter("head_resets_checked"), 5);
		run.require("head resets (no block following) whose target ends in the chunk before the one the head ends in", run.counter("head_resets_across_the_chunk_boundary"), 2);
		run.require("head_resets_onto_an_even_output_count", run.counter("head_resets_onto_an_even_output_count"), 2);
		run.require("boundary_index_spends", run.counter("boundary_index_spends"), 2);
		run.require("old_chunk_spends", run.counter("old_chunk_spends"), 8);
		run.require("reopen_comparisons", run.counter("reopen_comparisons"), 3);
		run.require("accumulator.states_compared", run.counter("accumulator.states_compared"), run.tier.pick(8000, 80000));
		run.require("accumulator.states_with_a_fully_spent_interior_chunk", run.counter("accumulator.states_with_a_fully_spent_interior_chunk"), run.tier.pick(500, 5000));
		run.require("accumulator.rewinds_shrinking_across_a_chunk_boundary", run.counter("accumulator.rewinds_shrinking_across_a_chunk_boundary"), run.tier.pick(300, 3000));
		run.require("accumulator.restarts", run.counter("accumulator.restarts"), run.tier.pick(300, 3000));
		for v in ["spent_marked_unspent", "unspent_marked_spent_old", "newest_output_marked_spent", "bitmap_of_parent_state", "extra_chunk"] {
			run.require(&format!("tampered_refused.{}", v), run.counter(&format!("tampered_refused.{}", v)), 3);
		}
	}
	run.finish();
}
