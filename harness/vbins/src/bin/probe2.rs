use vcommon::forktree::*;
use vcommon::world::*;
fn main() {
	init_globals(true);
	let mut cfg = TreeCfg::small(); cfg.n_invalid = 2; cfg.trunk = 5; cfg.branches = 2; cfg.max_depth = 4;
	let h1 = gen_history(7, &cfg);
	let h2 = gen_history(7, &cfg);
	let a: Vec<_> = h1.blocks.iter().map(|b| b.hash).collect();
	let b: Vec<_> = h2.blocks.iter().map(|b| b.hash).collect();
	println!("deterministic: {}", a == b);
	println!("{:?}", &a[..3]);
	for b in &h1.blocks { for k in b.block.kernels() { k.verify().unwrap(); } }
	cfg.real_pow = true;
	let h1 = gen_history(9, &cfg);
	let h2 = gen_history(9, &cfg);
	println!("deterministic real pow: {}", h1.blocks.iter().map(|b| b.hash).collect::<Vec<_>>() == h2.blocks.iter().map(|b| b.hash).collect::<Vec<_>>());
}
