use grin_core::core::hash::Hashed;
use grin_core::core::transaction::Weighting;
use vcommon::forktree::*;
use vcommon::world::*;
fn main() {
	init_globals(true);
	let cfg = TreeCfg { trunk: 5, branches: 3, max_depth: 8, tx_per_mille: 600, real_pow: false, n_invalid: 3, fork_window: None };
	let h = gen_history(15212756160514294320, &cfg);
	for b in &h.blocks {
		if b.hash.to_string().starts_with("9eef68a17ce3") {
			println!("block h={} tags={:?} verdict={:?}", b.block.header.height, b.tags, b.verdict);
			println!("inputs {} outputs {} kernels {}", b.block.inputs().len(), b.block.outputs().len(), b.block.kernels().len());
			let prev = h.ledger.header(&b.parent);
			println!("validate: {:?}", b.block.validate(&prev.total_kernel_offset));
			for o in b.block.outputs() { println!(" out {:?} {:?}", o.features(), o.commitment()); }
			let ins: Vec<grin_core::core::transaction::CommitWrapper> = (&b.block.inputs()).into();
			for i in ins { println!(" in {:?}", i.commitment()); }
			for k in b.block.kernels() { println!(" kern {:?} {:?}", k.features, k.excess); }
		}
	}
}
