use grin_chain::types::Options;
use grin_core::core::hash::Hashed;
use vcommon::forktree::*;
use vcommon::world::*;
use vcommon::Scratch;
fn main() {
	init_globals(true);
	let sc = Scratch::new("probe2");
	let mut cfg = TreeCfg::small(); cfg.n_invalid = 0; cfg.trunk = 8; cfg.branches = 0; cfg.max_depth = 1;
	let mut h = gen_history(7, &cfg);
	let chain = open_chain(&sc.sub("c"), &h.genesis).unwrap();
	for b in &h.blocks { chain.process_block(b.block.clone(), Options::SKIP_POW).unwrap(); }
	let tip = h.blocks.last().unwrap().hash;
	let honest = h.honest_block(&tip, 1000).block;
	let mut t = honest.clone();
	let mut v = t.header.output_root.to_vec(); v[3] ^= 1; t.header.output_root = grin_core::core::hash::Hash::from_vec(&v);
	println!("tampered: {:?}", chain.process_block(t.clone(), Options::SKIP_POW).map(|x| x.map(|t| t.height)));
	println!("head {} header_head {}", chain.head().unwrap().last_block_h, chain.header_head().unwrap().last_block_h);
	println!("validate(true) before honest: {:?}", chain.validate(true));
	println!("honest: {:?}", chain.process_block(honest.clone(), Options::SKIP_POW).map(|x| x.map(|t| t.height)));
	println!("head {} header_head {} honest {} tampered {}", chain.head().unwrap().last_block_h, chain.header_head().unwrap().last_block_h, honest.hash(), t.hash());
	println!("validate(true): {:?}", chain.validate(true));
	println!("validate(false): {:?}", chain.validate(false));
	let next = h.honest_block(&honest.hash(), 0).block;
	println!("next: {:?}", chain.process_block(next, Options::SKIP_POW).map(|x| x.map(|t| t.height)));
	println!("validate(true): {:?}", chain.validate(true));
}
