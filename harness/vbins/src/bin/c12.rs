//! C12 — Aggregation, cut-through and compact-block hydration are faithful.
//!
//! Runtime monitor: builds pools of VALID transactions with known openings
//! (independent ones, chains, diamonds, fans, full spends, burns, mixed kernel
//! variants, zero / random / complementary offsets, v2- and v3-style inputs),
//! then drives `transaction::aggregate`, `transaction::deaggregate`,
//! `Block::from_reward`, `CompactBlock::from` and `Block::hydrate_from` over
//! many operand selections, permutations and groupings while algebraic /
//! metamorphic oracles written in this file (multiset arithmetic over
//! commitments, own mod-n scalar adder, own SipHash-2-4) watch every call.
//!
//! Process layout: `aggregate(..).validate()` serialises on grin's global secp
//! mutex, so the parent spawns N worker processes of itself
//! (`Run::spawn_workers`, `--worker i n`), each owning a disjoint family of
//! (shard, round) pools; what they record is merged into the parent's
//! evidence. Under `--san` a small workload runs in-process.

use grin_core::core::hash::{Hash, Hashed};
use grin_core::core::id::ShortIdentifiable;
use grin_core::core::transaction::{self, Weighting};
use grin_core::core::{
	Block, BlockHeader, CommitWrapper, CompactBlock, Input, Inputs, KernelFeatures, Output,
	Transaction, TxKernel,
};
use grin_core::global;
use grin_core::libtx::aggsig;
use grin_core::pow::Difficulty;
use grin_core::ser::{self, DeserializationMode, ProtocolVersion};
use grin_keychain::{BlindSum, BlindingFactor, Identifier, Keychain};
use grin_util::secp::key::SecretKey;
use grin_util::secp::pedersen::Commitment;
use serde_json::{json, Value};
use std::collections::{BTreeMap, HashMap, HashSet};
use std::time::{Duration, Instant};
use vcommon::ctx::{Run, Tier};
use vcommon::monitor;
use vcommon::prng::{fnv64, splitmix64, Prng};
use vcommon::world::{fee_fields, height_locked, init_globals, init_thread, nrd, Coin, World};

const PV: ProtocolVersion = ProtocolVersion(3);
type C33 = [u8; 33];

// ------------------------------------------------------------------ own arithmetic mod n

/// Order of the secp256k1 group, most significant limb first.
const ORDER: [u64; 4] = [
	0xFFFF_FFFF_FFFF_FFFF,
	0xFFFF_FFFF_FFFF_FFFE,
	0xBAAE_DCE6_AF48_A03B,
	0xBFD2_5E8C_D036_4141,
];

fn limbs(b: &[u8]) -> [u64; 4] {
	let mut l = [0u64; 4];
	for i in 0..4 {
		let mut x = [0u8; 8];
		x.copy_from_slice(&b[i * 8..i * 8 + 8]);
		l[i] = u64::from_be_bytes(x);
	}
	l
}

fn unlimbs(l: [u64; 4]) -> [u8; 32] {
	let mut b = [0u8; 32];
	for i in 0..4 {
		b[i * 8..i * 8 + 8].copy_from_slice(&l[i].to_be_bytes());
	}
	b
}

fn ge256(a: &[u64; 4], b: &[u64; 4]) -> bool {
	for i in 0..4 {
		if a[i] != b[i] {
			return a[i] > b[i];
		}
	}
	true
}

/// a - b modulo 2^256
fn sub256(a: &[u64; 4], b: &[u64; 4]) -> [u64; 4] {
	let mut r = [0u64; 4];
	let mut borrow = 0u64;
	for i in (0..4).rev() {
		let (d1, b1) = a[i].overflowing_sub(b[i]);
		let (d2, b2) = d1.overflowing_sub(borrow);
		r[i] = d2;
		borrow = (b1 || b2) as u64;
	}
	r
}

fn reduce(a: [u64; 4]) -> [u64; 4] {
	if ge256(&a, &ORDER) {
		sub256(&a, &ORDER)
	} else {
		a
	}
}

/// (a + b) mod n for a, b < n.
fn add_mod(a: &[u64; 4], b: &[u64; 4]) -> [u64; 4] {
	let mut r = [0u64; 4];
	let mut carry = 0u64;
	for i in (0..4).rev() {
		let (s1, c1) = a[i].overflowing_add(b[i]);
		let (s2, c2) = s1.overflowing_add(carry);
		r[i] = s2;
		carry = (c1 || c2) as u64;
	}
	if carry == 1 || ge256(&r, &ORDER) {
		r = sub256(&r, &ORDER);
	}
	r
}

fn neg_mod(a: &[u64; 4]) -> [u64; 4] {
	if *a == [0u64; 4] {
		*a
	} else {
		sub256(&ORDER, a)
	}
}

/// Sum of blinding factors modulo the group order, plain integer arithmetic.
fn sum_offsets<'a>(offs: impl Iterator<Item = &'a BlindingFactor>) -> [u8; 32] {
	let mut acc = [0u64; 4];
	for o in offs {
		acc = add_mod(&acc, &reduce(limbs(o.as_ref())));
	}
	unlimbs(acc)
}

// ------------------------------------------------------------------ own SipHash-2-4

#[inline]
fn sipround(v: &mut [u64; 4]) {
	v[0] = v[0].wrapping_add(v[1]);
	v[1] = v[1].rotate_left(13);
	v[1] ^= v[0];
	v[0] = v[0].rotate_left(32);
	v[2] = v[2].wrapping_add(v[3]);
	v[3] = v[3].rotate_left(16);
	v[3] ^= v[2];
	v[0] = v[0].wrapping_add(v[3]);
	v[3] = v[3].rotate_left(21);
	v[3] ^= v[0];
	v[2] = v[2].wrapping_add(v[1]);
	v[1] = v[1].rotate_left(17);
	v[1] ^= v[2];
	v[2] = v[2].rotate_left(32);
}

fn siphash24(k0: u64, k1: u64, data: &[u8]) -> u64 {
	let mut v = [
		k0 ^ 0x736f_6d65_7073_6575,
		k1 ^ 0x646f_7261_6e64_6f6d,
		k0 ^ 0x6c79_6765_6e65_7261,
		k1 ^ 0x7465_6462_7974_6573,
	];
	let mut chunks = data.chunks_exact(8);
	for c in &mut chunks {
		let mut x = [0u8; 8];
		x.copy_from_slice(c);
		let m = u64::from_le_bytes(x);
		v[3] ^= m;
		sipround(&mut v);
		sipround(&mut v);
		v[0] ^= m;
	}
	let rem = chunks.remainder();
	let mut last = (data.len() as u64 & 0xff) << 56;
	for (i, b) in rem.iter().enumerate() {
		last |= (*b as u64) << (8 * i);
	}
	v[3] ^= last;
	sipround(&mut v);
	sipround(&mut v);
	v[0] ^= last;
	v[2] ^= 0xff;
	for _ in 0..4 {
		sipround(&mut v);
	}
	v[0] ^ v[1] ^ v[2] ^ v[3]
}

/// Short id of a kernel from the definition: key = first 16 bytes (two LE u64)
/// of H(block_hash || nonce), SipHash-2-4 over the kernel hash, low 6 bytes LE.
fn ref_short_id(kernel: &TxKernel, block_hash: &Hash, nonce: u64) -> [u8; 6] {
	let hwn = (*block_hash, nonce).hash();
	let b = hwn.to_vec();
	let mut x = [0u8; 8];
	x.copy_from_slice(&b[0..8]);
	let k0 = u64::from_le_bytes(x);
	x.copy_from_slice(&b[8..16]);
	let k1 = u64::from_le_bytes(x);
	let h = siphash24(k0, k1, &kernel.hash().to_vec());
	let le = h.to_le_bytes();
	let mut r = [0u8; 6];
	r.copy_from_slice(&le[0..6]);
	r
}

// ------------------------------------------------------------------ accumulator (worker -> parent)

#[derive(Default)]
struct Acc {
	evals: HashMap<String, (u64, bool)>,
	counters: BTreeMap<String, u64>,
	violations: Vec<(String, String, Value)>,
	vsigs: HashSet<String>,
	samples: Vec<Value>,
	inconclusive: Vec<String>,
}

impl Acc {
	fn eval(&mut self, sig: &str, nontrivial: bool, n: u64) {
		let e = self.evals.entry(sig.to_string()).or_insert((0, false));
		e.0 += n;
		e.1 |= nontrivial;
	}
	fn count(&mut self, name: &str, n: u64) {
		*self.counters.entry(name.to_string()).or_insert(0) += n;
	}
	fn violation(&mut self, sig: String, what: String, replay: Value) {
		if self.vsigs.insert(sig.clone()) {
			self.violations.push((sig, what, replay));
		}
	}
	fn inconclusive(&mut self, what: String) {
		if self.inconclusive.len() < 20 {
			self.inconclusive.push(what);
		}
	}
	fn sample(&mut self, v: Value) {
		let kind = v["kind"].as_str().unwrap_or("?").to_string();
		if self.samples.iter().filter(|s| s["kind"].as_str() == Some(kind.as_str())).count() < 2 {
			self.samples.push(v);
		}
	}
}

// ------------------------------------------------------------------ pool of base transactions

#[derive(Clone)]
enum OffSpec {
	Zero,
	Random,
	Chosen([u8; 32]),
	/// the kernel's excess key is given (several transactions signed under one excess key); offset = blind_sum - key
	Excess([u8; 32]),
}

struct Spec {
	ins: Vec<Coin>,
	outs: Vec<(u64, Identifier)>,
	feat: KernelFeatures,
	kv: char,
	off: OffSpec,
	off_tag: &'static str, // "z" zero, "r" random, "c" complementary half, "x" excess key shared with other transactions
	comp: usize,
	role: &'static str,
	v2: bool,
	fee: u64,
	seed: u64,
}

struct Base {
	tx: Transaction,
	kv: char,
	off_tag: &'static str,
	comp: usize,
	role: &'static str,
	v2: bool,
	fee: u64,
	ins: Vec<C33>,
	outs: Vec<C33>,
}

struct Pool {
	world: World,
	shard: u64,
	round: u64,
	base: Vec<Base>,
	comps: Vec<Vec<usize>>,
	compl: Option<(usize, usize)>,
	shared: Vec<usize>,
	linked: Vec<HashSet<usize>>,
	coinbases: HashMap<u64, (Output, TxKernel)>,
	cb_key: Identifier,
}

struct Planner<'a> {
	w: &'a World,
	p: Prng,
	next_key: u32,
	unit: u64,
	specs: Vec<Spec>,
	comps: Vec<Vec<usize>>,
}

impl<'a> Planner<'a> {
	fn key(&mut self) -> Identifier {
		let k = self.w.key(self.next_key);
		self.next_key += 1;
		k
	}

	/// A coin that no transaction of the pool creates ("already on chain").
	fn ext(&mut self) -> Coin {
		let v = self.p.range(1_000_000_000, 1_000_000_000_000);
		let k = self.key();
		let cb = self.p.chance(1, 4);
		self.w.coin(v, &k, cb)
	}

	fn exts(&mut self, n: usize) -> Vec<Coin> {
		(0..n).map(|_| self.ext()).collect()
	}

	fn features(&mut self, fee: u64) -> (KernelFeatures, char) {
		match self.p.below(8) {
			0..=3 => (KernelFeatures::Plain { fee: fee_fields(fee) }, 'P'),
			4 | 5 => {
				let lh = match self.p.below(4) {
					0 => 1,
					1 => 1000,
					_ => self.p.range(1, 1000),
				};
				(height_locked(fee, lh), 'H')
			}
			_ => {
				let rel = match self.p.below(4) {
					0 => 1,
					1 => 10080,
					_ => self.p.range(1, 10080),
				};
				(nrd(fee, rel), 'N')
			}
		}
	}

	fn new_comp(&mut self) -> usize {
		self.comps.push(vec![]);
		self.comps.len() - 1
	}

	/// Plan one transaction spending `ins` into `n_out` outputs (fee = unit * m).
	fn add(
		&mut self,
		comp: usize,
		role: &'static str,
		ins: Vec<Coin>,
		n_out: usize,
		off: Option<OffSpec>,
	) -> Vec<Coin> {
		let total: u64 = ins.iter().map(|c| c.value).sum();
		let m = if n_out == 0 { total / self.unit } else { 1 + self.p.below(2) };
		let fee = self.unit * m;
		assert!(total >= fee);
		let rest = total - fee;
		let mut outs = vec![];
		if n_out > 0 {
			let base = rest / (2 * n_out as u64);
			assert!(base > 10 * self.unit, "output too small to be spent again");
			let mut parts = vec![base; n_out];
			let mut left = rest - base * n_out as u64;
			for part in parts.iter_mut().take(n_out - 1) {
				let x = self.p.below(left / 2 + 1);
				*part += x;
				left -= x;
			}
			parts[n_out - 1] += left;
			for v in parts {
				let k = self.key();
				outs.push((v, k));
			}
		} else {
			assert!(rest == 0);
		}
		let (feat, kv) = self.features(fee);
		let (off, off_tag) = match off {
			Some(o) => (o, "c"),
			None => {
				if self.p.chance(3, 10) {
					(OffSpec::Zero, "z")
				} else {
					(OffSpec::Random, "r")
				}
			}
		};
		let coins: Vec<Coin> = outs.iter().map(|(v, k)| self.w.coin(*v, k, false)).collect();
		let v2 = self.p.chance(1, 8);
		let seed = self.p.next_u64();
		let idx = self.specs.len();
		self.specs.push(Spec {
			ins,
			outs,
			feat,
			kv,
			off,
			off_tag,
			comp,
			role,
			v2,
			fee,
			seed,
		});
		self.comps[comp].push(idx);
		coins
	}
}

impl<'a> Planner<'a> {
	/// Plan a transaction spending one fresh external coin into the output `forced` (an output some other
	/// transaction of the pool also creates: same value, same key, hence the same commitment) plus change.
	fn add_recreating(&mut self, comp: usize, role: &'static str, forced: &Coin) -> Vec<Coin> {
		let k_in = self.key();
		let fee = self.unit * (1 + self.p.below(2));
		let change = 1_000_000_000 + self.p.below(1_000_000_000);
		let input = self.w.coin(forced.value + fee + change, &k_in, false);
		let k_change = self.key();
		let outs = vec![(forced.value, forced.key_id.clone()), (change, k_change)];
		let (feat, kv) = self.features(fee);
		let (off, off_tag) = if self.p.chance(3, 10) { (OffSpec::Zero, "z") } else { (OffSpec::Random, "r") };
		let coins: Vec<Coin> = outs.iter().map(|(v, k)| self.w.coin(*v, k, false)).collect();
		let seed = self.p.next_u64();
		let idx = self.specs.len();
		self.specs.push(Spec { ins: vec![input], outs, feat, kv, off, off_tag, comp, role, v2: false, fee, seed });
		self.comps[comp].push(idx);
		coins
	}
}

/// Transaction with a caller-chosen offset: excess = blind_sum - offset.
fn tx_with_offset(
	w: &World,
	ins: &[Coin],
	outs: &[(u64, Identifier)],
	features: KernelFeatures,
	offset: &BlindingFactor,
) -> Transaction {
	let secp = w.kc.secp();
	let mut tx = Transaction::empty();
	let mut sum = BlindSum::new();
	for c in ins {
		tx = tx.with_input(c.input());
		sum = sum.sub_key_id(c.key_id.to_value_path(c.value));
	}
	for (v, k) in outs {
		tx = tx.with_output(w.output(*v, k));
		sum = sum.add_key_id(k.to_value_path(*v));
	}
	let blind_sum = w.kc.blind_sum(&sum).expect("blind sum");
	let excess = blind_sum.split(offset, secp).expect("split");
	let mut kernel = TxKernel::with_features(features);
	let msg = kernel.msg_to_sign().expect("msg");
	let skey = excess.secret_key(secp).expect("skey");
	kernel.excess = secp.commit(0, skey).expect("excess");
	let pubkey = kernel.excess.to_pubkey(secp).expect("pubkey");
	kernel.excess_sig =
		aggsig::sign_with_blinding(secp, &msg, &excess, Some(&pubkey)).expect("sign");
	let mut tx = tx.replace_kernel(kernel);
	tx.offset = offset.clone();
	tx
}

fn build_spec(w: &World, s: &Spec) -> Base {
	let mut prng = Prng::new(s.seed);
	let mut tx = match &s.off {
		OffSpec::Zero => w.tx_opts(&mut prng, &s.ins, &s.outs, s.feat, true).0,
		OffSpec::Random => w.tx_opts(&mut prng, &s.ins, &s.outs, s.feat, false).0,
		OffSpec::Chosen(o) => {
			tx_with_offset(w, &s.ins, &s.outs, s.feat, &BlindingFactor::from_slice(o))
		}
		OffSpec::Excess(e) => {
			let mut sum = BlindSum::new();
			for c in &s.ins {
				sum = sum.sub_key_id(c.key_id.to_value_path(c.value));
			}
			for (v, k) in &s.outs {
				sum = sum.add_key_id(k.to_value_path(*v));
			}
			let blind_sum = w.kc.blind_sum(&sum).expect("blind sum");
			let offset = blind_sum.split(&BlindingFactor::from_slice(e), w.kc.secp()).expect("split");
			tx_with_offset(w, &s.ins, &s.outs, s.feat, &offset)
		}
	};
	if s.v2 {
		// the representation transactions have after being read at protocol version <= 2
		let mut ins: Vec<Input> = s.ins.iter().map(|c| c.input()).collect();
		ins.sort_unstable();
		tx.body = tx.body.replace_inputs(Inputs::FeaturesAndCommit(ins));
	}
	Base {
		tx,
		kv: s.kv,
		off_tag: s.off_tag,
		comp: s.comp,
		role: s.role,
		v2: s.v2,
		fee: s.fee,
		ins: s.ins.iter().map(|c| c.commit.0).collect(),
		outs: s.outs.iter().map(|(v, k)| w.commit(*v, k).0).collect(),
	}
}

fn mix(a: u64, b: u64) -> u64 {
	let mut x = a ^ b.wrapping_mul(0x9E37_79B9_7F4A_7C15);
	splitmix64(&mut x)
}

fn round_seed(seed: u64, shard: u64, round: u64) -> u64 {
	mix(mix(mix(seed, 0xC12), shard), round)
}

/// `None` when `deadline` passed before every transaction was built.
fn build_pool(
	seed: u64,
	shard: u64,
	round: u64,
	threads: usize,
	deadline: Option<Instant>,
) -> Option<Pool> {
	let rs = round_seed(seed, shard, round);
	let world = World::new(rs);
	let mut pl = Planner {
		w: &world,
		p: Prng::new(mix(rs, 1)),
		next_key: 1,
		unit: 0,
		specs: vec![],
		comps: vec![],
	};
	pl.unit = pl.p.range(1, 1_000_000);

	// independent singles
	for _ in 0..10 {
		let c = pl.new_comp();
		let n_in = 1 + pl.p.usize_below(3);
		let n_out = 1 + pl.p.usize_below(3);
		let ins = pl.exts(n_in);
		pl.add(c, "single", ins, n_out, None);
	}
	// burn: everything goes to the fee, no outputs (three of them, one with two inputs: an aggregate may have an
	// empty output side)
	for nb in 0..3u64 {
		let c = pl.new_comp();
		let m = 1 + pl.p.below(3);
		let k = pl.key();
		let mut coins = vec![world.coin(pl.unit * m, &k, false)];
		if nb == 1 {
			let k2 = pl.key();
			coins.push(world.coin(pl.unit * (1 + pl.p.below(3)), &k2, false));
		}
		pl.add(c, "burn", coins, 0, None);
	}
	// chain of two: B spends one output of A (optionally plus an external coin)
	for _ in 0..3 {
		let c = pl.new_comp();
		let n_in = 1 + pl.p.usize_below(2);
		let ins = pl.exts(n_in);
		let a = pl.add(c, "c2.A", ins, 2, None);
		let mut b_in = vec![a[0].clone()];
		if pl.p.bool() {
			b_in.push(pl.ext());
		}
		let n_out = 1 + pl.p.usize_below(2);
		pl.add(c, "c2.B", b_in, n_out, None);
	}
	// full spend: B spends every output of A
	{
		let c = pl.new_comp();
		let ins = pl.exts(1);
		let n_a = 1 + pl.p.usize_below(2);
		let a = pl.add(c, "full.A", ins, n_a, None);
		pl.add(c, "full.B", a, 1, None);
	}
	// chains of three (second one is a triangle: C also spends an output of A)
	for tri in 0..2 {
		let c = pl.new_comp();
		let ins = pl.exts(1);
		let a = pl.add(c, "c3.A", ins, 2, None);
		let b = pl.add(c, "c3.B", vec![a[0].clone()], 2, None);
		let mut c_in = vec![b[0].clone()];
		if tri == 1 {
			c_in.push(a[1].clone());
		}
		pl.add(c, "c3.C", c_in, 1, None);
	}
	// diamonds
	for _ in 0..2 {
		let c = pl.new_comp();
		let ins = pl.exts(1);
		let a = pl.add(c, "dia.A", ins, 2, None);
		let b = pl.add(c, "dia.B", vec![a[0].clone()], 1, None);
		let n_c = 1 + pl.p.usize_below(2);
		let cc = pl.add(c, "dia.C", vec![a[1].clone()], n_c, None);
		pl.add(c, "dia.D", vec![b[0].clone(), cc[0].clone()], 1, None);
	}
	// fan-out: three children each spend one output of A
	{
		let c = pl.new_comp();
		let ins = pl.exts(2);
		let a = pl.add(c, "fan.A", ins, 3, None);
		for (i, coin) in a.iter().enumerate() {
			let role = ["fan.B", "fan.C", "fan.E"][i];
			pl.add(c, role, vec![coin.clone()], 1, None);
		}
	}
	// an output created, spent and created again (same value and key => same commitment), and spent again:
	// the commitment legitimately occurs twice on one side of the aggregate and exactly the matched pairs go
	for again in 0..2 {
		let c = pl.new_comp();
		let ins = pl.exts(1);
		let a = pl.add(c, "re.A", ins, 2, None);
		pl.add(c, "re.B", vec![a[0].clone()], 1, None);
		let r = pl.add_recreating(c, "re.R", &a[0]);
		if again == 1 {
			pl.add(c, "re.S", vec![r[0].clone()], 1, None);
		}
	}
	// complementary offsets k and n - k (two independent singles)
	let compl = {
		let mut k = [0u8; 32];
		loop {
			pl.p.fill(&mut k);
			k[0] &= 0x7f;
			if k.iter().any(|b| *b != 0) {
				break;
			}
		}
		let nk = unlimbs(neg_mod(&limbs(&k)));
		let c1 = pl.new_comp();
		let ins = pl.exts(1);
		pl.add(c1, "compl.P", ins, 1, Some(OffSpec::Chosen(k)));
		let i1 = pl.specs.len() - 1;
		let c2 = pl.new_comp();
		let ins = pl.exts(1);
		pl.add(c2, "compl.Q", ins, 1, Some(OffSpec::Chosen(nk)));
		Some((i1, pl.specs.len() - 1))
	};

	// three independent singles whose (different) kernels are signed under ONE excess key: a kernel is identified by
	// all of its fields, not by its excess
	let shared = {
		let mut e = [0u8; 32];
		loop {
			pl.p.fill(&mut e);
			e[0] &= 0x7f;
			if e.iter().any(|b| *b != 0) {
				break;
			}
		}
		let mut idxs = vec![];
		for k in 0..3u64 {
			let c = pl.new_comp();
			let ins = pl.exts(1);
			pl.add(c, ["shx.P", "shx.Q", "shx.R"][k as usize], ins, 1, Some(OffSpec::Excess(e)));
			let i = pl.specs.len() - 1;
			let fee = pl.specs[i].fee;
			let (feat, kv) = match k {
				0 => (KernelFeatures::Plain { fee: fee_fields(fee) }, 'P'),
				1 => (height_locked(fee, 1), 'H'),
				_ => (height_locked(fee, 7), 'H'),
			};
			pl.specs[i].feat = feat;
			pl.specs[i].kv = kv;
			pl.specs[i].off_tag = "x";
			idxs.push(i);
		}
		idxs
	};

	let Planner { specs, comps, next_key, .. } = pl;

	// build in parallel
	let n = specs.len();
	let mut slots: Vec<Option<Base>> = (0..n).map(|_| None).collect();
	let next = std::sync::atomic::AtomicUsize::new(0);
	let results: std::sync::Mutex<Vec<(usize, Base)>> = std::sync::Mutex::new(vec![]);
	std::thread::scope(|sc| {
		for _ in 0..threads.max(1) {
			sc.spawn(|| {
				init_thread(true);
				loop {
					let i = next.fetch_add(1, std::sync::atomic::Ordering::SeqCst);
					if i >= n || deadline.map(|d| Instant::now() >= d).unwrap_or(false) {
						break;
					}
					let b = build_spec(&world, &specs[i]);
					results.lock().unwrap().push((i, b));
				}
			});
		}
	});
	for (i, b) in results.into_inner().unwrap() {
		slots[i] = Some(b);
	}
	if slots.iter().any(|s| s.is_none()) {
		return None;
	}
	let base: Vec<Base> = slots.into_iter().map(|s| s.expect("built")).collect();

	// who touches whom (spend relation, either direction)
	let mut creator: HashMap<C33, usize> = HashMap::new();
	for (i, b) in base.iter().enumerate() {
		for o in &b.outs {
			creator.insert(*o, i);
		}
	}
	let mut linked: Vec<HashSet<usize>> = vec![HashSet::new(); base.len()];
	for (j, b) in base.iter().enumerate() {
		for c in &b.ins {
			if let Some(i) = creator.get(c) {
				linked[*i].insert(j);
				linked[j].insert(*i);
			}
		}
	}
	let cb_key = world.key(next_key + 1000);
	Some(Pool {
		world,
		shard,
		round,
		base,
		comps,
		compl,
		shared,
		linked,
		coinbases: HashMap::new(),
		cb_key,
	})
}

// ------------------------------------------------------------------ facts about a transaction

fn input_commits(tx: &Transaction) -> Vec<C33> {
	match &tx.body.inputs {
		Inputs::CommitOnly(v) => v.iter().map(|c| c.commitment().0).collect(),
		Inputs::FeaturesAndCommit(v) => v.iter().map(|i| i.commit.0).collect(),
	}
}

fn bytes_of<W: ser::Writeable>(w: &W) -> Vec<u8> {
	ser::ser_vec(w, PV).expect("serialize")
}

#[derive(PartialEq, Clone)]
struct Facts {
	inputs: Vec<C33>,
	outputs: Vec<Vec<u8>>,
	kernels: Vec<Vec<u8>>,
	offset: [u8; 32],
}

fn facts_of(tx: &Transaction) -> Facts {
	let mut inputs = input_commits(tx);
	inputs.sort();
	let mut outputs: Vec<Vec<u8>> = tx.outputs().iter().map(bytes_of).collect();
	outputs.sort();
	let mut kernels: Vec<Vec<u8>> = tx.kernels().iter().map(bytes_of).collect();
	kernels.sort();
	let mut offset = [0u8; 32];
	offset.copy_from_slice(tx.offset.as_ref());
	Facts {
		inputs,
		outputs,
		kernels,
		offset,
	}
}

/// The aggregate of `txs` from the definition: union of kernels, sum of
/// offsets, multiset union of inputs / outputs minus exactly the matched
/// spend pairs. Returns the facts and the number of matched pairs.
fn reference(txs: &[&Transaction]) -> (Facts, usize) {
	let mut all_in: Vec<C33> = vec![];
	let mut all_out: Vec<(C33, Vec<u8>)> = vec![];
	let mut kernels: Vec<Vec<u8>> = vec![];
	for t in txs {
		all_in.extend(input_commits(t));
		for o in t.outputs() {
			all_out.push((o.commitment().0, bytes_of(o)));
		}
		for k in t.kernels() {
			kernels.push(bytes_of(k));
		}
	}
	let mut n_in: HashMap<C33, usize> = HashMap::new();
	let mut n_out: HashMap<C33, usize> = HashMap::new();
	for c in &all_in {
		*n_in.entry(*c).or_insert(0) += 1;
	}
	for (c, _) in &all_out {
		*n_out.entry(*c).or_insert(0) += 1;
	}
	let mut matched: HashMap<C33, usize> = HashMap::new();
	let mut pairs = 0;
	for (c, i) in &n_in {
		if let Some(o) = n_out.get(c) {
			let m = (*i).min(*o);
			matched.insert(*c, m);
			pairs += m;
		}
	}
	let mut left = matched.clone();
	let mut inputs = vec![];
	for c in all_in {
		match left.get_mut(&c) {
			Some(m) if *m > 0 => *m -= 1,
			_ => inputs.push(c),
		}
	}
	let mut left = matched;
	let mut outputs = vec![];
	for (c, b) in all_out {
		match left.get_mut(&c) {
			Some(m) if *m > 0 => *m -= 1,
			_ => outputs.push(b),
		}
	}
	inputs.sort();
	outputs.sort();
	kernels.sort();
	let offset = sum_offsets(txs.iter().map(|t| &t.offset));
	(
		Facts {
			inputs,
			outputs,
			kernels,
			offset,
		},
		pairs,
	)
}

/// The transaction the definition of aggregation describes, assembled without
/// `aggregate` (used only to show that a refused aggregate exists and is valid).
fn hand_aggregate(txs: &[&Transaction]) -> Transaction {
	let mut ins: Vec<C33> = vec![];
	let mut outs: Vec<Output> = vec![];
	let mut kernels: Vec<TxKernel> = vec![];
	for t in txs {
		ins.extend(input_commits(t));
		outs.extend_from_slice(t.outputs());
		kernels.extend_from_slice(t.kernels());
	}
	let out_set: HashSet<C33> = outs.iter().map(|o| o.commitment().0).collect();
	let in_set: HashSet<C33> = ins.iter().cloned().collect();
	let ins: Vec<CommitWrapper> = ins
		.iter()
		.filter(|c| !out_set.contains(*c))
		.map(|c| CommitWrapper::from(Commitment(*c)))
		.collect();
	let outs: Vec<Output> = outs.into_iter().filter(|o| !in_set.contains(&o.commitment().0)).collect();
	let offset = sum_offsets(txs.iter().map(|t| &t.offset));
	Transaction::new(Inputs::CommitOnly(ins), &outs, &kernels).with_offset(BlindingFactor::from_slice(&offset))
}

fn weighting_for(tx: &Transaction) -> (Weighting, &'static str) {
	// 1 per input, 21 per output, 3 per kernel (consensus weights)
	let w = tx.inputs().len() as u64 + 21 * tx.outputs().len() as u64 + 3 * tx.kernels().len() as u64;
	if w <= global::max_tx_weight() {
		(Weighting::AsTransaction, "as_tx")
	} else {
		(Weighting::NoLimit, "no_limit")
	}
}

fn first_diff(a: &Facts, b: &Facts) -> &'static str {
	if a.kernels != b.kernels {
		"kernels"
	} else if a.offset != b.offset {
		"offset"
	} else if a.inputs != b.inputs {
		"inputs"
	} else if a.outputs != b.outputs {
		"outputs"
	} else {
		"none"
	}
}

// ------------------------------------------------------------------ case generation

struct Plan {
	groups: Vec<Vec<usize>>, // operands, each a list of base indexes (len > 1: pre-aggregated)
	strategy: &'static str,
}

fn gen_plan(pool: &Pool, p: &mut Prng) -> Plan {
	const W: [u64; 8] = [1, 4, 5, 5, 4, 3, 2, 2];
	let mut r = p.below(W.iter().sum());
	let mut target = 1;
	for (i, w) in W.iter().enumerate() {
		if r < *w {
			target = i + 1;
			break;
		}
		r -= *w;
	}
	let nb = pool.base.len();
	let compl = pool.compl.unwrap_or((usize::MAX, usize::MAX));
	let mut flat: Vec<usize> = vec![];
	let s = p.below(100);
	let strategy;
	let add = |flat: &mut Vec<usize>, i: usize, allow_both_compl: bool| {
		if flat.contains(&i) {
			return false;
		}
		if !allow_both_compl
			&& ((i == compl.0 && flat.contains(&compl.1)) || (i == compl.1 && flat.contains(&compl.0)))
		{
			return false;
		}
		flat.push(i);
		true
	};
	if s < 30 {
		strategy = "independent";
		let mut tries = 0;
		while flat.len() < target && tries < 200 {
			tries += 1;
			let i = p.usize_below(nb);
			if flat.iter().any(|j| pool.linked[*j].contains(&i)) {
				continue;
			}
			add(&mut flat, i, false);
		}
	} else if s < 72 {
		strategy = "component";
		let multi: Vec<&Vec<usize>> = pool.comps.iter().filter(|c| c.len() > 1).collect();
		let comp = *p.pick(&multi);
		if p.chance(3, 4) {
			for i in comp {
				add(&mut flat, *i, false);
			}
		} else {
			// connected-ish part of the component
			let k = 2 + p.usize_below(comp.len() - 1);
			for i in comp.iter().take(k) {
				add(&mut flat, *i, false);
			}
		}
		let mut tries = 0;
		while flat.len() < target && tries < 100 {
			tries += 1;
			let i = if p.chance(1, 3) {
				// pull in a second component
				let c2 = *p.pick(&multi);
				*p.pick(c2)
			} else {
				p.usize_below(nb)
			};
			add(&mut flat, i, false);
		}
	} else if s < 91 {
		strategy = "random";
		let mut tries = 0;
		while flat.len() < target && tries < 100 {
			tries += 1;
			add(&mut flat, p.usize_below(nb), false);
		}
	} else if s < 93 {
		// operands without a single output between them
		strategy = "spend_only";
		let mut burns: Vec<usize> = (0..nb).filter(|i| pool.base[*i].role == "burn").collect();
		p.shuffle(&mut burns);
		let k = 2 + p.usize_below(2);
		for i in burns.into_iter().take(k) {
			flat.push(i);
		}
	} else if s < 96 {
		strategy = "shared_excess";
		let k = 2 + p.usize_below(2);
		let mut sh = pool.shared.clone();
		p.shuffle(&mut sh);
		for i in sh.into_iter().take(k) {
			flat.push(i);
		}
		let mut tries = 0;
		while flat.len() < target.max(2) && tries < 100 {
			tries += 1;
			let i = p.usize_below(nb);
			if flat.iter().any(|j| pool.linked[*j].contains(&i)) {
				continue;
			}
			add(&mut flat, i, false);
		}
	} else {
		strategy = "complementary";
		if let Some((a, b)) = pool.compl {
			flat.push(a);
			flat.push(b);
		}
		let mut tries = 0;
		while flat.len() < target.max(2) && tries < 100 {
			tries += 1;
			add(&mut flat, p.usize_below(nb), true);
		}
	}
	p.shuffle(&mut flat);
	// operands: mostly the base transactions themselves, sometimes pre-aggregated groups
	let mut groups: Vec<Vec<usize>> = vec![];
	if flat.len() >= 2 && p.chance(35, 100) {
		let k = 1 + p.usize_below(flat.len() - 1); // number of operands < number of base txs
		groups = (0..k).map(|_| vec![]).collect();
		for (n, i) in flat.iter().enumerate() {
			let g = if n < k { n } else { p.usize_below(k) };
			groups[g].push(*i);
		}
	} else {
		for i in &flat {
			groups.push(vec![*i]);
		}
	}
	Plan { groups, strategy }
}

/// A failed `transaction::aggregate` call together with its operands.
struct AggErr {
	err: String,
	operands: Vec<Transaction>,
}

fn try_aggregate(txs: &[Transaction]) -> Result<Transaction, AggErr> {
	transaction::aggregate(txs).map_err(|e| AggErr {
		err: format!("{:?}", e),
		operands: txs.to_vec(),
	})
}

/// Every refused aggregation of valid, distinct, non-conflicting transactions is the same refutation,
/// wherever it happens (operand, permutation, grouping, subset): one signature per (error, offset class).
/// After removing the matched spend pairs, does a commitment remain more than once among the inputs or
/// among the outputs of these operands? Then no valid transaction is their aggregate (two of them create, or
/// spend, the same output without the other side in between) and `aggregate` has to refuse.
fn aggregate_would_hold_a_duplicate(txs: &[&Transaction]) -> bool {
	let mut n_in: HashMap<C33, i64> = HashMap::new();
	let mut n_out: HashMap<C33, i64> = HashMap::new();
	for t in txs {
		for c in input_commits(t) {
			*n_in.entry(c).or_insert(0) += 1;
		}
		for o in t.outputs() {
			*n_out.entry(o.commitment().0).or_insert(0) += 1;
		}
	}
	let keys: HashSet<C33> = n_in.keys().chain(n_out.keys()).cloned().collect();
	keys.iter().any(|c| {
		let (i, o) = (*n_in.get(c).unwrap_or(&0), *n_out.get(c).unwrap_or(&0));
		let m = i.min(o);
		i - m > 1 || o - m > 1
	})
}

fn report_agg_err(acc: &mut Acc, e: &AggErr, offc: &str, stage: &str, replay: Value) {
	let refs: Vec<&Transaction> = e.operands.iter().collect();
	if aggregate_would_hold_a_duplicate(&refs) {
		// e.g. the creator and the re-creator of an output grouped without the spender in between
		acc.count("aggregate_refused.operands_would_leave_a_duplicate_commitment", 1);
		return;
	}
	acc.count("aggregate_errors", 1);
	let by_hand = hand_aggregate(&refs);
	let (w, _) = weighting_for(&by_hand);
	let hand_ok = by_hand.validate(w);
	let zero_sum = sum_offsets(refs.iter().map(|t| &t.offset)) == [0u8; 32];
	let any_nonzero = refs.iter().any(|t| !t.offset.is_zero());
	acc.violation(
		format!("oracle=aggregate_ok;event=Err({});off={}", e.err, offc),
		format!(
			"aggregate of {} valid transactions failed with {} (stage {}); their offsets {}sum to 0 mod n{}; the aggregate \
			 assembled by hand (union of kernels, inputs/outputs minus matched pairs, summed offset) validates: {:?}",
			e.operands.len(),
			e.err,
			stage,
			if zero_sum { "" } else { "do not " },
			if any_nonzero { " (not all of them are zero)" } else { "" },
			hand_ok
		),
		replay,
	);
}

fn all_perms(n: usize) -> Vec<Vec<usize>> {
	fn rec(cur: &mut Vec<usize>, used: &mut Vec<bool>, n: usize, out: &mut Vec<Vec<usize>>) {
		if cur.len() == n {
			out.push(cur.clone());
			return;
		}
		for i in 0..n {
			if !used[i] {
				used[i] = true;
				cur.push(i);
				rec(cur, used, n, out);
				cur.pop();
				used[i] = false;
			}
		}
	}
	let mut out = vec![];
	rec(&mut vec![], &mut vec![false; n], n, &mut out);
	out
}

/// Random binary grouping: aggregate([nest(left), nest(right)]). The shape is
/// appended to `desc` in bracket notation.
fn nest(ops: &[Transaction], idx: &[usize], p: &mut Prng, desc: &mut String) -> Result<Transaction, AggErr> {
	if idx.len() == 1 {
		desc.push_str(&idx[0].to_string());
		return Ok(ops[idx[0]].clone());
	}
	let k = 1 + p.usize_below(idx.len() - 1);
	desc.push('(');
	let l = nest(ops, &idx[..k], p, desc)?;
	desc.push(' ');
	let r = nest(ops, &idx[k..], p, desc)?;
	desc.push(')');
	try_aggregate(&[l, r])
}

fn random_partition(n: usize, p: &mut Prng) -> Vec<Vec<usize>> {
	let k = 1 + p.usize_below(n);
	let mut order: Vec<usize> = (0..n).collect();
	p.shuffle(&mut order);
	let mut groups: Vec<Vec<usize>> = (0..k).map(|_| vec![]).collect();
	for (m, i) in order.iter().enumerate() {
		let g = if m < k { m } else { p.usize_below(k) };
		groups[g].push(*i);
	}
	groups
}

fn aggregate_partition(ops: &[Transaction], part: &[Vec<usize>]) -> Result<Vec<Transaction>, AggErr> {
	let mut out = vec![];
	for g in part {
		let txs: Vec<Transaction> = g.iter().map(|i| ops[*i].clone()).collect();
		out.push(try_aggregate(&txs)?);
	}
	Ok(out)
}

// ------------------------------------------------------------------ one case

struct CaseCtx<'a> {
	pool: &'a mut Pool,
	case: u64,
	plan: &'a Plan,
}

fn off_class(tags: &[&str]) -> &'static str {
	let z = tags.iter().filter(|t| **t == "z").count();
	if z == tags.len() {
		"allzero"
	} else if z == 0 {
		"nonzero"
	} else {
		"mixed"
	}
}

fn cap(n: usize, c: usize) -> String {
	if n >= c {
		format!("{}+", c)
	} else {
		n.to_string()
	}
}

fn run_case(cx: &mut CaseCtx, p: &mut Prng, acc: &mut Acc) {
	let plan = cx.plan;
	let shard = cx.pool.shard;
	let round = cx.pool.round;
	let case = cx.case;
	let flat: Vec<usize> = plan.groups.iter().flatten().cloned().collect();
	let n_ops = plan.groups.len();
	let replay = |extra: Value| -> Value {
		json!({"shard": shard, "round": round, "case": case, "groups": plan.groups, "strategy": plan.strategy, "detail": extra})
	};

	// ---- descriptors
	let both_compl = match cx.pool.compl {
		Some((a, b)) => flat.contains(&a) && flat.contains(&b),
		None => false,
	};
	let tags: Vec<&str> = flat.iter().map(|i| cx.pool.base[*i].off_tag).collect();
	let offc = if both_compl { "complementary" } else { off_class(&tags) };
	let (mut np, mut nh, mut nn) = (0, 0, 0);
	for i in &flat {
		match cx.pool.base[*i].kv {
			'P' => np += 1,
			'H' => nh += 1,
			_ => nn += 1,
		}
	}
	let kvs = format!("P{}H{}N{}", cap(np, 3), cap(nh, 3), cap(nn, 3));
	let multi_ops = plan.groups.iter().filter(|g| g.len() > 1).count();
	let any_v2 = flat.iter().any(|i| cx.pool.base[*i].v2);

	let (__stage, __t) = ("operands", Instant::now());
	// ---- operands (pre-aggregated groups are themselves results of aggregate)
	let mut ops: Vec<Transaction> = vec![];
	for g in &plan.groups {
		if g.len() == 1 {
			ops.push(cx.pool.base[g[0]].tx.clone());
		} else {
			let txs: Vec<Transaction> = g.iter().map(|i| cx.pool.base[*i].tx.clone()).collect();
			match try_aggregate(&txs) {
				Ok(t) => {
					let (w, _) = weighting_for(&t);
					if let Err(e) = t.validate(w) {
						acc.violation(
							format!("oracle=aggregate_valid;stage=operand;event=Err({:?});off={}", e, offc),
							format!("pre-aggregated operand {:?} does not validate: {:?}", g, e),
							replay(json!({"group": g})),
						);
						return;
					}
					acc.count("multi_kernel_operands_built_and_validated", 1);
					ops.push(t);
				}
				Err(e) => {
					report_agg_err(acc, &e, offc, "pre-aggregated operand", replay(json!({"group": g, "stage": "operand"})));
					return;
				}
			}
		}
	}

	acc.count(&format!("time_us_{}", __stage), __t.elapsed().as_micros() as u64);
	let (__stage, __t) = ("reference", Instant::now());
	// ---- shape of the spend relation: depth / join / fork over the base transactions (a DAG),
	// mutual spending between (pre-aggregated) operands as a flag of its own
	let nf = flat.len();
	let mut creator: HashMap<C33, usize> = HashMap::new();
	for (pos, i) in flat.iter().enumerate() {
		for o in &cx.pool.base[*i].outs {
			creator.insert(*o, pos);
		}
	}
	let mut parents: Vec<HashSet<usize>> = vec![HashSet::new(); nf];
	let mut children: Vec<HashSet<usize>> = vec![HashSet::new(); nf];
	for (pos, i) in flat.iter().enumerate() {
		for c in &cx.pool.base[*i].ins {
			if let Some(q) = creator.get(c) {
				parents[pos].insert(*q);
				children[*q].insert(pos);
			}
		}
	}
	// longest path, iteratively (nf <= 8; at most nf relaxation sweeps on a DAG)
	let mut dep = vec![1usize; nf];
	for _ in 0..nf {
		for q in 0..nf {
			for c in &children[q] {
				if dep[*c] < dep[q] + 1 && dep[q] < nf {
					dep[*c] = dep[q] + 1;
				}
			}
		}
	}
	let max_depth = dep.iter().cloned().max().unwrap_or(0);
	let join = parents.iter().any(|s| s.len() >= 2);
	let fork = children.iter().any(|s| s.len() >= 2);
	let mut op_of = vec![0usize; nf];
	{
		let mut pos = 0;
		for (g, grp) in plan.groups.iter().enumerate() {
			for _ in grp {
				op_of[pos] = g;
				pos += 1;
			}
		}
	}
	let mut op_edges: HashSet<(usize, usize)> = HashSet::new();
	for q in 0..nf {
		for c in &children[q] {
			if op_of[q] != op_of[*c] {
				op_edges.insert((op_of[q], op_of[*c]));
			}
		}
	}
	let mutual = op_edges.iter().any(|(a, b)| op_edges.contains(&(*b, *a)));

	let op_refs: Vec<&Transaction> = ops.iter().collect();
	let (want, pairs) = reference(&op_refs);
	// the same from the base transactions (grouping must not matter)
	let base_refs: Vec<&Transaction> = flat.iter().map(|i| &cx.pool.base[*i].tx).collect();
	let (want_flat, pairs_flat) = reference(&base_refs);
	let want_fee: u64 = flat.iter().map(|i| cx.pool.base[*i].fee).sum();

	let shape = format!(
		"p{}d{}{}{}{}",
		cap(pairs, 4),
		max_depth,
		if join { "j" } else { "" },
		if fork { "f" } else { "" },
		if mutual { "m" } else { "" }
	);
	if mutual {
		acc.count("aggregates_with_mutually_spending_operands", 1);
	}
	let perm_class = if n_ops <= 1 {
		"perm=none"
	} else if n_ops <= 5 {
		"perm=all"
	} else {
		"perm=sampled"
	};
	let sig = format!(
		"agg;n={};flat={};shape={};kv={};off={};mk={};v2={};{}",
		n_ops,
		flat.len(),
		shape,
		kvs,
		offc,
		cap(multi_ops, 2),
		any_v2 as u8,
		perm_class
	);
	let nontrivial = n_ops >= 2;
	acc.eval(&sig, nontrivial, 1);
	acc.count("aggregates_checked", 1);
	acc.count(&format!("strategy_{}", plan.strategy), 1);
	acc.count(&format!("offset_class_{}", offc), 1);
	if pairs > 0 {
		acc.count("aggregates_with_cut_through", 1);
		acc.count("cut_through_pairs_total", pairs as u64);
	}
	if pairs_flat > pairs {
		acc.count("aggregates_with_cut_through_inside_operands", 1);
	}
	if max_depth >= 3 {
		acc.count("shape_chain_depth_ge3", 1);
	}
	if join && fork {
		acc.count("shape_diamond_join_and_fork", 1);
	} else if join {
		acc.count("shape_join", 1);
	} else if fork {
		acc.count("shape_fork", 1);
	}
	if multi_ops > 0 {
		acc.count("aggregates_with_multi_kernel_operands", 1);
	}
	if any_v2 {
		acc.count("aggregates_with_v2_style_inputs", 1);
	}
	if nh > 0 {
		acc.count("aggregates_with_height_locked_kernel", 1);
	}
	if nn > 0 {
		acc.count("aggregates_with_nrd_kernel", 1);
	}
	if want.outputs.is_empty() {
		acc.count("aggregates_without_outputs", 1);
	}

	acc.count(&format!("time_us_{}", __stage), __t.elapsed().as_micros() as u64);
	let (__stage, __t) = ("aggregate", Instant::now());
	// ---- (0) aggregate
	let agg = match try_aggregate(&ops) {
		Ok(t) => t,
		Err(e) => {
			report_agg_err(acc, &e, offc, "aggregate of the operands", replay(json!({"stage": "aggregate", "shape": shape})));
			return;
		}
	};
	let got = facts_of(&agg);
	let agg_bytes = bytes_of(&agg);
	let agg_hash = agg.hash();
	let cut = if pairs > 0 { 1 } else { 0 };

	acc.count(&format!("time_us_{}", __stage), __t.elapsed().as_micros() as u64);
	let (__stage, __t) = ("validate", Instant::now());
	// ---- (1) validity
	let (w, wname) = weighting_for(&agg);
	acc.count(&format!("aggregate_validated_{}", wname), 1);
	if let Err(e) = agg.validate(w) {
		acc.violation(
			format!("oracle=aggregate_valid;stage=result;event=Err({:?});cut={};off={}", e, cut, offc),
			format!("aggregate of valid transactions does not validate: {:?} (shape {})", e, shape),
			replay(json!({"weighting": wname})),
		);
	}
	acc.count(&format!("time_us_{}", __stage), __t.elapsed().as_micros() as u64);
	let (__stage, __t) = ("compare", Instant::now());
	// ---- (2) kernels, (3) offset, (4) inputs / outputs
	if got.kernels != want.kernels {
		acc.violation(
			format!("oracle=kernels_union;cut={};off={}", cut, offc),
			format!("kernels of the aggregate ({}) are not the union of the operands' kernels ({})", got.kernels.len(), want.kernels.len()),
			replay(json!({})),
		);
	}
	if got.offset != want.offset {
		acc.violation(
			format!("oracle=offset_sum;cut={};off={}", cut, offc),
			"offset of the aggregate is not the sum (mod n) of the operands' offsets".into(),
			replay(json!({})),
		);
	}
	if got.inputs != want.inputs {
		acc.violation(
			format!("oracle=inputs_minus_matched;cut={};off={}", cut, offc),
			format!("inputs of the aggregate: {} found, {} expected ({} matched pairs)", got.inputs.len(), want.inputs.len(), pairs),
			replay(json!({})),
		);
	}
	if got.outputs != want.outputs {
		acc.violation(
			format!("oracle=outputs_minus_matched;cut={};off={}", cut, offc),
			format!("outputs of the aggregate: {} found, {} expected ({} matched pairs)", got.outputs.len(), want.outputs.len(), pairs),
			replay(json!({})),
		);
	}
	if multi_ops > 0 && got != want_flat {
		acc.violation(
			format!("oracle=grouping_vs_base_reference;diff={};off={}", first_diff(&got, &want_flat), offc),
			"aggregate over pre-aggregated operands differs from the reference computed over the base transactions".into(),
			replay(json!({})),
		);
	}
	// ---- (8) fee / overage
	if agg.fee() != want_fee || agg.overage() != want_fee as i64 {
		acc.violation(
			format!("oracle=fee_sum;cut={};off={}", cut, offc),
			format!("fee {} / overage {} of the aggregate, expected {}", agg.fee(), agg.overage(), want_fee),
			replay(json!({})),
		);
	}
	// harness sanity: own adder against secp (trusted adder), when secp can represent the result
	{
		let secp = cx.pool.world.kc.secp();
		let keys: Vec<SecretKey> = ops
			.iter()
			.filter(|t| !t.offset.is_zero())
			.filter_map(|t| t.offset.secret_key(secp).ok())
			.collect();
		if !keys.is_empty() && want.offset != [0u8; 32] {
			match secp.blind_sum(keys, vec![]) {
				Ok(s) => {
					acc.count("offset_sum_cross_checked_with_secp", 1);
					if s.0 != want.offset {
						acc.inconclusive("harness: own mod-n adder disagrees with secp blind_sum".into());
					}
				}
				Err(e) => acc.inconclusive(format!("harness: secp blind_sum failed: {:?}", e)),
			}
		}
	}

	acc.count(&format!("time_us_{}", __stage), __t.elapsed().as_micros() as u64);
	let (__stage, __t) = ("permutations", Instant::now());
	// ---- (5) order independence
	if n_ops >= 2 {
		let perms: Vec<Vec<usize>> = if n_ops <= 5 {
			acc.count("permutation_sets_exhaustive", 1);
			all_perms(n_ops)
		} else {
			let mut v = vec![];
			let mut rev: Vec<usize> = (0..n_ops).collect();
			rev.reverse();
			v.push(rev);
			for _ in 0..29 {
				let mut o: Vec<usize> = (0..n_ops).collect();
				p.shuffle(&mut o);
				v.push(o);
			}
			v
		};
		let mut n_perm = 0u64;
		for perm in &perms {
			let txs: Vec<Transaction> = perm.iter().map(|i| ops[*i].clone()).collect();
			n_perm += 1;
			match try_aggregate(&txs) {
				Ok(t) => {
					if bytes_of(&t) != agg_bytes || t.hash() != agg_hash || t != agg {
						acc.violation(
							format!("oracle=order_independence;diff={};cut={};off={}", first_diff(&facts_of(&t), &got), cut, offc),
							format!("aggregate depends on operand order: permutation {:?}", perm),
							replay(json!({"perm": perm})),
						);
						break;
					}
				}
				Err(e) => {
					report_agg_err(acc, &e, offc, "permutation", replay(json!({"perm": perm, "stage": "permutation"})));
					break;
				}
			}
		}
		acc.count("permutations_checked", n_perm);
		acc.eval(&sig, false, n_perm);
	}

	acc.count(&format!("time_us_{}", __stage), __t.elapsed().as_micros() as u64);
	let (__stage, __t) = ("groupings", Instant::now());
	// ---- (6) grouping independence
	if n_ops >= 2 {
		let mut n_grp = 0u64;
		for gi in 0..6 {
			let mut desc = String::new();
			let res = if gi < 4 {
				let mut order: Vec<usize> = (0..n_ops).collect();
				p.shuffle(&mut order);
				nest(&ops, &order, p, &mut desc)
			} else {
				let part = random_partition(n_ops, p);
				desc = format!("{:?}", part);
				aggregate_partition(&ops, &part).and_then(|v| try_aggregate(&v))
			};
			n_grp += 1;
			match res {
				Ok(t) => {
					if bytes_of(&t) != agg_bytes || t.hash() != agg_hash {
						acc.violation(
							format!("oracle=grouping_independence;diff={};cut={};off={}", first_diff(&facts_of(&t), &got), cut, offc),
							format!("aggregate depends on grouping: {}", desc),
							replay(json!({"grouping": desc})),
						);
						break;
					}
				}
				Err(e) => {
					report_agg_err(acc, &e, offc, "nested grouping", replay(json!({"grouping": desc, "stage": "grouping"})));
					break;
				}
			}
		}
		if multi_ops > 0 {
			// flat aggregate of the base transactions
			let txs: Vec<Transaction> = flat.iter().map(|i| cx.pool.base[*i].tx.clone()).collect();
			n_grp += 1;
			match try_aggregate(&txs) {
				Ok(t) => {
					if bytes_of(&t) != agg_bytes || t.hash() != agg_hash {
						acc.violation(
							format!("oracle=grouping_independence;diff={};cut={};off={}", first_diff(&facts_of(&t), &got), cut, offc),
							"aggregate of pre-aggregated operands differs from the flat aggregate of the base transactions".into(),
							replay(json!({"grouping": "flat"})),
						);
					}
				}
				Err(e) => report_agg_err(acc, &e, offc, "flat base transactions", replay(json!({"grouping": "flat", "stage": "grouping"}))),
			}
		}
		acc.count("groupings_checked", n_grp);
		acc.eval(&sig, false, n_grp);
	}

	acc.count(&format!("time_us_{}", __stage), __t.elapsed().as_micros() as u64);
	let (__stage, __t) = ("deaggregate", Instant::now());
	// ---- (7) de-aggregation (operands that do not spend each other's outputs)
	if pairs == 0 && n_ops >= 2 {
		for di in 0..3 {
			// subset: non-empty and proper, except one empty-subset probe now and then
			let mut member = vec![false; n_ops];
			if !(di == 2 && p.chance(1, 4)) {
				loop {
					for m in member.iter_mut() {
						*m = p.bool();
					}
					let k = member.iter().filter(|m| **m).count();
					if k > 0 && k < n_ops {
						break;
					}
				}
			}
			let subset: Vec<Transaction> = (0..n_ops).filter(|i| member[*i]).map(|i| ops[i].clone()).collect();
			let rest: Vec<&Transaction> = (0..n_ops).filter(|i| !member[*i]).map(|i| &ops[i]).collect();
			let (want_rest, _) = reference(&rest);
			let sub_off = sum_offsets(subset.iter().map(|t| &t.offset));
			let rz = if want_rest.offset == [0u8; 32] { "zero" } else { "nonzero" };
			let sz = if sub_off == [0u8; 32] { "zero" } else { "nonzero" };
			let dsig = format!(
				"deagg;n={};subset={};rem_off={};sub_off={};kv={};mk={}",
				n_ops,
				subset.len(),
				rz,
				sz,
				kvs,
				cap(multi_ops, 2)
			);
			acc.eval(&dsig, true, 1);
			acc.count("deaggregations_checked", 1);
			acc.count(&format!("deaggregations_remainder_offset_{}", rz), 1);
			{
				// a kernel excess occurring on both sides of the split (different kernels signed under one key)
				let sub_ex: HashSet<[u8; 33]> = subset.iter().flat_map(|t| t.kernels().iter().map(|k| k.excess.0)).collect();
				if rest.iter().any(|t| t.kernels().iter().any(|k| sub_ex.contains(&k.excess.0))) {
					acc.count("deaggregations_with_one_excess_key_on_both_sides", 1);
				}
			}
			let sub_idx: Vec<usize> = (0..n_ops).filter(|i| member[*i]).collect();
			// deaggregate aggregates the subset first: a failure there is the aggregate oracle's business
			if let Err(e) = try_aggregate(&subset) {
				report_agg_err(acc, &e, offc, "subset to de-aggregate", replay(json!({"subset_operands": sub_idx, "stage": "deaggregate_subset"})));
				continue;
			}
			match transaction::deaggregate(agg.clone(), &subset) {
				Ok(t) => {
					let f = facts_of(&t);
					if f != want_rest {
						acc.violation(
							format!("oracle=deaggregate_remainder;diff={};rem_off={};sub_off={}", first_diff(&f, &want_rest), rz, sz),
							format!("deaggregate(agg, subset {:?}) is not the aggregate of the remaining operands", sub_idx),
							replay(json!({"subset_operands": sub_idx})),
						);
					} else {
						let (w, _) = weighting_for(&t);
						if let Err(e) = t.validate(w) {
							// an empty remainder (no kernels) is not a transaction; we never ask for it
							acc.violation(
								format!("oracle=deaggregate_valid;event=Err({:?});rem_off={};sub_off={}", e, rz, sz),
								format!("deaggregated remainder does not validate: {:?}", e),
								replay(json!({"subset_operands": sub_idx})),
							);
						} else {
							acc.count("deaggregations_equal_and_valid", 1);
							if case % 32 == 1 {
								acc.sample(json!({
									"kind": "deaggregate", "shard": shard, "round": round, "case": case,
									"operands": n_ops, "subset_operands": sub_idx,
									"remainder": {"inputs": f.inputs.len(), "outputs": f.outputs.len(), "kernels": f.kernels.len(), "offset_zero": rz == "zero"},
								}));
							}
						}
					}
				}
				Err(e) => {
					acc.count("deaggregate_errors", 1);
					let by_hand = hand_aggregate(&rest);
					let (w, _) = weighting_for(&by_hand);
					let hand_ok = by_hand.validate(w);
					acc.violation(
						format!("oracle=deaggregate_ok;event=Err({:?});rem_off={};sub_off={}", e, rz, sz),
						format!(
							"deaggregate(agg of {} operands that do not spend each other's outputs, subset {:?}) failed with {:?}; \
							 the remaining {} operand(s) have offset sum {}, the subset's is {}; the remainder assembled by hand validates: {:?}",
							n_ops, sub_idx, e, rest.len(), rz, sz, hand_ok
						),
						replay(json!({"subset_operands": sub_idx})),
					);
				}
			}
		}
	}

	acc.count(&format!("time_us_{}", __stage), __t.elapsed().as_micros() as u64);
	let (__stage, __t) = ("hydrate", Instant::now());
	// ---- compact block round trips
	if case % 2 == 0 {
		hydration(cx, p, acc, &ops, &flat, &agg, want_fee, multi_ops > 0, offc, &kvs, &shape);
	}

	acc.count(&format!("time_us_{}", __stage), __t.elapsed().as_micros() as u64);
	if nontrivial && (pairs > 0 || multi_ops > 0) {
		acc.sample(json!({
			"kind": "aggregate", "shard": shard, "round": round, "case": case,
			"operands": plan.groups.iter().map(|g| g.iter().map(|i| format!("{}#{}:{}{}", cx.pool.base[*i].role, cx.pool.base[*i].comp, cx.pool.base[*i].kv, cx.pool.base[*i].off_tag)).collect::<Vec<_>>()).collect::<Vec<_>>(),
			"shape": shape, "matched_pairs": pairs,
			"aggregate": {"inputs": got.inputs.len(), "outputs": got.outputs.len(), "kernels": got.kernels.len(), "fee": want_fee, "hash": format!("{}", agg_hash)},
		}));
	}
}

/// The chain side of a `grin_pool::Pool` that is only used as a container here (entries are pushed directly).
struct NoChain;
impl grin_pool::BlockChain for NoChain {
	fn verify_coinbase_maturity(&self, _: &Inputs) -> Result<(), grin_pool::PoolError> {
		Ok(())
	}
	fn verify_tx_lock_height(&self, _: &Transaction) -> Result<(), grin_pool::PoolError> {
		Ok(())
	}
	fn validate_tx(&self, _: &Transaction) -> Result<(), grin_pool::PoolError> {
		Ok(())
	}
	fn validate_inputs(&self, _: &Inputs) -> Result<Vec<grin_core::core::OutputIdentifier>, grin_pool::PoolError> {
		Ok(vec![])
	}
	fn chain_head(&self) -> Result<BlockHeader, grin_pool::PoolError> {
		Ok(BlockHeader::default())
	}
	fn get_block_header(&self, _: &Hash) -> Result<BlockHeader, grin_pool::PoolError> {
		Err(grin_pool::PoolError::Other("no chain".into()))
	}
	fn get_block_sums(&self, _: &Hash) -> Result<grin_core::core::BlockSums, grin_pool::PoolError> {
		Err(grin_pool::PoolError::Other("no chain".into()))
	}
}

/// The node's route from a compact block to the transactions it hydrates from: the pool holds `txs` (in this
/// grouping) among unrelated entries, in shuffled order, and is asked for the compact block's kernel short ids.
fn via_pool_lookup(txs: &[Transaction], decoys: &[Transaction], cb: &CompactBlock, p: &mut Prng) -> (Vec<Transaction>, usize) {
	let mut all: Vec<Transaction> = txs.iter().cloned().chain(decoys.iter().cloned()).collect();
	p.shuffle(&mut all);
	let mut pool = grin_pool::Pool::new(std::sync::Arc::new(NoChain), "c12".to_string());
	for t in all {
		pool.entries.push(grin_pool::PoolEntry::new(t, grin_pool::TxSource::Broadcast));
	}
	let (found, missing) = pool.retrieve_transactions(cb.hash(), cb.nonce, cb.kern_ids());
	(found, missing.len())
}

#[allow(clippy::too_many_arguments)]
fn hydration(
	cx: &mut CaseCtx,
	p: &mut Prng,
	acc: &mut Acc,
	ops: &[Transaction],
	flat: &[usize],
	agg: &Transaction,
	fees: u64,
	has_multi: bool,
	offc: &str,
	kvs: &str,
	shape: &str,
) {
	let shard = cx.pool.shard;
	let round = cx.pool.round;
	let case = cx.case;
	let n_ops = ops.len();
	// coinbase for exactly these fees (cached per round: a bulletproof costs ~45 ms)
	if !cx.pool.coinbases.contains_key(&fees) {
		let cb = cx.pool.world.coinbase(&cx.pool.cb_key, fees);
		cx.pool.coinbases.insert(fees, cb);
		acc.count("coinbases_built", 1);
	}
	let (cb_out, cb_kern) = cx.pool.coinbases.get(&fees).cloned().unwrap();

	let mut prev = BlockHeader::default();
	prev.height = 1000 + p.below(1000);
	if !p.chance(3, 10) {
		let mut k = [0u8; 32];
		p.fill(&mut k);
		k[0] &= 0x7f;
		k[31] |= 1;
		prev.total_kernel_offset = BlindingFactor::from_slice(&k);
	}
	let mut block = match Block::from_reward(&prev, ops, cb_out, cb_kern, Difficulty::from_num(1 + p.below(1000))) {
		Ok(b) => b,
		Err(e) => {
			// aggregate already succeeded on the same operands: a failure here is in the offset sum with prev
			acc.count("from_reward_errors", 1);
			acc.inconclusive(format!("Block::from_reward failed: {:?} (shard {} round {} case {})", e, shard, round, case));
			return;
		}
	};
	vcommon::world::skip_pow_proof(&mut block.header, p);
	let block_bytes = bytes_of(&block);
	let block_hash = block.hash();
	acc.count("blocks_built", 1);

	// harness sanity (not part of the property): the block is a valid block
	if block.body.weight() <= global::max_block_weight() {
		match block.validate(&prev.total_kernel_offset) {
			Ok(()) => acc.count("blocks_sanity_validated", 1),
			Err(e) => acc.inconclusive(format!(
				"harness sanity: block built by from_reward does not validate: {:?} (shard {} round {} case {})",
				e, shard, round, case
			)),
		}
	}

	// expected non-coinbase kernels: the operands' kernels
	let tx_kernels: Vec<TxKernel> = ops.iter().flat_map(|t| t.kernels().to_vec()).collect();

	let mut variants: Vec<(&'static str, Vec<Transaction>)> = vec![("original", ops.to_vec())];
	if n_ops >= 2 {
		let mut o: Vec<usize> = (0..n_ops).collect();
		p.shuffle(&mut o);
		variants.push(("permuted", o.iter().map(|i| ops[*i].clone()).collect()));
		let part = random_partition(n_ops, p);
		match aggregate_partition(ops, &part) {
			Ok(v) => variants.push(("partially_aggregated", v)),
			Err(e) => report_agg_err(
				acc,
				&e,
				offc,
				"partition for hydration",
				json!({"shard": shard, "round": round, "case": case, "groups": cx.plan.groups, "partition": part, "stage": "hydration_partition"}),
			),
		}
	}
	variants.push(("full_aggregate", vec![agg.clone()]));
	if has_multi {
		let mut f: Vec<usize> = flat.to_vec();
		p.shuffle(&mut f);
		variants.push(("base_transactions", f.iter().map(|i| cx.pool.base[*i].tx.clone()).collect()));
	}

	for (vname, txs) in variants {
		let cb = CompactBlock::from(block.clone());
		let nonce = cb.nonce;
		let hsig = format!(
			"hydrate;n={};grouping={};shape={};kv={};off={}",
			n_ops, vname, shape, kvs, offc
		);
		acc.eval(&hsig, true, 1);
		acc.count("hydrations_checked", 1);
		acc.count(&format!("hydrations_{}", vname), 1);
		let replay = json!({"shard": shard, "round": round, "case": case, "groups": cx.plan.groups, "hydrate_from": vname, "nonce": nonce});

		// compact block content
		let mut want_ids: Vec<[u8; 6]> = tx_kernels.iter().map(|k| ref_short_id(k, &block_hash, nonce)).collect();
		want_ids.sort();
		let mut got_ids: Vec<[u8; 6]> = cb
			.kern_ids()
			.iter()
			.map(|s| {
				let mut a = [0u8; 6];
				a.copy_from_slice(s.as_ref());
				a
			})
			.collect();
		got_ids.sort();
		acc.count("short_ids_checked", got_ids.len() as u64);
		if got_ids != want_ids {
			acc.violation(
				"oracle=compact_kern_ids".into(),
				format!("kernel short ids of the compact block ({}) are not the short ids of the transactions' kernels ({}) for nonce {}", got_ids.len(), want_ids.len(), nonce),
				replay.clone(),
			);
		}
		let cb_out_ok = cb.out_full().len() == 1 && bytes_of(&cb.out_full()[0]) == bytes_of(&cx.pool.coinbases[&fees].0);
		let cb_kern_ok = cb.kern_full().len() == 1 && bytes_of(&cb.kern_full()[0]) == bytes_of(&cx.pool.coinbases[&fees].1);
		if !cb_out_ok || !cb_kern_ok {
			acc.violation(
				format!("oracle=compact_coinbase_in_full;out_ok={};kern_ok={}", cb_out_ok, cb_kern_ok),
				"compact block does not carry exactly the coinbase output and kernel in full".into(),
				replay.clone(),
			);
		}
		if cb.header.hash() != block_hash {
			acc.violation("oracle=compact_header".into(), "compact block header differs".into(), replay.clone());
		}

		// through the wire format now and then
		let cb = if p.chance(1, 3) {
			let raw = bytes_of(&cb);
			match ser::deserialize::<CompactBlock, _>(&mut &raw[..], PV, DeserializationMode::default()) {
				Ok(c) => {
					acc.count("hydrations_via_serialized_compact_block", 1);
					c
				}
				Err(e) => {
					acc.inconclusive(format!("harness: compact block does not deserialize: {:?}", e));
					cb
				}
			}
		} else {
			cb
		};

		// every second time the transactions reach hydrate_from the way they do in a node: through the pool's
		// lookup by kernel short id (the pool holds them in this grouping, among unrelated entries)
		let (txs, vname): (Vec<Transaction>, &'static str) = if p.bool() {
			let decoys: Vec<Transaction> = cx
				.pool
				.base
				.iter()
				.enumerate()
				.filter(|(i, _)| !flat.contains(i))
				.map(|(_, b)| b.tx.clone())
				.take(4)
				.collect();
			let (found, n_missing) = via_pool_lookup(&txs, &decoys, &cb, p);
			acc.count("hydrations_via_pool_lookup", 1);
			if txs.iter().any(|t| t.kernels().len() > 1) {
				acc.count("hydrations_via_pool_lookup_with_multi_kernel_entries", 1);
			}
			if n_missing != 0 {
				acc.violation(
					format!("oracle=pool_lookup_complete;grouping={}", vname),
					format!("the pool holds every transaction of the block (grouping {}) but retrieve_transactions reports {} of {} kernel short ids missing", vname, n_missing, cb.kern_ids().len()),
					replay.clone(),
				);
			}
			let vn: &'static str = match vname {
				"original" => "original_via_pool",
				"permuted" => "permuted_via_pool",
				"partially_aggregated" => "partially_aggregated_via_pool",
				"full_aggregate" => "full_aggregate_via_pool",
				_ => "base_transactions_via_pool",
			};
			(found, vn)
		} else {
			(txs, vname)
		};
		match Block::hydrate_from(cb, &txs) {
			Ok(h) => {
				let same_hash = h.hash() == block_hash;
				let same_body = bytes_of(&h) == block_bytes;
				if !same_hash || !same_body {
					let d = if !same_hash {
						"header"
					} else if bytes_of(&h.body.kernels) != bytes_of(&block.body.kernels) {
						"kernels"
					} else if bytes_of(&h.body.outputs) != bytes_of(&block.body.outputs) {
						"outputs"
					} else {
						"inputs"
					};
					acc.violation(
						format!("oracle=hydrate_identity;diff={};grouping={}", d, vname),
						format!(
							"block hydrated from {} differs from the block ({} in / {} out / {} kern vs {} / {} / {})",
							vname,
							h.inputs().len(), h.outputs().len(), h.kernels().len(),
							block.inputs().len(), block.outputs().len(), block.kernels().len()
						),
						replay.clone(),
					);
				} else {
					acc.count("hydrations_identical", 1);
				}
			}
			Err(e) => acc.violation(
				format!("oracle=hydrate_ok;event=Err({:?});grouping={}", e, vname),
				format!("hydrate_from({}) failed: {:?}", vname, e),
				replay.clone(),
			),
		}
	}

	// short_id at fixed and seeded nonces (CompactBlock::from draws its nonce from thread_rng)
	for nonce in [0u64, 1, u64::MAX, p.next_u64()] {
		for k in &tx_kernels {
			let got = k.short_id(&block_hash, nonce);
			acc.count("short_ids_checked", 1);
			if got.as_ref() != &ref_short_id(k, &block_hash, nonce)[..] {
				acc.violation(
					"oracle=short_id_definition".into(),
					format!("short_id differs from SipHash-2-4 reference for nonce {}", nonce),
					json!({"shard": shard, "round": round, "case": case, "nonce": nonce}),
				);
			}
		}
	}

	if case % 64 == 0 {
		acc.sample(json!({
			"kind": "hydrate", "shard": shard, "round": round, "case": case, "operands": n_ops,
			"block": {"hash": format!("{}", block_hash), "height": block.header.height, "inputs": block.inputs().len(), "outputs": block.outputs().len(), "kernels": block.kernels().len(), "fees": fees},
		}));
	}
}

/// Block without transactions (coinbase only).
fn empty_block_case(pool: &mut Pool, p: &mut Prng, acc: &mut Acc) {
	if !pool.coinbases.contains_key(&0) {
		let cb = pool.world.coinbase(&pool.cb_key, 0);
		pool.coinbases.insert(0, cb);
	}
	let (o, k) = pool.coinbases[&0].clone();
	let mut prev = BlockHeader::default();
	prev.height = p.below(2000);
	let mut block = match Block::from_reward(&prev, &[], o, k, Difficulty::from_num(1)) {
		Ok(b) => b,
		Err(e) => {
			acc.inconclusive(format!("from_reward for an empty block failed: {:?}", e));
			return;
		}
	};
	vcommon::world::skip_pow_proof(&mut block.header, p);
	let cb = CompactBlock::from(block.clone());
	acc.eval("hydrate;n=0;grouping=none", false, 1);
	acc.count("hydrations_checked", 1);
	acc.count("hydrations_empty_block", 1);
	let replay = json!({"shard": pool.shard, "round": pool.round, "case": "empty_block", "nonce": cb.nonce});
	if !cb.kern_ids().is_empty() || cb.out_full().len() != 1 || cb.kern_full().len() != 1 {
		acc.violation("oracle=compact_coinbase_in_full;empty_block".into(), "compact form of a coinbase-only block is wrong".into(), replay.clone());
	}
	match Block::hydrate_from(cb, &[]) {
		Ok(h) => {
			if h.hash() != block.hash() || bytes_of(&h) != bytes_of(&block) {
				acc.violation("oracle=hydrate_identity;diff=any;grouping=empty".into(), "hydrated coinbase-only block differs".into(), replay);
			} else {
				acc.count("hydrations_identical", 1);
			}
		}
		Err(e) => acc.violation(format!("oracle=hydrate_ok;event=Err({:?});grouping=empty", e), "hydrate_from of an empty block failed".into(), replay),
	}
}

// ------------------------------------------------------------------ shard driver

#[derive(Clone, Copy)]
struct Cfg {
	seed: u64,
	budget_s: f64,
	max_rounds: u64,
	cases_per_round: u64,
	round_cap_s: f64,
	build_threads: usize,
}

fn check_base_txs(pool: &Pool, acc: &mut Acc) -> bool {
	for (i, b) in pool.base.iter().enumerate() {
		acc.count("base_transactions_built", 1);
		if let Err(e) = b.tx.validate(Weighting::AsTransaction) {
			acc.inconclusive(format!(
				"harness: base transaction {} ({}) of shard {} round {} does not validate: {:?}",
				i, b.role, pool.shard, pool.round, e
			));
			return false;
		}
	}
	true
}

fn run_one(pool: &mut Pool, seed: u64, case: u64, acc: &mut Acc) {
	let mut p = Prng::new(mix(round_seed(seed, pool.shard, pool.round), 0x1000 + case));
	let plan = gen_plan(pool, &mut p);
	let (shard, round) = (pool.shard, pool.round);
	let groups = plan.groups.clone();
	let mut cx = CaseCtx { pool, case, plan: &plan };
	let r = monitor::catch(|| run_case(&mut cx, &mut p, acc));
	if let Err(pr) = r {
		let replay = json!({"shard": shard, "round": round, "case": case, "groups": groups, "panic": pr.message});
		if pr.location.contains("c12.rs") || pr.location.contains("vcommon") {
			acc.inconclusive(format!("harness panic at {}: {}", pr.location, pr.message));
		} else {
			acc.violation(
				format!("oracle=no_panic;event=panic@{}", pr.location),
				format!("panic while aggregating / hydrating valid transactions: {}", pr.message),
				replay,
			);
		}
	}
}

fn run_shard(cfg: &Cfg, shard: u64, acc: &mut Acc) {
	let t0 = Instant::now();
	let budget = Duration::from_secs_f64(cfg.budget_s);
	for round in 0..cfg.max_rounds {
		if t0.elapsed() >= budget {
			break;
		}
		// a pool costs ~3 s of CPU: do not start one that cannot be used any more
		if round > 0 && t0.elapsed() + Duration::from_secs(5) >= budget {
			break;
		}
		let mut pool = match build_pool(cfg.seed, shard, round, cfg.build_threads, Some(t0 + budget)) {
			Some(p) => p,
			None => {
				acc.count("pools_abandoned_at_deadline", 1);
				break;
			}
		};
		acc.count("pools_built", 1);
		if !check_base_txs(&pool, acc) {
			continue;
		}
		let r0 = Instant::now();
		let mut p = Prng::new(mix(round_seed(cfg.seed, shard, round), 7));
		let empty_r = monitor::catch(|| empty_block_case(&mut pool, &mut p, acc));
		if let Err(pr) = empty_r {
			acc.violation(
				format!("oracle=no_panic;event=panic@{}", pr.location),
				format!("panic in empty block round trip: {}", pr.message),
				json!({"shard": shard, "round": round, "case": "empty_block"}),
			);
		}
		for case in 0..cfg.cases_per_round {
			if t0.elapsed() >= budget || r0.elapsed().as_secs_f64() >= cfg.round_cap_s {
				acc.count("rounds_cut_short_by_time", 1);
				break;
			}
			run_one(&mut pool, cfg.seed, case, acc);
		}
	}
}

// ------------------------------------------------------------------ self tests of the harness oracles

fn self_test() -> Result<(), String> {
	// SipHash-2-4 reference vector (key 00..0f, message 00..0e)
	let k0 = u64::from_le_bytes([0, 1, 2, 3, 4, 5, 6, 7]);
	let k1 = u64::from_le_bytes([8, 9, 10, 11, 12, 13, 14, 15]);
	let msg: Vec<u8> = (0u8..15).collect();
	if siphash24(k0, k1, &msg) != 0xa129_ca61_49be_45e5 {
		return Err("own SipHash-2-4 fails the reference vector".into());
	}
	if siphash24(k0, k1, &[]) != 0x726f_db47_dd0e_0e31 {
		return Err("own SipHash-2-4 fails the empty-message vector".into());
	}
	// mod-n adder: (n-1) + 1 = 0, (n-1) + 2 = 1, k + (n-k) = 0
	let one = [0, 0, 0, 1u64];
	let nm1 = sub256(&ORDER, &one);
	if add_mod(&nm1, &one) != [0u64; 4] || add_mod(&nm1, &[0, 0, 0, 2]) != one {
		return Err("own mod-n adder wrong at the wrap".into());
	}
	let k = [0x1234_5678_9abc_def0, 0xffff_ffff_ffff_ffff, 0, 42];
	if add_mod(&k, &neg_mod(&k)) != [0u64; 4] {
		return Err("own mod-n negation wrong".into());
	}
	Ok(())
}

// ------------------------------------------------------------------ main

/// Move everything a shard recorded into the run context.
fn flush(run: &Run, acc: &Acc) {
	let mut total_evals = 0u64;
	let mut distinct = vec![];
	for (sig, (n, nontrivial)) in &acc.evals {
		total_evals += n;
		if *nontrivial {
			distinct.push(fnv64(sig.as_bytes()));
		}
	}
	run.eval_bulk(total_evals, distinct);
	for (k, v) in &acc.counters {
		run.count(k, *v);
	}
	for s in &acc.samples {
		run.sample(s.clone());
	}
	for i in &acc.inconclusive {
		run.inconclusive(i);
	}
	for (sig, what, replay) in &acc.violations {
		run.violation(sig, what, replay.clone());
	}
}

fn main() {
	init_globals(true);
	let run = Run::from_env("C12", "exploration");
	let mut acc = Acc::default();

	// ---- worker process: one shard, results go to the parent through stdout
	if let Some((shard, _n)) = run.worker_shard() {
		let num = |name: &str, d: f64| -> f64 { run.arg_value(name).and_then(|s| s.parse().ok()).unwrap_or(d) };
		let cfg = Cfg {
			seed: run.seed,
			budget_s: num("--budget", 10.0),
			max_rounds: num("--rounds", 1.0) as u64,
			cases_per_round: num("--cases", 100.0) as u64,
			round_cap_s: num("--round-cap", 10.0),
			build_threads: num("--build-threads", 2.0) as usize,
		};
		run_shard(&cfg, shard as u64, &mut acc);
		flush(&run, &acc);
		run.finish_worker();
	}

	let san = run.args.iter().any(|a| a == "--san");
	run.set_rule(
		"Per (shard, round): a pool of 39 valid base transactions with known openings is built from the seed \
		 (10 independent singles with 1-3 inputs/outputs, a burn without outputs, 3 two-chains, a full spend, a three-chain, \
		 a triangle, 2 diamonds, a 3-way fan-out, a pair with complementary offsets k / n-k, three singles whose different kernels share one excess key; kernel variant Plain/HeightLocked/NRD, \
		 offset zero (30%) or random, 1/8 with v2-style FeaturesAndCommit inputs; inputs are coins that exist on no chain). \
		 A case picks 1-8 distinct base transactions (strategies: independent / whole-or-part component plus extras / random / only transactions without outputs / shared excess key / complementary), \
		 in 35% of the cases pre-aggregates random groups into multi-kernel operands, and checks aggregate() against a reference \
		 computed with HashMap multiset arithmetic over commitments, an own 256-bit mod-n adder and the planned fees; then every \
		 permutation (<= 5 operands, 30 sampled beyond), 6 random nested/partition groupings (+ flat base list), 3 de-aggregations \
		 when no operand spends another's output, and for every second case a block (from_reward on a synthetic parent at height \
		 1000-1999 with zero or random accumulated offset) is converted to a compact block with a fresh nonce for each of \
		 original / permuted / partially aggregated / fully aggregated / base-transaction groupings, 1/3 through the wire format, \
		 and hydrated back; kernel short ids are compared with an own SipHash-2-4. A case is non-trivial when it has >= 2 operands; \
		 distinct = (operand count, base count, cut-through shape p<pairs>d<depth>[j][f][m], kernel-variant multiset, offset class, \
		 multi-kernel operands, v2 inputs, permutation class) for aggregates, (operand count, subset size, remainder/subset offset \
		 class, kernel variants) for de-aggregations and (operand count, grouping, shape, kernel variants, offset class) for hydrations. \
		 Work is sharded over worker processes (validation serialises on the process-global secp mutex); every case is a function \
		 of (seed, shard, round, case index), time caps only shorten the prefix of cases that is executed.",
	);
	run.assume("Trusted base: secp256k1 (commitments, signatures, bulletproofs), blake2b hashing (Hashed::hash), serialization of outputs/kernels used to compare values.");
	run.assume("CompactBlock::from draws its nonce from thread_rng: nonces are fresh per conversion and recorded in replay data, not derived from the seed.");
	run.assume("Duplicated operands and double spends across operands are invalid inputs and are not generated.");

	if let Err(e) = self_test() {
		run.inconclusive(&format!("harness self test failed: {}", e));
		run.require("harness self test", 0, 1);
		run.finish();
	}

	let t_start = Instant::now();
	if let Some(rp) = &run.replay {
		// re-run exactly one recorded case
		let v: Value = std::fs::read_to_string(rp)
			.ok()
			.and_then(|s| serde_json::from_str(&s).ok())
			.unwrap_or(Value::Null);
		let c = &v["case"];
		let (shard, round) = (c["shard"].as_u64().unwrap_or(0), c["round"].as_u64().unwrap_or(0));
		let mut pool = build_pool(run.seed, shard, round, 8, None).expect("pool");
		if check_base_txs(&pool, &mut acc) {
			match c["case"].as_u64() {
				Some(case) => run_one(&mut pool, run.seed, case, &mut acc),
				None => {
					let mut p = Prng::new(mix(round_seed(run.seed, shard, round), 7));
					empty_block_case(&mut pool, &mut p, &mut acc);
				}
			}
		}
		println!("[C12] replayed shard {} round {} case {}", shard, round, c["case"]);
		flush(&run, &acc);
	} else if san {
		let cfg = Cfg {
			seed: run.seed,
			budget_s: 60.0,
			max_rounds: 1,
			cases_per_round: 100,
			round_cap_s: 60.0,
			build_threads: 8,
		};
		run_shard(&cfg, 0, &mut acc);
		flush(&run, &acc);
	} else {
		let cores = std::thread::available_parallelism().map(|n| n.get()).unwrap_or(4);
		let shards = cores.saturating_sub(2).clamp(2, 14);
		let budget_s: f64 = run.tier.pick(52.0, 440.0);
		let max_rounds: u64 = run.tier.pick(8, 60);
		let extra: Vec<String> = [
			"--budget",
			&budget_s.to_string(),
			"--rounds",
			&max_rounds.to_string(),
			"--cases",
			"400",
			"--round-cap",
			"9.5",
			"--build-threads",
			"2",
		]
		.iter()
		.map(|s| s.to_string())
		.collect();
		let timeout = budget_s as u64 + run.tier.pick(25, 90);
		let results = run.spawn_workers(shards, &extra, timeout);
		let ok = (results.len() as u64).saturating_sub(run.counter("workers_failed"));
		run.count("workers_completed", ok);
		run.require("worker processes completed", ok, shards as u64);
	}
	run.extra("generation_wall_s", json!(t_start.elapsed().as_secs_f64()));

	if run.replay.is_none() {
		// minimum observations; sanitizer runs use a small workload
		let scale = |q: u64, t: u64| -> u64 {
			if san {
				(q / 60).max(1)
			} else {
				// thresholds are a third of what the time-budgeted workload yields under moderate
				// load (the workload is capped by time, so a heavily loaded machine yields fewer cases)
				match run.tier {
					Tier::Quick => (q / 3).max(1),
					Tier::Thorough => (t / 3).max(1),
				}
			}
		};
		let c = |name: &str| run.counter(name);
		run.require("aggregates checked", c("aggregates_checked"), scale(600, 4800));
		run.require("aggregates with cut-through pairs > 0", c("aggregates_with_cut_through"), scale(220, 1760));
		run.require("aggregates with chain depth >= 3", c("shape_chain_depth_ge3"), scale(70, 560));
		run.require("aggregates with a diamond (fork and join)", c("shape_diamond_join_and_fork"), scale(50, 400));
		run.require("aggregates with multi-kernel operands", c("aggregates_with_multi_kernel_operands"), scale(170, 1360));
		run.require("aggregates with HeightLocked kernels", c("aggregates_with_height_locked_kernel"), scale(350, 2800));
		run.require("aggregates with NRD kernels", c("aggregates_with_nrd_kernel"), scale(350, 2800));
		run.require("aggregates of all-zero offsets", c("offset_class_allzero"), scale(10, 80));
		run.require("aggregates of mixed zero/non-zero offsets", c("offset_class_mixed"), scale(350, 2800));
		run.require("permutations checked", c("permutations_checked"), scale(12000, 96000));
		run.require("groupings checked", c("groupings_checked"), scale(2500, 20000));
		run.require("deaggregations checked", c("deaggregations_checked"), scale(650, 5200));
		run.require("deaggregations with one excess key on both sides of the split", c("deaggregations_with_one_excess_key_on_both_sides"), scale(10, 80));
		run.require("hydrations checked", c("hydrations_checked"), scale(1000, 8000));
		run.require("kernel short ids checked", c("short_ids_checked"), scale(9000, 72000));
	}
	run.finish();
}
