//! C03 — head is the most-work validated chain, whatever the arrival order.
//!
//! Oracles: (1) per delivery: `head()` == max-work block among accepted blocks
//! whose ancestors are all accepted (reference ledger, accepted set from the
//! `block_accepted` callbacks); (2) event log (hook H4): every HeadMove goes to
//! strictly more work and to a block that is stored and accepted by the end of
//! the call; (3) pairwise comparison of final snapshots across delivery orders
//! of the same block set and against a node fed the winning chain only.

use grin_chain::types::Options;
use grin_chain::{Chain, Tip};
use grin_core::core::hash::{Hash, Hashed};
use grin_core::core::BlockHeader;
use grin_util::verif_hooks;
use serde_json::json;
use std::collections::{HashMap, HashSet};
use std::sync::atomic::{AtomicU64, Ordering};
use std::sync::Arc;
use vcommon::forktree::{gen_history, shape_sig, Hist, TreeCfg};
use vcommon::snapshot::{compare_with_ref, diff, snapshot, Snap};
use vcommon::world::{init_globals, init_thread, open_chain_with, RecordingAdapter};
use vcommon::{Prng, Run, Scratch};

#[derive(Clone, Debug, PartialEq)]
enum Step {
	Block(usize),
	Header(usize),
	/// contiguous header batch (indices, parent-first) through sync_block_headers
	HeaderBatch(Vec<usize>),
}

#[derive(Clone, Debug)]
struct Order {
	class: String,
	steps: Vec<Step>,
}

fn permutations(n: usize) -> Vec<Vec<usize>> {
	fn rec(cur: &mut Vec<usize>, used: &mut Vec<bool>, n: usize, out: &mut Vec<Vec<usize>>) {
		if cur.len() == n {
			out.push(cur.clone());
			return;
		}
		for i in 0..n {
			if !used[i] {
				used[i] = true;
				cur.push(i);
				rec(cur, used, n, out);
				cur.pop();
				used[i] = false;
			}
		}
	}
	let mut out = vec![];
	rec(&mut vec![], &mut vec![false; n], n, &mut out);
	out
}

fn is_parent_first(h: &Hist, perm: &[usize]) -> bool {
	let mut seen: HashSet<Hash> = HashSet::new();
	seen.insert(h.genesis.hash());
	for &i in perm {
		if !seen.contains(&h.blocks[i].parent) {
			return false;
		}
		seen.insert(h.blocks[i].hash);
	}
	true
}

fn random_parent_first(h: &Hist, prng: &mut Prng) -> Vec<usize> {
	let mut delivered: HashSet<Hash> = HashSet::new();
	delivered.insert(h.genesis.hash());
	let mut remaining: Vec<usize> = (0..h.blocks.len()).collect();
	let mut order = vec![];
	while !remaining.is_empty() {
		let ready: Vec<usize> = remaining
			.iter()
			.cloned()
			.filter(|&i| delivered.contains(&h.blocks[i].parent))
			.collect();
		let pick = *prng.pick(&ready);
		remaining.retain(|&x| x != pick);
		delivered.insert(h.blocks[pick].hash);
		order.push(pick);
	}
	order
}

/// Branch paths (parent-first index lists) covering every block: for each leaf
/// the path from the first block not covered by an earlier path.
fn header_batches(h: &Hist) -> Vec<Vec<usize>> {
	let idx: HashMap<Hash, usize> = h.blocks.iter().enumerate().map(|(i, b)| (b.hash, i)).collect();
	let parents: HashSet<Hash> = h.blocks.iter().map(|b| b.parent).collect();
	let mut covered: HashSet<usize> = HashSet::new();
	let mut batches = vec![];
	// leaves in creation order
	for (i, b) in h.blocks.iter().enumerate() {
		if parents.contains(&b.hash) {
			continue;
		}
		let mut path = vec![];
		let mut cur = i;
		loop {
			if covered.contains(&cur) {
				break;
			}
			path.push(cur);
			match idx.get(&h.blocks[cur].parent) {
				Some(&p) => cur = p,
				None => break,
			}
		}
		path.reverse();
		for &p in &path {
			covered.insert(p);
		}
		if !path.is_empty() {
			batches.push(path);
		}
	}
	batches
}

fn make_orders(h: &Hist, prng: &mut Prng, max_orders: usize, exhaustive_limit: usize) -> (Vec<Order>, bool) {
	let n = h.blocks.len();
	let mut orders = vec![];
	let mut exhaustive = false;
	let batches = header_batches(h);
	if n <= exhaustive_limit {
		exhaustive = true;
		for p in permutations(n) {
			if is_parent_first(h, &p) {
				orders.push(Order {
					class: "bodies_parent_first".into(),
					steps: p.iter().map(|&i| Step::Block(i)).collect(),
				});
			}
			// headers first (one batch per branch), then bodies in this permutation
			let mut steps: Vec<Step> = batches.iter().map(|b| Step::HeaderBatch(b.clone())).collect();
			steps.extend(p.iter().map(|&i| Step::Block(i)));
			orders.push(Order {
				class: "header_batches_then_any_permutation".into(),
				steps,
			});
		}
	}
	// sampled orders of the remaining classes
	let target = max_orders.max(orders.len().min(max_orders));
	let mut guard = 0;
	while orders.len() < target && guard < 10 * max_orders {
		guard += 1;
		match prng.below(6) {
			0 => {
				let p = random_parent_first(h, prng);
				orders.push(Order {
					class: "bodies_parent_first".into(),
					steps: p.iter().map(|&i| Step::Block(i)).collect(),
				});
			}
			1 => {
				// individual headers parent-first, then bodies in random order
				let hp = random_parent_first(h, prng);
				let mut bp: Vec<usize> = (0..n).collect();
				prng.shuffle(&mut bp);
				let mut steps: Vec<Step> = hp.iter().map(|&i| Step::Header(i)).collect();
				steps.extend(bp.iter().map(|&i| Step::Block(i)));
				orders.push(Order {
					class: "single_headers_then_shuffled_bodies".into(),
					steps,
				});
			}
			2 => {
				// header batches in random batch order (a batch can only attach once its
				// parent header is known: keep creation order among dependent ones)
				let mut bp: Vec<usize> = (0..n).collect();
				prng.shuffle(&mut bp);
				let mut steps: Vec<Step> = batches.iter().map(|b| Step::HeaderBatch(b.clone())).collect();
				steps.extend(bp.iter().map(|&i| Step::Block(i)));
				orders.push(Order {
					class: "header_batches_then_shuffled_bodies".into(),
					steps,
				});
			}
			3 => {
				// children strictly before parents: reverse creation order after headers
				let mut steps: Vec<Step> = batches.iter().map(|b| Step::HeaderBatch(b.clone())).collect();
				steps.extend((0..n).rev().map(Step::Block));
				orders.push(Order {
					class: "headers_then_children_before_parents".into(),
					steps,
				});
			}
			4 => {
				// duplicates: parent-first with random repetitions of earlier blocks/headers
				let p = random_parent_first(h, prng);
				let mut steps = vec![];
				for (k, &i) in p.iter().enumerate() {
					steps.push(Step::Block(i));
					if prng.chance(1, 3) {
						let j = p[prng.usize_below(k + 1)];
						steps.push(if prng.bool() { Step::Block(j) } else { Step::Header(j) });
					}
				}
				orders.push(Order {
					class: "parent_first_with_duplicates".into(),
					steps,
				});
			}
			_ => {
				// interleaved: header of each block right before a random later body delivery
				let p = random_parent_first(h, prng);
				let mut steps = vec![];
				let mut pending: Vec<usize> = vec![];
				for &i in &p {
					steps.push(Step::Header(i));
					pending.push(i);
					while !pending.is_empty() && prng.chance(1, 2) {
						let k = prng.usize_below(pending.len());
						steps.push(Step::Block(pending.remove(k)));
					}
				}
				prng.shuffle(&mut pending);
				steps.extend(pending.into_iter().map(Step::Block));
				orders.push(Order {
					class: "headers_interleaved_with_bodies".into(),
					steps,
				});
			}
		}
	}
	(orders, exhaustive)
}

struct Tree {
	idx: u64,
	hist: std::sync::Mutex<Hist>,
	genesis: grin_core::core::Block,
	blocks: Vec<vcommon::forktree::GenBlock>,
	commits: Vec<grin_util::secp::pedersen::Commitment>,
	opts: Options,
	sig: String,
	real: bool,
	winner: Hash,
	unique: bool,
	orders: Vec<Order>,
	exhaustive: bool,
	multi_branch: bool,
	win_snap: std::sync::Mutex<Option<Snap>>,
	first: std::sync::Mutex<Option<(Snap, String)>>,
	failed: std::sync::atomic::AtomicBool,
}

struct Stats {
	deliveries: u64,
	head_moves: u64,
	orphan_results: u64,
	orders_run: u64,
	reorg_status: u64,
}

fn hash_from(bytes: &[u8]) -> Hash {
	Hash::from_vec(bytes)
}

/// Run one order on a fresh node; returns the final snapshot.
fn run_order(
	run: &Run,
	t: &Tree,
	order: &Order,
	dir: &str,
	stats: &mut Stats,
	replay: &serde_json::Value,
) -> Option<Snap> {
	let adapter = Arc::new(RecordingAdapter::default());
	let chain: Chain = open_chain_with(dir, &t.genesis, adapter.clone(), false).expect("open chain");
	let opts: Options = t.opts;
	let h = &t.blocks;
	let _ = verif_hooks::events_take_current_thread();
	let mut accepted: HashSet<Hash> = HashSet::new();
	let mut last_td = t.genesis.header.total_difficulty().to_num();
	let sigp = format!("C03;order={}", order.class);
	for (sn, step) in order.steps.iter().enumerate() {
		stats.deliveries += 1;
		match step {
			Step::Block(i) => {
				let b = h[*i].block.clone();
				match chain.process_block(b, opts) {
					Ok(_) => {}
					Err(grin_chain::Error::Orphan) => stats.orphan_results += 1,
					Err(grin_chain::Error::Unfit(_)) => {}
					Err(e) => {
						// a valid block may only be refused as orphan / already known
						run.violation(
							&format!("{};valid_block_refused;{}", sigp, short_err(&e)),
							&format!("step {} block {} refused: {:?}", sn, h[*i].hash, e),
							replay.clone(),
						);
						return None;
					}
				}
			}
			Step::Header(i) => {
				let hd = h[*i].block.header.clone();
				if let Err(e) = chain.process_block_header(&hd, opts) {
					run.violation(
						&format!("{};valid_header_refused;{}", sigp, short_err(&e)),
						&format!("step {} header {} refused: {:?}", sn, hd.hash(), e),
						replay.clone(),
					);
					return None;
				}
			}
			Step::HeaderBatch(ix) => {
				let hs: Vec<BlockHeader> = ix.iter().map(|&i| h[i].block.header.clone()).collect();
				let sync_head: Tip = chain.header_head().unwrap();
				if let Err(e) = chain.sync_block_headers(&hs, sync_head, opts) {
					run.violation(
						&format!("{};valid_header_batch_refused;{}", sigp, short_err(&e)),
						&format!("step {} batch of {} headers refused: {:?}", sn, hs.len(), e),
						replay.clone(),
					);
					return None;
				}
			}
		}
		// accepted set from the callbacks
		for (hash, status, _) in adapter.events.lock().unwrap().drain(..) {
			if status == "Reorg" {
				stats.reorg_status += 1;
			}
			accepted.insert(hash);
		}
		// event log oracle
		for ev in verif_hooks::events_take_current_thread() {
			if ev.kind != "HeadMove" {
				continue;
			}
			stats.head_moves += 1;
			let (ptd, ntd) = (ev.nums[1], ev.nums[3]);
			let newh = hash_from(&ev.bytes[1]);
			if ntd <= ptd {
				run.violation(
					&format!("{};head_move_not_more_work", sigp),
					&format!("HeadMove from td {} to td {} (block {})", ptd, ntd, newh),
					replay.clone(),
				);
				return None;
			}
			if !accepted.contains(&newh) || chain.get_block(&newh).is_err() {
				run.violation(
					&format!("{};head_moved_to_unvalidated_block", sigp),
					&format!("HeadMove to {} which is not an accepted stored block", newh),
					replay.clone(),
				);
				return None;
			}
		}
		let head = chain.head().unwrap();
		let td = head.total_difficulty.to_num();
		if td < last_td {
			run.violation(
				&format!("{};observed_head_work_decreased", sigp),
				&format!("head td went {} -> {}", last_td, td),
				replay.clone(),
			);
			return None;
		}
		last_td = td;
		let (best, unique, best_td) = {
			let hist = t.hist.lock().unwrap();
			let (b, u) = hist.ledger.best_tip(&accepted);
			(b, u, hist.ledger.get(&b).total_difficulty)
		};
		if unique && head.last_block_h != best {
			run.violation(
				&format!("{};head_not_max_work_of_connected", sigp),
				&format!(
					"after step {} ({:?}) head {} (td {}) but max-work accepted-with-ancestors block is {} (td {})",
					sn,
					step,
					head.last_block_h,
					td,
					best,
					best_td
				),
				replay.clone(),
			);
			return None;
		}
	}
	stats.orders_run += 1;
	// all blocks delivered: everything must have been accepted
	let all: HashSet<Hash> = h.iter().map(|b| b.hash).collect();
	if accepted != all {
		let missing = all.difference(&accepted).count();
		run.violation(
			&format!("{};blocks_never_accepted", sigp),
			&format!("{} of {} valid blocks were never accepted after all were delivered", missing, all.len()),
			replay.clone(),
		);
		return None;
	}
	let snap = match snapshot(&chain, &t.commits) {
		Ok(s) => s,
		Err(e) => {
			run.violation(&format!("{};snapshot_failed", sigp), &e, replay.clone());
			return None;
		}
	};
	let st = t.hist.lock().unwrap().state(&snap.head.0);
	if let Some(d) = compare_with_ref(&snap, &st) {
		run.violation(&format!("{};final_state_vs_replay", sigp), &d, replay.clone());
		return None;
	}
	Some(snap)
}

fn short_err(e: &grin_chain::Error) -> String {
	let s = format!("{:?}", e);
	s.split(|c| c == '(' || c == '{' || c == ' ').next().unwrap_or("").to_string()
}

fn main() {
	let run = Run::from_env("C03", "exploration");
	init_globals(true);
	verif_hooks::events_enable(true);
	let n_small: u64 = run.tier.pick(6, 40); // exhaustive permutation trees
	let n_big: u64 = run.tier.pick(10, 90);
	let n_real: u64 = run.tier.pick(3, 20);
	let orders_per_big: usize = run.tier.pick(24, 60);
	let sc = Scratch::new("c03");
	run.set_rule(
		"tree = random fork tree of valid blocks (SKIP_POW with pairwise distinct total difficulties so every subset has a unique \
		 maximum, or real PoW where difficulty follows the retarget through random timestamps; ties are then excluded from the \
		 order-independence clause only). Orders: for trees of ≤5 blocks EVERY permutation of bodies after header batches \
		 (sync_block_headers) plus every parent-first permutation without headers (exhaustive execution); larger trees: sampled \
		 orders of classes parent-first, single headers then shuffled bodies, header batches then shuffled bodies, children \
		 strictly before parents (orphan pool), duplicates, headers interleaved with bodies. Per delivery: HeadMove events \
		 (strictly more work, target stored+accepted), head == reference max-work connected block, observed work monotone; per \
		 tree: final snapshots equal across all orders and equal to a node fed the winning chain only and to the replayed \
		 reference. Distinct = (tree shape, order class); non-trivial = tree has ≥2 branches.",
	);
	run.assume("orphan eviction by age (300 s) and beyond-capacity orphan floods are not exercised");
	let total = n_small + n_big + n_real;
	let next = AtomicU64::new(0);
	let deliveries = AtomicU64::new(0);
	let head_moves = AtomicU64::new(0);
	let orphans = AtomicU64::new(0);
	let orders_run = AtomicU64::new(0);
	let reorg_status = AtomicU64::new(0);
	let exhaustive_trees = AtomicU64::new(0);
	let ties = AtomicU64::new(0);
	let class_counts = std::sync::Mutex::new(HashMap::<String, u64>::new());
	let deadline = run.tier.pick(140.0, 800.0);
	// phase 1: generate the trees in parallel
	let trees = std::sync::Mutex::new(Vec::<Arc<Tree>>::new());
	std::thread::scope(|s| {
		for _ in 0..16 {
			s.spawn(|| {
				init_thread(true);
				loop {
					let i = next.fetch_add(1, Ordering::SeqCst);
					if i >= total {
						break;
					}
					let mut p = Prng::new(run.seed.wrapping_mul(0xA24B_AED4).wrapping_add(i));
					let mut cfg = TreeCfg::small();
					cfg.n_invalid = 0;
					let small = i < n_small;
					let real = i >= n_small + n_big;
					if small {
						cfg.trunk = 1 + p.usize_below(2);
						cfg.branches = 1 + p.usize_below(2);
						cfg.max_depth = 2;
						cfg.tx_per_mille = 0;
					} else {
						cfg.trunk = 2 + p.usize_below(4);
						cfg.branches = 1 + p.usize_below(3);
						cfg.max_depth = 1 + p.usize_below(5);
						cfg.tx_per_mille = 300;
					}
					cfg.real_pow = real;
					let mut h = gen_history(p.next_u64(), &cfg);
					if small {
						while h.blocks.len() > 5 {
							h.blocks.pop();
						}
					}
					let sig = shape_sig(&h);
					let all: HashSet<Hash> = h.blocks.iter().map(|b| b.hash).collect();
					let (winner, unique) = h.ledger.best_tip(&all);
					if !unique {
						ties.fetch_add(1, Ordering::SeqCst);
					}
					let (orders, exhaustive) = make_orders(&h, &mut p, orders_per_big, 5);
					if exhaustive {
						exhaustive_trees.fetch_add(1, Ordering::SeqCst);
					}
					let multi_branch = h.blocks.iter().any(|b| h.blocks.iter().filter(|c| c.parent == b.parent).count() > 1);
					let t = Tree {
						idx: i,
						genesis: h.genesis.clone(),
						blocks: h.blocks.clone(),
						commits: h.all_commits(),
						opts: h.opts(),
						sig,
						real,
						winner,
						unique,
						orders,
						exhaustive,
						multi_branch,
						win_snap: std::sync::Mutex::new(None),
						first: std::sync::Mutex::new(None),
						failed: std::sync::atomic::AtomicBool::new(false),
						hist: std::sync::Mutex::new(h),
					};
					trees.lock().unwrap().push(Arc::new(t));
				}
			});
		}
	});
	let mut trees = trees.into_inner().unwrap();
	trees.sort_by_key(|t| t.idx);
	// reference node per tree: the winning chain only
	let mut jobs: Vec<(Arc<Tree>, isize)> = vec![];
	for t in &trees {
		jobs.push((t.clone(), -1));
	}
	for t in &trees {
		for k in 0..t.orders.len() {
			jobs.push((t.clone(), k as isize));
		}
	}
	let jobs = Arc::new(jobs);
	let nextj = AtomicU64::new(0);
	// phase 2a: winning-chain-only nodes; 2b: all orders
	for phase in 0..2 {
		std::thread::scope(|s| {
			for _ in 0..16 {
				s.spawn(|| {
					init_thread(true);
					loop {
						let j = nextj.fetch_add(1, Ordering::SeqCst) as usize;
						let lim = if phase == 0 { trees.len() } else { jobs.len() };
						if j >= lim {
							if phase == 0 {
								// leave the counter at the first order job
								nextj.store(trees.len() as u64, Ordering::SeqCst);
							}
							break;
						}
						let (t, k) = &jobs[j];
						if *k < 0 {
							let anc = t.hist.lock().unwrap().ledger.ancestry(&t.winner);
							let dirw = sc.sub(&format!("t{}-win", t.idx));
							let adapter = Arc::new(RecordingAdapter::default());
							let chain = open_chain_with(&dirw, &t.genesis, adapter, false).unwrap();
							for x in anc.iter().skip(1) {
								let b = t.blocks.iter().find(|b| b.hash == *x).unwrap();
								let _ = chain.process_block(b.block.clone(), t.opts);
							}
							let _ = verif_hooks::events_take_current_thread();
							*t.win_snap.lock().unwrap() = snapshot(&chain, &t.commits).ok();
							drop(chain);
							let _ = std::fs::remove_dir_all(&dirw);
							continue;
						}
						if run.elapsed_s() > deadline || t.failed.load(Ordering::SeqCst) {
							continue;
						}
						let k = *k as usize;
						let o = &t.orders[k];
						let dir = sc.sub(&format!("t{}-o{}", t.idx, k));
						let mut rp = json!({"tree_index": t.idx, "shape": t.sig, "real_pow": t.real});
						rp["order_class"] = json!(o.class);
						rp["steps"] = json!(format!("{:?}", o.steps));
						let mut stats = Stats { deliveries: 0, head_moves: 0, orphan_results: 0, orders_run: 0, reorg_status: 0 };
						let snap = run_order(&run, t, o, &dir, &mut stats, &rp);
						let _ = std::fs::remove_dir_all(&dir);
						run.eval(&format!("{};{}", t.sig, o.class), t.multi_branch);
						*class_counts.lock().unwrap().entry(o.class.clone()).or_insert(0) += 1;
						deliveries.fetch_add(stats.deliveries, Ordering::SeqCst);
						head_moves.fetch_add(stats.head_moves, Ordering::SeqCst);
						orphans.fetch_add(stats.orphan_results, Ordering::SeqCst);
						orders_run.fetch_add(stats.orders_run, Ordering::SeqCst);
						reorg_status.fetch_add(stats.reorg_status, Ordering::SeqCst);
						let snap = match snap {
							Some(s) => s,
							None => {
								t.failed.store(true, Ordering::SeqCst);
								continue;
							}
						};
						if !t.unique {
							continue;
						}
						if snap.head.0 != t.winner {
							run.violation(
								&format!("C03;order={};final_head_not_unique_max", o.class),
								&format!("final head {} != unique max-work block {}", snap.head.0, t.winner),
								rp.clone(),
							);
							t.failed.store(true, Ordering::SeqCst);
							continue;
						}
						if let Some(ws) = &*t.win_snap.lock().unwrap() {
							// blocks of losing forks are stored by the full node only: compare best-chain state
							let mut a = snap.clone();
							let mut b = ws.clone();
							a.tail = None;
							b.tail = None;
							if let Some(d) = diff(&a, &b, true) {
								run.violation(
									&format!("C03;order={};state_differs_from_winning_chain_only;{}", o.class, d.split(' ').next().unwrap_or("")),
									&format!("vs node fed the winning chain only: {}", d),
									rp.clone(),
								);
								t.failed.store(true, Ordering::SeqCst);
								continue;
							}
						}
						let mut first = t.first.lock().unwrap();
						match &*first {
							None => *first = Some((snap, o.class.clone())),
							Some((f, fc)) => {
								if let Some(d) = diff(f, &snap, true) {
									run.violation(
										&format!("C03;orders={}|{};final_state_differs;{}", fc, o.class, d.split(' ').next().unwrap_or("")),
										&format!("two delivery orders of the same block set end differently: {}", d),
										rp.clone(),
									);
									t.failed.store(true, Ordering::SeqCst);
								}
							}
						}
					}
				});
			}
		});
	}
	for t in trees.iter().take(2).chain(trees.iter().filter(|t| t.real).take(1)) {
		run.sample(json!({
			"tree": t.sig, "real_pow": t.real, "blocks": t.blocks.len(), "orders": t.orders.len(),
			"exhaustive_permutations": t.exhaustive,
			"example_order": t.orders.get(1).map(|o| json!({"class": o.class, "steps": format!("{:?}", o.steps)})),
			"block_tds": t.blocks.iter().map(|b| json!([b.block.header.height, b.block.header.total_difficulty().to_num()])).collect::<Vec<_>>(),
		}));
	}
	run.count("deliveries", deliveries.load(Ordering::SeqCst));
	run.count("head_move_events_checked", head_moves.load(Ordering::SeqCst));
	run.count("orphan_pool_deliveries", orphans.load(Ordering::SeqCst));
	run.count("orders_completed", orders_run.load(Ordering::SeqCst));
	run.count("reorg_status_callbacks", reorg_status.load(Ordering::SeqCst));
	run.count("trees_with_exhaustive_permutations", exhaustive_trees.load(Ordering::SeqCst));
	run.count("trees_with_ties_excluded_from_order_clause", ties.load(Ordering::SeqCst));
	for (k, v) in class_counts.lock().unwrap().iter() {
		run.count(&format!("orders.{}", k), *v);
	}
	run.require("orders_completed", orders_run.load(Ordering::SeqCst), run.tier.pick(300, 3000));
	run.require("head_move_events_checked", head_moves.load(Ordering::SeqCst), run.tier.pick(1000, 10000));
	run.require("orphan_pool_deliveries", orphans.load(Ordering::SeqCst), run.tier.pick(100, 1000));
	run.require("reorg_status_callbacks", reorg_status.load(Ordering::SeqCst), run.tier.pick(50, 500));
	run.require("trees_with_exhaustive_permutations", exhaustive_trees.load(Ordering::SeqCst), run.tier.pick(3, 20));
	drop(sc);
	run.finish();
}
