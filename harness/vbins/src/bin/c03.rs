//! C03 — head is the most-work validated chain, whatever the arrival order.
//!
//! Oracles: (1) per delivery: `head()` == max-work block among accepted blocks
//! whose ancestors are all accepted (reference ledger, accepted set from the
//! `block_accepted` callbacks); (2) event log (hook H4): every HeadMove goes to
//! strictly more work and to a block that is stored and accepted by the end of
//! the call; (3) pairwise comparison of final snapshots across delivery orders
//! of the same block set and against a node fed the winning chain only.

use grin_chain::types::Options;
use grin_chain::{Chain, Tip};
use grin_core::core::hash::{Hash, Hashed};
use grin_core::core::BlockHeader;
use grin_util::verif_hooks;
use serde_json::json;
use std::collections::{HashMap, HashSet};
use std::sync::atomic::{AtomicU64, Ordering};
use std::sync::Arc;
use vcommon::forktree::{gen_history, shape_sig, Hist, TreeCfg};
use vcommon::snapshot::{compare_with_ref, diff, snapshot, Snap};
use vcommon::world::{init_globals, init_thread, open_chain_with, RecordingAdapter};
use vcommon::{Prng, Run, Scratch};

#[derive(Clone, Debug, PartialEq)]
enum Step {
	Block(usize),
	Header(usize),
	/// contiguous header batch (indices, parent-first) through sync_block_headers
	HeaderBatch(Vec<usize>),
}

impl Step {
	fn to_json(&self) -> serde_json::Value {
		match self {
			Step::Block(i) => json!({"b": i}),
			Step::Header(i) => json!({"h": i}),
			Step::HeaderBatch(v) => json!({"hb": v}),
		}
	}
	fn from_json(v: &serde_json::Value) -> Step {
		if let Some(i) = v["b"].as_u64() {
			Step::Block(i as usize)
		} else if let Some(i) = v["h"].as_u64() {
			Step::Header(i as usize)
		} else {
			Step::HeaderBatch(v["hb"].as_array().map(|a| a.iter().map(|x| x.as_u64().unwrap_or(0) as usize).collect()).unwrap_or_default())
		}
	}
}

#[derive(Clone, Debug)]
struct Order {
	class: String,
	steps: Vec<Step>,
}

fn permutations(n: usize) -> Vec<Vec<usize>> {
	fn rec(cur: &mut Vec<usize>, used: &mut Vec<bool>, n: usize, out: &mut Vec<Vec<usize>>) {
		if cur.len() == n {
			out.push(cur.clone());
			return;
		}
		for i in 0..n {
			if !used[i] {
				used[i] = true;
				cur.push(i);
				rec(cur, used, n, out);
				cur.pop();
				used[i] = false;
			}
		}
	}
	let mut out = vec![];
	rec(&mut vec![], &mut vec![false; n], n, &mut out);
	out
}

fn is_parent_first(h: &Hist, perm: &[usize]) -> bool {
	let mut seen: HashSet<Hash> = HashSet::new();
	seen.insert(h.genesis.hash());
	for &i in perm {
		if !seen.contains(&h.blocks[i].parent) {
			return false;
		}
		seen.insert(h.blocks[i].hash);
	}
	true
}

fn random_parent_first(h: &Hist, prng: &mut Prng) -> Vec<usize> {
	let mut delivered: HashSet<Hash> = HashSet::new();
	delivered.insert(h.genesis.hash());
	let mut remaining: Vec<usize> = (0..h.blocks.len()).collect();
	let mut order = vec![];
	while !remaining.is_empty() {
		let ready: Vec<usize> = remaining
			.iter()
			.cloned()
			.filter(|&i| delivered.contains(&h.blocks[i].parent))
			.collect();
		let pick = *prng.pick(&ready);
		remaining.retain(|&x| x != pick);
		delivered.insert(h.blocks[pick].hash);
		order.push(pick);
	}
	order
}

/// Branch paths (parent-first index lists) covering every block: for each leaf
/// the path from the first block not covered by an earlier path.
fn header_batches(h: &Hist) -> Vec<Vec<usize>> {
	let idx: HashMap<Hash, usize> = h.blocks.iter().enumerate().map(|(i, b)| (b.hash, i)).collect();
	let parents: HashSet<Hash> = h.blocks.iter().map(|b| b.parent).collect();
	let mut covered: HashSet<usize> = HashSet::new();
	let mut batches = vec![];
	// leaves in creation order
	for (i, b) in h.blocks.iter().enumerate() {
		if parents.contains(&b.hash) {
			continue;
		}
		let mut path = vec![];
		let mut cur = i;
		loop {
			if covered.contains(&cur) {
				break;
			}
			path.push(cur);
			match idx.get(&h.blocks[cur].parent) {
				Some(&p) => cur = p,
				None => break,
			}
		}
		path.reverse();
		for &p in &path {
			covered.insert(p);
		}
		if !path.is_empty() {
			batches.push(path);
		}
	}
	batches
}

fn make_orders(h: &Hist, prng: &mut Prng, max_orders: usize, exhaustive_limit: usize) -> (Vec<Order>, bool) {
	let n = h.blocks.len();
	let mut orders = vec![];
	let mut exhaustive = false;
	let batches = header_batches(h);
	if n <= exhaustive_limit {
		exhaustive = true;
		for p in permutations(n) {
			if is_parent_first(h, &p) {
				orders.push(Order {
					class: "bodies_parent_first".into(),
					steps: p.iter().map(|&i| Step::Block(i)).collect(),
				});
			}
			// headers first (one batch per branch), then bodies in this permutation
			let mut steps: Vec<Step> = batches.iter().map(|b| Step::HeaderBatch(b.clone())).collect();
			steps.extend(p.iter().map(|&i| Step::Block(i)));
			orders.push(Order {
				class: "header_batches_then_any_permutation".into(),
				steps,
			});
		}
	}
	// sampled orders of the remaining classes
	let target = max_orders.max(orders.len().min(max_orders));
	let mut guard = 0;
	while orders.len() < target && guard < 10 * max_orders {
		guard += 1;
		match prng.below(8) {
			0 => {
				let p = random_parent_first(h, prng);
				orders.push(Order {
					class: "bodies_parent_first".into(),
					steps: p.iter().map(|&i| Step::Block(i)).collect(),
				});
			}
			1 => {
				// individual headers parent-first, then bodies in random order
				let hp = random_parent_first(h, prng);
				let mut bp: Vec<usize> = (0..n).collect();
				prng.shuffle(&mut bp);
				let mut steps: Vec<Step> = hp.iter().map(|&i| Step::Header(i)).collect();
				steps.extend(bp.iter().map(|&i| Step::Block(i)));
				orders.push(Order {
					class: "single_headers_then_shuffled_bodies".into(),
					steps,
				});
			}
			2 => {
				// header batches in random batch order (a batch can only attach once its
				// parent header is known: keep creation order among dependent ones)
				let mut bp: Vec<usize> = (0..n).collect();
				prng.shuffle(&mut bp);
				let mut steps: Vec<Step> = batches.iter().map(|b| Step::HeaderBatch(b.clone())).collect();
				steps.extend(bp.iter().map(|&i| Step::Block(i)));
				orders.push(Order {
					class: "header_batches_then_shuffled_bodies".into(),
					steps,
				});
			}
			3 => {
				// children strictly before parents: reverse creation order after headers
				let mut steps: Vec<Step> = batches.iter().map(|b| Step::HeaderBatch(b.clone())).collect();
				steps.extend((0..n).rev().map(Step::Block));
				orders.push(Order {
					class: "headers_then_children_before_parents".into(),
					steps,
				});
			}
			4 => {
				// duplicates: parent-first with random repetitions of earlier blocks/headers
				let p = random_parent_first(h, prng);
				let mut steps = vec![];
				for (k, &i) in p.iter().enumerate() {
					steps.push(Step::Block(i));
					if prng.chance(1, 3) {
						let j = p[prng.usize_below(k + 1)];
						steps.push(if prng.bool() { Step::Block(j) } else { Step::Header(j) });
					}
				}
				orders.push(Order {
					class: "parent_first_with_duplicates".into(),
					steps,
				});
			}
			6 => {
				// children strictly before parents, and every orphan handed over more than once (several peers
				// relay the same block) before its parent arrives
				let mut steps: Vec<Step> = batches.iter().map(|b| Step::HeaderBatch(b.clone())).collect();
				let mut seen: Vec<usize> = vec![];
				for i in (0..n).rev() {
					steps.push(Step::Block(i));
					seen.push(i);
					for _ in 0..prng.below(3) {
						// the block just delivered again, or an earlier one that is still waiting for its parent
						let j = if prng.bool() { i } else { *prng.pick(&seen) };
						steps.push(Step::Block(j));
					}
				}
				orders.push(Order {
					class: "headers_then_children_before_parents_with_duplicate_orphans".into(),
					steps,
				});
			}
			7 => {
				// headers known first (the statement's premise: a body whose parent HEADER is unknown cannot even be
				// judged), then bodies in any order, each possibly repeated while it may still be an orphan
				let mut bp: Vec<usize> = (0..n).collect();
				prng.shuffle(&mut bp);
				let mut steps: Vec<Step> = batches.iter().map(|b| Step::HeaderBatch(b.clone())).collect();
				for (k, &i) in bp.iter().enumerate() {
					steps.push(Step::Block(i));
					if prng.chance(1, 2) {
						steps.push(Step::Block(bp[prng.usize_below(k + 1)]));
					}
				}
				// whatever the orphan pool could not connect is delivered once more, parent-first
				steps.extend(random_parent_first(h, prng).into_iter().map(Step::Block));
				orders.push(Order {
					class: "header_batches_then_shuffled_bodies_with_duplicates".into(),
					steps,
				});
			}
			_ => {
				// interleaved: header of each block right before a random later body delivery
				let p = random_parent_first(h, prng);
				let mut steps = vec![];
				let mut pending: Vec<usize> = vec![];
				for &i in &p {
					steps.push(Step::Header(i));
					pending.push(i);
					while !pending.is_empty() && prng.chance(1, 2) {
						let k = prng.usize_below(pending.len());
						steps.push(Step::Block(pending.remove(k)));
					}
				}
				prng.shuffle(&mut pending);
				steps.extend(pending.into_iter().map(Step::Block));
				orders.push(Order {
					class: "headers_interleaved_with_bodies".into(),
					steps,
				});
			}
		}
	}
	(orders, exhaustive)
}

struct Tree {
	idx: u64,
	hist: std::sync::Mutex<Hist>,
	genesis: grin_core::core::Block,
	blocks: Vec<vcommon::forktree::GenBlock>,
	commits: Vec<grin_util::secp::pedersen::Commitment>,
	opts: Options,
	sig: String,
	real: bool,
	winner: Hash,
	unique: bool,
	orders: Vec<Order>,
	exhaustive: bool,
	multi_branch: bool,
}

struct Stats {
	deliveries: u64,
	head_moves: u64,
	orphan_results: u64,
	orders_run: u64,
	reorg_status: u64,
	header_head_moves: u64,
	final_header_heads_checked: u64,
}

fn hash_from(bytes: &[u8]) -> Hash {
	Hash::from_vec(bytes)
}

/// Run one order on a fresh node; returns the final snapshot.
fn run_order(
	run: &Run,
	t: &Tree,
	order: &Order,
	dir: &str,
	stats: &mut Stats,
	replay: &serde_json::Value,
) -> Option<Snap> {
	let adapter = Arc::new(RecordingAdapter::default());
	let chain: Chain = open_chain_with(dir, &t.genesis, adapter.clone(), false).expect("open chain");
	let opts: Options = t.opts;
	let h = &t.blocks;
	let _ = verif_hooks::events_take_current_thread();
	let mut accepted: HashSet<Hash> = HashSet::new();
	let mut last_td = t.genesis.header.total_difficulty().to_num();
	let mut last_hh: (Hash, u64) = (t.genesis.hash(), last_td);
	let sigp = format!("C03;order={}", order.class);
	for (sn, step) in order.steps.iter().enumerate() {
		stats.deliveries += 1;
		match step {
			Step::Block(i) => {
				let b = h[*i].block.clone();
				match chain.process_block(b, opts) {
					Ok(_) => {}
					Err(grin_chain::Error::Orphan) => stats.orphan_results += 1,
					Err(grin_chain::Error::Unfit(_)) => {}
					Err(e) => {
						// a valid block may only be refused as orphan / already known
						run.violation(
							&format!("{};valid_block_refused;{}", sigp, short_err(&e)),
							&format!("step {} block {} refused: {:?}", sn, h[*i].hash, e),
							replay.clone(),
						);
						return None;
					}
				}
			}
			Step::Header(i) => {
				let hd = h[*i].block.header.clone();
				if let Err(e) = chain.process_block_header(&hd, opts) {
					run.violation(
						&format!("{};valid_header_refused;{}", sigp, short_err(&e)),
						&format!("step {} header {} refused: {:?}", sn, hd.hash(), e),
						replay.clone(),
					);
					return None;
				}
			}
			Step::HeaderBatch(ix) => {
				let hs: Vec<BlockHeader> = ix.iter().map(|&i| h[i].block.header.clone()).collect();
				let sync_head: Tip = chain.header_head().unwrap();
				if let Err(e) = chain.sync_block_headers(&hs, sync_head, opts) {
					run.violation(
						&format!("{};valid_header_batch_refused;{}", sigp, short_err(&e)),
						&format!("step {} batch of {} headers refused: {:?}", sn, hs.len(), e),
						replay.clone(),
					);
					return None;
				}
			}
		}
		// accepted set from the callbacks
		for (hash, status, _) in adapter.events.lock().unwrap().drain(..) {
			if status == "Reorg" {
				stats.reorg_status += 1;
			}
			accepted.insert(hash);
		}
		// event log oracle
		for ev in verif_hooks::events_take_current_thread() {
			if ev.kind != "HeadMove" {
				continue;
			}
			stats.head_moves += 1;
			let (ptd, ntd) = (ev.nums[1], ev.nums[3]);
			let newh = hash_from(&ev.bytes[1]);
			if ntd <= ptd {
				run.violation(
					&format!("{};head_move_not_more_work", sigp),
					&format!("HeadMove from td {} to td {} (block {})", ptd, ntd, newh),
					replay.clone(),
				);
				return None;
			}
			if !accepted.contains(&newh) || chain.get_block(&newh).is_err() {
				run.violation(
					&format!("{};head_moved_to_unvalidated_block", sigp),
					&format!("HeadMove to {} which is not an accepted stored block", newh),
					replay.clone(),
				);
				return None;
			}
		}
		// the head of the header chain (header-first processing) obeys the same rule: between two
		// deliveries it either stays or moves to a header with strictly more cumulative difficulty
		// (observed on the committed value, so a move inside a batch that is rolled back does not count)
		{
			let hh = chain.header_head().unwrap();
			let htd = hh.total_difficulty.to_num();
			if hh.last_block_h != last_hh.0 {
				stats.header_head_moves += 1;
				if htd <= last_hh.1 {
					run.violation(
						&format!("{};header_head_move_not_more_work", sigp),
						&format!(
							"after step {} ({:?}) header_head moved from {} (td {}) to {} (td {})",
							sn, step, last_hh.0, last_hh.1, hh.last_block_h, htd
						),
						replay.clone(),
					);
					return None;
				}
			}
			last_hh = (hh.last_block_h, htd);
		}
		let head = chain.head().unwrap();
		let td = head.total_difficulty.to_num();
		if td < last_td {
			run.violation(
				&format!("{};observed_head_work_decreased", sigp),
				&format!("head td went {} -> {}", last_td, td),
				replay.clone(),
			);
			return None;
		}
		last_td = td;
		let (best, unique, best_td) = {
			let hist = t.hist.lock().unwrap();
			let (b, u) = hist.ledger.best_tip(&accepted);
			(b, u, hist.ledger.get(&b).total_difficulty)
		};
		if unique && head.last_block_h != best {
			run.violation(
				&format!("{};head_not_max_work_of_connected", sigp),
				&format!(
					"after step {} ({:?}) head {} (td {}) but max-work accepted-with-ancestors block is {} (td {})",
					sn,
					step,
					head.last_block_h,
					td,
					best,
					best_td
				),
				replay.clone(),
			);
			return None;
		}
	}
	stats.orders_run += 1;
	// all blocks delivered: everything must have been accepted
	let all: HashSet<Hash> = h.iter().map(|b| b.hash).collect();
	if accepted == all {
		// every header has been processed: the header chain's head carries the greatest cumulative difficulty
		let max_td = h.iter().map(|b| b.block.header.total_difficulty().to_num()).max().unwrap_or(0);
		stats.final_header_heads_checked += 1;
		if last_hh.1 != max_td.max(t.genesis.header.total_difficulty().to_num()) {
			run.violation(
				&format!("{};final_header_head_not_max_work", sigp),
				&format!("all headers delivered; header_head {} has td {} but the greatest cumulative difficulty is {}", last_hh.0, last_hh.1, max_td),
				replay.clone(),
			);
			return None;
		}
	}
	if accepted != all {
		// Not a violation by itself (the statement is about the head, and the head clauses above
		// and the cross-order comparison judge it): recorded so that the evidence shows it.
		run.count("orders_ending_with_valid_blocks_not_accepted", 1);
	}
	let snap = match snapshot(&chain, &t.commits) {
		Ok(s) => s,
		Err(e) => {
			run.violation(&format!("{};snapshot_failed", sigp), &e, replay.clone());
			return None;
		}
	};
	let st = t.hist.lock().unwrap().state(&snap.head.0);
	if let Some(d) = compare_with_ref(&snap, &st) {
		run.violation(&format!("{};final_state_vs_replay", sigp), &d, replay.clone());
		return None;
	}
	Some(snap)
}

fn short_err(e: &grin_chain::Error) -> String {
	let s = format!("{:?}", e);
	s.split(|c| c == '(' || c == '{' || c == ' ').next().unwrap_or("").to_string()
}

fn build_tree(run: &Run, i: u64, n_small: u64, n_big: u64, orders_per_big: usize) -> Tree {
	let mut p = Prng::new(run.seed.wrapping_mul(0xA24B_AED4).wrapping_add(i));
	let mut cfg = TreeCfg::small();
	cfg.n_invalid = 0;
	let small = i < n_small;
	let real = i >= n_small + n_big;
	if small {
		// 4-5 blocks in total with a fork
		cfg.trunk = 1 + p.usize_below(2);
		cfg.branches = 1 + p.usize_below(2);
		cfg.max_depth = 2;
		cfg.tx_per_mille = 0;
	} else {
		cfg.trunk = 2 + p.usize_below(4);
		cfg.branches = 1 + p.usize_below(3);
		cfg.max_depth = 1 + p.usize_below(5);
		cfg.tx_per_mille = 300;
	}
	cfg.real_pow = real;
	let mut h = gen_history(p.next_u64(), &cfg);
	if small {
		while h.blocks.len() > 5 {
			// creation order is parent-first: the last block is always a leaf
			h.blocks.pop();
		}
	}
	let sig = shape_sig(&h);
	let all: HashSet<Hash> = h.blocks.iter().map(|b| b.hash).collect();
	let (winner, unique) = h.ledger.best_tip(&all);
	let (orders, exhaustive) = make_orders(&h, &mut p, orders_per_big, 5);
	let multi_branch = h
		.blocks
		.iter()
		.any(|b| h.blocks.iter().filter(|c| c.parent == b.parent).count() > 1);
	Tree {
		idx: i,
		genesis: h.genesis.clone(),
		blocks: h.blocks.clone(),
		commits: h.all_commits(),
		opts: h.opts(),
		sig,
		real,
		winner,
		unique,
		orders,
		exhaustive,
		multi_branch,
		hist: std::sync::Mutex::new(h),
	}
}

fn tree_from_file(dir: &str, i: u64) -> Tree {
	let path = format!("{}/t{}.json", dir, i);
	let txt = std::fs::read_to_string(&path).expect("tree file");
	let v: serde_json::Value = serde_json::from_str(&txt).expect("tree json");
	let h = vcommon::forktree::hist_from_json(&v["hist"]);
	let orders: Vec<Order> = v["orders"]
		.as_array()
		.unwrap()
		.iter()
		.map(|o| Order {
			class: o["class"].as_str().unwrap_or("").to_string(),
			steps: o["steps"].as_array().unwrap().iter().map(Step::from_json).collect(),
		})
		.collect();
	let all: HashSet<Hash> = h.blocks.iter().map(|b| b.hash).collect();
	let (winner, unique) = h.ledger.best_tip(&all);
	let multi_branch = h
		.blocks
		.iter()
		.any(|b| h.blocks.iter().filter(|c| c.parent == b.parent).count() > 1);
	Tree {
		idx: i,
		genesis: h.genesis.clone(),
		blocks: h.blocks.clone(),
		commits: h.all_commits(),
		opts: h.opts(),
		sig: shape_sig(&h),
		real: h.real_pow,
		winner,
		unique,
		orders,
		exhaustive: v["exhaustive"].as_bool().unwrap_or(false),
		multi_branch,
		hist: std::sync::Mutex::new(h),
	}
}

fn worker(run: &Run, shard: usize, nshards: usize, deadline: f64) {
	init_thread(true);
	verif_hooks::events_enable(true);
	let dir = run.arg_value("--dir").expect("--dir");
	let index: Vec<u64> = serde_json::from_str(&std::fs::read_to_string(format!("{}/index.json", dir)).unwrap()).unwrap();
	let sc = Scratch::new("c03w");
	let mut digests: Vec<serde_json::Value> = vec![];
	let mut tree_info: Vec<serde_json::Value> = vec![];
	let mut stats = Stats { deliveries: 0, head_moves: 0, orphan_results: 0, orders_run: 0, reorg_status: 0, header_head_moves: 0, final_header_heads_checked: 0 };
	let mut class_counts: HashMap<String, u64> = HashMap::new();
	let mut cached: Option<Tree> = None;
	let mut j: usize = 0;
	for (ti, &n_orders) in index.iter().enumerate() {
		let ti = ti as u64;
		for k in -1i64..(n_orders as i64) {
			let mine = j % nshards == shard;
			j += 1;
			if !mine {
				continue;
			}
			if run.elapsed_s() > deadline {
				run.count("jobs_skipped_by_deadline", 1);
				continue;
			}
			if cached.as_ref().map(|t| t.idx) != Some(ti) {
				cached = Some(tree_from_file(&dir, ti));
			}
			let t = cached.as_ref().unwrap();
			if k < 0 {
				// the reference node fed the winning chain only, and the tree's facts
				let anc = t.hist.lock().unwrap().ledger.ancestry(&t.winner);
				let dirw = sc.sub(&format!("t{}-win", t.idx));
				let adapter = Arc::new(RecordingAdapter::default());
				let chain = open_chain_with(&dirw, &t.genesis, adapter, false).unwrap();
				for x in anc.iter().skip(1) {
					let b = t.blocks.iter().find(|b| b.hash == *x).unwrap();
					let _ = chain.process_block(b.block.clone(), t.opts);
				}
				let _ = verif_hooks::events_take_current_thread();
				if let Ok(sn) = snapshot(&chain, &t.commits) {
					digests.push(json!({"tree": t.idx, "order": -1, "class": "winning_chain_only", "d": sn.body_digest()}));
				}
				drop(chain);
				let _ = std::fs::remove_dir_all(&dirw);
				tree_info.push(json!({
					"tree": t.idx, "sig": t.sig, "real_pow": t.real, "unique_max": t.unique, "blocks": t.blocks.len(),
					"orders": t.orders.len(), "exhaustive": t.exhaustive,
					"example_order": t.orders.get(1).map(|o| json!({"class": o.class, "steps": format!("{:?}", o.steps)})),
					"block_tds": t.blocks.iter().map(|b| json!([b.block.header.height, b.block.header.total_difficulty().to_num()])).collect::<Vec<_>>(),
				}));
				continue;
			}
			let k = k as usize;
			let o = &t.orders[k];
			let dir_o = sc.sub(&format!("t{}-o{}", t.idx, k));
			let rp = json!({"tree_index": t.idx, "shape": t.sig, "real_pow": t.real, "order_index": k,
				"order_class": o.class, "steps": format!("{:?}", o.steps)});
			let snap = run_order(run, t, o, &dir_o, &mut stats, &rp);
			let _ = std::fs::remove_dir_all(&dir_o);
			run.eval(&format!("{};{}", t.sig, o.class), t.multi_branch);
			*class_counts.entry(o.class.clone()).or_insert(0) += 1;
			if let Some(sn) = snap {
				if t.unique && sn.head.0 != t.winner {
					run.violation(
						&format!("C03;order={};final_head_not_unique_max", o.class),
						&format!("final head {} != unique max-work block {}", sn.head.0, t.winner),
						rp.clone(),
					);
				}
				digests.push(json!({"tree": t.idx, "order": k, "class": o.class, "d": sn.body_digest()}));
			}
		}
	}
	run.count("deliveries", stats.deliveries);
	run.count("head_move_events_checked", stats.head_moves);
	run.count("header_head_moves_checked", stats.header_head_moves);
	run.count("final_header_heads_checked", stats.final_header_heads_checked);
	run.count("orphan_pool_deliveries", stats.orphan_results);
	run.count("orders_completed", stats.orders_run);
	run.count("reorg_status_callbacks", stats.reorg_status);
	for (k, v) in class_counts {
		run.count(&format!("orders.{}", k), v);
	}
	run.extra("digests", json!(digests));
	run.extra("trees", json!(tree_info));
	drop(sc);
}

/// Deep world: a chain whose outputs span two 1024-bit chunks of the output bitmap (the small fork trees stay
/// inside one chunk, where a rewind always rebuilds the whole accumulator). On top of it fork A (two blocks;
/// only the newer one spends outputs of the oldest chunk) and fork B (three empty blocks, more work) are
/// delivered in several orders, each to its own copy of the prepared node: per delivery the head is the
/// max-work block among the accepted ones, a valid block is never refused, the final state equals the replayed
/// reference and is the same in every order.
fn deep_world_phase(run: &Run) {
	use vcommon::scenarios::{build_multi_chunk_trunk, mk_block};
	init_thread(true);
	let t0 = std::time::Instant::now();
	let sc = Scratch::new("c03deep");
	let mut h = build_multi_chunk_trunk(run.seed ^ 0xDEE9, 107, 9);
	let trunk: Vec<vcommon::forktree::GenBlock> = h.blocks.clone();
	let tip = trunk.last().unwrap().hash;
	let n_outs = h.state(&tip).outs.len() as u64;
	// spendable plain outputs of the oldest chunk (MMR leaf index < 1024)
	let old: Vec<vcommon::world::Coin> = {
		let st = h.state(&tip);
		let mut v: Vec<(usize, vcommon::world::Coin)> = st
			.utxo
			.iter()
			.filter(|(_, &i)| i < 900)
			.filter_map(|(c, &i)| h.coins.get(&c.0.to_vec()).filter(|x| !x.coinbase && x.value > 5_000_000).map(|x| (i, x.clone())))
			.collect();
		v.sort_by_key(|x| x.0);
		v.into_iter().map(|x| x.1).take(3).collect()
	};
	if n_outs <= 1024 || old.is_empty() {
		run.inconclusive("deep world: the trunk does not span two bitmap chunks or has no spendable old output");
		return;
	}
	let a1 = mk_block(&mut h, &tip, &[], 10, "A1_empty");
	let a2 = mk_block(&mut h, &a1.hash, &old, 10, "A2_spends_outputs_of_the_oldest_chunk");
	let b1 = mk_block(&mut h, &tip, &[], 10, "B1_empty");
	let b2 = mk_block(&mut h, &b1.hash, &[], 10, "B2_empty");
	let b3 = mk_block(&mut h, &b2.hash, &[], 10, "B3_empty");
	let forks = vec![a1, a2, b1, b2, b3];
	let opts: Options = h.opts();
	let commits = h.all_commits();
	// prepared node
	let base = sc.sub("base");
	{
		let chain = open_chain_with(&base, &h.genesis, Arc::new(grin_chain::types::NoopAdapter {}), false).expect("open");
		for gb in &trunk {
			if let Err(e) = chain.process_block(gb.block.clone(), opts) {
				run.violation("C03;deep_world;valid_block_refused;trunk", &format!("trunk block {} refused: {:?}", gb.hash, e), json!({"phase": "deep_world"}));
				return;
			}
		}
	}
	run.count("deep_world.setup_seconds", t0.elapsed().as_secs());
	let orders: Vec<(&str, Vec<usize>, bool)> = vec![
		("A_then_B", vec![0, 1, 2, 3, 4], false),
		("B_then_A", vec![2, 3, 4, 0, 1], false),
		("interleaved", vec![0, 2, 1, 3, 4], false),
		("headers_then_children_before_parents", vec![1, 0, 4, 3, 2], true),
	];
	let mut digests: Vec<(String, String)> = vec![];
	for (name, order, headers_first) in &orders {
		let dir = sc.sub(name);
		let _ = std::process::Command::new("cp").arg("-r").arg(&base).arg(&dir).status();
		let adapter = Arc::new(RecordingAdapter::default());
		let chain = match open_chain_with(&dir, &h.genesis, adapter.clone(), false) {
			Ok(c) => c,
			Err(e) => {
				run.inconclusive(&format!("deep world: copy of the prepared node could not be opened: {}", e));
				continue;
			}
		};
		let replay = json!({"phase": "deep_world", "order": name, "blocks": forks.iter().map(|b| b.tags.clone()).collect::<Vec<_>>(), "steps": order});
		let sig = format!("C03;deep_world;order={}", name);
		let mut accepted: HashSet<Hash> = trunk.iter().map(|b| b.hash).collect();
		accepted.insert(h.genesis.hash());
		if *headers_first {
			for batch in [vec![0usize, 1], vec![2, 3, 4]] {
				let hs: Vec<BlockHeader> = batch.iter().map(|&i| forks[i].block.header.clone()).collect();
				let sh: Tip = chain.header_head().unwrap();
				if let Err(e) = chain.sync_block_headers(&hs, sh, opts) {
					run.violation(&format!("{};valid_header_batch_refused;{}", sig, short_err(&e)), &format!("{:?}", e), replay.clone());
				}
			}
		}
		let mut ok = true;
		for &i in order {
			let r = chain.process_block(forks[i].block.clone(), opts);
			match r {
				Ok(_) | Err(grin_chain::Error::Orphan) | Err(grin_chain::Error::Unfit(_)) => {}
				Err(e) => {
					run.violation(
						&format!("{};valid_block_refused;{}", sig, short_err(&e)),
						&format!("block {} ({}) refused: {:?}", forks[i].hash, forks[i].tags.join(","), e),
						replay.clone(),
					);
					ok = false;
					break;
				}
			}
			for (hash, _, _) in adapter.events.lock().unwrap().drain(..) {
				accepted.insert(hash);
			}
			let head = chain.head().unwrap();
			let (best, unique) = h.ledger.best_tip(&accepted);
			run.count("deep_world.deliveries", 1);
			if unique && head.last_block_h != best {
				run.violation(
					&format!("{};head_not_max_work_of_connected", sig),
					&format!("after {} head is {} but the max-work accepted block is {}", forks[i].tags.join(","), head.last_block_h, best),
					replay.clone(),
				);
				ok = false;
				break;
			}
		}
		if ok {
			match snapshot(&chain, &commits) {
				Ok(sn) => {
					let st = h.state(&sn.head.0);
					if let Some(d) = compare_with_ref(&sn, &st) {
						run.violation(&format!("{};final_state_vs_replay", sig), &d, replay.clone());
					} else if sn.head.0 != forks[4].hash {
						run.violation(&format!("{};final_head_not_unique_max", sig), &format!("final head {} != B3 {}", sn.head.0, forks[4].hash), replay.clone());
					} else {
						digests.push((name.to_string(), format!("{:?}", sn.body_digest())));
						run.count("deep_world.orders_completed", 1);
						run.eval(&format!("deep_world;{}", name), true);
					}
				}
				Err(e) => run.violation(&format!("{};snapshot_failed", sig), &e, replay.clone()),
			}
		}
		drop(chain);
		let _ = std::fs::remove_dir_all(&dir);
	}
	// ---- a fork that leaves the chain MORE than 50 blocks below the head (a node treats blocks that far below its
	// head specially when it already has them; a competing fork it has never seen must still be followed): 60 empty
	// blocks from the trunk block at height 47, two more than the rest of the trunk, so the fork's tip is the unique
	// maximum. Delivered to a copy of the prepared node parent-first, and headers-first in sync batches.
	{
		let fp = trunk[46].hash;
		let mut d_blocks = vec![];
		let mut cur = fp;
		for i in 0..62 {
			let b = mk_block(&mut h, &cur, &[], 10, if i == 0 { "D1_first_block_of_a_fork_60_below_the_head" } else { "D_empty" });
			cur = b.hash;
			d_blocks.push(b);
		}
		let d_tip = cur;
		let commits = h.all_commits();
		for (name, headers_first) in [("deep_fork_parent_first", false), ("deep_fork_header_batches_first", true)] {
			let dir = sc.sub(name);
			let _ = std::process::Command::new("cp").arg("-r").arg(&base).arg(&dir).status();
			let chain = match open_chain_with(&dir, &h.genesis, Arc::new(grin_chain::types::NoopAdapter {}), false) {
				Ok(c) => c,
				Err(e) => {
					run.inconclusive(&format!("deep world: copy of the prepared node could not be opened: {}", e));
					continue;
				}
			};
			let replay = json!({"phase": "deep_world", "order": name, "fork_point_height": 47, "fork_blocks": d_blocks.len(), "trunk_height": trunk.len()});
			let sig = format!("C03;deep_world;order={}", name);
			let mut ok = true;
			if headers_first {
				for chunk in d_blocks.chunks(32) {
					let hs: Vec<BlockHeader> = chunk.iter().map(|b| b.block.header.clone()).collect();
					let sh: Tip = chain.header_head().unwrap();
					if let Err(e) = chain.sync_block_headers(&hs, sh, opts) {
						run.violation(&format!("{};valid_header_batch_refused;{}", sig, short_err(&e)), &format!("{:?}", e), replay.clone());
						ok = false;
						break;
					}
				}
			}
			for b in &d_blocks {
				if !ok {
					break;
				}
				run.count("deep_world.deliveries", 1);
				match chain.process_block(b.block.clone(), opts) {
					Ok(_) => {}
					Err(e) => {
						run.violation(
							&format!("{};valid_block_refused;{}", sig, short_err(&e)),
							&format!("block {} at height {} of a fork leaving the chain at height 47 (head at {}) refused: {:?}", b.hash, b.block.header.height, trunk.len(), e),
							replay.clone(),
						);
						ok = false;
					}
				}
			}
			if ok {
				match snapshot(&chain, &commits) {
					Ok(sn) => {
						let st = h.state(&sn.head.0);
						if sn.head.0 != d_tip {
							run.violation(&format!("{};final_head_not_unique_max", sig), &format!("final head {} (height {}) != tip of the heavier deep fork {}", sn.head.0, sn.head.1, d_tip), replay.clone());
						} else if let Some(d) = compare_with_ref(&sn, &st) {
							run.violation(&format!("{};final_state_vs_replay", sig), &d, replay.clone());
						} else {
							run.count("deep_world.deep_fork_orders_completed", 1);
							run.eval(&format!("deep_world;{}", name), true);
						}
					}
					Err(e) => run.violation(&format!("{};snapshot_failed", sig), &e, replay.clone()),
				}
			}
			drop(chain);
			let _ = std::fs::remove_dir_all(&dir);
		}
	}
	if let Some((n0, d0)) = digests.first() {
		for (n, d) in digests.iter().skip(1) {
			if d != d0 {
				run.violation(
					"C03;deep_world;final_states_differ_between_orders",
					&format!("final best-chain state digest of order {} differs from order {}", n, n0),
					json!({"phase": "deep_world", "orders": [n0, n]}),
				);
			}
		}
	}
	run.count("deep_world.outputs_at_fork_point", n_outs);
	run.count("deep_world.seconds", t0.elapsed().as_secs());
}

/// The orphan pool exactly at its capacity: the headers of a chain of MAX_ORPHAN_SIZE + 1 coinbase-only blocks are
/// known, the bodies of blocks 2.. arrive first (MAX_ORPHAN_SIZE distinct blocks waiting for their parent, some handed
/// over again while they wait), the body of block 1 last. "Parents after children and duplicates within the orphan
/// capacity": every order ends on the last block, with the state of the chain applied in order.
fn orphan_capacity_phase(run: &Run) {
	use vcommon::scenarios::mk_block;
	init_thread(true);
	let t0 = std::time::Instant::now();
	let sc = Scratch::new("c03cap");
	let n = grin_chain::MAX_ORPHAN_SIZE + 1;
	let mut h = Hist::new(run.seed ^ 0x0CA9, false);
	let mut tip = h.genesis.hash();
	let mut chain_blocks = vec![];
	for i in 0..n {
		let b = mk_block(&mut h, &tip, &[], 10, if i == 0 { "the_parent_that_arrives_last" } else { "waits_in_the_orphan_pool" });
		tip = b.hash;
		chain_blocks.push(b);
	}
	let opts: Options = h.opts();
	let commits = h.all_commits();
	let mut prng = Prng::new(run.seed ^ 0x0CA9_0CA9);
	// waiting bodies: indices 1..n (heights 2..=n), delivered in these orders; `repeats` are handed over again after all are waiting
	let desc: Vec<usize> = (1..n).rev().collect();
	let asc: Vec<usize> = (1..n).collect();
	let mut shuf: Vec<usize> = (1..n).collect();
	prng.shuffle(&mut shuf);
	let lowest = vec![1usize];
	let middle = vec![n / 2];
	let several: Vec<usize> = (0..5).map(|_| 1 + prng.usize_below(n - 2)).collect();
	let top = vec![n - 1];
	let orders: Vec<(&str, &Vec<usize>, Vec<usize>)> = vec![
		("sequential_control", &asc, vec![]),
		("children_first_descending_no_repeat", &desc, vec![]),
		("children_first_descending_lowest_again", &desc, lowest),
		("children_first_ascending_middle_again", &asc, middle),
		("children_first_shuffled_several_again", &shuf, several),
		("children_first_shuffled_top_again", &shuf, top),
	];
	let mut digests: Vec<(String, String)> = vec![];
	for (name, order, repeats) in &orders {
		let dir = sc.sub(name);
		let chain = match open_chain_with(&dir, &h.genesis, Arc::new(grin_chain::types::NoopAdapter {}), false) {
			Ok(c) => c,
			Err(e) => {
				run.inconclusive(&format!("orphan capacity: node could not be opened: {}", e));
				continue;
			}
		};
		let replay = json!({"phase": "orphan_capacity", "order": name, "blocks": n, "repeats": repeats});
		let sig = format!("C03;orphan_capacity;order={}", name);
		let sequential = *name == "sequential_control";
		let mut ok = true;
		if sequential {
			for gb in &chain_blocks {
				if let Err(e) = chain.process_block(gb.block.clone(), opts) {
					run.violation(&format!("{};valid_block_refused;{}", sig, short_err(&e)), &format!("{:?}", e), replay.clone());
					ok = false;
					break;
				}
			}
		} else {
			let hs: Vec<BlockHeader> = chain_blocks.iter().map(|b| b.block.header.clone()).collect();
			for batch in hs.chunks(32) {
				let sh: Tip = chain.header_head().unwrap();
				if let Err(e) = chain.sync_block_headers(batch, sh, opts) {
					run.violation(&format!("{};valid_header_batch_refused;{}", sig, short_err(&e)), &format!("{:?}", e), replay.clone());
					ok = false;
				}
			}
			let mut waiting = 0u64;
			for &i in order.iter().chain(repeats.iter()) {
				match chain.process_block(chain_blocks[i].block.clone(), opts) {
					Err(grin_chain::Error::Orphan) => waiting += 1,
					Ok(_) | Err(grin_chain::Error::Unfit(_)) => {}
					Err(e) => {
						run.violation(&format!("{};valid_block_refused;{}", sig, short_err(&e)), &format!("block at height {}: {:?}", i + 1, e), replay.clone());
						ok = false;
						break;
					}
				}
			}
			run.count("orphan_capacity.deliveries_answered_orphan", waiting);
			run.set_max("orphan_capacity.orphans_waiting_max", chain.orphans_len() as u64);
			if chain.orphans_len() != n - 1 && ok {
				// within the capacity nothing may be dropped while waiting
				run.violation(
					&format!("{};orphans_dropped_within_capacity", sig),
					&format!("{} distinct blocks are waiting for their parent (capacity {}), the pool holds {}", n - 1, grin_chain::MAX_ORPHAN_SIZE, chain.orphans_len()),
					replay.clone(),
				);
				ok = false;
			}
			if ok {
				match chain.process_block(chain_blocks[0].block.clone(), opts) {
					Ok(_) => {}
					Err(e) => {
						run.violation(&format!("{};valid_block_refused;{}", sig, short_err(&e)), &format!("the parent: {:?}", e), replay.clone());
						ok = false;
					}
				}
			}
		}
		if ok {
			match snapshot(&chain, &commits) {
				Ok(sn) => {
					let st = h.state(&sn.head.0);
					if sn.head.0 != tip {
						run.violation(
							&format!("{};final_head_not_unique_max", sig),
							&format!("every block up to height {} was delivered, the head stopped at height {} ({} orphans left)", n, sn.head.1, chain.orphans_len()),
							replay.clone(),
						);
					} else if let Some(d) = compare_with_ref(&sn, &st) {
						run.violation(&format!("{};final_state_vs_replay", sig), &d, replay.clone());
					} else {
						digests.push((name.to_string(), format!("{:?}", sn.body_digest())));
						run.count("orphan_capacity.orders_completed", 1);
						run.eval(&format!("orphan_capacity;{}", name), true);
					}
				}
				Err(e) => run.violation(&format!("{};snapshot_failed", sig), &e, replay.clone()),
			}
		}
		drop(chain);
		let _ = std::fs::remove_dir_all(&dir);
	}
	if let Some((n0, d0)) = digests.first() {
		for (nm, d) in digests.iter().skip(1) {
			if d != d0 {
				run.violation("C03;orphan_capacity;final_states_differ_between_orders", &format!("{} vs {}", n0, nm), json!({"phase": "orphan_capacity", "orders": [n0, nm]}));
			}
		}
	}
	run.count("orphan_capacity.seconds", t0.elapsed().as_secs());
}

fn main() {
	let run = Run::from_env("C03", "exploration");
	init_globals(true);
	let n_small: u64 = run.tier.pick(10, 48); // exhaustive permutation trees
	let n_big: u64 = run.tier.pick(18, 110);
	let n_real: u64 = run.tier.pick(5, 24);
	let orders_per_big: usize = run.tier.pick(24, 60);
	let deadline = run.tier.pick(300.0, 1200.0);
	if let Some((i, n)) = run.worker_shard() {
		worker(&run, i, n, deadline);
		run.finish_worker();
	}
	run.set_rule(
		"tree = random fork tree of valid blocks (SKIP_POW with pairwise distinct total difficulties so every subset has a unique \
		 maximum, or real PoW where difficulty follows the retarget through random timestamps; ties are then excluded from the \
		 order-independence clause only). Orders: for trees of ≤5 blocks EVERY permutation of bodies after header batches \
		 (sync_block_headers) plus every parent-first permutation without headers (exhaustive execution); larger trees: sampled \
		 orders of classes parent-first, single headers then shuffled bodies, header batches then shuffled bodies, children \
		 strictly before parents (orphan pool), duplicates, headers interleaved with bodies. Per delivery: HeadMove events \
		 (strictly more work, target stored+accepted), head == reference max-work connected block, observed work monotone; per \
		 order: final state == replayed reference; per tree: final best-chain state digests equal across all orders and equal to a \
		 node fed the winning chain only. Deep world: a 107-block chain with 1035 outputs (two 1024-bit bitmap chunks) and on it \
		 fork A (2 blocks, the newer one spends outputs of the oldest chunk) and fork B (3 empty blocks, more work) in 4 orders \
		 on copies of the prepared node, same oracles. Distinct = (tree shape, order class); non-trivial = tree has ≥2 branches. \
		 16 worker processes (block validation is serialised inside one process by the global secp lock).",
	);
	run.assume("orphan eviction by age (300 s) and beyond-capacity orphan floods are not exercised");
	// phase 1 (threads): generate the trees and their delivery orders, store them for the workers
	let sc = Scratch::new("c03");
	let total = n_small + n_big + n_real;
	let next = AtomicU64::new(0);
	let counts = std::sync::Mutex::new(vec![0u64; total as usize]);
	std::thread::scope(|s| {
		for _ in 0..16 {
			s.spawn(|| {
				init_thread(true);
				loop {
					let i = next.fetch_add(1, Ordering::SeqCst);
					if i >= total {
						break;
					}
					let t = build_tree(&run, i, n_small, n_big, orders_per_big);
					let h = t.hist.lock().unwrap();
					let v = json!({
						"hist": vcommon::forktree::hist_to_json(&h),
						"exhaustive": t.exhaustive,
						"orders": t.orders.iter().map(|o| json!({"class": o.class, "steps": o.steps.iter().map(|s| s.to_json()).collect::<Vec<_>>()})).collect::<Vec<_>>(),
					});
					std::fs::write(format!("{}/t{}.json", sc.path.display(), i), serde_json::to_string(&v).unwrap()).unwrap();
					counts.lock().unwrap()[i as usize] = t.orders.len() as u64;
				}
			});
		}
	});
	std::fs::write(format!("{}/index.json", sc.path.display()), serde_json::to_string(&*counts.lock().unwrap()).unwrap()).unwrap();
	run.count("tree_generation_seconds", run.elapsed_s() as u64);
	// the deep world runs in this process while the workers run the fork trees
	let results = std::thread::scope(|s| {
		let deep = s.spawn(|| {
			if let Err(p) = vcommon::monitor::catch(|| deep_world_phase(&run)) {
				run.inconclusive(&format!("deep world phase panicked: {} @ {}", p.message, p.location));
			}
		});
		let cap = s.spawn(|| {
			if let Err(p) = vcommon::monitor::catch(|| orphan_capacity_phase(&run)) {
				run.inconclusive(&format!("orphan capacity phase panicked: {} @ {}", p.message, p.location));
			}
		});
		let r = run.spawn_workers(16, &["--dir".to_string(), sc.path.display().to_string()], run.tier.pick(400, 2400));
		let _ = deep.join();
		let _ = cap.join();
		r
	});
	drop(sc);
	run.require("deep world (outputs across two bitmap chunks): delivery orders completed", run.counter("deep_world.orders_completed"), 4);
	run.require("deep world: fork leaving the chain 60 blocks below the head followed", run.counter("deep_world.deep_fork_orders_completed"), 2);
	run.require("orphan pool exactly at its capacity: delivery orders completed", run.counter("orphan_capacity.orders_completed"), 6);
	// cross-order comparison per tree (digests come from different worker processes)
	let mut by_tree: HashMap<u64, Vec<serde_json::Value>> = HashMap::new();
	let mut trees: HashMap<u64, serde_json::Value> = HashMap::new();
	for r in &results {
		if let Some(a) = r["extras"]["digests"].as_array() {
			for d in a {
				by_tree.entry(d["tree"].as_u64().unwrap_or(0)).or_default().push(d.clone());
			}
		}
		if let Some(a) = r["extras"]["trees"].as_array() {
			for t in a {
				trees.insert(t["tree"].as_u64().unwrap_or(0), t.clone());
			}
		}
	}
	let mut exhaustive_trees = 0u64;
	let mut ties = 0u64;
	let mut compared = 0u64;
	let mut keys: Vec<u64> = trees.keys().cloned().collect();
	keys.sort();
	for ti in keys {
		let t = &trees[&ti];
		if t["exhaustive"].as_bool() == Some(true) {
			exhaustive_trees += 1;
		}
		if t["unique_max"].as_bool() != Some(true) {
			ties += 1;
			continue;
		}
		let ds = match by_tree.get(&ti) {
			Some(d) => d,
			None => continue,
		};
		let first = &ds[0];
		for d in &ds[1..] {
			compared += 1;
			if d["d"] != first["d"] {
				let comp = first["d"]
					.as_array()
					.and_then(|fa| {
						d["d"].as_array().and_then(|da| {
							fa.iter().zip(da.iter()).find(|(x, y)| x != y).map(|(x, _)| x[0].as_str().unwrap_or("?").to_string())
						})
					})
					.unwrap_or_default();
				run.violation(
					&format!("C03;orders={}|{};final_state_differs;{}", first["class"].as_str().unwrap_or(""), d["class"].as_str().unwrap_or(""), comp),
					&format!("tree {}: orders {} and {} of the same block set end with different {}", ti, first["order"], d["order"], comp),
					json!({"tree": t, "a": first, "b": d}),
				);
				break;
			}
		}
	}
	for ti in [0u64, 1, n_small + n_big] {
		if let Some(t) = trees.get(&ti) {
			run.sample(t.clone());
		}
	}
	run.count("final_state_digest_comparisons", compared);
	run.count("trees_with_exhaustive_permutations", exhaustive_trees);
	run.count("trees_with_ties_excluded_from_order_clause", ties);
	run.require("orders_completed", run.counter("orders_completed"), run.tier.pick(300, 3000));
	run.require("head_move_events_checked", run.counter("head_move_events_checked"), run.tier.pick(1000, 10000));
	run.require("orphan_pool_deliveries", run.counter("orphan_pool_deliveries"), run.tier.pick(100, 1000));
	run.require("reorg_status_callbacks", run.counter("reorg_status_callbacks"), run.tier.pick(50, 500));
	run.require("final_state_digest_comparisons", compared, run.tier.pick(300, 3000));
	run.require("trees_with_exhaustive_permutations", exhaustive_trees, run.tier.pick(3, 20));
	run.finish();
}
