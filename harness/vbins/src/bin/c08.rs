//! C08 — Pruning, compaction, rewind and reopen never change what the MMR commits to.
//!
//! Store level: an online reference-model monitor on a stateful random test.
//! The reference is an *unpruned leaf history* (list of leaves with spent flags,
//! list of block boundaries) plus `RefMMR` (MMR by definition). Random programs
//! reproduce the usage protocol of the chain (Extension::rewind / apply_block /
//! sync / discard, TxHashSet::compact) on a real `PMMRBackend`; after every step
//! the real backend, read through `PMMR::at` / `ReadonlyPMMR`, is compared with
//! the reference.
//!
//! Chain level: an AutomatedTesting chain of > 160 SKIP_POW blocks with spends on
//! both sides of the horizon; snapshots before/after `Chain::compact()`, full
//! validation, in-horizon reorgs that re-spend outputs the main chain spent
//! after the horizon, drop/reopen, second compaction.

use croaring::Bitmap;
use grin_chain::types::Options;
use grin_chain::Chain;
use grin_core::consensus;
use grin_core::core::hash::{DefaultHashable, Hash, Hashed};
use grin_core::core::pmmr::{ReadablePMMR, PMMR};
use grin_core::core::{KernelFeatures, Transaction};
use grin_core::ser::{
	Error as SerError, PMMRable, ProtocolVersion, Readable, Reader, Writeable, Writer,
};
use grin_keychain::Identifier;
use grin_store::pmmr::PMMRBackend;
use serde_json::{json, Value};
use std::collections::{BTreeMap, BTreeSet, HashMap};
use std::sync::atomic::{AtomicU64, Ordering};
use std::sync::Mutex;
use vcommon::ledger::RefLedger;
use vcommon::monitor::catch;
use vcommon::refmmr::RefMMR;
use vcommon::snapshot::{all_commits, compare_with_ref, snapshot, Snap};
use vcommon::world::{fee_fields, init_globals, init_thread, open_chain, Coin, PowMode, World};
use vcommon::{Prng, Run, Scratch};

// ===================================================================== elements

/// What the generic program needs from an element type.
trait Elem: PMMRable<E = Self> + PartialEq + Send + Sync + 'static {
	fn gen(p: &mut Prng, serial: u64) -> Self;
}

/// Fixed-size element, 13 bytes (odd size on purpose: byte-offset mistakes show).
#[derive(Clone, Debug, PartialEq, Eq)]
struct FixElem {
	serial: u64,
	salt: u32,
	tag: u8,
}

impl DefaultHashable for FixElem {}

impl Writeable for FixElem {
	fn write<W: Writer>(&self, w: &mut W) -> Result<(), SerError> {
		w.write_u64(self.serial)?;
		w.write_u32(self.salt)?;
		w.write_u8(self.tag)
	}
}

impl Readable for FixElem {
	fn read<R: Reader>(r: &mut R) -> Result<FixElem, SerError> {
		Ok(FixElem {
			serial: r.read_u64()?,
			salt: r.read_u32()?,
			tag: r.read_u8()?,
		})
	}
}

impl PMMRable for FixElem {
	type E = Self;
	fn as_elmt(&self) -> Self {
		self.clone()
	}
	fn elmt_size() -> Option<u16> {
		Some(13)
	}
}

impl Elem for FixElem {
	fn gen(p: &mut Prng, serial: u64) -> Self {
		FixElem {
			serial,
			salt: p.next_u32(),
			tag: (serial % 251) as u8,
		}
	}
}

/// Variable-size element (size file): one length byte + 0..=60 payload bytes.
#[derive(Clone, Debug, PartialEq, Eq)]
struct VarElem(Vec<u8>);

impl DefaultHashable for VarElem {}

impl Writeable for VarElem {
	fn write<W: Writer>(&self, w: &mut W) -> Result<(), SerError> {
		w.write_u8(self.0.len() as u8)?;
		w.write_fixed_bytes(&self.0)
	}
}

impl Readable for VarElem {
	fn read<R: Reader>(r: &mut R) -> Result<VarElem, SerError> {
		let n = r.read_u8()? as usize;
		Ok(VarElem(r.read_fixed_bytes(n)?))
	}
}

impl PMMRable for VarElem {
	type E = Self;
	fn as_elmt(&self) -> Self {
		self.clone()
	}
	fn elmt_size() -> Option<u16> {
		None
	}
}

impl Elem for VarElem {
	fn gen(p: &mut Prng, serial: u64) -> Self {
		let n = match p.below(10) {
			0 => 0,
			1 => 60,
			_ => p.range(1, 59),
		} as usize;
		let mut v = p.bytes(n);
		// make elements distinct (where there is room)
		for (i, b) in serial.to_le_bytes().iter().enumerate() {
			if i < v.len() {
				v[i] = *b;
			}
		}
		VarElem(v)
	}
}

// ============================================================ reference model

#[derive(Clone)]
struct Leaf<T> {
	data: T,
	/// block number that spent it (on the current history)
	spent: Option<usize>,
	/// was spent, and re-added by a rewind
	readded: bool,
}

#[derive(Clone)]
struct Blk {
	n_leaves: usize,
	size: u64,
	/// leaf insertion indices spent by this block
	spent: Vec<usize>,
}

/// Unpruned leaf history. `blks[0]` is the empty origin.
#[derive(Clone)]
struct Model<T> {
	leaves: Vec<Leaf<T>>,
	mmr: RefMMR,
	blks: Vec<Blk>,
}

impl<T: Elem> Model<T> {
	fn new() -> Model<T> {
		Model {
			leaves: vec![],
			mmr: RefMMR::new(),
			blks: vec![Blk {
				n_leaves: 0,
				size: 0,
				spent: vec![],
			}],
		}
	}
	fn size(&self) -> u64 {
		self.mmr.size()
	}
	fn cur(&self) -> usize {
		self.blks.len() - 1
	}
	fn pos_of(&self, idx: usize) -> u64 {
		self.mmr.leaf_pos[idx] as u64
	}
	fn push(&mut self, e: T) -> u64 {
		let pos = self.mmr.push(&e);
		self.leaves.push(Leaf {
			data: e,
			spent: None,
			readded: false,
		});
		pos
	}
	/// Close the block being built: boundary = current size.
	fn close_block(&mut self, spent: Vec<usize>) {
		let j = self.blks.len();
		for &i in &spent {
			self.leaves[i].spent = Some(j);
		}
		self.blks.push(Blk {
			n_leaves: self.leaves.len(),
			size: self.mmr.size(),
			spent,
		});
	}
	/// Undo every block after boundary `k`. Returns the number of leaves re-added.
	fn rewind_to(&mut self, k: usize) -> usize {
		let keep = self.blks[k].n_leaves;
		let mut readded = 0;
		for j in (k + 1..self.blks.len()).rev() {
			for &i in &self.blks[j].spent {
				self.leaves[i].spent = None;
				if i < keep {
					self.leaves[i].readded = true;
					readded += 1;
				}
			}
		}
		self.leaves.truncate(keep);
		self.mmr = self.mmr.prefix(keep as u64);
		self.blks.truncate(k + 1);
		readded
	}
	fn unspent_idx(&self, below: usize) -> Vec<usize> {
		(0..below.min(self.leaves.len()))
			.filter(|&i| self.leaves[i].spent.is_none())
			.collect()
	}
}

// ============================================================== program runner

#[derive(Clone, Copy, PartialEq, Eq, Debug)]
enum Kind {
	FixPrunable,
	VarPlain,
	FixPlain,
	VarPrunable,
}

impl Kind {
	fn name(&self) -> &'static str {
		match self {
			Kind::FixPrunable => "fixed-prunable",
			Kind::VarPlain => "variable-nonprunable",
			Kind::FixPlain => "fixed-nonprunable",
			Kind::VarPrunable => "variable-prunable",
		}
	}
	fn from_name(s: &str) -> Kind {
		match s {
			"variable-nonprunable" => Kind::VarPlain,
			"fixed-nonprunable" => Kind::FixPlain,
			"variable-prunable" => Kind::VarPrunable,
			_ => Kind::FixPrunable,
		}
	}
}

const PATTERNS: [&str; 10] = [
	"random",
	"sibling_pair",
	"sibling_complete",
	"subtree",
	"peak",
	"alternating",
	"last_leaf",
	"respend_readded",
	"all",
	"none",
];

#[derive(Clone, Debug)]
struct ProgCfg {
	idx: u64,
	kind: Kind,
	max_units: u64,
	focus: usize,
	/// multiplies the number of appends per block (wide MMRs) and the size of random removals
	scale: u64,
}

#[derive(Default, Clone)]
struct Stats {
	steps_checked: u64,
	leaves_compared: u64,
	spent_checked: u64,
	proofs: u64,
	compact_removing: u64,
	compact_noop: u64,
	compact_twice: u64,
	rewinds_step: u64,
	rewinds_aggr: u64,
	rewinds_noop: u64,
	rewinds_after_compaction: u64,
	readded: u64,
	readded_protected: u64,
	reopens: u64,
	crash_reopens: u64,
	discards: u64,
	syncs: u64,
	units: u64,
	patterns: [u64; 10],
	subtree_roots_compacted: u64,
	max_leaves: u64,
	appended: u64,
	removed: u64,
	/// compactions that left the data file empty (every leaf spent, all rolled up), followed by further units on the same instance
	wiped_data_files: u64,
}

#[derive(Default)]
struct Trace {
	ops: Vec<String>,
	last_op: &'static str,
	compactions: u64,
}

impl Trace {
	fn op(&mut self, class: &'static str, s: String) {
		self.last_op = class;
		self.ops.push(s);
	}
}

struct Fail {
	clause: String,
	detail: String,
}

enum Stop {
	Fail(Fail),
	/// environment problem (I/O error): inconclusive, never a violation
	Io(String),
}

fn fail<T>(clause: &str, detail: String) -> Result<T, Stop> {
	Err(Stop::Fail(Fail {
		clause: clause.to_string(),
		detail,
	}))
}

/// Errors that carry an OS error code come from the scratch file system (ENOSPC, EIO, ...).
fn is_env_error(msg: &str) -> bool {
	msg.contains("os error")
}

fn open_backend<T: Elem>(dir: &str, prunable: bool) -> Result<PMMRBackend<T>, Stop> {
	PMMRBackend::new(dir.to_string(), prunable, ProtocolVersion(1), None).map_err(|e| {
		let msg = format!("PMMRBackend::new: {:?}", e);
		if is_env_error(&msg) {
			Stop::Io(msg)
		} else {
			// the store cannot be reopened at all: nothing of the live data is reported any more
			Stop::Fail(Fail {
				clause: "reopen_error".into(),
				detail: msg,
			})
		}
	})
}

/// `sync` / `check_compact` returned an error. The error itself is not the refuting event:
/// the state is compared with the reference as if the operation had been performed; only a
/// mismatch is a violation (an error without OS code on a healthy file system and a wrong
/// state afterwards), otherwise the program ends as inconclusive.
fn after_op_error<T: Elem>(
	be: &mut PMMRBackend<T>,
	m: &Model<T>,
	size: u64,
	prunable: bool,
	prng: &mut Prng,
	st: &mut Stats,
	what: String,
) -> Stop {
	if is_env_error(&what) {
		return Stop::Io(what);
	}
	match check(be, m, size, prunable, true, false, prng, st) {
		Err(Stop::Fail(mut f)) => {
			f.detail = format!("{} (after {})", f.detail, what);
			Stop::Fail(f)
		}
		_ => Stop::Io(what),
	}
}

/// Compare the real backend with the reference. `synced`: no uncommitted work.
fn check<T: Elem>(
	be: &mut PMMRBackend<T>,
	m: &Model<T>,
	size: u64,
	prunable: bool,
	synced: bool,
	all_proofs: bool,
	prng: &mut Prng,
	st: &mut Stats,
) -> Result<(), Stop> {
	st.steps_checked += 1;
	let rsize = m.size();
	if size != rsize {
		return fail(
			"size",
			format!("PMMR size {} != reference size {}", size, rsize),
		);
	}
	if synced {
		let bs = be.unpruned_size();
		if bs != rsize {
			return fail(
				"backend_unpruned_size",
				format!("backend.unpruned_size() {} != reference {}", bs, rsize),
			);
		}
	}
	let rroot = m.mmr.root();
	let pmmr: PMMR<'_, T, PMMRBackend<T>> = PMMR::at(be, size);
	if pmmr.unpruned_size() != rsize {
		return fail("size", format!("unpruned_size() {} != {}", pmmr.unpruned_size(), rsize));
	}
	match pmmr.root() {
		Ok(r) if r == rroot => {}
		Ok(r) => return fail("root", format!("root {} != reference root {} at size {}", r, rroot, size)),
		Err(e) => return fail("root", format!("root() error: {} at size {}", e, size)),
	}
	{
		let ro = pmmr.readonly_pmmr();
		match ro.root() {
			Ok(r) if r == rroot => {}
			other => return fail("root_readonly", format!("ReadonlyPMMR root {:?} != {}", other, rroot)),
		}
	}
	let mut unspent_pos: Vec<u64> = vec![];
	let mut unspent_idx: Vec<usize> = vec![];
	for (i, leaf) in m.leaves.iter().enumerate() {
		let pos = m.pos_of(i);
		if leaf.spent.is_none() {
			unspent_pos.push(pos);
			unspent_idx.push(i);
			match pmmr.get_data(pos) {
				Some(d) if d == leaf.data => {}
				other => {
					return fail(
						"data_unspent",
						format!("get_data({}) = {:?}, reference leaf #{} = {:?}", pos, other, i, leaf.data),
					)
				}
			}
			let want = m.mmr.nodes[pos as usize].hash;
			match pmmr.get_hash(pos) {
				Some(h) if h == want => {}
				other => {
					return fail(
						"hash_unspent",
						format!("get_hash({}) = {:?}, reference {}", pos, other, want),
					)
				}
			}
			st.leaves_compared += 1;
		} else if prunable {
			if let Some(d) = pmmr.get_data(pos) {
				return fail(
					"spent_reappeared",
					format!("get_data({}) = {:?} for leaf #{} spent in block {:?}", pos, d, i, leaf.spent),
				);
			}
			st.spent_checked += 1;
		}
	}
	// Merkle proofs of unspent leaves
	let sample: Vec<usize> = if all_proofs || unspent_idx.len() <= 40 {
		unspent_idx.clone()
	} else {
		let mut s = BTreeSet::new();
		// leaves next to spent ones are the ones whose proof hashes are at risk
		let risky: Vec<usize> = unspent_idx
			.iter()
			.cloned()
			.filter(|&i| {
				let sib = i ^ 1;
				(sib < m.leaves.len() && m.leaves[sib].spent.is_some())
					|| (i >= 2 && m.leaves[i - 2].spent.is_some())
			})
			.collect();
		for _ in 0..12.min(risky.len()) {
			s.insert(*prng.pick(&risky));
		}
		for _ in 0..12 {
			s.insert(*prng.pick(&unspent_idx));
		}
		s.insert(unspent_idx[0]);
		s.insert(*unspent_idx.last().unwrap());
		s.into_iter().collect()
	};
	for i in sample {
		let pos = m.pos_of(i);
		let proof = match pmmr.merkle_proof(pos) {
			Ok(p) => p,
			Err(e) => return fail("proof_missing", format!("merkle_proof({}) error: {}", pos, e)),
		};
		if proof.mmr_size != rsize {
			return fail("proof_size", format!("proof.mmr_size {} != {}", proof.mmr_size, rsize));
		}
		let rpath = m.mmr.merkle_path(pos as usize);
		if proof.path != rpath {
			return fail(
				"proof_path",
				format!(
					"merkle_proof({}) path has {} hashes, reference {} (first diff at {:?})",
					pos,
					proof.path.len(),
					rpath.len(),
					proof.path.iter().zip(rpath.iter()).position(|(a, b)| a != b)
				),
			);
		}
		if let Err(e) = proof.verify(rroot, &m.leaves[i].data, pos) {
			return fail("proof_verify", format!("proof of pos {} does not verify: {:?}", pos, e));
		}
		st.proofs += 1;
	}
	if prunable {
		let got: Vec<u64> = pmmr.leaf_pos_iter().collect();
		if got != unspent_pos {
			let gs: BTreeSet<u64> = got.iter().cloned().collect();
			let ws: BTreeSet<u64> = unspent_pos.iter().cloned().collect();
			let extra: Vec<&u64> = gs.difference(&ws).take(6).collect();
			let missing: Vec<&u64> = ws.difference(&gs).take(6).collect();
			return fail(
				"leaf_pos_iter",
				format!(
					"leaf_pos_iter has {} entries, reference {}; extra {:?} missing {:?}",
					got.len(),
					unspent_pos.len(),
					extra,
					missing
				),
			);
		}
		let n = pmmr.n_unpruned_leaves();
		if n != unspent_pos.len() as u64 {
			return fail("n_unpruned_leaves", format!("{} != reference {}", n, unspent_pos.len()));
		}
	} else if synced {
		// non-prunable: derived from the synced hash file size
		let n = pmmr.n_unpruned_leaves();
		if n != m.leaves.len() as u64 {
			return fail("n_unpruned_leaves", format!("{} != reference {}", n, m.leaves.len()));
		}
	}
	if let Err(e) = pmmr.validate() {
		return fail("validate", format!("PMMR::validate: {}", e));
	}
	Ok(())
}

/// Choose the leaves a block removes (indices < `below`, currently unspent).
fn choose_removals<T: Elem>(
	m: &Model<T>,
	below: usize,
	pat: usize,
	scale: u64,
	prng: &mut Prng,
) -> Vec<usize> {
	let uns = m.unspent_idx(below);
	if uns.is_empty() {
		return vec![];
	}
	let is_unspent = |i: usize| i < below && m.leaves[i].spent.is_none();
	let mut out: Vec<usize> = vec![];
	match pat {
		0 => {
			let k = prng.range(1, 8 * scale) as usize;
			let mut u = uns.clone();
			prng.shuffle(&mut u);
			out = u.into_iter().take(k).collect();
		}
		1 => {
			let pairs: Vec<usize> = uns
				.iter()
				.cloned()
				.filter(|&i| i % 2 == 0 && is_unspent(i + 1))
				.collect();
			if !pairs.is_empty() {
				for _ in 0..prng.range(1, 3) {
					let a = *prng.pick(&pairs);
					out.push(a);
					out.push(a + 1);
				}
			}
		}
		2 => {
			let c: Vec<usize> = uns
				.iter()
				.cloned()
				.filter(|&i| (i ^ 1) < below && m.leaves[i ^ 1].spent.is_some())
				.collect();
			if !c.is_empty() {
				for _ in 0..prng.range(1, 4) {
					out.push(*prng.pick(&c));
				}
			}
		}
		3 => {
			let h = prng.range(2, 4 + scale / 2);
			let w = 1usize << h;
			let n_sub = below / w;
			if n_sub > 0 {
				// prefer a subtree that still has unspent leaves
				for _ in 0..8 {
					let k = prng.usize_below(n_sub);
					let v: Vec<usize> = (k * w..(k + 1) * w).filter(|&i| is_unspent(i)).collect();
					if !v.is_empty() {
						out = v;
						break;
					}
				}
			}
		}
		4 => {
			// peaks of an MMR with `below` leaves: binary decomposition, left to right
			let mut start = 0usize;
			let mut peaks = vec![];
			for b in (0..32).rev() {
				let w = 1usize << b;
				if below & w != 0 {
					peaks.push((start, w));
					start += w;
				}
			}
			let cand: Vec<(usize, usize)> = peaks
				.iter()
				.cloned()
				.filter(|&(s, w)| w <= 32 * scale as usize && (s..s + w).any(|i| is_unspent(i)))
				.collect();
			if !cand.is_empty() {
				let (s, w) = *prng.pick(&cand);
				out = (s..s + w).filter(|&i| is_unspent(i)).collect();
			}
		}
		5 => {
			let s = prng.usize_below(below);
			let par = prng.usize_below(2);
			out = (s..(s + 16).min(below))
				.filter(|&i| i % 2 == par && is_unspent(i))
				.take(8)
				.collect();
		}
		6 => {
			if is_unspent(below - 1) {
				out.push(below - 1);
			}
			if below >= 2 && prng.bool() && is_unspent(below - 2) {
				out.push(below - 2);
			}
		}
		7 => {
			out = uns
				.iter()
				.cloned()
				.filter(|&i| m.leaves[i].readded)
				.take(8)
				.collect();
		}
		8 => {
			out = uns.iter().cloned().take(48).collect();
		}
		_ => {}
	}
	out.sort_unstable();
	out.dedup();
	out
}

fn pick_pattern(focus: usize, prng: &mut Prng) -> usize {
	if prng.chance(35, 100) {
		return focus;
	}
	// weights of the other choices
	match prng.below(100) {
		0..=24 => 0,
		25..=34 => 1,
		35..=46 => 2,
		47..=56 => 3,
		57..=62 => 4,
		63..=70 => 5,
		71..=76 => 6,
		77..=88 => 7,
		89..=90 => 8,
		_ => 9,
	}
}

fn bitmap_of<T: Elem>(m: &Model<T>, idxs: impl Iterator<Item = usize>) -> Bitmap {
	idxs.map(|i| m.pos_of(i) as u32 + 1).collect()
}

/// One random program on one backend directory.
fn program<T: Elem>(
	dir: &str,
	cfg: &ProgCfg,
	prunable: bool,
	seed: u64,
	tr: &mut Trace,
	st: &mut Stats,
) -> Result<(), Stop> {
	let mut prng = Prng::new(seed ^ cfg.idx.wrapping_mul(0x9E37_79B9_7F4A_7C15) ^ 0xC08);
	let mut be: PMMRBackend<T> = open_backend(dir, prunable)?;
	let mut m: Model<T> = Model::new();
	let mut serial = 0u64;
	let mut min_rewind = 0usize;
	let mut last_cutoff_leaves = 0usize;
	let units = prng.range((cfg.max_units / 3).max(1), cfg.max_units);
	let max_leaves = (40 * cfg.max_units * cfg.scale) as usize;
	tr.op("open", "open".into());
	check(&mut be, &m, 0, prunable, true, true, &mut prng, st)?;
	// every fourth prunable program has one unit that spends EVERY leaf still unspent (after making the leaf count even, so
	// that everything rolls up into pruned subtrees), commits and compacts at the head: the data file is left empty, and
	// the same instance then goes on with further units. Drawn without touching the PRNG stream of the other programs.
	let wipe_unit: Option<u64> = if prunable && cfg.idx % 4 == 1 && units >= 3 { Some(1 + (cfg.idx / 4) % (units - 2).min(6)) } else { None };

	for _u in 0..units {
		st.units += 1;
		let wipe_now = wipe_unit == Some(_u);
		let pre = m.clone();
		let mut size = m.size();

		// ---- optional rewind (always before any append of the unit, as in Extension::rewind)
		// (the chain starts every extension with Extension::rewind to the fork point, which for a
		// plain head extension is the no-op rewind at the head)
		let mut rewound = false;
		let real_rewind = m.cur() > 0 && prng.chance(30, 100) && !wipe_now;
		if real_rewind || prng.chance(50, 100) {
			let cur = m.cur();
			let k = if !real_rewind || prng.chance(10, 100) {
				cur
			} else if prng.chance(70, 100) {
				cur.saturating_sub(prng.range(1, 3) as usize).max(min_rewind)
			} else {
				prng.range(min_rewind as u64, cur as u64) as usize
			};
			let readded;
			{
				let mut pmmr: PMMR<'_, T, PMMRBackend<T>> = PMMR::at(&mut be, size);
				if k == cur {
					// Extension::rewind with nothing to rewind: truncate at the head
					pmmr.rewind(m.blks[k].size, &Bitmap::new())
						.map_err(|e| Stop::Fail(Fail { clause: "rewind_err".into(), detail: e }))?;
					st.rewinds_noop += 1;
					tr.op("rewind", format!("rewind noop to b{} size {}", k, m.blks[k].size));
				} else if prng.chance(65, 100) {
					// exactly as the chain: block by block, each with the positions that block spent
					for j in (k + 1..=cur).rev() {
						let bm = bitmap_of(&m, m.blks[j].spent.iter().cloned());
						pmmr.rewind(m.blks[j - 1].size, &bm)
							.map_err(|e| Stop::Fail(Fail { clause: "rewind_err".into(), detail: e }))?;
					}
					st.rewinds_step += 1;
					tr.op(
						"rewind",
						format!("rewind stepwise b{} -> b{} size {}", cur, k, m.blks[k].size),
					);
				} else {
					// one call: the positions removed in the undone blocks and created at or before the boundary
					let keep = m.blks[k].n_leaves;
					let bm = bitmap_of(
						&m,
						(k + 1..=cur)
							.flat_map(|j| m.blks[j].spent.iter().cloned())
							.filter(|&i| i < keep),
					);
					pmmr.rewind(m.blks[k].size, &bm)
						.map_err(|e| Stop::Fail(Fail { clause: "rewind_err".into(), detail: e }))?;
					st.rewinds_aggr += 1;
					tr.op(
						"rewind",
						format!(
							"rewind aggregate b{} -> b{} size {} rm {:?}",
							cur,
							k,
							m.blks[k].size,
							bm.iter().collect::<Vec<u32>>()
						),
					);
				}
				size = pmmr.unpruned_size();
			}
			if tr.compactions > 0 && k < cur {
				st.rewinds_after_compaction += 1;
			}
			// leaves re-added that a previous compaction had to keep (created at or before its cutoff)
			if k < cur {
				for j in k + 1..=cur {
					for &i in &m.blks[j].spent {
						if i < last_cutoff_leaves && tr.compactions > 0 {
							st.readded_protected += 1;
						}
					}
				}
			}
			readded = m.rewind_to(k);
			st.readded += readded as u64;
			rewound = k < cur;
			check(&mut be, &m, size, prunable, false, false, &mut prng, st)?;
		}

		// ---- blocks: appends, then removals of leaves that existed before the block
		let nblk = match prng.below(100) {
			0..=69 => 1,
			70..=92 => 2,
			_ => 3,
		} + if rewound && prng.bool() { 1 } else { 0 };
		let nblk = if wipe_now { 2 } else { nblk };
		for _b in 0..nblk {
			let below = m.leaves.len();
			let n_app = match prng.below(100) {
				0..=9 => 0,
				10..=93 => prng.range(1, 12 * cfg.scale),
				_ => prng.range(13 * cfg.scale, 40 * cfg.scale),
			};
			// wipe unit: first block makes the leaf count even (and at least 2), second block appends nothing and spends all
			let n_app = if wipe_now {
				if _b == 0 {
					(below % 2) as u64 + if below == 0 { 2 } else { 0 }
				} else {
					0
				}
			} else {
				n_app
			};
			let mut spent: Vec<usize> = vec![];
			let mut pat = 9;
			{
				let mut pmmr: PMMR<'_, T, PMMRBackend<T>> = PMMR::at(&mut be, size);
				for _ in 0..n_app {
					let e = T::gen(&mut prng, serial);
					serial += 1;
					let pos = match pmmr.push(&e) {
						Ok(p) => p,
						Err(err) => {
							tr.op("block", format!("block push #{} failed", serial - 1));
							return fail("push_err", format!("push: {}", err));
						}
					};
					let rpos = m.push(e);
					if pos != rpos {
						tr.op("block", "block push".into());
						return fail("push_pos", format!("push returned pos {} reference {}", pos, rpos));
					}
				}
				st.appended += n_app;
				if prunable {
					pat = pick_pattern(cfg.focus, &mut prng);
					spent = choose_removals(&m, below, pat, cfg.scale, &mut prng);
					if wipe_now {
						pat = 9;
						spent = if _b == 0 { vec![] } else { m.unspent_idx(below) };
					}
					for &i in &spent {
						let pos = m.pos_of(i);
						match pmmr.prune(pos) {
							Ok(true) => {}
							other => {
								tr.op("block", format!("block +{} prune({})", n_app, pos));
								return fail(
									"prune_result",
									format!("prune({}) of an unspent leaf returned {:?}", pos, other),
								);
							}
						}
					}
					if !spent.is_empty() {
						st.patterns[pat] += 1;
					} else {
						st.patterns[9] += 1;
					}
					st.removed += spent.len() as u64;
				}
				size = pmmr.unpruned_size();
			}
			tr.op(
				"block",
				format!(
					"block b{} +{} -{}({}) pos {:?}",
					m.cur() + 1,
					n_app,
					spent.len(),
					PATTERNS[pat],
					spent.iter().map(|&i| m.pos_of(i)).collect::<Vec<u64>>()
				),
			);
			m.close_block(spent);
			check(&mut be, &m, size, prunable, false, false, &mut prng, st)?;
		}
		st.max_leaves = st.max_leaves.max(m.leaves.len() as u64);

		// ---- commit or discard
		match if wipe_now { 0 } else { prng.below(100) } {
			0..=71 => {
				tr.op("sync", "sync".into());
				if let Err(e) = be.sync() {
					let what = format!("sync error: {:?}", e);
					return Err(after_op_error(&mut be, &m, size, prunable, &mut prng, st, what));
				}
				st.syncs += 1;
				check(&mut be, &m, size, prunable, true, false, &mut prng, st)?;
			}
			72..=93 => {
				be.discard();
				m = pre;
				size = m.size();
				st.discards += 1;
				tr.op("discard", "discard".into());
				check(&mut be, &m, size, prunable, true, false, &mut prng, st)?;
			}
			_ => {
				// process exit with uncommitted work: nothing of the unit reached the disk
				drop(be);
				be = open_backend(dir, prunable)?;
				m = pre;
				size = m.size();
				st.crash_reopens += 1;
				tr.op("reopen_unsynced", "drop without sync + reopen".into());
				check(&mut be, &m, size, prunable, true, false, &mut prng, st)?;
			}
		}

		// ---- compaction between units (TxHashSet::compact protocol)
		if prunable && (prng.chance(25, 100) || wipe_now) {
			let rounds = if prng.chance(30, 100) { 2 } else { 1 };
			for r in 0..rounds {
				let cur = m.cur();
				let c = if prng.chance(60, 100) {
					cur.saturating_sub(prng.range(0, 6) as usize).max(min_rewind)
				} else {
					prng.range(min_rewind as u64, cur as u64) as usize
				};
				let c = if wipe_now { cur } else { c };
				let exact = prng.chance(75, 100);
				let keep = m.blks[c].n_leaves;
				// positions spent by the blocks between the cutoff and the head
				let rm = bitmap_of(
					&m,
					(c + 1..=cur)
						.flat_map(|j| m.blks[j].spent.iter().cloned())
						.filter(|&i| exact || i < keep),
				);
				let before = (be.hash_size(), be.data_size());
				tr.op(
					"compact",
					format!(
						"check_compact cutoff b{} size {} rm {:?}",
						c,
						m.blks[c].size,
						rm.iter().collect::<Vec<u32>>()
					),
				);
				if let Err(e) = be.check_compact(m.blks[c].size, &rm) {
					let what = format!("check_compact error: {:?}", e);
					return Err(after_op_error(&mut be, &m, size, prunable, &mut prng, st, what));
				}
				let after = (be.hash_size(), be.data_size());
				if after.0 < before.0 || after.1 < before.1 {
					st.compact_removing += 1;
					// more hashes than leaves removed: parent nodes of fully pruned subtrees went too
					if before.0 - after.0 > before.1 - after.1 {
						st.subtree_roots_compacted += 1;
					}
				} else {
					st.compact_noop += 1;
				}
				if r == 1 {
					st.compact_twice += 1;
				}
				if wipe_now && r == 0 && after.1 == 0 && before.1 > 0 {
					st.wiped_data_files += 1;
				}
				tr.compactions += 1;
				min_rewind = c;
				last_cutoff_leaves = keep;
				check(&mut be, &m, size, prunable, true, false, &mut prng, st)?;
				if prng.chance(30, 100) && !wipe_now {
					drop(be);
					be = open_backend(dir, prunable)?;
					st.reopens += 1;
					tr.op("reopen", "reopen".into());
					check(&mut be, &m, size, prunable, true, false, &mut prng, st)?;
				}
			}
		}

		// ---- drop / reopen
		if prng.chance(12, 100) && !wipe_now {
			drop(be);
			be = open_backend(dir, prunable)?;
			st.reopens += 1;
			tr.op("reopen", "reopen".into());
			check(&mut be, &m, size, prunable, true, false, &mut prng, st)?;
		}
		if m.leaves.len() > max_leaves {
			break;
		}
	}

	// final: reopen and compare everything, all proofs
	let size = m.size();
	drop(be);
	let mut be: PMMRBackend<T> = open_backend(dir, prunable)?;
	st.reopens += 1;
	tr.op("reopen", "final reopen".into());
	check(&mut be, &m, size, prunable, true, true, &mut prng, st)?;
	Ok(())
}

fn size_class(n: u64) -> &'static str {
	match n {
		0..=16 => "<=16",
		17..=64 => "<=64",
		65..=256 => "<=256",
		257..=1024 => "<=1024",
		1025..=4096 => "<=4096",
		_ => ">4096",
	}
}

struct Totals {
	stats: Stats,
	programs: BTreeMap<&'static str, u64>,
}

fn add_stats(a: &mut Stats, b: &Stats) {
	a.wiped_data_files += b.wiped_data_files;
	a.steps_checked += b.steps_checked;
	a.leaves_compared += b.leaves_compared;
	a.spent_checked += b.spent_checked;
	a.proofs += b.proofs;
	a.compact_removing += b.compact_removing;
	a.compact_noop += b.compact_noop;
	a.compact_twice += b.compact_twice;
	a.rewinds_step += b.rewinds_step;
	a.rewinds_aggr += b.rewinds_aggr;
	a.rewinds_noop += b.rewinds_noop;
	a.rewinds_after_compaction += b.rewinds_after_compaction;
	a.readded += b.readded;
	a.readded_protected += b.readded_protected;
	a.reopens += b.reopens;
	a.crash_reopens += b.crash_reopens;
	a.discards += b.discards;
	a.syncs += b.syncs;
	a.units += b.units;
	for i in 0..10 {
		a.patterns[i] += b.patterns[i];
	}
	a.subtree_roots_compacted += b.subtree_roots_compacted;
	a.max_leaves = a.max_leaves.max(b.max_leaves);
	a.appended += b.appended;
	a.removed += b.removed;
}

fn run_store_program(run: &Run, sc: &Scratch, cfg: &ProgCfg, totals: &Mutex<Totals>, verbose: bool) {
	let dir = sc.sub(&format!("p{}", cfg.idx));
	let _ = std::fs::remove_dir_all(&dir);
	if let Err(e) = std::fs::create_dir_all(&dir) {
		run.inconclusive(&format!("cannot create {}: {}", dir, e));
		return;
	}
	let mut tr = Trace::default();
	let mut st = Stats::default();
	let seed = run.seed;
	let res = catch(|| match cfg.kind {
		Kind::FixPrunable => program::<FixElem>(&dir, cfg, true, seed, &mut tr, &mut st),
		Kind::VarPlain => program::<VarElem>(&dir, cfg, false, seed, &mut tr, &mut st),
		Kind::FixPlain => program::<FixElem>(&dir, cfg, false, seed, &mut tr, &mut st),
		Kind::VarPrunable => program::<VarElem>(&dir, cfg, true, seed, &mut tr, &mut st),
	});
	let _ = std::fs::remove_dir_all(&dir);
	let tail: Vec<&String> = tr.ops.iter().rev().take(60).rev().collect();
	let case = |detail: &str| -> Value {
		json!({
			"level": "store",
			"program": cfg.idx,
			"kind": cfg.kind.name(),
			"max_units": cfg.max_units,
			"focus": cfg.focus,
			"scale": cfg.scale,
			"ops_total": tr.ops.len(),
			"last_ops": tail,
			"detail": detail,
		})
	};
	match res {
		Err(p) => {
			let sig = format!(
				"level=store;kind={};after={};compacted={};event=panic@{}",
				cfg.kind.name(),
				tr.last_op,
				(tr.compactions > 0) as u8,
				p.location
			);
			run.violation(&sig, &format!("panic: {}", p.message), case(&p.message));
		}
		Ok(Err(Stop::Fail(f))) => {
			let sig = format!(
				"level=store;kind={};after={};compacted={};clause={}",
				cfg.kind.name(),
				tr.last_op,
				(tr.compactions > 0) as u8,
				f.clause
			);
			run.violation(&sig, &f.detail, case(&f.detail));
		}
		Ok(Err(Stop::Io(msg))) => {
			run.inconclusive(&format!("program {}: I/O error (environment): {}", cfg.idx, msg));
		}
		Ok(Ok(())) => {
			run.count("store_programs_completed", 1);
		}
	}
	run.count("store_programs_started", 1);
	if verbose {
		for o in &tr.ops {
			println!("  {}", o);
		}
	}
	let rewinds = st.rewinds_step + st.rewinds_aggr;
	let compactions = st.compact_removing + st.compact_noop;
	let pats: Vec<&str> = (0..9).filter(|&i| st.patterns[i] > 0).map(|i| PATTERNS[i]).collect();
	let sig = format!(
		"kind={};patterns={};compactions={};rewinds={};reopens={};size={}",
		cfg.kind.name(),
		pats.join("+"),
		compactions,
		rewinds,
		st.reopens + st.crash_reopens,
		size_class(st.max_leaves)
	);
	let nontrivial = st.units >= 3 && (rewinds > 0 || compactions > 0) && st.max_leaves > 8;
	run.eval(&sig, nontrivial);
	if [0u64, 1, 3, 24].contains(&cfg.idx) {
		run.sample(json!({
			"level": "store", "program": cfg.idx, "shape": sig, "units": st.units,
			"leaves_max": st.max_leaves, "steps_checked": st.steps_checked,
			"first_ops": tr.ops.iter().take(14).collect::<Vec<_>>(),
		}));
	}
	let mut t = totals.lock().unwrap();
	add_stats(&mut t.stats, &st);
	*t.programs.entry(cfg.kind.name()).or_insert(0) += 1;
}

fn prog_cfg(idx: u64, san: bool) -> ProgCfg {
	let kind = match idx % 8 {
		3 => Kind::VarPlain,
		6 => Kind::VarPrunable,
		7 => Kind::FixPlain,
		_ => Kind::FixPrunable,
	};
	let max_units = if san {
		18
	} else if idx % 10 == 9 {
		110
	} else {
		42
	};
	ProgCfg {
		idx,
		kind,
		max_units,
		focus: ((idx / 8) % 8) as usize, // patterns 0..=7 forced in turn
		scale: if !san && idx % 25 == 24 { 5 } else { 1 },
	}
}

// ================================================================== chain level

const FEE: u64 = 2_000_000;

#[derive(Clone)]
struct PCoin {
	coin: Coin,
	created: u64,
	reserved: Option<&'static str>,
}

#[derive(Clone)]
struct TxSpec {
	inputs: Vec<Coin>,
	outputs: Vec<(u64, Identifier)>,
}

#[derive(Clone)]
struct BlockSpec {
	height: u64,
	txs: Vec<usize>,
	cb_key: u32,
}

#[derive(Clone)]
struct Planner {
	pool: Vec<PCoin>,
	next_key: u32,
	cb_base: u32,
	tx_budget: usize,
}

impl Planner {
	fn mature(&self, i: usize, h: u64) -> bool {
		let c = &self.pool[i];
		if c.coin.coinbase {
			c.created + 3 <= h
		} else {
			c.created < h
		}
	}
	fn candidates(&self, h: u64) -> Vec<usize> {
		(0..self.pool.len())
			.filter(|&i| self.pool[i].reserved.is_none() && self.mature(i, h))
			.collect()
	}
	fn reserved_idx(&self, tag: &str) -> Option<usize> {
		self.pool.iter().position(|c| c.reserved == Some(tag))
	}
	/// Plan a block at height `h` spending the given groups of pool indices.
	fn plan_block(
		&mut self,
		w: &World,
		prng: &mut Prng,
		h: u64,
		groups: Vec<Vec<usize>>,
		specs: &mut Vec<TxSpec>,
		reserve_cb: Option<&'static str>,
	) -> BlockSpec {
		let mut txs = vec![];
		// resolve coins first (indices shift when removing)
		let mut all: Vec<usize> = groups.iter().flatten().cloned().collect();
		let coins: Vec<Vec<Coin>> = groups
			.iter()
			.map(|g| g.iter().map(|&i| self.pool[i].coin.clone()).collect())
			.collect();
		all.sort_unstable();
		all.dedup();
		for i in all.into_iter().rev() {
			self.pool.remove(i);
		}
		for inputs in coins {
			if inputs.is_empty() {
				continue;
			}
			let total: u64 = inputs.iter().map(|c| c.value).sum();
			let n_out = prng.range(1, 2) as usize;
			let mut left = total - FEE;
			let mut outputs = vec![];
			for i in 0..n_out {
				let v = if i + 1 == n_out { left } else { left / 2 };
				left -= v;
				let k = w.key(self.next_key);
				self.next_key += 1;
				self.pool.push(PCoin {
					coin: w.coin(v, &k, false),
					created: h,
					reserved: None,
				});
				outputs.push((v, k));
			}
			specs.push(TxSpec { inputs, outputs });
			txs.push(specs.len() - 1);
			self.tx_budget = self.tx_budget.saturating_sub(1);
		}
		let cb_key = self.cb_base + h as u32;
		let fees = FEE * txs.len() as u64;
		self.pool.push(PCoin {
			coin: w.coin(consensus::reward(fees), &w.key(cb_key), true),
			created: h,
			reserved: reserve_cb,
		});
		BlockSpec { height: h, txs, cb_key }
	}
	/// Random spends for an ordinary block.
	fn random_groups(&self, prng: &mut Prng, h: u64, force_old: bool) -> Vec<Vec<usize>> {
		let cand = self.candidates(h);
		if cand.is_empty() || self.tx_budget == 0 {
			return vec![];
		}
		let n_tx = if force_old {
			1
		} else {
			match prng.below(100) {
				0..=54 => 0,
				55..=89 => 1,
				_ => 2,
			}
		};
		let mut used: BTreeSet<usize> = BTreeSet::new();
		let mut groups = vec![];
		for _ in 0..n_tx {
			let free: Vec<usize> = cand.iter().cloned().filter(|i| !used.contains(i)).collect();
			if free.is_empty() {
				break;
			}
			let third = (free.len() / 3).max(1);
			let at = if force_old || prng.chance(50, 100) {
				prng.usize_below(third)
			} else if prng.bool() {
				free.len() - 1 - prng.usize_below(third)
			} else {
				prng.usize_below(free.len())
			};
			let mut g = vec![free[at]];
			used.insert(free[at]);
			// a second, neighbouring input (adjacent outputs are MMR siblings half of the time)
			if prng.chance(35, 100) && at + 1 < free.len() {
				g.push(free[at + 1]);
				used.insert(free[at + 1]);
			}
			groups.push(g);
		}
		groups
	}
}

fn build_txs(w: &World, seed: u64, specs: &[TxSpec], from: usize) -> Vec<Transaction> {
	let n = specs.len() - from;
	let slots: Vec<Mutex<Option<Transaction>>> = (0..n).map(|_| Mutex::new(None)).collect();
	let next = AtomicU64::new(0);
	std::thread::scope(|s| {
		for _ in 0..6.min(n.max(1)) {
			let w = w.clone();
			let slots = &slots;
			let next = &next;
			s.spawn(move || {
				init_thread(false);
				loop {
					let i = next.fetch_add(1, Ordering::SeqCst) as usize;
					if i >= n {
						break;
					}
					let sp = &specs[from + i];
					let mut p = Prng::new(seed ^ ((from + i) as u64).wrapping_mul(0xA24B_AED4_963E_E407));
					let (tx, _) = w.tx(
						&mut p,
						&sp.inputs,
						&sp.outputs,
						KernelFeatures::Plain { fee: fee_fields(FEE) },
					);
					*slots[i].lock().unwrap() = Some(tx);
				}
			});
		}
	});
	slots.into_iter().map(|m| m.into_inner().unwrap().expect("tx built")).collect()
}

fn file_len(p: &std::path::Path) -> u64 {
	std::fs::metadata(p).map(|m| m.len()).unwrap_or(0)
}

/// (data bytes, hash bytes, prune list bytes) of the output and rangeproof MMRs.
fn mmr_files(dir: &str) -> [u64; 6] {
	let base = std::path::Path::new(dir).join("txhashset");
	let o = base.join("output");
	let r = base.join("rangeproof");
	[
		file_len(&o.join("pmmr_data.bin")),
		file_len(&o.join("pmmr_hash.bin")),
		file_len(&o.join("pmmr_prun.bin")),
		file_len(&r.join("pmmr_data.bin")),
		file_len(&r.join("pmmr_hash.bin")),
		file_len(&r.join("pmmr_prun.bin")),
	]
}

fn ref_diff_class(d: &str) -> &'static str {
	if d.starts_with("head") {
		"head"
	} else if d.starts_with("output PMMR root") {
		"output_root"
	} else if d.starts_with("rangeproof root") {
		"rproof_root"
	} else if d.starts_with("kernel root") {
		"kernel_root"
	} else if d.starts_with("bitmap root") {
		"bitmap_root"
	} else if d.starts_with("sizes") {
		"sizes"
	} else if d.starts_with("unspent set") {
		"unspent_set"
	} else if d.starts_with("unspent enumeration") {
		"unspent_enum"
	} else {
		"other"
	}
}

/// What the property lists: head, state roots (and sizes), unspent set by both access paths.
fn listed_diff(a: &Snap, b: &Snap) -> Option<(&'static str, String)> {
	if a.head != b.head {
		return Some(("head", format!("{:?} vs {:?}", a.head, b.head)));
	}
	if a.output_pmmr_root != b.output_pmmr_root {
		return Some(("output_root", format!("{} vs {}", a.output_pmmr_root, b.output_pmmr_root)));
	}
	if a.bitmap_root != b.bitmap_root {
		return Some(("bitmap_root", format!("{} vs {}", a.bitmap_root, b.bitmap_root)));
	}
	if a.rproof_root != b.rproof_root {
		return Some(("rproof_root", format!("{} vs {}", a.rproof_root, b.rproof_root)));
	}
	if a.kernel_root != b.kernel_root {
		return Some(("kernel_root", format!("{} vs {}", a.kernel_root, b.kernel_root)));
	}
	if a.sizes != b.sizes {
		return Some(("sizes", format!("{:?} vs {:?}", a.sizes, b.sizes)));
	}
	if a.unspent != b.unspent {
		let gone = a.unspent.keys().filter(|k| !b.unspent.contains_key(*k)).count();
		let new = b.unspent.keys().filter(|k| !a.unspent.contains_key(*k)).count();
		return Some(("unspent_set", format!("{} vanished, {} appeared", gone, new)));
	}
	if a.unspent_enum != b.unspent_enum {
		return Some((
			"unspent_enum",
			format!("{} vs {} entries", a.unspent_enum.len(), b.unspent_enum.len()),
		));
	}
	None
}

struct ChainCtx<'a> {
	run: &'a Run,
	scen: u64,
	dir: String,
	w: World,
	ledger: RefLedger,
	txs: Vec<Transaction>,
	prng: Prng,
	params: Value,
	aborted: bool,
}

impl<'a> ChainCtx<'a> {
	fn violation(&mut self, stage: &str, clause: &str, what: String) {
		let sig = format!("level=chain;stage={};clause={}", stage, clause);
		self.run.violation(
			&sig,
			&what,
			json!({"level": "chain", "scenario": self.scen, "stage": stage, "params": self.params, "detail": what}),
		);
		self.aborted = true;
	}

	/// Build (reference block factory) and deliver one block. Returns (hash, head moved).
	fn deliver(
		&mut self,
		chain: &Chain,
		parent: &Hash,
		spec: &BlockSpec,
		difficulty: u64,
		stage: &str,
	) -> Option<(Hash, bool)> {
		let txs: Vec<Transaction> = spec.txs.iter().map(|&i| self.txs[i].clone()).collect();
		let key = self.w.key(spec.cb_key);
		let b = match self.ledger.make_block(
			&self.w,
			&mut self.prng,
			parent,
			&txs,
			&key,
			PowMode::Skip { difficulty },
			60,
		) {
			Ok(b) => b,
			Err(e) => {
				self.run.inconclusive(&format!("chain scenario {}: make_block failed: {}", self.scen, e));
				self.aborted = true;
				return None;
			}
		};
		let h = b.hash();
		// the reference must accept the block, otherwise the plan (harness) is wrong
		let pstate = self.ledger.state_at(parent);
		if let Err(e) = pstate.check_block(&b) {
			self.run.inconclusive(&format!(
				"chain scenario {}: planned block at {} is illegal by the reference: {:?}",
				self.scen, spec.height, e
			));
			self.aborted = true;
			return None;
		}
		match catch(|| chain.process_block(b, Options::SKIP_POW)) {
			Ok(Ok(t)) => Some((h, t.is_some())),
			Ok(Err(e)) => {
				self.violation(
					stage,
					"block_rejected",
					format!("honest block at height {} rejected: {:?}", spec.height, e),
				);
				None
			}
			Err(p) => {
				self.violation(
					stage,
					&format!("panic@{}", p.location),
					format!("process_block panicked at height {}: {}", spec.height, p.message),
				);
				None
			}
		}
	}

	/// Snapshot + comparison with the replayed reference (+ optional full validation).
	fn stage_check(&mut self, chain: &Chain, tip: &Hash, stage: &str, validate: bool) -> Option<Snap> {
		let commits = all_commits(&self.ledger);
		let s = match catch(|| snapshot(chain, &commits)) {
			Ok(Ok(s)) => s,
			Ok(Err(e)) => {
				self.violation(stage, "snapshot_error", e);
				return None;
			}
			Err(p) => {
				self.violation(stage, &format!("panic@{}", p.location), format!("snapshot panicked: {}", p.message));
				return None;
			}
		};
		let st = self.ledger.state_at(tip);
		if let Some(d) = compare_with_ref(&s, &st) {
			self.violation(stage, &format!("ref_mismatch:{}", ref_diff_class(&d)), d);
			return None;
		}
		self.run.count("chain_ref_comparisons", 1);
		if validate {
			match catch(|| chain.validate(false)) {
				Ok(Ok(())) => self.run.count("chain_full_validations_ok", 1),
				Ok(Err(e)) => {
					self.violation(stage, "validate_failed", format!("Chain::validate(false): {:?}", e));
					return None;
				}
				Err(p) => {
					self.violation(
						stage,
						&format!("panic@{}", p.location),
						format!("validate panicked: {}", p.message),
					);
					return None;
				}
			}
		}
		Some(s)
	}

	/// Compaction with before/after comparison. Returns whether the MMR files changed.
	fn compact_stage(&mut self, chain: &Chain, tip: &Hash, stage: &str) -> Option<bool> {
		let before = self.stage_check(chain, tip, &format!("{}_before", stage), true)?;
		let f0 = mmr_files(&self.dir);
		match catch(|| chain.compact()) {
			Ok(Ok(())) => {}
			Ok(Err(e)) => {
				self.violation(stage, "compact_error", format!("Chain::compact: {:?}", e));
				return None;
			}
			Err(p) => {
				self.violation(stage, &format!("panic@{}", p.location), format!("compact panicked: {}", p.message));
				return None;
			}
		}
		let f1 = mmr_files(&self.dir);
		let commits = all_commits(&self.ledger);
		let after = match catch(|| snapshot(chain, &commits)) {
			Ok(Ok(s)) => s,
			Ok(Err(e)) => {
				self.violation(stage, "snapshot_error_after_compact", e);
				return None;
			}
			Err(p) => {
				self.violation(stage, &format!("panic@{}", p.location), format!("snapshot panicked: {}", p.message));
				return None;
			}
		};
		if let Some((c, d)) = listed_diff(&before, &after) {
			self.violation(stage, &format!("changed_by_compact:{}", c), d);
			return None;
		}
		// reference + full validation after
		self.stage_check(chain, tip, &format!("{}_after", stage), true)?;
		let changed = f1[0] < f0[0] || f1[1] < f0[1] || (f1[2] > 0 && f1[2] != f0[2]);
		let tail_moved = before.tail != after.tail;
		self.run.eval(
			&format!(
				"chain;stage={};files_shrank={};tail_moved={};head={}",
				stage, changed, tail_moved, after.head.1
			),
			changed,
		);
		if changed {
			self.run.count("chain_compactions_changed_files", 1);
			self.run.count("chain_output_data_bytes_removed", f0[0].saturating_sub(f1[0]));
			self.run.count("chain_output_hash_bytes_removed", f0[1].saturating_sub(f1[1]));
		} else {
			self.run.count("chain_compactions_without_effect", 1);
		}
		if self.scen == 0 {
			self.run.sample(json!({
				"level": "chain", "stage": stage, "head_height": after.head.1,
				"tail_before": before.tail.map(|t| t.1), "tail_after": after.tail.map(|t| t.1),
				"files_before[out data,hash,prun,rp data,hash,prun]": f0, "files_after": f1,
				"unspent": after.unspent.len(),
			}));
		}
		Some(changed)
	}
}

fn chain_scenario(run: &Run, sc: &Scratch, scen: u64) {
	init_thread(false);
	let seed = run.seed ^ scen.wrapping_mul(0xD1B5_4A32_D192_ED03) ^ 0xC08C;
	let mut prng = Prng::new(seed);
	let w = World::new(seed ^ 0x77);
	let dir = sc.sub(&format!("chain{}", scen));
	let (gen, gcoin) = w.genesis();

	// ---- parameters
	let h1 = 100 + prng.range(0, 6); // first compaction
	let fdepth = if scen == 0 { 5 } else { prng.range(3, 9) };
	let f1 = h1 - fdepth; // fork point
	let tx_budget = 28usize;
	let params = json!({"h1": h1, "fork_depth": fdepth});

	// ---- plan
	let mut specs: Vec<TxSpec> = vec![];
	let mut pl = Planner {
		pool: vec![PCoin { coin: gcoin, created: 0, reserved: None }],
		next_key: 100_000,
		cb_base: 10_000,
		tx_budget,
	};
	let horizon1 = h1 - 20;
	let z_height = horizon1 + prng.range(2, 6); // created after the horizon, before the fork point
	let mut common: Vec<BlockSpec> = vec![];
	for h in 1..=f1 {
		let reserve = match h {
			6 => Some("X"),
			7 => Some("Y"),
			9 => Some("Q"),
			_ if h == z_height => Some("Z"),
			_ => None,
		};
		let late_old = h > horizon1 && (h - horizon1) % 4 == 1; // spends of old outputs after the horizon
		let groups = if h < 5 {
			vec![]
		} else {
			pl.random_groups(&mut prng, h, late_old)
		};
		common.push(pl.plan_block(&w, &mut prng, h, groups, &mut specs, reserve));
	}
	// main branch: spends X, Y, Z after the fork point
	let mut plm = pl.clone();
	plm.cb_base = 10_000;
	let mut main_tail: Vec<BlockSpec> = vec![];
	for h in f1 + 1..=h1 {
		let mut groups = vec![];
		let off = h - f1;
		let tag = match off {
			1 => Some("X"),
			2 => Some("Y"),
			3 => Some("Z"),
			_ => None,
		};
		if let Some(t) = tag {
			if let Some(i) = plm.reserved_idx(t) {
				if plm.mature(i, h) {
					groups.push(vec![i]);
				}
			}
		}
		main_tail.push(plm.plan_block(&w, &mut prng, h, groups, &mut specs, None));
	}
	// fork branch: re-spends X and Z, leaves Y unspent for a long time
	let mut plf = pl.clone();
	plf.cb_base = 20_000;
	plf.next_key = 200_000;
	plf.tx_budget = 20;
	let h2 = horizon1 + 80 + prng.range(1, 5); // second compaction (tail after the first = h1 - 20)
	let mut fork: Vec<BlockSpec> = vec![];
	let y_spend = h2 - 28;
	let q_spend = h2 - 1;
	for h in f1 + 1..=h2 {
		let off = h - f1;
		let mut groups = vec![];
		let tag = if off == 1 {
			Some("X")
		} else if off == 2 {
			Some("Z")
		} else if h == y_spend {
			Some("Y")
		} else if h == q_spend {
			Some("Q")
		} else {
			None
		};
		if let Some(t) = tag {
			if let Some(i) = plf.reserved_idx(t) {
				if plf.mature(i, h) {
					groups.push(vec![i]);
				}
			}
		} else if off > fdepth + 2 && h + 1 < q_spend {
			let late_old = h > h2 - 20 && (h2 - h) % 5 == 2;
			groups = plf.random_groups(&mut prng, h, late_old);
		}
		fork.push(plf.plan_block(&w, &mut prng, h, groups, &mut specs, None));
	}
	// second fork (after the second compaction): from h2-3, spends Q (main spent it at h2-1)
	let f2 = h2 - 3;
	let mut plg = Planner {
		pool: vec![],
		next_key: 300_000,
		cb_base: 30_000,
		tx_budget: 4,
	};
	// coins for the second fork: Q only (reserved coin of the common part, still unspent at f2)
	if let Some(i) = pl.reserved_idx("Q") {
		plg.pool.push(pl.pool[i].clone());
	}
	let mut fork2: Vec<BlockSpec> = vec![];
	for h in f2 + 1..=f2 + 5 {
		let mut groups = vec![];
		if h == f2 + 1 {
			if let Some(i) = plg.reserved_idx("Q") {
				groups.push(vec![i]);
			}
		}
		fork2.push(plg.plan_block(&w, &mut prng, h, groups, &mut specs, None));
	}

	let n_specs = specs.len();
	let txs = build_txs(&w, seed, &specs, 0);
	run.count("chain_txs_built", n_specs as u64);

	let chain = match open_chain(&dir, &gen) {
		Ok(c) => c,
		Err(e) => {
			run.inconclusive(&format!("chain scenario {}: {}", scen, e));
			return;
		}
	};
	let ledger = RefLedger::new(&gen);
	let mut cx = ChainCtx {
		run,
		scen,
		dir: dir.clone(),
		w: w.clone(),
		ledger,
		txs,
		prng: prng.fork(7),
		params,
		aborted: false,
	};

	// ---- main chain to h1
	let mut tip = gen.hash();
	let mut hash_at: HashMap<u64, Hash> = HashMap::new();
	hash_at.insert(0, tip);
	for spec in common.iter().chain(main_tail.iter()) {
		match cx.deliver(&chain, &tip, spec, 10, "build_main") {
			Some((h, moved)) => {
				if !moved {
					cx.violation("build_main", "head_not_moved", format!("block {} extended the head but head did not move", spec.height));
					return;
				}
				tip = h;
				hash_at.insert(spec.height, h);
			}
			None => return,
		}
		if spec.height % 20 == 0 {
			if cx.stage_check(&chain, &tip, "build_main", false).is_none() {
				return;
			}
		}
	}
	run.count("chain_blocks_delivered", h1);
	let main_tip = tip;

	// ---- first compaction
	let changed1 = match cx.compact_stage(&chain, &main_tip, "compact1") {
		Some(c) => c,
		None => return,
	};

	// ---- in-horizon reorg: fork from head - fdepth, re-spending X (main spent it after the horizon)
	let mut ftip = *hash_at.get(&f1).unwrap();
	let mut reorged_at = None;
	let mut fork_hash: HashMap<u64, Hash> = HashMap::new();
	let n_fork_first = (fdepth + 3) as usize;
	for spec in fork.iter().take(n_fork_first) {
		match cx.deliver(&chain, &ftip, spec, 11, "reorg1") {
			Some((h, moved)) => {
				ftip = h;
				fork_hash.insert(spec.height, h);
				if moved && reorged_at.is_none() {
					reorged_at = Some(spec.height);
				}
			}
			None => return,
		}
	}
	if reorged_at.is_none() {
		cx.violation("reorg1", "no_reorg", "fork with more total difficulty did not become the head".into());
		return;
	}
	if cx.stage_check(&chain, &ftip, "reorg1", true).is_none() {
		return;
	}
	run.count("chain_reorgs_after_compaction_ok", 1);
	run.eval(
		&format!("chain;stage=reorg1;depth={};reorg_at={:?};compaction_effective={}", fdepth, reorged_at.map(|h| h - f1), changed1),
		true,
	);

	// ---- drop / reopen
	let before_close = match cx.stage_check(&chain, &ftip, "pre_reopen", false) {
		Some(s) => s,
		None => return,
	};
	drop(chain);
	let chain = match catch(|| open_chain(&dir, &gen)) {
		Ok(Ok(c)) => c,
		Ok(Err(e)) => {
			cx.violation("reopen1", "init_failed", e);
			return;
		}
		Err(p) => {
			cx.violation("reopen1", &format!("panic@{}", p.location), p.message);
			return;
		}
	};
	let after_open = match cx.stage_check(&chain, &ftip, "reopen1", false) {
		Some(s) => s,
		None => return,
	};
	if let Some((c, d)) = listed_diff(&before_close, &after_open) {
		cx.violation("reopen1", &format!("changed_by_reopen:{}", c), d);
		return;
	}
	run.count("chain_reopens_ok", 1);
	run.eval("chain;stage=reopen1", true);

	// ---- extend to h2, second compaction
	for spec in fork.iter().skip(n_fork_first) {
		match cx.deliver(&chain, &ftip, spec, 11, "build_fork") {
			Some((h, moved)) => {
				if !moved {
					cx.violation("build_fork", "head_not_moved", format!("block {} did not move the head", spec.height));
					return;
				}
				ftip = h;
				fork_hash.insert(spec.height, h);
			}
			None => return,
		}
		if spec.height % 20 == 0 {
			if cx.stage_check(&chain, &ftip, "build_fork", false).is_none() {
				return;
			}
		}
	}
	run.count("chain_blocks_delivered", h2 - f1);
	let changed2 = match cx.compact_stage(&chain, &ftip, "compact2") {
		Some(c) => c,
		None => return,
	};

	// ---- second in-horizon reorg (from h2-3), re-spending Q
	let mut gtip = *fork_hash.get(&f2).unwrap();
	let mut reorged2 = false;
	for spec in fork2.iter() {
		match cx.deliver(&chain, &gtip, spec, 12, "reorg2") {
			Some((h, moved)) => {
				gtip = h;
				reorged2 |= moved;
			}
			None => return,
		}
	}
	if !reorged2 {
		cx.violation("reorg2", "no_reorg", "second fork with more total difficulty did not become the head".into());
		return;
	}
	if cx.stage_check(&chain, &gtip, "reorg2", false).is_none() {
		return;
	}
	run.count("chain_reorgs_after_compaction_ok", 1);
	run.eval(&format!("chain;stage=reorg2;compaction_effective={}", changed2), true);

	// ---- final reopen
	drop(chain);
	match catch(|| open_chain(&dir, &gen)) {
		Ok(Ok(chain)) => {
			if cx.stage_check(&chain, &gtip, "reopen2", true).is_some() {
				run.count("chain_reopens_ok", 1);
				run.eval("chain;stage=reopen2", true);
			}
			drop(chain);
		}
		Ok(Err(e)) => cx.violation("reopen2", "init_failed", e),
		Err(p) => cx.violation("reopen2", &format!("panic@{}", p.location), p.message),
	}
	if !cx.aborted {
		run.count("chain_scenarios_completed", 1);
	}
	let _ = std::fs::remove_dir_all(&dir);
}

// ========================================================================= main

fn main() {
	let run = Run::from_env("C08", "exploration");
	init_globals(false);
	let sc = Scratch::new("c08");
	let san: Option<String> = run
		.args
		.iter()
		.position(|a| a == "--san")
		.and_then(|i| run.args.get(i + 1).cloned());
	let is_san = san.is_some();

	run.set_rule(
		"store level: program = random sequence of units on one PMMRBackend directory; unit = [optional rewind to an \
		 earlier block boundary >= last compaction cutoff: block-by-block with each block's spent positions (as \
		 Extension::rewind), or one call with the positions spent in the undone blocks and created at or before the \
		 boundary, or (half of the other units) the no-op rewind at the head with which the chain starts every extension] + 1..4 blocks (0..40 appends, then removals of leaves that existed \
		 before the block by one of the patterns random/sibling_pair/sibling_complete/subtree/peak/alternating/\
		 last_leaf/respend_readded/all) + (sync | discard | drop-without-sync+reopen); between units \
		 check_compact(cutoff = boundary, rewind_rm_pos = positions spent by the blocks after the cutoff), sometimes \
		 twice, and drop/reopen. Kinds: 13-byte fixed elements on a prunable backend (full protocol), variable-size \
		 and fixed elements on a non-prunable backend (append/rewind/sync/discard/reopen). After every step the backend \
		 is compared through PMMR::at / ReadonlyPMMR with the unpruned reference (RefMMR + leaf history): root, size, \
		 data+hash of every unspent leaf, spent leaves absent, Merkle proofs (all for <= 40 unspent leaves, else a \
		 sample biased to neighbours of spent leaves) produced, path == reference path and verified against the \
		 reference root, leaf_pos_iter, n_unpruned_leaves, validate(). A program is non-trivial if it has >= 3 units, \
		 a rewind or a compaction and > 8 leaves; distinct = (kind, pattern classes present, #compactions, #rewinds, \
		 #reopens, max size class). chain level: AutomatedTesting SKIP_POW chain built by the reference block factory, \
		 spends on both sides of the horizon, Chain::compact at ~100 and ~165 with before/after comparison of head, \
		 roots, sizes, unspent set (get_unspent and by-pmmr-index), reference comparison and validate(false) before \
		 and after, in-horizon reorgs re-spending outputs the main chain spent after the horizon, drop/reopen.",
	);
	run.assume("rewinds never go below the last compaction cutoff (the chain guarantees it via the horizon)");
	run.assume("compaction only happens with no uncommitted work in the backend (as Chain::compact under the txhashset write lock)");
	run.assume("within one unit all rewinds precede all appends (AppendOnlyFile does not support rewinding inside its buffer; Extension::rewind is always first)");
	run.assume("I/O errors of the scratch file system are reported as inconclusive, not as violations");

	let totals = Mutex::new(Totals {
		stats: Stats::default(),
		programs: BTreeMap::new(),
	});

	// ---------------- replay of one recorded case
	if let Some(p) = &run.replay {
		let v: Value = std::fs::read_to_string(p)
			.ok()
			.and_then(|s| serde_json::from_str(&s).ok())
			.unwrap_or(Value::Null);
		let case = &v["case"];
		if case["level"] == "store" {
			let idx = case["program"].as_u64().unwrap_or(0);
			let cfg = ProgCfg {
				idx,
				kind: Kind::from_name(case["kind"].as_str().unwrap_or("")),
				max_units: case["max_units"].as_u64().unwrap_or(42),
				focus: case["focus"].as_u64().unwrap_or(0) as usize,
				scale: case["scale"].as_u64().unwrap_or(1).max(1),
			};
			println!("[C08] replaying store program {} ({})", idx, cfg.kind.name());
			run_store_program(&run, &sc, &cfg, &totals, true);
		} else if case["level"] == "chain" {
			let scen = case["scenario"].as_u64().unwrap_or(0);
			println!("[C08] replaying chain scenario {}", scen);
			chain_scenario(&run, &sc, scen);
		} else {
			run.inconclusive("replay file without a C08 case");
		}
		drop(sc);
		run.finish();
	}

	// ---------------- worker process: one chain scenario
	if let Some((i, _n)) = run.worker_shard() {
		let t0 = std::time::Instant::now();
		let n_planned: usize = run.tier.pick(1, 8);
		if i >= n_planned {
			// shared compaction × reorg scenario: the first block above the fork point spends sibling pairs
			// of old outputs, compaction runs `depth` blocks above the fork point, then the fork wins
			init_thread(false);
			vcommon::world::init_globals(true);
			let k = i - n_planned;
			// (chain parameters, depth of the reorganisation, headers of the winning fork known before the compaction)
			// UserTesting: cut-through horizon 70 but state-sync threshold 20 — the only testing parameter set in
			// which the two differ, as they do on mainnet (10080 / 2880)
			let user_testing = matches!(k % 8, 3 | 4);
			if user_testing {
				use grin_core::global::{self, ChainTypes};
				global::set_global_chain_type(ChainTypes::UserTesting);
				global::set_local_chain_type(ChainTypes::UserTesting);
			}
			let horizon = grin_core::global::cut_through_horizon() as usize;
			let threshold = grin_core::global::state_sync_threshold() as usize;
			// pairs_at: the spent sibling pairs were created in the block that is the compaction horizon (0), one
			// below (-1) or one above (+1) it, instead of being old outputs
			let (depth, headers_first, pairs_at): (usize, bool, Option<i64>) = match k % 8 {
				0 => (1usize, false, None),
				1 => (horizon, false, None),
				2 => (3, true, None),
				3 => ((threshold + horizon) / 2, false, None),
				// (the competing fork is two blocks long: the body must not be more than ~20 blocks higher than the
				// header chain, or the node declines to compact — its archive-header look-up goes through the header chain)
				4 => (threshold + 2, true, None),
				5 => (2, false, Some(0)),
				6 => (horizon - 1, true, Some(1)),
				_ => (4, false, Some(-1)),
			};
			if pairs_at.is_some() {
				run.count("chain_compaction_reorg_scenarios.pairs_created_at_the_horizon_block", 1);
			}
			run.count(if user_testing { "chain_compaction_reorg_scenarios.user_testing_parameters" } else { "chain_compaction_reorg_scenarios.automated_testing_parameters" }, 1);
			if headers_first {
				run.count("chain_compaction_reorg_scenarios.headers_of_the_winning_fork_first", 1);
			}
			let seed = run.seed ^ ((k as u64 + 1).wrapping_mul(0x9E37_79B9_7F4A_7C15));
			let dir = sc.sub(&format!("cr{}", k));
			match catch(|| vcommon::scenarios::compaction_reorg_scenario_opts(seed, depth, &dir, headers_first, pairs_at)) {
				Ok(Ok(st)) => {
					run.count("chain_compaction_reorg_scenarios_completed", 1);
					if let Some(e) = &st.compaction_declined {
						run.count("chain_compaction_reorg_scenarios.compaction_declined_by_the_node", 1);
						run.extra("compaction_declined_example", json!(e));
					}
					run.count("chain_compaction_reorg_state_comparisons", st.state_comparisons);
					run.count("chain_compaction_reorg_merkle_proofs_of_unspent_outputs_verified", st.merkle_proofs_verified);
					if st.compaction_moved_tail {
						run.count("chain_compaction_reorg_scenarios_with_effective_compaction", 1);
					}
					run.count("chain_compaction_reorg_old_outputs_whose_sibling_was_pruned_before", st.half_pairs_spent as u64);
					run.count("chain_compaction_reorg_followers_brought_up_from_the_state_archive", st.follower_state_syncs);
					run.eval(&format!("chain;compaction_reorg;depth={};pairs={}", depth, st.pairs_spent), true);
				}
				Ok(Err((clause, what, replay))) => {
					if clause == "inconclusive" {
						run.inconclusive(&what);
					} else {
						run.violation(&format!("level=chain;scenario=compaction_reorg;depth={};{}", depth, clause), &what, replay);
					}
				}
				Err(p) => run.violation(
					&format!("level=chain;scenario=compaction_reorg;event=panic@{}", p.location),
					&p.message,
					json!({"level": "chain", "scenario": "compaction_reorg", "depth": depth}),
				),
			}
			drop(sc);
			run.finish_worker();
		}
		if let Err(p) = catch(|| chain_scenario(&run, &sc, i as u64)) {
			run.violation(
				&format!("level=chain;stage=harness;event=panic@{}", p.location),
				&p.message,
				json!({"level": "chain", "scenario": i}),
			);
		}
		run.count("chain_scenario_wall_s_total", t0.elapsed().as_secs());
		drop(sc);
		run.finish_worker();
	}

	// ---------------- budgets
	let n_programs: u64 = if is_san { 80 } else { run.tier.pick(560, 30_000) };
	let time_budget_s: f64 = if is_san { 3000.0 } else { run.tier.pick(70.0, 600.0) };
	// chain scenarios run in worker processes (block processing / validation take the
	// process-global secp mutex, threads would serialise them)
	let n_chain: usize = if is_san { 0 } else { run.tier.pick(1, 8) };
	let n_threads: usize = if is_san { 4 } else { 16 };

	let next = AtomicU64::new(0);
	std::thread::scope(|s| {
		if n_chain > 0 {
			s.spawn(|| {
				run.spawn_workers(n_chain + run.tier.pick(6, 8), &[], run.tier.pick(300, 900));
			});
		}
		for _ in 0..n_threads {
			s.spawn(|| {
				init_thread(false);
				loop {
					let i = next.fetch_add(1, Ordering::SeqCst);
					if i >= n_programs || run.elapsed_s() > time_budget_s {
						break;
					}
					let cfg = prog_cfg(i, is_san);
					run_store_program(&run, &sc, &cfg, &totals, false);
				}
			});
		}
	});

	// ---------------- evidence
	let t = totals.lock().unwrap();
	let st = &t.stats;
	let rewinds = st.rewinds_step + st.rewinds_aggr;
	for (k, v) in [
		("store_units", st.units),
		("store_steps_checked", st.steps_checked),
		("store_unspent_leaves_compared", st.leaves_compared),
		("store_spent_leaves_checked_absent", st.spent_checked),
		("store_merkle_proofs_verified", st.proofs),
		("store_leaves_appended", st.appended),
		("store_leaves_removed", st.removed),
		("store_compactions_removing_data", st.compact_removing),
		("store_compactions_nothing_to_compact", st.compact_noop),
		("store_compactions_twice_in_a_row", st.compact_twice),
		("store_compactions_removing_subtree_nodes", st.subtree_roots_compacted),
		("store_rewinds_block_by_block", st.rewinds_step),
		("store_rewinds_single_call", st.rewinds_aggr),
		("store_rewinds_noop_at_head", st.rewinds_noop),
		("store_rewinds_after_compaction", st.rewinds_after_compaction),
		("store_leaves_readded_by_rewind", st.readded),
		("store_leaves_readded_that_compaction_had_to_keep", st.readded_protected),
		("store_reopens", st.reopens),
		("store_reopens_without_sync", st.crash_reopens),
		("store_discards", st.discards),
		("store_syncs", st.syncs),
		("store_max_leaves", st.max_leaves),
		("store_compactions_leaving_the_data_file_empty_with_units_following", st.wiped_data_files),
	] {
		run.count(k, v);
	}
	for i in 0..10 {
		run.count(&format!("store_pattern_{}", PATTERNS[i]), st.patterns[i]);
	}
	for (k, v) in &t.programs {
		run.count(&format!("store_programs_{}", k), *v);
	}

	let d = if is_san { 25 } else { 1 };
	let q = |quick: u64, thorough: u64| -> u64 { run.tier.pick(quick, thorough) / d };
	run.require("store programs (fixed, prunable)", *t.programs.get("fixed-prunable").unwrap_or(&0), q(200, 4000));
	run.require("store programs (variable size, non-prunable)", *t.programs.get("variable-nonprunable").unwrap_or(&0), q(50, 1000));
	run.require("store programs (variable size, prunable: data file and size file compacted together)", *t.programs.get("variable-prunable").unwrap_or(&0), q(50, 1000));
	run.require("steps checked against the reference", st.steps_checked, q(20_000, 500_000));
	run.require("compactions that emptied the data file, further units on the same instance", st.wiped_data_files, q(25, 500));
	run.require("compactions that removed data", st.compact_removing, q(500, 12_000));
	run.require("compactions with nothing to compact", st.compact_noop, q(50, 1000));
	run.require("compactions twice in a row", st.compact_twice, q(100, 5000));
	run.require("rewinds to an earlier boundary", rewinds, q(1000, 30_000));
	run.require("no-op rewinds at the head (start of a plain extension)", st.rewinds_noop, q(1000, 50_000));
	run.require("rewinds after a compaction", st.rewinds_after_compaction, q(400, 15_000));
	run.require("leaves re-added by rewind that a compaction had to keep", st.readded_protected, q(200, 8000));
	run.require("drop/reopen", st.reopens + st.crash_reopens, q(1000, 30_000));
	run.require("discards", st.discards, q(800, 30_000));
	run.require("merkle proofs verified", st.proofs, q(200_000, 8_000_000));
	for i in 0..8 {
		run.require(&format!("spend pattern {}", PATTERNS[i]), st.patterns[i], q(150, 5000));
	}
	let started = run.counter("store_programs_started");
	run.require(
		"store programs that ran to their end (no environment error, no violation)",
		run.counter("store_programs_completed"),
		started - started / 20,
	);
	if !is_san {
		run.require("largest MMR (leaves)", st.max_leaves, run.tier.pick(1024, 2048));
		let n_chain = n_chain as u64;
		run.require("chain scenarios completed", run.counter("chain_scenarios_completed"), n_chain);
		run.require(
			"compaction x reorg scenarios (spender of sibling pairs right above the fork point)",
			run.counter("chain_compaction_reorg_scenarios_with_effective_compaction"),
			run.tier.pick(6, 8),
		);
		run.require(
			"compaction x reorg scenarios spending sibling pairs created in the horizon block",
			run.counter("chain_compaction_reorg_scenarios.pairs_created_at_the_horizon_block"),
			1,
		);
		run.require(
			"compaction x reorg scenarios under UserTesting parameters (horizon 70, state-sync threshold 20)",
			run.counter("chain_compaction_reorg_scenarios.user_testing_parameters"),
			1,
		);
		run.require(
			"chain compactions that changed the MMR files",
			run.counter("chain_compactions_changed_files"),
			2 * n_chain,
		);
		run.require(
			"in-horizon reorgs after compaction",
			run.counter("chain_reorgs_after_compaction_ok"),
			2 * n_chain,
		);
		run.require("chain reopen", run.counter("chain_reopens_ok"), 2 * n_chain);
	}
	drop(t);
	drop(sc);
	run.finish();
}
