//! C13 — Coinbase maturity, lock heights and relative locks hold on every fork.
//!
//! Runtime monitoring of the real `Chain::process_block` and the real
//! `TransactionPool::add_to_pool` (wired to the real chain through a small
//! `BlockChain` adapter) under scripted fork / reorg workloads whose spends and
//! locked kernels sit one below / at / one above each threshold.
//!
//! ORACLE: `RefState::check_block` (vcommon::ledger) evaluated on the state
//! replayed along the ancestry of the block's own parent (plain arithmetic:
//! coinbase created at h spendable at height >= h + maturity; HeightLocked
//! refused if lock_height > height; NRD refused if the same excess occurred
//! fewer than relative_height blocks earlier on the same fork) plus the
//! header-version rule "NRD kernels only from header version 4", which on the
//! AutomatedTesting chain (hard fork every 3 blocks) is `height >= 9`.
//! For the pool the same oracle is evaluated on a pseudo block of height
//! head+1 carrying the transaction body.
//!
//! Placement classes (signature = rule, class, boundary offset, outcome):
//!   single         decision block extends the only chain
//!   fork_trunk     coinbase / first NRD instance on the common trunk, decision
//!                  block on a non-best fork (validated on a rewound extension)
//!   fork_branch    coinbase / first NRD instance on the non-best fork itself
//!                  (re-applied from the db every time the fork is extended)
//!   fork           (lock heights, NRD-HF3: no set-up block) decision on a non-best fork
//!   cross_fork     NRD instance only on the *other* fork: must not count
//!   reorg_trigger  decision block carries more work than the head: its
//!                  acceptance re-applies the fork and moves the head
//!   reapplied      decision block sits inside a losing fork and is re-applied
//!                  when a later block makes the fork win; for offset -1 the
//!                  block is refused on delivery and a heavier child of it must
//!                  not move the head
//!   rewound        reorg A -> B -> A': the relevant block on A was rewound and
//!                  re-added before the decision is taken on A'
//!   post_reorg     decisions on the new main chain right after a reorg
//!   pool / pool_after_reorg / pool_header_fork
//!                  add_to_pool decisions at next height = head + 1, on a quiet
//!                  chain, right after a reorg, and while the header chain
//!                  (header_head) sits on a competing fork whose blocks are not
//!                  known yet (headers-first)

use grin_chain::types::{Options, Tip};
use grin_chain::{Chain, Error as ChainError};
use grin_core::core::block::Error as BlockError;
use grin_core::core::transaction::{self, Error as TxError};
use grin_core::core::hash::{Hash, Hashed};
use grin_core::core::{
	Block, BlockHeader, BlockSums, Inputs, KernelFeatures, OutputIdentifier, Transaction, Weighting,
};
use grin_core::{consensus, global};
use grin_keychain::Identifier;
use grin_pool::types::{BlockChain, NoopPoolAdapter, PoolConfig, PoolError, TxSource};
use grin_pool::TransactionPool;
use grin_util::secp::pedersen::Commitment;
use serde_json::{json, Value};
use std::collections::{HashMap, HashSet};
use std::sync::{Arc, Mutex};
use vcommon::ledger::{RefLedger, RefReject};
use vcommon::monitor;
use vcommon::world::{
	fee_fields, height_locked, init_globals, nrd, open_chain, Coin, PowMode, World,
};
use vcommon::{Prng, Run, Scratch};

const FEE: u64 = 30_000_000;
const MAIN_DIFF: u64 = 10;
const NA: i32 = 9;
/// First height whose header version is 4 on AutomatedTesting (version = min(5, 1 + h / 3)).
const NRD_FIRST_HEIGHT: u64 = 9;
const MATURITY: u64 = 3;

// ---------------------------------------------------------------- pool adapter

/// `BlockChain` for the pool delegating to the real chain (as
/// servers::common::adapters::PoolToChainAdapter does; error kinds are kept
/// in the message for diagnostics only: the verdict is admitted / refused).
struct PoolChainAdapter {
	chain: Arc<Chain>,
}

impl BlockChain for PoolChainAdapter {
	fn chain_head(&self) -> Result<BlockHeader, PoolError> {
		self.chain
			.head_header()
			.map_err(|e| PoolError::Other(format!("head_header: {:?}", e)))
	}
	fn get_block_header(&self, hash: &Hash) -> Result<BlockHeader, PoolError> {
		self.chain
			.get_block_header(hash)
			.map_err(|e| PoolError::Other(format!("get_block_header: {:?}", e)))
	}
	fn get_block_sums(&self, hash: &Hash) -> Result<BlockSums, PoolError> {
		self.chain
			.get_block_sums(hash)
			.map_err(|e| PoolError::Other(format!("get_block_sums: {:?}", e)))
	}
	fn validate_tx(&self, tx: &Transaction) -> Result<(), PoolError> {
		self.chain.validate_tx(tx).map_err(|e| match e {
			ChainError::NRDRelativeHeight => PoolError::NRDKernelRelativeHeight,
			e => PoolError::Other(format!("validate_tx: {:?}", e)),
		})
	}
	fn validate_inputs(&self, inputs: &Inputs) -> Result<Vec<OutputIdentifier>, PoolError> {
		self.chain
			.validate_inputs(inputs)
			.map(|outputs| outputs.into_iter().map(|(out, _)| out).collect::<Vec<_>>())
			.map_err(|e| PoolError::Other(format!("validate_inputs: {:?}", e)))
	}
	fn verify_coinbase_maturity(&self, inputs: &Inputs) -> Result<(), PoolError> {
		self.chain
			.verify_coinbase_maturity(inputs)
			.map_err(|_| PoolError::ImmatureCoinbase)
	}
	fn verify_tx_lock_height(&self, tx: &Transaction) -> Result<(), PoolError> {
		self.chain
			.verify_tx_lock_height(tx)
			.map_err(|_| PoolError::ImmatureTransaction)
	}
}

// ---------------------------------------------------------------- verdict plumbing

#[derive(Clone, Copy, Debug)]
struct Label {
	rule: &'static str,
	class: &'static str,
	off: i32,
}

fn off_str(off: i32) -> &'static str {
	match off {
		-1 => "-1",
		0 => "0",
		1 => "+1",
		_ => "na",
	}
}

#[derive(Clone, Debug, PartialEq)]
enum Obs {
	Accept,
	/// refused with one of the error kinds of the three rules
	Reject(&'static str),
	/// refused with some other error
	Other(String),
}

fn short_kind(dbg: &str) -> String {
	// variant names only: stop at the first digit (commitments, heights are not stable)
	dbg.chars()
		.take_while(|c| !c.is_ascii_digit())
		.filter(|c| c.is_ascii_alphabetic() || *c == '(' || *c == '_' || *c == '{')
		.take(64)
		.collect()
}

fn classify_block_error(e: &BlockError) -> Option<&'static str> {
	match e {
		BlockError::KernelLockHeight(_) => Some("KernelLockHeight"),
		BlockError::NRDKernelPreHF3 => Some("NRDKernelPreHF3"),
		// two NRD kernels with the same excess inside one body
		BlockError::Transaction(TxError::InvalidNRDRelativeHeight) => Some("NRDRelativeHeight"),
		_ => None,
	}
}

fn classify_block(r: &Result<Option<Tip>, ChainError>) -> Obs {
	match r {
		Ok(_) => Obs::Accept,
		Err(ChainError::ImmatureCoinbase) => Obs::Reject("ImmatureCoinbase"),
		Err(ChainError::NRDRelativeHeight) => Obs::Reject("NRDRelativeHeight"),
		Err(ChainError::Block(be)) | Err(ChainError::InvalidBlockProof { source: be }) => {
			match classify_block_error(be) {
				Some(k) => Obs::Reject(k),
				None => Obs::Other(short_kind(&format!("{:?}", r.as_ref().err().unwrap()))),
			}
		}
		Err(e) => Obs::Other(short_kind(&format!("{:?}", e))),
	}
}

fn classify_pool(r: &Result<(), PoolError>) -> Obs {
	match r {
		Ok(()) => Obs::Accept,
		Err(PoolError::ImmatureCoinbase) => Obs::Reject("ImmatureCoinbase"),
		Err(PoolError::ImmatureTransaction) => Obs::Reject("KernelLockHeight"),
		Err(PoolError::NRDKernelRelativeHeight) => Obs::Reject("NRDRelativeHeight"),
		Err(PoolError::NRDKernelPreHF3) => Obs::Reject("NRDKernelPreHF3"),
		Err(e) => Obs::Other(short_kind(&format!("{:?}", e))),
	}
}

fn map_ref(r: Result<(), RefReject>) -> Result<(), String> {
	match r {
		Ok(()) => Ok(()),
		Err(RefReject::ImmatureCoinbase { .. }) => Err("ImmatureCoinbase".into()),
		Err(RefReject::LockHeight { .. }) => Err("KernelLockHeight".into()),
		Err(RefReject::Nrd { .. }) => Err("NRDRelativeHeight".into()),
		Err(e) => Err(format!("HARNESS:{:?}", e)),
	}
}

fn has_nrd(kernels: &[grin_core::core::TxKernel]) -> bool {
	kernels.iter().any(|k| match k.features {
		KernelFeatures::NoRecentDuplicate { .. } => true,
		_ => false,
	})
}

static SAMPLED: Mutex<Vec<String>> = Mutex::new(Vec::new());

// ---------------------------------------------------------------- plans

#[derive(Clone, Debug)]
enum TxSpec {
	/// spend the coinbase of the ancestor at this height
	SpendCbAt(u64),
	/// spend the coinbases of the ancestors at these two heights in ONE transaction
	SpendTwoCb(u64, u64),
	/// HeightLocked kernel with this lock height, spending any mature coin
	Locked(u64),
	/// NRD kernel (scenario kernel key) with this relative height
	Nrd(u64),
	/// two NRD kernels of the scenario kernel key in one block
	NrdPair(u64),
}

#[derive(Clone, Debug)]
struct Ev {
	h: u64,
	/// None: set-up block (must be acceptable); Some((rule, off)): decision
	dec: Option<(&'static str, i32)>,
	tx: TxSpec,
}

#[derive(Clone, Debug)]
struct Plan {
	events: Vec<Ev>,
	/// lowest / highest height of a block the decisions refer back to
	setup_lo: u64,
	setup_hi: u64,
	first_dec: u64,
	last_h: u64,
	reserved: Vec<u64>,
}

#[derive(Clone, Copy, Debug, PartialEq)]
enum RuleP {
	Mat { b_only: bool },
	Lock,
	Nrd { rel: u64 },
}

impl RuleP {
	fn name(&self) -> &'static str {
		match self {
			RuleP::Mat { .. } => "maturity",
			RuleP::Lock => "lock",
			RuleP::Nrd { .. } => "nrd",
		}
	}
}

fn make_plan(rule: RuleP, s: u64, pair: bool) -> Plan {
	match rule {
		RuleP::Mat { b_only } => {
			if b_only || s == 0 {
				// one coinbase (created at s): refused at s+2, accepted at s+3
				Plan {
					events: vec![
						Ev { h: s + 2, dec: Some(("maturity", -1)), tx: TxSpec::SpendCbAt(s) },
						Ev { h: s + 3, dec: Some(("maturity", 0)), tx: TxSpec::SpendCbAt(s) },
					],
					setup_lo: s,
					setup_hi: s,
					first_dec: s + 2,
					last_h: s + 3,
					reserved: vec![s],
				}
			} else {
				// coinbases A (created at s-1) and B (created at s)
				Plan {
					events: vec![
						// a mature and an immature coinbase in one transaction (the rule is per input, whichever sorts first)
						Ev { h: s + 2, dec: Some(("maturity", -1)), tx: TxSpec::SpendTwoCb(s - 1, s) },
						Ev { h: s + 2, dec: Some(("maturity", -1)), tx: TxSpec::SpendCbAt(s) },
						Ev { h: s + 2, dec: Some(("maturity", 0)), tx: TxSpec::SpendCbAt(s - 1) },
						Ev { h: s + 4, dec: Some(("maturity", 1)), tx: TxSpec::SpendCbAt(s) },
					],
					setup_lo: s - 1,
					setup_hi: s,
					first_dec: s + 2,
					last_h: s + 4,
					reserved: vec![s - 1, s],
				}
			}
		}
		RuleP::Lock => {
			let d = s.max(4);
			Plan {
				events: vec![
					Ev { h: d, dec: Some(("lock", -1)), tx: TxSpec::Locked(d + 1) },
					Ev { h: d, dec: Some(("lock", 0)), tx: TxSpec::Locked(d) },
					Ev { h: d + 1, dec: Some(("lock", 1)), tx: TxSpec::Locked(d) },
				],
				setup_lo: d,
				setup_hi: d - 1,
				first_dec: d,
				last_h: d + 1,
				reserved: vec![],
			}
		}
		RuleP::Nrd { rel } => {
			let s = s.max(NRD_FIRST_HEIGHT);
			let mut events = vec![];
			if pair || rel == 1 {
				events.push(Ev { h: s, dec: Some(("nrd_same_block", -1)), tx: TxSpec::NrdPair(rel) });
			}
			events.push(Ev { h: s, dec: None, tx: TxSpec::Nrd(rel) });
			let first_dec;
			if rel >= 2 {
				events.push(Ev { h: s + rel - 1, dec: Some(("nrd", -1)), tx: TxSpec::Nrd(rel) });
				first_dec = s + rel - 1;
			} else {
				first_dec = s + 1;
			}
			events.push(Ev { h: s + rel, dec: Some(("nrd", 0)), tx: TxSpec::Nrd(rel) });
			events.push(Ev { h: s + 2 * rel + 1, dec: Some(("nrd", 1)), tx: TxSpec::Nrd(rel) });
			Plan {
				events,
				setup_lo: s,
				setup_hi: s,
				first_dec,
				last_h: s + 2 * rel + 1,
				reserved: vec![],
			}
		}
	}
}

// ---------------------------------------------------------------- scenario specs

#[derive(Clone, Copy, Debug, PartialEq)]
enum Kind {
	Single,
	ForkTrunk,
	ForkBranch,
	ReorgTrigger,
	Reapplied,
	Rewound,
	CrossFork,
	Hf3,
	PoolHeaderFork,
	PoolKept,
}

#[derive(Clone, Copy, Debug, PartialEq)]
enum Fat {
	None,
	A,
	B,
}

#[derive(Clone, Debug)]
struct Spec {
	kind: Kind,
	rule: RuleP,
	seed: u64,
	s: u64,
	fat: Fat,
	trig_off: i32,
	pre: bool,
	decoy: bool,
	on_trunk: bool,
	pair: bool,
	fork: bool,
	/// (Kind::Single) the node is closed and reopened before every decision block and before the pool decisions
	restart: bool,
}

impl Spec {
	fn describe(&self) -> String {
		format!(
			"{:?}/{:?}/s={}/fat={:?}/trig={}/pre={}/decoy={}/trunk={}/pair={}/fork={}/restart={}/seed={}",
			self.kind,
			self.rule,
			self.s,
			self.fat,
			self.trig_off,
			self.pre,
			self.decoy,
			self.on_trunk,
			self.pair,
			self.fork,
			self.restart,
			self.seed
		)
	}
}

fn base_s(rule: RuleP, kind: Kind, p: &mut Prng) -> u64 {
	match rule {
		RuleP::Mat { b_only } => {
			let lo = match kind {
				Kind::ForkBranch | Kind::Rewound => {
					if b_only {
						1
					} else {
						2
					}
				}
				_ => 0,
			};
			if p.chance(1, 5) {
				p.range(7, 11)
			} else {
				p.range(lo, 5)
			}
		}
		RuleP::Lock => p.range(4, 10),
		RuleP::Nrd { .. } => p.range(9, 11),
	}
}

fn pick_fat(p: &mut Prng) -> Fat {
	match p.below(3) {
		0 => Fat::None,
		1 => Fat::A,
		_ => Fat::B,
	}
}

fn gen_specs(seed: u64, n_extra: usize, san: bool) -> (Vec<Spec>, usize) {
	let mut p = Prng::new(seed ^ 0xC13_C13);
	let mut v: Vec<Spec> = vec![];
	let rels = [2u64, 3, 5];
	let mut reli = p.usize_below(3);
	let mk = |kind: Kind, rule: RuleP, p: &mut Prng| -> Spec {
		Spec {
			kind,
			rule,
			seed: p.next_u64(),
			s: base_s(rule, kind, p),
			fat: pick_fat(p),
			trig_off: (p.below(3) as i32) - 1,
			pre: p.bool(),
			decoy: p.bool(),
			on_trunk: p.bool(),
			pair: p.chance(1, 3),
			fork: p.bool(),
			restart: false,
		}
	};
	// core set: every (rule x class) at least once, every trigger offset, both rewound variants
	for ri in 0..3 {
		for kind in [
			Kind::Single,
			Kind::ForkTrunk,
			Kind::ForkBranch,
			Kind::Reapplied,
			Kind::ReorgTrigger,
			Kind::ReorgTrigger,
			Kind::ReorgTrigger,
			Kind::Rewound,
			Kind::Rewound,
		] {
			let rule = match ri {
				0 => RuleP::Mat { b_only: false },
				1 => RuleP::Lock,
				_ => {
					reli = (reli + 1) % 3;
					RuleP::Nrd { rel: rels[reli] }
				}
			};
			let mut sp = mk(kind, rule, &mut p);
			if kind == Kind::ReorgTrigger {
				sp.trig_off = (v.iter().filter(|x| x.kind == Kind::ReorgTrigger && x.rule.name() == rule.name()).count() as i32) - 1;
				// with a same-block pair in front the winning work would land on the pair instead of the -1 decision:
				// the core set must produce every (rule, reorg_trigger, offset) cell at every seed
				sp.pair = false;
			}
			if kind == Kind::Rewound {
				sp.pre = v.iter().filter(|x| x.kind == Kind::Rewound && x.rule.name() == rule.name()).count() == 1;
			}
			// make sure the mutant-sensitive output-count asymmetry is present in the core set
			if kind == Kind::ForkBranch {
				sp.fat = Fat::A;
			}
			if kind == Kind::ForkTrunk {
				sp.fat = Fat::B;
			}
			v.push(sp);
		}
	}
	for off in [-1, 0, 1] {
		let mut sp = mk(Kind::CrossFork, RuleP::Nrd { rel: rels[(off + 1) as usize] }, &mut p);
		sp.trig_off = off;
		v.push(sp);
	}
	{
		let mut sp = mk(Kind::Single, RuleP::Nrd { rel: 1 }, &mut p);
		sp.pair = true;
		v.push(sp);
	}
	for fork in [false, true] {
		let mut sp = mk(Kind::Hf3, RuleP::Nrd { rel: 1 }, &mut p);
		sp.fork = fork;
		v.push(sp);
	}
	for fat in [Fat::A, Fat::B] {
		let mut sp = mk(Kind::PoolHeaderFork, RuleP::Mat { b_only: false }, &mut p);
		sp.fat = fat;
		v.push(sp);
	}
	for _ in 0..3 {
		let mut sp = mk(Kind::PoolKept, RuleP::Mat { b_only: false }, &mut p);
		sp.fat = Fat::None;
		v.push(sp);
	}
	{
		// genesis coinbase: exercises the `height < maturity` shortcut (spend at height 2 / 3)
		let mut sp = mk(Kind::Single, RuleP::Mat { b_only: true }, &mut p);
		sp.s = 0;
		v.push(sp);
	}
	// the same single-chain decisions on a node that is closed and reopened right before each decision (the
	// indexes a node rebuilds at start-up — recent NRD kernels, output positions — must lead to the same decisions)
	for rule in [RuleP::Mat { b_only: false }, RuleP::Lock, RuleP::Nrd { rel: 1 }, RuleP::Nrd { rel: 2 }, RuleP::Nrd { rel: 3 }, RuleP::Nrd { rel: 5 }, RuleP::Nrd { rel: 2 }, RuleP::Nrd { rel: 3 }] {
		let mut sp = mk(Kind::Single, rule, &mut p);
		sp.restart = true;
		sp.pair = false;
		v.push(sp);
	}
	if san {
		// small subset under a sanitizer / valgrind: maturity single chain, lock re-applied
		// fork, NRD rewound (A -> B -> A'), NRD cross fork
		let keep = [0usize, 12, 25, 27];
		let sub: Vec<Spec> = keep.iter().filter_map(|i| v.get(*i).cloned()).collect();
		let n = sub.len();
		return (sub, n);
	}
	let core = v.len();
	// extras: random draws over everything
	for _ in 0..n_extra {
		let kind = match p.below(20) {
			0 | 1 => Kind::Single,
			2 | 3 => Kind::ForkTrunk,
			4 | 5 | 6 => Kind::ForkBranch,
			7 | 8 | 9 => Kind::ReorgTrigger,
			10 | 11 | 12 => Kind::Reapplied,
			13 | 14 | 15 => Kind::Rewound,
			16 => Kind::CrossFork,
			17 => Kind::Hf3,
			18 => Kind::PoolKept,
			_ => Kind::PoolHeaderFork,
		};
		let rule = match kind {
			Kind::CrossFork => RuleP::Nrd { rel: *p.pick(&[1u64, 2, 3, 5]) },
			Kind::Hf3 => RuleP::Nrd { rel: 1 },
			Kind::PoolHeaderFork | Kind::PoolKept => RuleP::Mat { b_only: false },
			_ => match p.below(3) {
				0 => RuleP::Mat { b_only: p.chance(1, 4) },
				1 => RuleP::Lock,
				_ => RuleP::Nrd { rel: *p.pick(&[1u64, 2, 3, 5]) },
			},
		};
		let mut sp = mk(kind, rule, &mut p);
		if kind == Kind::PoolHeaderFork && sp.fat == Fat::None {
			sp.fat = Fat::B;
		}
		if kind == Kind::Single && p.chance(1, 2) {
			sp.restart = true;
			sp.pair = false;
		}
		v.push(sp);
	}
	(v, core)
}

// ---------------------------------------------------------------- simulation

#[derive(Clone, Copy, Debug, PartialEq)]
enum Policy {
	/// extends the head with ordinary work
	Main,
	/// stays strictly behind the head
	Losing,
	/// losing until the decision with this offset, which carries winning work
	TriggerAt(i32),
	/// next block carries winning work, ordinary work once this branch is the head
	Firing,
	/// as Firing from the start (branch that has to win back the head)
	WinFirst,
}

struct Branch {
	tip: Hash,
	policy: Policy,
	class: &'static str,
	fat: u32,
}

/// The node under test; `Sim::restart` closes and reopens it.
struct ChainCell(Option<Arc<Chain>>);
impl std::ops::Deref for ChainCell {
	type Target = Chain;
	fn deref(&self) -> &Chain {
		self.0.as_ref().expect("node is open")
	}
}
impl ChainCell {
	fn arc(&self) -> Arc<Chain> {
		self.0.as_ref().expect("node is open").clone()
	}
}

struct Sim<'a> {
	run: &'a Run,
	tag: String,
	w: World,
	prng: Prng,
	nrd_key: Prng,
	nrd_excess: Option<Commitment>,
	ledger: RefLedger,
	chain: ChainCell,
	dir: String,
	gen: grin_core::core::Block,
	restart_before_decisions: bool,
	key: u32,
	cb: HashMap<Hash, Coin>,
	reserved: HashSet<u64>,
	head: Hash,
	aborted: Option<String>,
	script: Vec<String>,
	reorged: bool,
	/// decisions accepted on a losing branch (rule, off), pending re-application
	pending_reapply: Vec<(&'static str, i32)>,
	/// blocks refused on a losing branch (rule, off, hash)
	refused_on_fork: Vec<(&'static str, i32, Hash)>,
	violations_here: u32,
	/// highest total difficulty of any header handed to the chain (header_head may sit there)
	max_td: u64,
}

impl<'a> Sim<'a> {
	fn new(run: &'a Run, dir: &str, spec: &Spec) -> Result<Sim<'a>, String> {
		let w = World::new(spec.seed);
		let mut prng = Prng::new(spec.seed ^ 0x51D);
		let nrd_key = prng.fork(0x4e52_44);
		let (gen, gcoin) = w.genesis();
		let chain = ChainCell(Some(Arc::new(open_chain(dir, &gen)?)));
		let ledger = RefLedger::new(&gen);
		let mut cb = HashMap::new();
		cb.insert(gen.hash(), gcoin);
		Ok(Sim {
			run,
			tag: spec.describe(),
			w,
			prng,
			nrd_key,
			nrd_excess: None,
			ledger,
			chain,
			dir: dir.to_string(),
			gen: gen.clone(),
			restart_before_decisions: false,
			key: 1,
			cb,
			reserved: HashSet::new(),
			head: gen.hash(),
			aborted: None,
			script: vec![],
			reorged: false,
			pending_reapply: vec![],
			refused_on_fork: vec![],
			violations_here: 0,
			max_td: 0,
		})
	}

	/// Close the node and open it again on the same directory.
	fn restart(&mut self) {
		let head_before = self.chain.head().map(|t| t.last_block_h).ok();
		self.chain.0 = None;
		match open_chain(&self.dir, &self.gen) {
			Ok(c) => self.chain.0 = Some(Arc::new(c)),
			Err(e) => {
				// reopen once more so that the rest of the scenario has a node, then give up on the scenario
				self.run.violation(
					"rule=restart;event=node_does_not_reopen",
					&format!("Chain::init failed after a clean close: {}", e),
					json!({"scenario": self.tag, "script": self.script}),
				);
				self.violations_here += 1;
				self.chain.0 = open_chain(&self.dir, &self.gen).ok().map(Arc::new);
				self.abort("node did not reopen");
				return;
			}
		}
		self.run.count("restarts", 1);
		self.script.push("RESTART (node closed and reopened)".to_string());
		if self.chain.head().map(|t| t.last_block_h).ok() != head_before {
			self.run.violation(
				"rule=restart;event=head_changed_by_a_clean_restart",
				"the head after reopening differs from the head before closing",
				json!({"scenario": self.tag, "script": self.script}),
			);
			self.violations_here += 1;
		}
	}

	fn abort(&mut self, why: &str) {
		if self.aborted.is_none() {
			self.aborted = Some(why.to_string());
		}
	}

	fn ok(&self) -> bool {
		self.aborted.is_none()
	}

	fn td(&self, h: &Hash) -> u64 {
		self.ledger.get(h).total_difficulty
	}

	fn height(&self, h: &Hash) -> u64 {
		self.ledger.get(h).height
	}

	fn next_key(&mut self) -> Identifier {
		let k = self.w.key(self.key);
		self.key += 1;
		k
	}

	fn ancestor_at(&self, tip: &Hash, height: u64) -> Option<Hash> {
		let anc = self.ledger.ancestry(tip);
		anc.get(height as usize).cloned()
	}

	/// An unspent coinbase on the ancestry of `parent` that is mature at `h`
	/// and not reserved for a decision.
	fn pick_coin(&mut self, parent: &Hash, h: u64, exclude: &[Commitment]) -> Option<Coin> {
		let st = self.ledger.state_at(parent);
		for bh in self.ledger.ancestry(parent) {
			if let Some(c) = self.cb.get(&bh) {
				let ch = self.ledger.get(&bh).height;
				if ch + MATURITY <= h
					&& st.utxo.contains_key(&c.commit)
					&& !self.reserved.contains(&ch)
					&& !exclude.contains(&c.commit)
				{
					return Some(c.clone());
				}
			}
		}
		None
	}

	fn tx_one(&mut self, coin: &Coin, feat: KernelFeatures, fee: u64, nrd_key: bool) -> Transaction {
		let k = self.next_key();
		let outs = vec![(coin.value - fee, k)];
		if nrd_key {
			// identical prng position => identical kernel key => identical excess
			let mut p = self.nrd_key.clone();
			let (tx, _) = self.w.tx(&mut p, &[coin.clone()], &outs, feat);
			let ex = tx.kernels()[0].excess;
			match self.nrd_excess {
				None => self.nrd_excess = Some(ex),
				Some(e) => {
					if e != ex {
						self.abort("harness: NRD kernel excess not reproduced");
					}
				}
			}
			tx
		} else {
			let (tx, _) = self.w.tx(&mut self.prng, &[coin.clone()], &outs, feat);
			tx
		}
	}

	fn tx_fat(&mut self, coin: &Coin) -> Transaction {
		let k1 = self.next_key();
		let k2 = self.next_key();
		let v = coin.value - FEE;
		let outs = vec![(v / 2, k1), (v - v / 2, k2)];
		let (tx, _) = self.w.tx(
			&mut self.prng,
			&[coin.clone()],
			&outs,
			KernelFeatures::Plain { fee: fee_fields(FEE) },
		);
		tx
	}

	fn build(&mut self, parent: &Hash, h: u64, spec: &TxSpec) -> Option<Vec<Transaction>> {
		match spec {
			TxSpec::SpendCbAt(ch) => {
				let bh = self.ancestor_at(parent, *ch)?;
				let coin = self.cb.get(&bh)?.clone();
				Some(vec![self.tx_one(
					&coin,
					KernelFeatures::Plain { fee: fee_fields(FEE) },
					FEE,
					false,
				)])
			}
			TxSpec::SpendTwoCb(ha, hb) => {
				let a = self.ancestor_at(parent, *ha)?;
				let b = self.ancestor_at(parent, *hb)?;
				let ca = self.cb.get(&a)?.clone();
				let cb = self.cb.get(&b)?.clone();
				let k = self.next_key();
				let outs = vec![(ca.value + cb.value - FEE, k)];
				let (tx, _) = self.w.tx(&mut self.prng, &[ca.clone(), cb.clone()], &outs, KernelFeatures::Plain { fee: fee_fields(FEE) });
				self.run.count("maturity_decisions_on_one_transaction_spending_a_mature_and_an_immature_coinbase", 1);
				// which of the two sorts first among the inputs differs from world to world
				let ins: Vec<grin_core::core::CommitWrapper> = tx.inputs().into();
				let first_is_immature = ins.first().map(|i| i.commitment() == cb.commit).unwrap_or(false);
				self.run.count(if first_is_immature { "two_coinbase_inputs.immature_sorts_first" } else { "two_coinbase_inputs.mature_sorts_first" }, 1);
				Some(vec![tx])
			}
			TxSpec::Locked(lock) => {
				let coin = self.pick_coin(parent, h, &[])?;
				let mut txs = vec![self.tx_one(&coin, height_locked(FEE, *lock), FEE, false)];
				// company in the same block (the rule is per kernel, whatever else the block carries and in
				// whatever order the kernels sort): a kernel whose lock is long past and, where the kernel
				// variant is allowed, a no-recent-duplicate kernel with an excess of its own
				if self.prng.below(4) != 0 {
					if let Some(c2) = self.pick_coin(parent, h, &[coin.commit]) {
						txs.push(self.tx_one(&c2, height_locked(FEE, 1), FEE, false));
						self.run.count("lock_decision_blocks_with_a_second_locked_kernel", 1);
						if h >= NRD_FIRST_HEIGHT {
							if let Some(c3) = self.pick_coin(parent, h, &[coin.commit, c2.commit]) {
								txs.push(self.tx_one(&c3, nrd(FEE, 1), FEE, false));
								self.run.count("lock_decision_blocks_with_an_nrd_kernel", 1);
							}
						}
					}
				}
				Some(txs)
			}
			TxSpec::Nrd(rel) => {
				let coin = self.pick_coin(parent, h, &[])?;
				Some(vec![self.tx_one(&coin, nrd(FEE, *rel), FEE, true)])
			}
			TxSpec::NrdPair(rel) => {
				let c1 = self.pick_coin(parent, h, &[])?;
				let c2 = self.pick_coin(parent, h, &[c1.commit])?;
				let t1 = self.tx_one(&c1, nrd(FEE, *rel), FEE, true);
				let t2 = self.tx_one(&c2, nrd(FEE + 1000, *rel), FEE + 1000, true);
				Some(vec![t1, t2])
			}
		}
	}

	fn mk_block(&mut self, parent: &Hash, txs: &[Transaction], diff: u64) -> Option<Block> {
		let k = self.next_key();
		let fees: u64 = txs.iter().map(|t| t.fee()).sum();
		match self.ledger.make_block(
			&self.w,
			&mut self.prng,
			parent,
			txs,
			&k,
			PowMode::Skip { difficulty: diff },
			60,
		) {
			Ok(b) => {
				let coin = self.w.coin(consensus::reward(fees), &k, true);
				self.cb.insert(b.hash(), coin);
				Some(b)
			}
			Err(e) => {
				self.abort(&format!("harness: make_block: {}", e));
				None
			}
		}
	}

	fn oracle_block(&mut self, b: &Block) -> Result<(), String> {
		if has_nrd(b.kernels()) && b.header.height < NRD_FIRST_HEIGHT {
			return Err("NRDKernelPreHF3".into());
		}
		let st = self.ledger.state_at(&b.header.prev_hash);
		match st.check_block(b) {
			// inputs that declare other features than the output has: refused either way; which of the three rules the
			// spend breaks is judged on the outputs spent
			Err(RefReject::FeatureMismatch(_)) => {
				use grin_core::core::{CommitWrapper, Inputs};
				let mut b2 = b.clone();
				let mut v: Vec<CommitWrapper> = vcommon::ledger::inputs_vec(&b.inputs()).iter().map(|(c, _)| CommitWrapper::from(*c)).collect();
				v.sort_unstable();
				b2.body.inputs = Inputs::CommitOnly(v);
				match st.check_block(&b2) {
					Ok(()) => Err("FeatureMismatch".into()),
					r => map_ref(r),
				}
			}
			r => map_ref(r),
		}
	}

	/// Compare one decision with the oracle; returns true when they agree.
	fn record(&mut self, lab: Label, oracle: &Result<(), String>, obs: &Obs, detail: Value) -> bool {
		let outcome = if *obs == Obs::Accept { "accept" } else { "reject" };
		let sig = format!(
			"rule={};class={};off={};outcome={}",
			lab.rule,
			lab.class,
			off_str(lab.off),
			outcome
		);
		let decision = lab.rule != "filler";
		self.run.eval(&sig, decision);
		let mut verdict: Option<(String, String)> = None; // (direction, observed)
		let mut agree = false;
		match (oracle, obs) {
			(Ok(()), Obs::Accept) => agree = true,
			(Ok(()), Obs::Reject(k)) => verdict = Some(("accept".into(), format!("reject:{}", k))),
			(Ok(()), Obs::Other(k)) => {
				if k.starts_with("Orphan") || k.starts_with("Unfit") {
					self.run
						.inconclusive(&format!("harness ordering: {} for {:?} in {}", k, lab, self.tag));
					self.run.count("harness_ordering_errors", 1);
				} else {
					verdict = Some(("accept".into(), format!("reject:{}", k)));
				}
			}
			(Err(k), Obs::Accept) => {
				if k.starts_with("HARNESS") {
					self.run.inconclusive(&format!("harness built an unintended block: {} in {}", k, self.tag));
				} else {
					verdict = Some((format!("reject:{}", k), "accept".into()));
				}
			}
			(Err(k), Obs::Reject(o)) => {
				if k == o {
					agree = true;
				} else {
					self.run.inconclusive(&format!(
						"refused with another rule's error: oracle {} observed {} for {:?} in {}",
						k, o, lab, self.tag
					));
					self.run.count("kind_mismatch", 1);
				}
			}
			(Err(k), Obs::Other(o)) => {
				self.run.inconclusive(&format!(
					"refused with an unrelated error: oracle {} observed {} for {:?} in {}",
					k, o, lab, self.tag
				));
				self.run.count("kind_mismatch", 1);
			}
		}
		if let Some((exp, got)) = verdict {
			let vsig = format!(
				"rule={};class={};off={};oracle={};observed={}",
				lab.rule,
				lab.class,
				off_str(lab.off),
				exp,
				got
			);
			self.violations_here += 1;
			self.run.violation(
				&vsig,
				&format!(
					"decision differs from the rule evaluated on the fork being extended (oracle {}, observed {})",
					exp, got
				),
				json!({"scenario": self.tag, "label": format!("{:?}", lab), "detail": detail, "script": self.script}),
			);
		}
		if agree && decision {
			self.run.count(
				&format!("obs:{}:{}:{}", lab.rule, lab.class, off_str(lab.off)),
				1,
			);
			self.run.count(&format!("outcome:{}:{}", lab.rule, outcome), 1);
			self.run.count("decisions_agreeing", 1);
			let key = format!("{}:{}", lab.rule, lab.class);
			let mut s = SAMPLED.lock().unwrap();
			if s.len() < 6 && !s.iter().any(|k| k.starts_with(lab.rule) || k.ends_with(lab.class)) {
				s.push(key);
				drop(s);
				self.run.sample(json!({"scenario": self.tag, "rule": lab.rule, "class": lab.class,
					"off": off_str(lab.off), "outcome": outcome, "detail": detail}));
			}
		}
		agree
	}

	/// Deliver a block to the chain and compare the decision with the oracle.
	/// Returns Some(accepted) or None when the scenario had to be aborted.
	fn deliver(&mut self, b: &Block, lab: Label, txdesc: &str) -> Option<bool> {
		if !self.ok() {
			return None;
		}
		let oracle = self.oracle_block(b);
		if let Err(k) = &oracle {
			if k.starts_with("HARNESS") {
				self.abort(&format!("harness: unintended invalid block: {}", k));
				return None;
			}
		}
		let head_before = self.head;
		let h = b.header.height;
		let bh = b.hash();
		let more_work = self.td(&bh) > self.td(&self.head);
		let res = self.chain.process_block(b.clone(), Options::SKIP_POW);
		self.max_td = self.max_td.max(self.td(&bh));
		let obs = classify_block(&res);
		let detail = json!({
			"height": h,
			"parent_is_head": b.header.prev_hash == head_before,
			"more_work_than_head": more_work,
			"txs": txdesc,
			"oracle": format!("{:?}", oracle),
			"observed": format!("{:?}", res.as_ref().map(|t| t.as_ref().map(|t| t.height)).map_err(|e| short_kind(&format!("{:?}", e)))),
		});
		self.script.push(format!(
			"h={} {}/{}/{} parent_is_head={} more_work={} txs=[{}] oracle={:?} observed={:?}",
			h,
			lab.rule,
			lab.class,
			off_str(lab.off),
			b.header.prev_hash == head_before,
			more_work,
			txdesc,
			oracle,
			obs
		));
		let agree = self.record(lab, &oracle, &obs, detail);
		let accepted = obs == Obs::Accept;
		if accepted && more_work {
			self.head = bh;
			if b.header.prev_hash != head_before {
				self.reorged = true;
				self.run.count("reorgs", 1);
			}
			match &res {
				Ok(Some(t)) if t.last_block_h == bh => {}
				other => {
					self.run.inconclusive(&format!(
						"accepted block with more work did not become head ({:?}) in {}",
						other.as_ref().map(|t| t.as_ref().map(|t| t.height)).map_err(|e| short_kind(&format!("{:?}", e))),
						self.tag
					));
					self.abort("head bookkeeping");
				}
			}
		} else if accepted {
			self.run.count("fork_blocks_accepted_non_best", 1);
		}
		match self.chain.head() {
			Ok(t) => {
				if t.last_block_h != self.head {
					if !accepted && t.last_block_h != head_before {
						let vsig = format!(
							"rule={};class={};off={};oracle=head_unchanged;observed=head_moved",
							lab.rule,
							lab.class,
							off_str(lab.off)
						);
						self.violations_here += 1;
						self.run.violation(
							&vsig,
							"a refused block moved the chain head",
							json!({"scenario": self.tag, "script": self.script}),
						);
					} else if agree {
						self.run.inconclusive(&format!("chain head differs from expected head in {}", self.tag));
					}
					self.abort("head mismatch");
				}
			}
			Err(e) => self.abort(&format!("chain.head: {:?}", e)),
		}
		if !agree {
			// the rest of the script was planned for the oracle's outcome
			self.abort("decision disagreed with the oracle (recorded)");
		}
		if self.ok() || agree {
			Some(accepted)
		} else {
			None
		}
	}

	/// Work for the next block of the branch: (difficulty, carries winning work).
	fn block_diff(&mut self, br: &Branch, trigger: bool) -> Option<(u64, bool)> {
		// winning work also exceeds every header seen so far, so that header_head follows the new head
		let top = self.max_td.max(self.td(&self.head));
		let win = top.saturating_sub(self.td(&br.tip)) + 7;
		match br.policy {
			Policy::Main => {
				if br.tip != self.head {
					self.abort("harness: Main branch is not the head");
					return None;
				}
				Some((MAIN_DIFF.max(top.saturating_sub(self.td(&br.tip)) + 1), false))
			}
			Policy::Losing | Policy::TriggerAt(_) if !trigger => {
				if self.td(&br.tip) + 1 >= self.td(&self.head) {
					self.abort("harness: losing branch would not stay behind");
					return None;
				}
				Some((1, false))
			}
			Policy::Losing | Policy::TriggerAt(_) => Some((win.max(MAIN_DIFF), true)),
			Policy::Firing | Policy::WinFirst => {
				if br.tip == self.head {
					Some((MAIN_DIFF.max(top.saturating_sub(self.td(&br.tip)) + 1), false))
				} else {
					Some((win.max(MAIN_DIFF), true))
				}
			}
		}
	}

	fn class_for(&self, br: &Branch, win: bool) -> &'static str {
		match br.policy {
			Policy::Main | Policy::Losing | Policy::WinFirst => br.class,
			Policy::TriggerAt(_) => {
				if win {
					"reorg_trigger"
				} else {
					br.class
				}
			}
			Policy::Firing => {
				if win {
					"reorg_trigger"
				} else {
					"post_reorg"
				}
			}
		}
	}

	fn filler(&mut self, br: &mut Branch) -> bool {
		if !self.ok() {
			return false;
		}
		let h = self.height(&br.tip) + 1;
		let mut txs = vec![];
		if br.fat > 0 {
			if let Some(c) = self.pick_coin(&br.tip.clone(), h, &[]) {
				txs.push(self.tx_fat(&c));
				br.fat -= 1;
			}
		}
		let (diff, win) = match self.block_diff(br, false) {
			Some(x) => x,
			None => return false,
		};
		let b = match self.mk_block(&br.tip.clone(), &txs, diff) {
			Some(b) => b,
			None => return false,
		};
		let lab = Label { rule: "filler", class: self.class_for(br, win), off: NA };
		let desc = if txs.is_empty() { "" } else { "plain 1-in-2-out" };
		match self.deliver(&b, lab, desc) {
			Some(true) => {
				br.tip = b.hash();
				if br.policy == Policy::Firing && br.tip == self.head {
					// stays Firing: further blocks get ordinary work (tip == head)
				}
				true
			}
			Some(false) => {
				self.abort("harness: filler block refused");
				false
			}
			None => false,
		}
	}

	fn advance_to(&mut self, br: &mut Branch, h: u64) {
		let mut guard = 0;
		while self.ok() && self.height(&br.tip) < h && guard < 64 {
			if !self.filler(br) {
				break;
			}
			guard += 1;
		}
	}

	fn run_events(&mut self, br: &mut Branch, evs: &[Ev]) {
		for ev in evs {
			if !self.ok() {
				return;
			}
			if ev.h == 0 {
				continue;
			}
			self.advance_to(br, ev.h - 1);
			if !self.ok() {
				return;
			}
			if self.height(&br.tip) != ev.h - 1 {
				self.abort("harness: event height already occupied");
				return;
			}
			let parent = br.tip;
			let txs = match self.build(&parent, ev.h, &ev.tx) {
				Some(t) => t,
				None => {
					if self.ok() {
						self.abort(&format!("harness: no coin for {:?} at {}", ev.tx, ev.h));
					}
					return;
				}
			};
			if !self.ok() {
				return;
			}
			let trigger = match (br.policy, ev.dec) {
				(Policy::TriggerAt(o), Some((_, off))) => o == off,
				_ => false,
			};
			let (diff, win) = match self.block_diff(br, trigger) {
				Some(x) => x,
				None => return,
			};
			let class = self.class_for(br, win);
			let mut b = match self.mk_block(&parent, &txs, diff) {
				Some(b) => b,
				None => return,
			};
			// every second immature spend arrives with (features, commitment) inputs that declare the coinbase a plain
			// output (what a peer speaking the older protocol version can send): the rule is about the output spent, not
			// about what the input says of it
			if let Some(("maturity", -1)) = ev.dec {
				if self.prng.bool() {
					use grin_core::core::{Input, Inputs, OutputFeatures};
					let mut v: Vec<Input> = vcommon::ledger::inputs_vec(&b.inputs()).iter().map(|(c, _)| Input::new(OutputFeatures::Plain, *c)).collect();
					if !v.is_empty() {
						v.sort_unstable();
						b.body.inputs = Inputs::FeaturesAndCommit(v);
						self.run.count("maturity_decisions_on_blocks_whose_inputs_declare_the_coinbase_a_plain_output", 1);
					}
				}
			}
			let class = if self.restart_before_decisions && ev.dec.is_some() {
				self.restart();
				if !self.ok() {
					return;
				}
				"after_restart"
			} else {
				class
			};
			let lab = match ev.dec {
				Some((rule, off)) => Label { rule, class, off },
				None => Label { rule: "setup", class, off: NA },
			};
			let r = self.deliver(&b, lab, &format!("{:?}", ev.tx));
			if trigger {
				br.policy = Policy::Firing;
			}
			match r {
				Some(true) => {
					br.tip = b.hash();
					if let (Policy::Losing, Some((rule, off))) = (br.policy, ev.dec) {
						self.pending_reapply.push((rule, off));
					}
				}
				Some(false) => {
					if let (Policy::Losing, Some((rule, off))) = (br.policy, ev.dec) {
						self.refused_on_fork.push((rule, off, b.hash()));
					}
					if ev.dec.is_none() {
						self.abort("harness: set-up block refused");
					}
				}
				None => return,
			}
		}
	}

	/// A heavier child of a block that was refused on a losing fork: the fork
	/// through the refused block must not win (old head stays).
	fn heavy_children(&mut self) {
		let refused = std::mem::take(&mut self.refused_on_fork);
		for (rule, off, x) in refused {
			if !self.ok() {
				return;
			}
			let diff = (self.max_td.max(self.td(&self.head)).saturating_sub(self.td(&x)) + 7).max(MAIN_DIFF);
			let b = match self.mk_block(&x, &[], diff) {
				Some(b) => b,
				None => return,
			};
			let res = self.chain.process_block(b.clone(), Options::SKIP_POW);
			self.max_td = self.max_td.max(self.td(&b.hash()));
			let obs = classify_block(&res);
			let head_now = self.chain.head().map(|t| t.last_block_h).ok();
			let lab = Label { rule, class: "reapplied", off };
			self.script.push(format!(
				"heavy child of refused block h={} -> {:?}, head unchanged={}",
				b.header.height,
				obs,
				head_now == Some(self.head)
			));
			let sig = format!(
				"rule={};class=reapplied;off={};outcome={}",
				rule,
				off_str(off),
				if obs == Obs::Accept { "accept" } else { "reject" }
			);
			self.run.eval(&sig, true);
			if obs == Obs::Accept || head_now != Some(self.head) {
				self.violations_here += 1;
				self.run.violation(
					&format!(
						"rule={};class=reapplied;off={};oracle=reject:fork_through_refused_block;observed={}",
						rule,
						off_str(off),
						if obs == Obs::Accept { "accept" } else { "head_moved" }
					),
					"a fork whose ancestry contains a block refused by the rule was accepted / moved the head",
					json!({"scenario": self.tag, "label": format!("{:?}", lab), "script": self.script}),
				);
				self.abort("fork through refused block accepted");
			} else {
				self.run
					.count(&format!("obs:{}:reapplied:{}", rule, off_str(off)), 1);
				self.run.count(&format!("outcome:{}:reject", rule), 1);
				self.run.count("decisions_agreeing", 1);
				self.run.count("heavy_child_of_refused_block_not_accepted", 1);
			}
		}
	}

	/// Make a losing branch win with an empty heavy block; the decisions that
	/// were accepted on it are re-applied by `rewind_and_apply_fork`.
	fn trigger(&mut self, br: &mut Branch) {
		if !self.ok() {
			return;
		}
		let pend = std::mem::take(&mut self.pending_reapply);
		let parent = br.tip;
		let diff = (self.max_td.max(self.td(&self.head)).saturating_sub(self.td(&parent)) + 7).max(MAIN_DIFF);
		let b = match self.mk_block(&parent, &[], diff) {
			Some(b) => b,
			None => return,
		};
		// oracle for the re-application: every block of the ancestry passes the rules
		let anc_ok = self.ledger.check_ancestry(&b.hash()).is_ok();
		if !anc_ok {
			self.abort("harness: trigger on an invalid ancestry");
			return;
		}
		let lab = Label { rule: "filler", class: "reorg_trigger", off: NA };
		let r = self.deliver(&b, lab, "");
		match r {
			Some(true) => {
				br.tip = b.hash();
				br.policy = Policy::Firing;
				for (rule, off) in pend {
					let sig = format!("rule={};class=reapplied;off={};outcome=accept", rule, off_str(off));
					self.run.eval(&sig, true);
					self.run
						.count(&format!("obs:{}:reapplied:{}", rule, off_str(off)), 1);
					self.run.count(&format!("outcome:{}:accept", rule), 1);
					self.run.count("decisions_agreeing", 1);
				}
			}
			Some(false) | None => {
				// deliver() already recorded the disagreement for the filler; name the re-applied decisions too
				for (rule, off) in pend {
					self.run.violation(
						&format!(
							"rule={};class=reapplied;off={};oracle=accept;observed=reorg_refused",
							rule,
							off_str(off)
						),
						"a fork whose blocks all satisfy the rules was refused when re-applied during a reorg",
						json!({"scenario": self.tag, "script": self.script}),
					);
				}
				self.abort("trigger refused");
			}
		}
	}

	// ------------------------------------------------------------ pool

	fn pool_try(&mut self, tx: Transaction, lab: Label, desc: &str) {
		if !self.ok() {
			return;
		}
		let head_hdr = match self.chain.head_header() {
			Ok(h) => h,
			Err(e) => {
				self.abort(&format!("head_header: {:?}", e));
				return;
			}
		};
		if head_hdr.hash() != self.head {
			self.abort("pool: chain head differs from expected head");
			return;
		}
		if tx.shifted_fee() < tx.accept_fee() || tx.validate(Weighting::AsTransaction).is_err() {
			self.abort("harness: pool transaction not acceptable by itself");
			return;
		}
		let next = head_hdr.height + 1;
		let mut pb = Block::default();
		pb.header.height = next;
		pb.body = tx.body.clone();
		let st = self.ledger.state_at(&self.head);
		let oracle = map_ref(st.check_block(&pb));
		if let Err(k) = &oracle {
			if k.starts_with("HARNESS") {
				self.abort(&format!("harness: unintended invalid pool tx: {}", k));
				return;
			}
		}
		let adapter = Arc::new(PoolChainAdapter { chain: self.chain.arc() });
		let mut pool = TransactionPool::new(
			PoolConfig {
				accept_fee_base: global::get_accept_fee_base(),
				reorg_cache_period: 30,
				max_pool_size: 50,
				max_stempool_size: 50,
				mineable_max_weight: 10_000,
			},
			adapter,
			Arc::new(NoopPoolAdapter {}),
		);
		let res = pool.add_to_pool(TxSource::Broadcast, tx, false, &head_hdr);
		let obs = classify_pool(&res);
		let hh = self.chain.header_head().map(|t| t.last_block_h).ok();
		let detail = json!({
			"pool": true,
			"head_height": head_hdr.height,
			"next_height": next,
			"header_head_is_head": hh == Some(self.head),
			"tx": desc,
			"oracle": format!("{:?}", oracle),
			"observed": format!("{:?}", res),
		});
		self.script.push(format!(
			"pool next={} {}/{}/{} tx=[{}] oracle={:?} observed={:?}",
			next,
			lab.rule,
			lab.class,
			off_str(lab.off),
			desc,
			oracle,
			obs
		));
		self.record(lab, &oracle, &obs, detail);
		self.run.count("pool_admission_decisions", 1);
	}

	/// A pool that is kept while the chain reorganises onto a shorter fork: transactions sitting exactly on their
	/// thresholds enter the stempool at next height t+3, the head falls to height t+1, and every one of them is
	/// submitted as a stem transaction again (which fluffs it). The decision is the rule at the next height of the
	/// fork now being extended.
	fn pool_kept(&mut self, fork_point: Hash, t: u64) {
		const CLASS: &str = "pool_stem_again_after_shorter_reorg";
		let head_hdr = match self.chain.head_header() {
			Ok(h) => h,
			Err(e) => return self.abort(&format!("head_header: {:?}", e)),
		};
		if head_hdr.hash() != self.head || head_hdr.height != t + MATURITY - 1 {
			return self.abort("pool_kept: chain head differs from expected head");
		}
		let next_b = t + 2;
		let st = self.ledger.state_at(&fork_point);
		let mut used: Vec<Commitment> = vec![];
		let mut items: Vec<(&'static str, i32, Transaction, String)> = vec![];
		for off in [-1i32, 0, 1] {
			let c = next_b as i64 - MATURITY as i64 - off as i64;
			let coin = match self.ancestor_at(&fork_point, c as u64).and_then(|bh| self.cb.get(&bh).cloned()) {
				Some(c) if st.utxo.contains_key(&c.commit) => c,
				_ => continue,
			};
			used.push(coin.commit);
			let tx = self.tx_one(&coin, KernelFeatures::Plain { fee: fee_fields(FEE) }, FEE, false);
			items.push(("maturity", off, tx, format!("spend coinbase created at {}", c)));
		}
		for off in [-1i32, 0, 1] {
			let lock = (next_b as i64 - off as i64) as u64;
			let coin = match self.pick_coin(&fork_point, next_b, &used) {
				Some(c) => c,
				None => continue,
			};
			used.push(coin.commit);
			let tx = self.tx_one(&coin, height_locked(FEE, lock), FEE, false);
			items.push(("lock", off, tx, format!("lock_height {}", lock)));
		}
		let adapter = Arc::new(PoolChainAdapter { chain: self.chain.arc() });
		let mut pool = TransactionPool::new(
			PoolConfig {
				accept_fee_base: global::get_accept_fee_base(),
				reorg_cache_period: 30,
				max_pool_size: 50,
				max_stempool_size: 50,
				mineable_max_weight: 10_000,
			},
			adapter,
			Arc::new(NoopPoolAdapter {}),
		);
		for (rule, _, tx, desc) in &items {
			let res = pool.add_to_pool(TxSource::Broadcast, tx.clone(), true, &head_hdr);
			self.script.push(format!("pool(kept) next={} stem tx=[{}] ({}) observed={:?}", head_hdr.height + 1, desc, rule, res));
			if res.is_err() || !pool.stempool.contains_tx(tx) {
				// admissible at this height by the rule (the plain pool classes decide that boundary)
				self.run.count("pool_kept.setup_refused", 1);
				return self.abort("pool_kept: a stem transaction on its threshold was not taken into the stempool");
			}
		}
		// one heavier block on the fork point: the head falls by MATURITY - 2 blocks
		let mut b = Branch { tip: fork_point, policy: Policy::Firing, class: "fork", fat: 0 };
		let before = self.head;
		if !self.filler(&mut b) || self.head != b.tip || self.head == before {
			return self.abort("pool_kept: the shorter fork did not become the head");
		}
		let as_the_node_does = |pool: &mut TransactionPool<PoolChainAdapter, NoopPoolAdapter>, blk: &Block, reorg: bool| {
			let _ = pool.reconcile_block(blk);
			if reorg {
				let _ = pool.reconcile_reorg_cache(&blk.header);
			}
		};
		let blk = self.ledger.get(&b.tip).block.clone();
		as_the_node_does(&mut pool, &blk, true);
		self.run.count("pool_kept.reorgs_onto_a_shorter_fork", 1);
		for round in 0..2 {
			let head_hdr = match self.chain.head_header() {
				Ok(h) => h,
				Err(e) => return self.abort(&format!("head_header: {:?}", e)),
			};
			let next = head_hdr.height + 1;
			let st = self.ledger.state_at(&self.head);
			for (rule, off0, tx, desc) in &items {
				let off = off0 + round;
				let held = pool.stempool.contains_tx(tx);
				if pool.txpool.contains_tx(tx) {
					continue;
				}
				let mut pb = Block::default();
				pb.header.height = next;
				pb.body = tx.body.clone();
				let oracle = map_ref(st.check_block(&pb));
				if let Err(k) = &oracle {
					if k.starts_with("HARNESS") {
						return self.abort(&format!("harness: unintended invalid pool tx: {}", k));
					}
				}
				let res = pool.add_to_pool(TxSource::Broadcast, tx.clone(), true, &head_hdr);
				let in_txpool = pool.txpool.contains_tx(tx);
				// handing the transaction to the miner is the admission that counts
				let obs = if in_txpool { Obs::Accept } else { classify_pool(&res) };
				let detail = json!({
					"pool": "kept through a reorganisation onto a shorter fork",
					"head_height": head_hdr.height,
					"next_height": next,
					"held_in_stempool_before": held,
					"in_txpool_after": in_txpool,
					"tx": desc,
					"oracle": format!("{:?}", oracle),
					"observed": format!("{:?}", res),
				});
				self.script.push(format!(
					"pool(kept) next={} {}/{}/{} stem tx again=[{}] held_in_stempool={} oracle={:?} observed={:?} in_txpool={}",
					next, rule, CLASS, off_str(off), desc, held, oracle, obs, in_txpool
				));
				self.record(Label { rule, class: CLASS, off }, &oracle, &obs, detail);
				self.run.count("pool_admission_decisions", 1);
				if held {
					self.run.count("pool_kept.decisions_on_a_transaction_held_in_the_stempool", 1);
				}
				if !self.ok() {
					return;
				}
			}
			if round == 0 {
				// the fork grows by one block: what was one block early is on its threshold now
				if !self.filler(&mut b) || self.head != b.tip {
					return self.abort("pool_kept: the fork could not be extended");
				}
				let blk = self.ledger.get(&b.tip).block.clone();
				as_the_node_does(&mut pool, &blk, false);
			}
		}
	}

	fn pool_maturity(&mut self, class: &'static str) {
		if !self.ok() {
			return;
		}
		let head = self.head;
		let next = self.height(&head) + 1;
		let st = self.ledger.state_at(&head);
		for off in [-1i32, 0, 1] {
			// created + MATURITY + off == next
			let created = next as i64 - MATURITY as i64 - off as i64;
			if created < 0 {
				continue;
			}
			let bh = match self.ancestor_at(&head, created as u64) {
				Some(b) => b,
				None => continue,
			};
			let coin = match self.cb.get(&bh) {
				Some(c) => c.clone(),
				None => continue,
			};
			if !st.utxo.contains_key(&coin.commit) {
				continue;
			}
			let tx = self.tx_one(&coin, KernelFeatures::Plain { fee: fee_fields(FEE) }, FEE, false);
			self.pool_try(
				tx,
				Label { rule: "maturity", class, off },
				&format!("spend coinbase created at {}", created),
			);
		}
	}

	fn pool_lock(&mut self, class: &'static str) {
		if !self.ok() {
			return;
		}
		let head = self.head;
		let next = self.height(&head) + 1;
		let coin = match self.pick_coin(&head, next, &[]) {
			Some(c) => c,
			None => return,
		};
		for off in [-1i32, 0, 1] {
			let lock = (next as i64 - off as i64) as u64;
			let tx = self.tx_one(&coin, height_locked(FEE, lock), FEE, false);
			self.pool_try(
				tx.clone(),
				Label { rule: "lock", class, off },
				&format!("lock_height {}", lock),
			);
			// the same kernel inside an aggregate with a kernel whose lock is long past (a transaction is
			// locked until its LATEST lock height, wherever that kernel sorts)
			if let Some(c2) = self.pick_coin(&head, next, &[coin.commit]) {
				let other = self.tx_one(&c2, height_locked(FEE, 1), FEE, false);
				if let Ok(agg) = transaction::aggregate(&[tx, other]) {
					self.run.count("pool_lock_decisions_on_two_kernel_aggregates", 1);
					self.pool_try(
						agg,
						Label { rule: "lock", class, off },
						&format!("aggregate of lock_height {} and lock_height 1", lock),
					);
				}
			}
		}
	}

	fn pool_nrd(&mut self, class: &'static str) {
		if !self.ok() {
			return;
		}
		let head = self.head;
		let hh = self.height(&head);
		if hh < NRD_FIRST_HEIGHT {
			return;
		}
		let next = hh + 1;
		let ex = match self.nrd_excess {
			Some(e) => e,
			None => return,
		};
		let st = self.ledger.state_at(&head);
		let prev = match st.nrd.iter().rev().find(|(e, _)| *e == ex) {
			Some((_, p)) => *p,
			None => return,
		};
		let coin = match self.pick_coin(&head, next, &[]) {
			Some(c) => c,
			None => return,
		};
		for off in [-1i32, 0, 1] {
			// next - prev == rel + off
			let rel = (next - prev) as i64 - off as i64;
			if rel < 1 {
				continue;
			}
			let tx = self.tx_one(&coin, nrd(FEE, rel as u64), FEE, true);
			self.pool_try(
				tx,
				Label { rule: "nrd", class, off },
				&format!("NRD rel {} (previous instance at {})", rel, prev),
			);
		}
	}

	fn pool_checks(&mut self) {
		if !self.ok() {
			return;
		}
		// ordinary pool classes are observed with the header chain on the body chain;
		// a diverged header chain is the subject of the pool_header_fork class
		let hh = self.chain.header_head().map(|t| t.last_block_h).ok();
		if hh != Some(self.head) {
			self.run.count("pool_checks_skipped_header_chain_diverged", 1);
			return;
		}
		let class = if self.restart_before_decisions {
			self.restart();
			if !self.ok() {
				return;
			}
			"pool_after_restart"
		} else if self.reorged {
			"pool_after_reorg"
		} else {
			"pool"
		};
		self.pool_maturity(class);
		self.pool_lock(class);
		self.pool_nrd(class);
	}

	// ------------------------------------------------------------ scenarios

	fn execute(&mut self, spec: &Spec) {
		self.restart_before_decisions = spec.restart && spec.kind == Kind::Single;
		let mut sp = Prng::new(spec.seed ^ 0xE8EC);
		let gen = self.ledger.genesis_hash();
		let fat_a = if spec.fat == Fat::A { 4 } else { 0 };
		let fat_b = if spec.fat == Fat::B { 4 } else { 0 };
		match spec.kind {
			Kind::Single => {
				let plan = make_plan(spec.rule, spec.s, spec.pair);
				self.reserved = plan.reserved.iter().cloned().collect();
				let mut br = Branch { tip: gen, policy: Policy::Main, class: "single", fat: fat_a + fat_b };
				self.run_events(&mut br, &plan.events);
				self.pool_checks();
			}
			Kind::ForkTrunk | Kind::ForkBranch | Kind::ReorgTrigger | Kind::Reapplied => {
				let plan = make_plan(spec.rule, spec.s, spec.pair);
				self.reserved = plan.reserved.iter().cloned().collect();
				let mut on_trunk = match spec.kind {
					Kind::ForkTrunk => true,
					Kind::ForkBranch => false,
					_ => spec.on_trunk,
				};
				if plan.setup_lo == 0 {
					on_trunk = true;
				}
				let is_lock = spec.rule == RuleP::Lock;
				let t = if is_lock {
					sp.range(plan.first_dec.saturating_sub(4).max(1), plan.first_dec - 1)
				} else if on_trunk {
					sp.range(plan.setup_hi, plan.first_dec - 1)
				} else {
					sp.range(plan.setup_lo.saturating_sub(3), plan.setup_lo - 1)
				};
				let ev_trunk: Vec<Ev> = plan.events.iter().filter(|e| e.h <= t).cloned().collect();
				let ev_branch: Vec<Ev> = plan.events.iter().filter(|e| e.h > t).cloned().collect();
				let mut trunk = Branch { tip: gen, policy: Policy::Main, class: "single", fat: 0 };
				self.run_events(&mut trunk, &ev_trunk);
				self.advance_to(&mut trunk, t);
				// main chain A
				let mut a = Branch { tip: trunk.tip, policy: Policy::Main, class: "single", fat: fat_a };
				if let (RuleP::Nrd { rel }, true) = (spec.rule, spec.decoy) {
					// an instance on the OTHER fork at a different height (must not count on B)
					let hd = if on_trunk { (plan.setup_hi + rel).max(t + 1) } else { NRD_FIRST_HEIGHT.max(t + 1) } + sp.below(2);
					self.run_events(&mut a, &[Ev { h: hd, dec: None, tx: TxSpec::Nrd(rel) }]);
				}
				self.advance_to(&mut a, plan.last_h + 1);
				// fork B
				let cls = if is_lock {
					"fork"
				} else if on_trunk {
					"fork_trunk"
				} else {
					"fork_branch"
				};
				let policy = if spec.kind == Kind::ReorgTrigger {
					Policy::TriggerAt(spec.trig_off)
				} else {
					Policy::Losing
				};
				let mut b = Branch { tip: trunk.tip, policy, class: cls, fat: fat_b };
				self.run_events(&mut b, &ev_branch);
				if spec.kind == Kind::Reapplied {
					self.heavy_children();
					self.trigger(&mut b);
				}
				if spec.kind == Kind::ReorgTrigger && self.ok() && self.head != b.tip {
					b.policy = Policy::Firing;
					self.filler(&mut b);
				}
				self.pool_checks();
			}
			Kind::Rewound => {
				let plan = make_plan(spec.rule, spec.s.max(2), spec.pair);
				self.reserved = plan.reserved.iter().cloned().collect();
				let lo = if spec.rule == RuleP::Lock {
					plan.first_dec - 1
				} else {
					plan.setup_lo.max(1)
				};
				let t = sp.range(lo.saturating_sub(3), lo - 1);
				let cut = if spec.pre {
					plan.events
						.iter()
						.filter(|e| matches!(e.dec, Some((_, 0))))
						.map(|e| e.h)
						.next()
						.unwrap_or(plan.first_dec - 1)
				} else {
					plan.first_dec - 1
				};
				let (ev_pre, ev_post): (Vec<Ev>, Vec<Ev>) = {
					let mut pre = vec![];
					let mut post = vec![];
					for e in &plan.events {
						// never split the events of one height
						if e.h <= cut {
							pre.push(e.clone());
						} else {
							post.push(e.clone());
						}
					}
					(pre, post)
				};
				let mut trunk = Branch { tip: gen, policy: Policy::Main, class: "single", fat: 0 };
				self.advance_to(&mut trunk, t);
				let mut a = Branch { tip: trunk.tip, policy: Policy::Main, class: "single", fat: fat_a };
				self.run_events(&mut a, &ev_pre);
				if spec.rule == RuleP::Lock || ev_pre.is_empty() {
					let target = plan.first_dec - 1;
					self.advance_to(&mut a, target);
				}
				// B wins: A's blocks (with the relevant block) are rewound
				let mut b = Branch { tip: trunk.tip, policy: Policy::Losing, class: "fork_branch", fat: fat_b };
				let mut hb = t + 1 + sp.below(2);
				if let (RuleP::Nrd { rel }, true) = (spec.rule, spec.decoy) {
					hb = NRD_FIRST_HEIGHT.max(t + 1) + sp.below(2);
					self.run_events(&mut b, &[Ev { h: hb, dec: None, tx: TxSpec::Nrd(rel) }]);
				}
				self.advance_to(&mut b, hb);
				self.pending_reapply.clear();
				self.trigger(&mut b);
				if self.ok() && self.head != b.tip {
					self.abort("harness: B did not win");
				}
				self.run.count("rewound_scenarios_B_won", if self.ok() { 1 } else { 0 });
				// A' wins back: A's blocks are re-applied, then the decisions
				let mut a2 = Branch { tip: a.tip, policy: Policy::WinFirst, class: "rewound", fat: 0 };
				self.run_events(&mut a2, &ev_post);
				self.pool_checks();
			}
			Kind::CrossFork => {
				let rel = match spec.rule {
					RuleP::Nrd { rel } => rel,
					_ => 2,
				};
				let off = spec.trig_off;
				let t = sp.range(6, 9);
				let ha = NRD_FIRST_HEIGHT.max(t + 1) + sp.below(2);
				let mut trunk = Branch { tip: gen, policy: Policy::Main, class: "single", fat: 0 };
				self.advance_to(&mut trunk, t);
				let mut a = Branch { tip: trunk.tip, policy: Policy::Main, class: "single", fat: fat_a };
				self.run_events(&mut a, &[Ev { h: ha, dec: None, tx: TxSpec::Nrd(rel) }]);
				self.advance_to(&mut a, ha + rel + 2);
				let hb = (ha + rel) as i64 + off as i64;
				let mut b = Branch { tip: trunk.tip, policy: Policy::Losing, class: "cross_fork", fat: fat_b };
				self.run_events(&mut b, &[Ev { h: hb as u64, dec: Some(("nrd", off)), tx: TxSpec::Nrd(rel) }]);
				if spec.pre {
					// then the rule must bind on B relative to B's own instance
					if rel >= 2 {
						b.class = "fork_branch";
						self.run_events(
							&mut b,
							&[Ev { h: hb as u64 + rel - 1, dec: Some(("nrd", -1)), tx: TxSpec::Nrd(rel) }],
						);
					}
				}
				if spec.decoy {
					self.refused_on_fork.clear();
					self.pending_reapply.clear();
					self.trigger(&mut b);
				}
				self.pool_checks();
			}
			Kind::Hf3 => {
				let evs = vec![
					Ev { h: 8, dec: Some(("nrd_hf3", -1)), tx: TxSpec::Nrd(1) },
					Ev { h: 9, dec: Some(("nrd_hf3", 0)), tx: TxSpec::Nrd(1) },
					Ev { h: 10, dec: Some(("nrd_hf3", 1)), tx: TxSpec::Nrd(1) },
				];
				if spec.fork {
					let t = sp.range(4, 7);
					let mut trunk = Branch { tip: gen, policy: Policy::Main, class: "single", fat: 0 };
					self.advance_to(&mut trunk, t);
					let mut a = Branch { tip: trunk.tip, policy: Policy::Main, class: "single", fat: fat_a };
					self.advance_to(&mut a, 11);
					let mut b = Branch { tip: trunk.tip, policy: Policy::Losing, class: "fork", fat: fat_b };
					self.run_events(&mut b, &evs);
				} else {
					let mut br = Branch { tip: gen, policy: Policy::Main, class: "single", fat: fat_a };
					self.run_events(&mut br, &evs);
				}
				self.pool_checks();
			}
			Kind::PoolKept => {
				// one pool instance lives through a reorganisation onto a heavier but SHORTER fork; stem
				// transactions it holds are handed to it a second time afterwards (a cycle in the stem path)
				let t = sp.range(6, 9);
				let mut trunk = Branch { tip: gen, policy: Policy::Main, class: "single", fat: 0 };
				self.advance_to(&mut trunk, t);
				let fork_point = trunk.tip;
				let mut a = Branch { tip: fork_point, policy: Policy::Main, class: "single", fat: 0 };
				self.advance_to(&mut a, t + MATURITY - 1);
				if !self.ok() {
					return;
				}
				self.pool_kept(fork_point, t);
			}
			Kind::PoolHeaderFork => {
				// body chain A, header chain B (headers only, more work), different output counts
				let t = sp.range(3, 5);
				let la = 6u64;
				let mut trunk = Branch { tip: gen, policy: Policy::Main, class: "single", fat: 0 };
				self.advance_to(&mut trunk, t);
				let mut a = Branch { tip: trunk.tip, policy: Policy::Main, class: "single", fat: fat_a };
				// an NRD kernel instance on the body chain, so that the pool's relative-height decision can be observed too
				if t + la >= NRD_FIRST_HEIGHT {
					self.run_events(&mut a, &[Ev { h: NRD_FIRST_HEIGHT, dec: None, tx: TxSpec::Nrd(2) }]);
				}
				self.advance_to(&mut a, t + la);
				if !self.ok() {
					return;
				}
				let mut tip = trunk.tip;
				let mut fat = fat_b;
				// the header-only fork always has more work than the body chain (2x difficulty per block) and
				// ends one block above, level with, or one block below the body head
				let lb = la + 1 - sp.below(3);
				self.run.count(&format!("pool_header_fork_setups.header_fork_height_minus_body_height={}", lb as i64 - la as i64), 1);
				for _ in 0..lb {
					let h = self.height(&tip) + 1;
					let mut txs = vec![];
					if fat > 0 {
						if let Some(c) = self.pick_coin(&tip, h, &[]) {
							txs.push(self.tx_fat(&c));
							fat -= 1;
						}
					}
					let blk = match self.mk_block(&tip, &txs, 2 * MAIN_DIFF) {
						Some(b) => b,
						None => return,
					};
					if let Err(e) = self.chain.process_block_header(&blk.header, Options::SKIP_POW) {
						self.abort(&format!("harness: header of competing fork refused: {:?}", e));
						return;
					}
					self.script.push(format!(
						"h={} HEADER ONLY (competing fork from height {}, more work) outputs_in_block={} output_mmr_size={}",
						h,
						t,
						blk.outputs().len(),
						blk.header.output_mmr_size
					));
					tip = blk.hash();
				}
				let hh = self.chain.header_head().map(|t| t.last_block_h).ok();
				let bh = self.chain.head().map(|t| t.last_block_h).ok();
				if hh != Some(tip) || bh != Some(self.head) {
					self.abort("harness: header chain / body chain not where expected");
					return;
				}
				self.run.count("pool_header_fork_setups", 1);
				self.pool_maturity("pool_header_fork");
				// lock heights and relative locks are decided against the next height of the BODY chain as well
				self.pool_lock("pool_header_fork");
				self.pool_nrd("pool_header_fork");
				// the chain itself (block at the next height) still decides by the rule
				let next = self.height(&a.tip) + 1;
				self.run_events(
					&mut a,
					&[Ev { h: next, dec: Some(("maturity", -1)), tx: TxSpec::SpendCbAt(next - 2) }],
				);
			}
		}
	}
}

// ---------------------------------------------------------------- unit probe

/// Two transactions built from the same prng position carry the same kernel
/// excess, both validate, and spend different coins.
fn probe_nrd_duplicate(seed: u64) -> bool {
	let w = World::new(seed ^ 0x9999);
	let base = Prng::new(seed ^ 0x1234);
	let c1 = w.coin(consensus::reward(0), &w.key(1), true);
	let c2 = w.coin(consensus::reward(0), &w.key(2), true);
	let (t1, _) = w.tx(&mut base.clone(), &[c1.clone()], &[(c1.value - FEE, w.key(3))], nrd(FEE, 2));
	let (t2, _) = w.tx(&mut base.clone(), &[c2.clone()], &[(c2.value - FEE, w.key(4))], nrd(FEE, 2));
	let ok = t1.kernels()[0].excess == t2.kernels()[0].excess
		&& t1.validate(Weighting::AsTransaction).is_ok()
		&& t2.validate(Weighting::AsTransaction).is_ok()
		&& t1.inputs() != t2.inputs();
	ok
}

// ---------------------------------------------------------------- repeated NRD occurrences x deep rewinds

/// The recent-kernel index is a linked list per excess; every scenario above leaves at most three entries in it. Here
/// the SAME NRD kernel is mined `k` = 4..6 times on chain A (exactly `rel` blocks apart), then a fork B leaves A below at
/// least two of those occurrences (so judging B's blocks, and reorganising to B, rewinds two or more list entries at once)
/// and carries the kernel again rel-1 / rel / rel+1 blocks after the newest occurrence that B still has. The reference
/// ledger judges every block on its own ancestry; the node must agree on every one, also after a restart (the index is
/// rebuilt at start-up) and after the chain reorganised to B and back to A.
fn nrd_repeated(run: &Run, base: &str, n_variants: u64, shard: u64, nshards: u64) {
	use vcommon::forktree::{GenBlock, Hist};
	use vcommon::scenarios::mk_block_txs;
	vcommon::world::init_thread(true);
	for v in 0..n_variants {
		if v % nshards != shard {
			continue;
		}
		let seed = run.seed.wrapping_mul(0x9E37_79B9_7F4A_7C15) ^ (0x4E52_4452 + v);
		let rel = 1 + v % 3;
		let k = 4 + (v / 3) % 3;
		let off: i64 = [-1i64, 0, 1][((v / 9) % 3) as usize];
		let restart = v % 2 == 1;
		let mut p = Prng::new(seed);
		let kept = 1 + p.below(k - 2); // occurrences B keeps: 1..=k-2, so at least two are rewound
		if rel as i64 + off - 1 < 0 {
			continue; // rel 1 cannot be undercut
		}
		let mut h = Hist::new(seed, false);
		let kp = Prng::new(seed ^ 0x4B45_524E);
		let occ_h = |i: u64| NRD_FIRST_HEIGHT + i * rel;
		// ---- chain A
		let mut a: Vec<GenBlock> = vec![];
		let mut tip = h.genesis.hash();
		let last_a = occ_h(k - 1) + 1;
		let mut n_occ = 0;
		for height in 1..=last_a {
			let is_occ = height >= NRD_FIRST_HEIGHT && (height - NRD_FIRST_HEIGHT) % rel == 0 && n_occ < k;
			let txs = if is_occ {
				n_occ += 1;
				let coin = h.spendable(&tip).into_iter().next().expect("mature coin");
				vec![h.nrd_tx(&coin, rel, &kp)]
			} else {
				vec![]
			};
			let gb = mk_block_txs(&mut h, &tip, &txs, 10, if is_occ { "nrd_occurrence" } else { "filler" });
			tip = gb.hash;
			a.push(gb);
		}
		// ---- fork B
		let newest_kept = occ_h(kept - 1);
		let d = (newest_kept as i64 + rel as i64 + off) as u64; // height of B's NRD block
		let t_max = (rel as i64 + off - 1) as u64;
		let f = newest_kept + p.below(t_max.min(rel - 1) + 1); // fork point: at or above the newest kept occurrence, below the next one
		let mut b: Vec<GenBlock> = vec![];
		let mut btip = a[(f - 1) as usize].hash;
		let b_wins = p.chance(2, 3);
		let b_len = (last_a - f) + 2;
		for i in 0..b_len {
			let height = f + 1 + i;
			let txs = if height == d {
				let coin = h.spendable(&btip).into_iter().next().expect("mature coin on the fork");
				vec![h.nrd_tx(&coin, rel, &kp)]
			} else {
				vec![]
			};
			let gb = mk_block_txs(&mut h, &btip, &txs, if b_wins { 11 } else { 1 }, if height == d { "nrd_decision" } else { "filler" });
			let ok = gb.verdict.is_ok();
			b.push(gb.clone());
			if !ok {
				break; // nothing is built on a block the rules refuse
			}
			btip = gb.hash;
		}
		// ---- A strikes back: two more blocks, the second carries the kernel again right at / one below its threshold
		let mut a2: Vec<GenBlock> = vec![];
		{
			let back_off: u64 = p.below(2); // 0: exactly rel after the newest occurrence (accept) / 1: one block early (refuse) when rel >= 2
			let newest = occ_h(k - 1);
			let mut atip = a.last().unwrap().hash;
			let mut height = last_a + 1;
			let target = if back_off == 1 && rel >= 2 { newest + rel - 1 } else { newest + rel };
			let target = target.max(height);
			while height <= target {
				let txs = if height == target {
					let coin = h.spendable(&atip).into_iter().next().expect("mature coin");
					vec![h.nrd_tx(&coin, rel, &kp)]
				} else {
					vec![]
				};
				let gb = mk_block_txs(&mut h, &atip, &txs, 40, if height == target { "nrd_decision_after_reorg_back" } else { "filler" });
				let ok = gb.verdict.is_ok();
				a2.push(gb.clone());
				if !ok {
					break;
				}
				atip = gb.hash;
				height += 1;
			}
		}
		// ---- deliver
		let dir = format!("{}/nrdrep{}", base, v);
		let _ = std::fs::remove_dir_all(&dir);
		let desc = json!({"scenario": "nrd_repeated", "variant": v, "seed": seed, "rel": rel, "occurrences_on_a": k, "kept_on_fork": kept, "fork_point": f,
			"decision_height": d, "off": off, "restart_before_fork": restart, "fork_wins": b_wins});
		let mut chain = match open_chain(&dir, &h.genesis) {
			Ok(c) => Some(c),
			Err(e) => {
				run.inconclusive(&format!("nrd_repeated: cannot open chain: {}", e));
				continue;
			}
		};
		let mut ok_so_far = true;
		let mut deliver = |chain: &Chain, gb: &GenBlock, phase: &str, run: &Run| -> bool {
			let r = monitor::catch(|| chain.process_block(gb.block.clone(), Options::SKIP_POW));
			let tag = gb.tags.get(0).cloned().unwrap_or_default();
			match r {
				Err(pn) => {
					run.violation(&format!("nrd_repeated;panic;at={}", pn.location), &format!("process_block panicked: {} at {}", pn.message, pn.location), desc.clone());
					false
				}
				Ok(res) => {
					let accepted = res.is_ok();
					let expected = gb.verdict.is_ok();
					if tag.starts_with("nrd_decision") {
						run.eval(&format!("nrd_repeated:{}:rel{}:k{}:kept{}:off{}:{}", phase, rel, k, kept, off, if expected { "accept" } else { "reject" }), true);
						run.count(&format!("nrd_repeated.decisions.{}", if expected { "accept" } else { "reject" }), 1);
					} else {
						run.eval("nrd_repeated:setup", false);
					}
					if accepted != expected {
						let what = format!(
							"block at height {} ({}, {}) on the fork rewinding {} occurrences of the kernel: node {}, reference rule {} ({:?} / {:?})",
							gb.block.header.height, tag, phase, k - kept,
							if accepted { "accepted" } else { "refused" }, if expected { "accepts" } else { "refuses" },
							res.as_ref().err().map(|e| format!("{:?}", e).chars().take(80).collect::<String>()), gb.verdict
						);
						run.violation(
							&format!("nrd_repeated;{};{};node_{}", phase, tag, if accepted { "accepts_what_the_rule_refuses" } else { "refuses_what_the_rule_accepts" }),
							&what,
							desc.clone(),
						);
						return false;
					}
					true
				}
			}
		};
		for gb in &a {
			if !deliver(chain.as_ref().unwrap(), gb, "chain_a", run) {
				ok_so_far = false;
				break;
			}
		}
		if ok_so_far && restart {
			drop(chain.take());
			chain = match open_chain(&dir, &h.genesis) {
				Ok(c) => Some(c),
				Err(e) => {
					run.inconclusive(&format!("nrd_repeated: cannot reopen chain: {}", e));
					None
				}
			};
			run.count("nrd_repeated.restarts_before_the_fork", 1);
		}
		if let (true, Some(c)) = (ok_so_far, chain.as_ref()) {
			for gb in &b {
				if !deliver(c, gb, "fork_b", run) {
					ok_so_far = false;
					break;
				}
			}
			if ok_so_far {
				if b_wins && b.iter().all(|x| x.verdict.is_ok()) {
					run.count("nrd_repeated.reorgs_rewinding_two_or_more_occurrences", 1);
				}
				for gb in &a2 {
					if !deliver(c, gb, "chain_a_again", run) {
						ok_so_far = false;
						break;
					}
				}
			}
			if ok_so_far {
				run.count("nrd_repeated.scenarios_agreeing", 1);
			}
		}
		drop(chain);
		run.count("nrd_repeated.scenarios", 1);
		let _ = std::fs::remove_dir_all(&dir);
	}
}

// ---------------------------------------------------------------- NRD kernel x compaction / restart on a long chain

/// The recent-kernel index is rebuilt from the kernel history when the node starts and when it compacts; relative
/// heights reach far beyond the window of full blocks a compacted node keeps (a week against two days on mainnet,
/// 20 blocks here). An NRD kernel is mined early (height 9..11), the chain grows to height 84 / 85 and is compacted
/// (the body tail moves above the kernel's block), on odd variants the node is restarted, and the same kernel comes
/// again - offered to the pool's admission path (`Chain::validate_tx`) and then in a block at the next height - with a
/// relative height one above / equal to / one below its distance to the first occurrence. The rule, evaluated by the
/// reference ledger over the whole ancestry, decides; the node must agree.
fn nrd_after_compaction(run: &Run, base: &str, n_variants: u64, shard: u64, nshards: u64) {
	use vcommon::forktree::{GenBlock, Hist};
	use vcommon::scenarios::mk_block_txs;
	vcommon::world::init_thread(true);
	for v in 0..n_variants {
		if v % nshards != shard {
			continue;
		}
		let seed = run.seed.wrapping_mul(0x9E37_79B9_7F4A_7C15) ^ (0x4E52_4443 + v);
		let off: i64 = [1i64, 0, -1][(v % 3) as usize]; // +1: one block too early (refuse), 0 / -1: allowed
		let restart = (v / 3) % 2 == 1;
		let h1 = NRD_FIRST_HEIGHT + (v / 6) % 3;
		let top = 84 + (v % 2);
		let mut h = Hist::new(seed, false);
		let kp = Prng::new(seed ^ 0x4B45_524E);
		let mut a: Vec<GenBlock> = vec![];
		let mut tip = h.genesis.hash();
		for height in 1..=top {
			let txs = if height == h1 {
				let coin = h.spendable(&tip).into_iter().next().expect("mature coin");
				vec![h.nrd_tx(&coin, 1, &kp)]
			} else {
				vec![]
			};
			let gb = mk_block_txs(&mut h, &tip, &txs, 10, if height == h1 { "nrd_first_occurrence" } else { "filler" });
			tip = gb.hash;
			a.push(gb);
		}
		let dist = top + 1 - h1;
		let rel = (dist as i64 + off) as u64;
		let coin = h.spendable(&tip).into_iter().next().expect("mature coin");
		let tx = h.nrd_tx(&coin, rel, &kp);
		let decision = mk_block_txs(&mut h, &tip, &[tx.clone()], 10, "nrd_decision_after_compaction");
		let expected = decision.verdict.is_ok();
		if expected != (off <= 0) {
			run.inconclusive(&format!("nrd_after_compaction: the reference rule gives {:?} for off {}", decision.verdict, off));
			continue;
		}
		let dir = format!("{}/nrdcomp{}", base, v);
		let _ = std::fs::remove_dir_all(&dir);
		let desc = json!({"scenario": "nrd_after_compaction", "variant": v, "seed": seed, "first_occurrence_height": h1, "head_height": top,
			"relative_height": rel, "distance": dist, "off": off, "restart": restart});
		let mut chain = match open_chain(&dir, &h.genesis) {
			Ok(c) => Some(c),
			Err(e) => {
				run.inconclusive(&format!("nrd_after_compaction: cannot open chain: {}", e));
				continue;
			}
		};
		let mut ok = true;
		for gb in &a {
			if let Err(e) = chain.as_ref().unwrap().process_block(gb.block.clone(), Options::SKIP_POW) {
				run.inconclusive(&format!("nrd_after_compaction: honest block at height {} refused: {:?}", gb.block.header.height, e));
				ok = false;
				break;
			}
		}
		if ok {
			let c = chain.as_ref().unwrap();
			if let Err(e) = c.compact() {
				run.inconclusive(&format!("nrd_after_compaction: compact() failed: {:?}", e));
				ok = false;
			} else {
				let tail = c.tail().map(|t| t.height).unwrap_or(0);
				if tail <= h1 {
					run.inconclusive(&format!("nrd_after_compaction: tail {} did not move above the first occurrence {}", tail, h1));
					ok = false;
				} else {
					run.count("nrd_after_compaction.compactions_moving_the_tail_above_the_first_occurrence", 1);
				}
			}
		}
		if ok && restart {
			drop(chain.take());
			chain = match open_chain(&dir, &h.genesis) {
				Ok(c) => Some(c),
				Err(e) => {
					run.inconclusive(&format!("nrd_after_compaction: cannot reopen chain: {}", e));
					None
				}
			};
			run.count("nrd_after_compaction.restarts", 1);
		}
		if let (true, Some(c)) = (ok, chain.as_ref()) {
			let tagx = if expected { "accept" } else { "reject" };
			// the pool's admission path
			match monitor::catch(|| c.validate_tx(&tx)) {
				Err(pn) => run.violation(&format!("nrd_after_compaction;panic;at={}", pn.location), &format!("validate_tx panicked: {} at {}", pn.message, pn.location), desc.clone()),
				Ok(r) => {
					run.eval(&format!("nrd_after_compaction:pool:off{}:restart{}:{}", off, restart as u8, tagx), true);
					if r.is_ok() != expected {
						run.violation(
							&format!("nrd_after_compaction;pool;node_{}", if r.is_ok() { "accepts_what_the_rule_refuses" } else { "refuses_what_the_rule_accepts" }),
							&format!(
								"Chain::validate_tx for an NRD kernel (relative height {}) whose excess was last mined {} blocks before the next block, on a chain compacted above that block: node {:?}, reference rule {:?}",
								rel, dist, r.as_ref().err().map(|e| format!("{:?}", e).chars().take(80).collect::<String>()), decision.verdict
							),
							desc.clone(),
						);
					}
				}
			}
			match monitor::catch(|| c.process_block(decision.block.clone(), Options::SKIP_POW)) {
				Err(pn) => run.violation(&format!("nrd_after_compaction;panic;at={}", pn.location), &format!("process_block panicked: {} at {}", pn.message, pn.location), desc.clone()),
				Ok(r) => {
					run.eval(&format!("nrd_after_compaction:block:off{}:restart{}:{}", off, restart as u8, tagx), true);
					run.count(&format!("nrd_after_compaction.decisions.{}", tagx), 1);
					if r.is_ok() != expected {
						run.violation(
							&format!("nrd_after_compaction;block;node_{}", if r.is_ok() { "accepts_what_the_rule_refuses" } else { "refuses_what_the_rule_accepts" }),
							&format!(
								"block at height {} carrying an NRD kernel (relative height {}) whose excess was last mined at height {}, on a chain compacted above that block{}: node {:?}, reference rule {:?}",
								top + 1, rel, h1, if restart { " and restarted" } else { "" },
								r.as_ref().map(|_| "accepted").map_err(|e| format!("{:?}", e).chars().take(80).collect::<String>()), decision.verdict
							),
							desc.clone(),
						);
					} else {
						run.count("nrd_after_compaction.scenarios_agreeing", 1);
					}
				}
			}
		}
		drop(chain);
		run.count("nrd_after_compaction.scenarios", 1);
		let _ = std::fs::remove_dir_all(&dir);
	}
}

// ---------------------------------------------------------------- main

fn run_scenario(rec: &Run, base: &str, idx: usize, spec: &Spec) {
	let dir = format!("{}/s{}", base, idx);
	let r = monitor::catch(|| {
		let mut sim = match Sim::new(rec, &dir, spec) {
			Ok(s) => s,
			Err(e) => {
				rec.inconclusive(&format!("cannot open chain: {}", e));
				return;
			}
		};
		sim.execute(spec);
		rec.count("scenarios_run", 1);
		rec.count(&format!("scenario_kind:{:?}", spec.kind), 1);
		if let Some(why) = &sim.aborted {
			rec.count("scenarios_aborted", 1);
			if sim.violations_here == 0 {
				rec.inconclusive(&format!("scenario aborted ({}) : {}", why, sim.tag));
				rec.count("scenarios_aborted_harness", 1);
			}
		}
	});
	if let Err(p) = r {
		rec.count("scenario_panics", 1);
		rec.inconclusive(&format!(
			"panic in scenario {}: {} @ {}",
			spec.describe(),
			p.message,
			p.location
		));
	}
	let _ = std::fs::remove_dir_all(&dir);
}

/// Scenarios `k, k+n, k+2n, ...` of the spec list (a function of the seed
/// only, so every worker derives the same list); the core set is always run,
/// extras until `deadline` seconds, everything is capped by `hard_deadline`.
fn do_shard(run: &Run, specs: &[Spec], core: usize, k: usize, n: usize, deadline: f64, hard_deadline: f64) {
	let sc = Scratch::new("c13");
	let base = sc.path.to_string_lossy().to_string();
	let mut i = k;
	while i < specs.len() {
		let el = run.elapsed_s();
		if (i >= core && el > deadline) || el > hard_deadline {
			break;
		}
		run_scenario(run, &base, i, &specs[i]);
		i += n;
	}
	// the repeated-NRD-kernel scenarios are part of the core set: their variants are spread over the workers
	nrd_repeated(run, &base, run.tier.pick(54u64, 216u64), k as u64, n as u64);
	nrd_after_compaction(run, &base, run.tier.pick(12u64, 72u64), k as u64, n as u64);
	run.count("shards_finished", 1);
	drop(sc);
}

fn main() {
	let run = Run::from_env("C13", "exploration");
	init_globals(true);
	monitor::install_panic_hook();
	let san = run.args.iter().any(|a| a == "--san");
	let n_extra = if san { 0 } else { run.tier.pick(600usize, 8000usize) };
	let (specs, core) = gen_specs(run.seed, n_extra, san);
	let deadline = run.tier.pick(45.0f64, 430.0f64);
	let hard_deadline = run.tier.pick(300.0f64, 1200.0f64);

	// validation is serialised by grin's process-global secp mutex: shard over worker processes
	if let Some((k, n)) = run.worker_shard() {
		do_shard(&run, &specs, core, k, n.max(1), deadline, hard_deadline);
		run.finish_worker();
	}

	run.set_rule(
		"Each scenario scripts a block tree over a fresh real Chain (AutomatedTesting, NRD on, SKIP_POW blocks built by the \
		 RefLedger block factory, fork choice steered by per-block difficulty: main 10, losing fork 1, trigger = deficit+7). \
		 Every delivered block / pool submission is one evaluation; its shape signature is (rule, placement class, boundary \
		 offset -1/0/+1 = decision height minus threshold height, outcome). Rules: maturity (coinbase created at h spent at \
		 h+3+off), lock (HeightLocked lock_height = height-off), nrd (same kernel excess again rel+off blocks after the \
		 previous instance on the same fork, rel in {1,2,3,5}), nrd_same_block (two instances in one block), nrd_hf3 (NRD \
		 kernel at height 9+off). Classes: single, fork_trunk, fork_branch, fork, cross_fork, reorg_trigger, reapplied, \
		 rewound, post_reorg, pool, pool_after_reorg, pool_header_fork (see file header). Non-trivial = a decision block / \
		 pool submission (filler and set-up blocks are evaluated against the oracle too but not counted as distinct). \
		 Branches differ in output counts (fat = extra 1-in-2-out transactions) so that a maturity cut-off read from the \
		 wrong fork's header gives a different answer; NRD decoy instances sit on the other fork.",
	);
	run.assume("AutomatedTesting chain type: coinbase maturity 3, hard fork every 3 blocks (header version 4 from height 9), NRD feature flag on");
	run.assume("blocks are delivered with Options::SKIP_POW (difficulty and PoW checks skipped; total difficulty steers fork choice)");
	run.assume("pool wired to the chain through a harness BlockChain adapter equivalent to servers::PoolToChainAdapter; fresh pool per submission");

	let probe_ok = probe_nrd_duplicate(run.seed);
	run.count("probe_nrd_duplicate_excess_ok", probe_ok as u64);

	let mut nworkers = 0usize;
	if !probe_ok {
		run.inconclusive("unit probe failed: duplicate-excess NRD transactions could not be built");
	} else if san {
		// sanitizer / valgrind runs: small workload, everything in this (instrumented) process
		do_shard(&run, &specs, core, 0, 1, deadline, hard_deadline);
	} else {
		nworkers = std::thread::available_parallelism()
			.map(|n| n.get())
			.unwrap_or(4)
			.min(16)
			.max(1);
		run.spawn_workers(nworkers, &[], (hard_deadline + 45.0) as u64);
	}

	// ---- minimum observations
	run.require("unit probe: two valid txs with equal NRD kernel excess", probe_ok as u64, 1);
	if san {
		run.require("decisions agreeing with the oracle", run.counter("decisions_agreeing"), 20);
	} else {
		run.require("worker processes finished", run.counter("shards_finished"), nworkers as u64);
		let offs = ["-1", "0", "+1"];
		let need: Vec<(&str, Vec<&str>)> = vec![
			(
				"maturity",
				vec![
					"single", "fork_trunk", "fork_branch", "reorg_trigger", "reapplied", "rewound",
					"pool", "pool_after_reorg", "pool_header_fork", "after_restart", "pool_after_restart",
				],
			),
			(
				"lock",
				vec!["single", "fork", "reorg_trigger", "reapplied", "rewound", "pool", "pool_after_reorg", "pool_header_fork", "after_restart", "pool_after_restart"],
			),
			(
				"nrd",
				vec![
					"single", "fork_trunk", "fork_branch", "cross_fork", "reorg_trigger", "reapplied",
					"rewound", "pool", "pool_after_reorg", "pool_header_fork", "after_restart",
				],
			),
			("nrd_hf3", vec!["single", "fork"]),
		];
		let mut missing = vec![];
		let mut cells = 0u64;
		let mut seen = 0u64;
		for (rule, classes) in &need {
			for class in classes {
				for off in offs {
					cells += 1;
					let n = run.counter(&format!("obs:{}:{}:{}", rule, class, off));
					if n > 0 {
						seen += 1;
					} else {
						missing.push(format!("{}:{}:{}", rule, class, off));
					}
				}
			}
		}
		run.extra("required_cells_missing", json!(missing));
		run.require("(rule x placement class x boundary offset) cells observed", seen, cells);
		for rule in ["maturity", "lock", "nrd", "nrd_hf3"] {
			run.require(
				&format!("{}: accept outcomes", rule),
				run.counter(&format!("outcome:{}:accept", rule)),
				1,
			);
			run.require(
				&format!("{}: reject outcomes", rule),
				run.counter(&format!("outcome:{}:reject", rule)),
				1,
			);
		}
		let mut same_block = 0;
		for class in ["single", "fork_trunk", "fork_branch", "rewound", "reorg_trigger", "post_reorg"] {
			same_block += run.counter(&format!("obs:nrd_same_block:{}:-1", class));
		}
		run.require("two NRD instances in one block refused", same_block, 1);
		run.require("reorgs performed", run.counter("reorgs"), 10);
		run.require(
			"fork blocks accepted on a non-best fork",
			run.counter("fork_blocks_accepted_non_best"),
			20,
		);
		run.require(
			"heavier child of a refused fork block not accepted",
			run.counter("heavy_child_of_refused_block_not_accepted"),
			2,
		);
		run.require("pool admission decisions", run.counter("pool_admission_decisions"), 30);
		run.require(
			"pool decisions with the header chain on a competing fork",
			run.counter("pool_header_fork_setups"),
			2,
		);
		for rule in ["maturity", "lock"] {
			for off in ["-1", "0", "+1"] {
				run.require(
					&format!("{}: stem transaction handed over again after a reorg onto a shorter fork, offset {}", rule, off),
					run.counter(&format!("obs:{}:pool_stem_again_after_shorter_reorg:{}", rule, off)),
					1,
				);
			}
		}
		run.require(
			"decisions on a transaction the stempool still held after the shorter reorg",
			run.counter("pool_kept.decisions_on_a_transaction_held_in_the_stempool"),
			4,
		);
		run.require("scenarios run", run.counter("scenarios_run"), core as u64);
		run.require("immature spends in blocks whose inputs declare the coinbase a plain output", run.counter("maturity_decisions_on_blocks_whose_inputs_declare_the_coinbase_a_plain_output"), 6);
		run.require("maturity decisions on one transaction spending a mature and an immature coinbase, the mature one sorting first", run.counter("two_coinbase_inputs.mature_sorts_first"), 3);
		run.require("the same, the immature one sorting first", run.counter("two_coinbase_inputs.immature_sorts_first"), 2);
		run.require("repeated NRD kernel (4-6 occurrences): scenarios agreeing with the reference rule", run.counter("nrd_repeated.scenarios_agreeing"), run.tier.pick(40, 160));
		run.require("repeated NRD kernel: reorganisations rewinding two or more occurrences", run.counter("nrd_repeated.reorgs_rewinding_two_or_more_occurrences"), run.tier.pick(10, 40));
		run.require("repeated NRD kernel: decisions the rule refuses", run.counter("nrd_repeated.decisions.reject"), run.tier.pick(10, 40));
		run.require("repeated NRD kernel: decisions the rule accepts", run.counter("nrd_repeated.decisions.accept"), run.tier.pick(20, 80));
		run.require("NRD kernel after compaction: scenarios agreeing with the reference rule", run.counter("nrd_after_compaction.scenarios_agreeing"), run.tier.pick(8, 48));
		run.require("NRD kernel after compaction: decisions the rule refuses", run.counter("nrd_after_compaction.decisions.reject"), run.tier.pick(3, 16));
		run.require("NRD kernel after compaction: restarts before the decision", run.counter("nrd_after_compaction.restarts"), run.tier.pick(3, 16));
	}
	run.finish();
}
