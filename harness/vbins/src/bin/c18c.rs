//! C18 (chain store) — the batch guarantees as seen through the chain's own store layer.
//!
//! `c18` drives `grin_store::Store` directly. The chain never does: it goes through `ChainStore` / `ChainStore::Batch`
//! (typed helpers, child batches of extensions) and the NRD recent-kernel index (`linked_list::MultiIndex`, which
//! writes through the wrapped batch). This binary runs random programs over that layer next to a stack-of-overlays
//! reference model: writes of a batch are visible in it and in its children, invisible outside until the top-level
//! batch commits, a dropped (child) batch leaves no trace, a child's writes take effect only if every enclosing batch
//! commits, and everything committed is there after the store is closed and reopened.
//!
//! Every value is unique (a counter is embedded in each object), so a read identifies the write it saw.

use grin_chain::linked_list::{ListIndex, ListWrapper, PruneableListIndex, RewindableListIndex};
use grin_chain::store::{nrd_recent_kernel_index, Batch, ChainStore};
use grin_chain::types::{CommitPos, Tip};
use grin_core::core::hash::{Hash, Hashed};
use grin_core::core::{Block, BlockHeader, BlockSums};
use grin_core::pow::Difficulty;
use grin_util::secp::pedersen::Commitment;
use serde_json::json;
use std::collections::{BTreeMap, HashMap};
use std::time::Instant;
use vcommon::monitor::catch;
use vcommon::world::{init_globals, init_thread};
use vcommon::{Prng, Run, Scratch};

// ------------------------------------------------------------------ reference model

#[derive(Clone, Debug, PartialEq)]
enum Val {
	Tip(u64),
	Header(u64),
	Block(u64),
	Sums(u64),
	Spent(Vec<(u64, u64)>),
	OutPos(u64, u64),
	/// NRD list, oldest first
	List(Vec<(u64, u64)>),
}

/// Logical key: (space, id). Spaces: 0 tips (id = slot 0..4), 1 headers, 2 blocks, 3 sums, 4 spent, 5 output_pos, 6 nrd list.
type Key = (u8, u64);

#[derive(Default)]
struct Model {
	base: BTreeMap<Key, Val>,
	/// open batches, outermost first; None = deleted in that batch
	layers: Vec<BTreeMap<Key, Option<Val>>>,
}

impl Model {
	fn get(&self, k: &Key) -> Option<Val> {
		for l in self.layers.iter().rev() {
			if let Some(v) = l.get(k) {
				return v.clone();
			}
		}
		self.base.get(k).cloned()
	}
	fn committed(&self, k: &Key) -> Option<Val> {
		self.base.get(k).cloned()
	}
	fn put(&mut self, k: Key, v: Val) {
		self.layers.last_mut().expect("open batch").insert(k, Some(v));
	}
	fn del(&mut self, k: Key) {
		self.layers.last_mut().expect("open batch").insert(k, None);
	}
	fn open(&mut self) {
		self.layers.push(BTreeMap::new());
	}
	fn close(&mut self, commit: bool) {
		let l = self.layers.pop().expect("open batch");
		if !commit {
			return;
		}
		match self.layers.last_mut() {
			Some(parent) => {
				for (k, v) in l {
					parent.insert(k, v);
				}
			}
			None => {
				for (k, v) in l {
					match v {
						Some(v) => {
							self.base.insert(k, v);
						}
						None => {
							self.base.remove(&k);
						}
					}
				}
			}
		}
	}
	/// keys of a space visible from the innermost open batch
	fn visible(&self, space: u8) -> BTreeMap<u64, Val> {
		let mut m: BTreeMap<u64, Val> = self.base.iter().filter(|(k, _)| k.0 == space).map(|(k, v)| (k.1, v.clone())).collect();
		for l in &self.layers {
			for (k, v) in l {
				if k.0 != space {
					continue;
				}
				match v {
					Some(v) => {
						m.insert(k.1, v.clone());
					}
					None => {
						m.remove(&k.1);
					}
				}
			}
		}
		m
	}
}

// ------------------------------------------------------------------ objects with an embedded unique id

fn hash_of_id(space: u8, id: u64) -> Hash {
	let mut b = [0u8; 32];
	b[0] = space;
	b[8..16].copy_from_slice(&id.to_be_bytes());
	b[16..24].copy_from_slice(&id.wrapping_mul(0x9E37_79B9_7F4A_7C15).to_be_bytes());
	Hash::from_vec(&b)
}

fn commit_of_id(id: u64) -> Commitment {
	let mut b = [0u8; 33];
	b[0] = 0x08 | (id & 1) as u8;
	b[1..9].copy_from_slice(&id.to_be_bytes());
	b[9..17].copy_from_slice(&id.wrapping_mul(0xD6E8_FEB8_6659_FD93).to_be_bytes());
	Commitment(b)
}

fn tip_of(uid: u64) -> Tip {
	Tip {
		height: uid,
		last_block_h: hash_of_id(0xA0, uid),
		prev_block_h: hash_of_id(0xA1, uid),
		total_difficulty: Difficulty::from_num(uid + 1),
	}
}

/// The identity hash of a header covers its proof of work only: every object gets a proof of its own.
fn header_of(uid: u64) -> BlockHeader {
	let mut h = BlockHeader::default();
	h.height = uid % 1000;
	h.prev_hash = hash_of_id(0xB0, uid);
	let mut p = Prng::new(uid ^ 0x4845_4144);
	vcommon::world::skip_pow_proof(&mut h, &mut p);
	h.pow.nonce = uid;
	h
}

fn sums_of(uid: u64) -> BlockSums {
	BlockSums {
		utxo_sum: commit_of_id(uid ^ 0x5555_0000_0000),
		kernel_sum: commit_of_id(uid ^ 0xAAAA_0000_0000),
	}
}

// ------------------------------------------------------------------ session

struct Sess<'a> {
	run: &'a Run,
	prng: Prng,
	m: Model,
	uid: u64,
	/// header uid -> hash (headers and blocks are keyed by the hash of the object itself)
	header_hash: HashMap<u64, Hash>,
	n_ids: u64,
	stats: BTreeMap<String, u64>,
	trace: Vec<String>,
	failed: bool,
	seed: u64,
	prog: u64,
}

impl<'a> Sess<'a> {
	fn inc(&mut self, k: &str) {
		*self.stats.entry(k.to_string()).or_insert(0) += 1;
	}
	fn next_uid(&mut self) -> u64 {
		self.uid += 1;
		self.uid
	}
	fn fail(&mut self, clause: &str, what: String) {
		if self.failed {
			return;
		}
		self.failed = true;
		let tail: Vec<String> = self.trace.iter().rev().take(40).rev().cloned().collect();
		self.run.violation(
			&format!("C18;world=chainstore;clause={}", clause),
			&what,
			json!({"seed": self.seed, "program": self.prog, "last_ops": tail, "reproduce": format!("c18c --seed {} --only-program {}", self.seed, self.prog)}),
		);
	}
	fn t(&mut self, depth: usize, s: String) {
		if self.trace.len() < 4000 {
			self.trace.push(format!("{}{}", "  ".repeat(depth), s));
		}
	}
	fn pick_id(&mut self) -> u64 {
		self.prng.below(self.n_ids)
	}
}

fn err_s<E: std::fmt::Debug>(e: &E) -> String {
	let s = format!("{:?}", e);
	s.chars().take(120).collect()
}

/// Compare one read made inside `batch` with the model's innermost view.
fn check_read<T: PartialEq + std::fmt::Debug>(s: &mut Sess, what: &str, got: Option<T>, exp: Option<T>, inside: bool) {
	s.inc(if inside { "reads.inside_batch" } else { "reads.outside_batch" });
	if got != exp {
		let clause = match (&got, &exp) {
			(None, Some(_)) => "write_not_visible",
			(Some(_), None) => "dropped_or_uncommitted_write_visible",
			_ => "other_write_visible",
		};
		s.fail(
			&format!("{};{};{}", if inside { "inside_batch" } else { "outside_batch" }, what, clause),
			format!("{}: read {:?}, the reference model holds {:?}", what, got.map(|x| format!("{:?}", x).chars().take(100).collect::<String>()), exp.map(|x| format!("{:?}", x).chars().take(100).collect::<String>())),
		);
	}
}

fn opt<T>(r: Result<T, grin_store::Error>) -> Result<Option<T>, grin_store::Error> {
	match r {
		Ok(v) => Ok(Some(v)),
		Err(grin_store::Error::NotFoundErr(_)) => Ok(None),
		Err(e) => Err(e),
	}
}

const SLOT_NAMES: [&str; 4] = ["head", "header_head", "tail", "pibd_head"];

/// One random operation inside `b` (the innermost open batch, mirrored by the model's innermost layer).
fn op(s: &mut Sess, b: &mut Batch<'_>, depth: usize) {
	let idx = nrd_recent_kernel_index();
	match s.prng.below(26) {
		// ---- tips
		0 | 1 => {
			let slot = s.prng.below(4);
			// one time in four: the COMMITTED value again (a head moved away and back inside one batch); values are
			// otherwise unique, so nothing would ever write what is already on disk
			let uid = match (s.prng.chance(1, 4), s.m.committed(&(0, slot))) {
				(true, Some(Val::Tip(u))) => {
					s.inc("ops.save_tip_with_the_committed_value");
					u
				}
				_ => s.next_uid(),
			};
			let t = tip_of(uid);
			let r = match slot {
				0 => b.save_body_head(&t),
				1 => b.save_header_head(&t),
				2 => b.save_body_tail(&t),
				_ => b.save_pibd_head(&t),
			};
			s.t(depth, format!("save_{} uid={}", SLOT_NAMES[slot as usize], uid));
			if let Err(e) = r {
				return s.fail("write_failed;tip", err_s(&e));
			}
			s.m.put((0, slot), Val::Tip(uid));
			s.inc("ops.save_tip");
		}
		2 => {
			let slot = s.prng.below(3);
			let got = match slot {
				0 => opt(b.head()),
				1 => opt(b.header_head()),
				_ => opt(b.tail()),
			};
			let exp = match s.m.get(&(0, slot)) {
				Some(Val::Tip(u)) => Some(tip_of(u)),
				_ => None,
			};
			match got {
				Ok(g) => check_read(s, SLOT_NAMES[slot as usize], g.map(|t| t.height), exp.map(|t| t.height), true),
				Err(e) => s.fail("read_failed;tip", err_s(&e)),
			}
		}
		// ---- headers
		3 | 4 => {
			let id = s.pick_id();
			let uid = s.next_uid();
			let h = header_of(uid);
			let hh = h.hash();
			s.t(depth, format!("save_block_header id={} uid={}", id, uid));
			if let Err(e) = b.save_block_header(&h) {
				return s.fail("write_failed;header", err_s(&e));
			}
			// keyed by its own hash: the logical id maps to the latest header written under it
			s.header_hash.insert(uid, hh);
			s.m.put((1, id), Val::Header(uid));
			s.inc("ops.save_block_header");
		}
		5 => {
			// a header written earlier under this id: visible iff the model sees that very write
			let id = s.pick_id();
			if let Some(Val::Header(uid)) = s.m.get(&(1, id)) {
				let hh = s.header_hash[&uid];
				match opt(b.get_block_header(&hh)) {
					Ok(g) => check_read(s, "block_header", g.map(|h| h.pow.nonce), Some(uid), true),
					Err(e) => s.fail("read_failed;header", err_s(&e)),
				}
			}
		}
		// ---- blocks (+ sums + spent index)
		6 | 7 => {
			let id = s.pick_id();
			let uid = s.next_uid();
			// the key (hash of the proof) depends on the logical id only, the unique id of this write goes into another field
			let mut blk = block_of(id);
			blk.header.pow.secondary_scaling = uid as u32;
			s.t(depth, format!("save_block id={} uid={}", id, uid));
			if let Err(e) = b.save_block(&blk) {
				return s.fail("write_failed;block", err_s(&e));
			}
			s.m.put((2, id), Val::Block(uid));
			s.inc("ops.save_block");
		}
		8 => {
			let id = s.pick_id();
			let uid = s.next_uid();
			let bh = block_hash(id);
			s.t(depth, format!("save_block_sums id={} uid={}", id, uid));
			if let Err(e) = b.save_block_sums(&bh, sums_of(uid)) {
				return s.fail("write_failed;sums", err_s(&e));
			}
			s.m.put((3, id), Val::Sums(uid));
			s.inc("ops.save_block_sums");
		}
		9 => {
			let id = s.pick_id();
			let n = s.prng.usize_below(4);
			let mut v = vec![];
			for _ in 0..n {
				let u = s.next_uid();
				v.push((u, u % 977));
			}
			let bh = block_hash(id);
			let cps: Vec<CommitPos> = v.iter().map(|(p, h)| CommitPos { pos: *p, height: *h }).collect();
			s.t(depth, format!("save_spent_index id={} n={}", id, n));
			if let Err(e) = b.save_spent_index(&bh, &cps) {
				return s.fail("write_failed;spent", err_s(&e));
			}
			s.m.put((4, id), Val::Spent(v));
			s.inc("ops.save_spent_index");
		}
		10 => {
			// delete_block removes the block and, best effort, its sums and spent index
			let id = s.pick_id();
			let bh = block_hash(id);
			s.t(depth, format!("delete_block id={}", id));
			if let Err(e) = b.delete_block(&bh) {
				// deleting an absent block is an error of the underlying store in some versions: only judged when the block is there
				if s.m.get(&(2, id)).is_some() {
					return s.fail("write_failed;delete_block", err_s(&e));
				}
			}
			s.m.del((2, id));
			s.m.del((3, id));
			s.m.del((4, id));
			s.inc("ops.delete_block");
		}
		11 | 12 => {
			let id = s.pick_id();
			let bh = block_hash(id);
			match s.prng.below(4) {
				0 => match opt(b.get_block(&bh)) {
					Ok(g) => {
						let exp = match s.m.get(&(2, id)) {
							Some(Val::Block(u)) => Some(u as u32),
							_ => None,
						};
						check_read(s, "block", g.map(|x| x.header.pow.secondary_scaling), exp, true)
					}
					Err(e) => s.fail("read_failed;block", err_s(&e)),
				},
				1 => match b.block_exists(&bh) {
					Ok(g) => check_read(s, "block_exists", Some(g), Some(s.m.get(&(2, id)).is_some()), true),
					Err(e) => s.fail("read_failed;block_exists", err_s(&e)),
				},
				2 => match opt(b.get_block_sums(&bh)) {
					Ok(g) => {
						let exp = match s.m.get(&(3, id)) {
							Some(Val::Sums(u)) => Some(sums_of(u)),
							_ => None,
						};
						check_read(s, "block_sums", g.map(|x| x.utxo_sum.0.to_vec()), exp.map(|x| x.utxo_sum.0.to_vec()), true)
					}
					Err(e) => s.fail("read_failed;sums", err_s(&e)),
				},
				_ => match opt(b.get_spent_index(&bh)) {
					Ok(g) => {
						let exp = match s.m.get(&(4, id)) {
							Some(Val::Spent(v)) => Some(v),
							_ => None,
						};
						check_read(s, "spent_index", g.map(|v| v.iter().map(|c| (c.pos, c.height)).collect::<Vec<_>>()), exp, true)
					}
					Err(e) => s.fail("read_failed;spent", err_s(&e)),
				},
			}
		}
		// ---- output_pos index
		13 | 14 => {
			let id = s.pick_id();
			let uid = s.next_uid();
			s.t(depth, format!("save_output_pos_height id={} uid={}", id, uid));
			if let Err(e) = b.save_output_pos_height(&commit_of_id(id), CommitPos { pos: uid, height: uid % 991 }) {
				return s.fail("write_failed;output_pos", err_s(&e));
			}
			s.m.put((5, id), Val::OutPos(uid, uid % 991));
			s.inc("ops.save_output_pos");
		}
		15 => {
			let id = s.pick_id();
			s.t(depth, format!("delete_output_pos_height id={}", id));
			let r = b.delete_output_pos_height(&commit_of_id(id));
			if r.is_err() && s.m.get(&(5, id)).is_some() {
				return s.fail("write_failed;delete_output_pos", err_s(&r.err().unwrap()));
			}
			s.m.del((5, id));
			s.inc("ops.delete_output_pos");
		}
		16 => {
			let id = s.pick_id();
			match b.get_output_pos_height(&commit_of_id(id)) {
				Ok(g) => {
					let exp = match s.m.get(&(5, id)) {
						Some(Val::OutPos(p, h)) => Some((p, h)),
						_ => None,
					};
					check_read(s, "output_pos", g.map(|c| (c.pos, c.height)), exp, true)
				}
				Err(e) => s.fail("read_failed;output_pos", err_s(&e)),
			}
		}
		17 => {
			// iterator over the whole index, inside the batch
			let got: Result<Vec<(Vec<u8>, (u64, u64))>, String> = (|| {
				let it = b.output_pos_iter().map_err(|e| err_s(&e))?;
				let mut v = vec![];
				for x in it {
					let (k, c) = x.map_err(|e| err_s(&e))?;
					v.push((k, (c.pos, c.height)));
				}
				Ok(v)
			})();
			match got {
				Err(e) => s.fail("read_failed;output_pos_iter", e),
				Ok(mut g) => {
					g.sort();
					let mut exp: Vec<(Vec<u8>, (u64, u64))> = s
						.m
						.visible(5)
						.into_iter()
						.filter_map(|(id, v)| match v {
							Val::OutPos(p, h) => Some((commit_of_id(id).0.to_vec(), (p, h))),
							_ => None,
						})
						.collect();
					exp.sort();
					s.inc("iterations.output_pos_inside_batch");
					if g != exp {
						let clause = if g.len() < exp.len() { "write_not_visible" } else if g.len() > exp.len() { "dropped_or_uncommitted_write_visible" } else { "other_write_visible" };
						s.fail(&format!("inside_batch;output_pos_iter;{}", clause), format!("iterator yields {} entries, the model holds {}", g.len(), exp.len()));
					}
				}
			}
		}
		// ---- NRD recent-kernel index (linked list per excess)
		18 | 19 | 20 => {
			let id = s.prng.below(6);
			let c = commit_of_id(1_000_000 + id);
			let cur = match s.m.get(&(6, id)) {
				Some(Val::List(v)) => v,
				_ => vec![],
			};
			// positions increase, as kernel MMR positions do; now and then one that does not
			let bad = s.prng.chance(1, 12) && !cur.is_empty();
			let uid = s.next_uid();
			let pos = if bad { cur.last().unwrap().0 } else { uid };
			s.t(depth, format!("nrd.push_pos list={} pos={}{}", id, pos, if bad { " (not increasing)" } else { "" }));
			let r = idx.push_pos(b, c, CommitPos { pos, height: uid % 983 });
			match (r, bad) {
				(Ok(()), false) => {
					let mut v = cur;
					v.push((pos, uid % 983));
					s.m.put((6, id), Val::List(v));
					s.inc("ops.nrd_push");
				}
				(Err(_), true) => s.inc("ops.nrd_push_refused_not_increasing"),
				(Ok(()), true) => s.fail("nrd_index;push_of_non_increasing_pos_accepted", format!("list {} pos {}", id, pos)),
				(Err(e), false) => s.fail("write_failed;nrd_push", err_s(&e)),
			}
		}
		21 => {
			let id = s.prng.below(6);
			let c = commit_of_id(1_000_000 + id);
			let cur = match s.m.get(&(6, id)) {
				Some(Val::List(v)) => v,
				_ => vec![],
			};
			let back = s.prng.chance(1, 4);
			s.t(depth, format!("nrd.{} list={}", if back { "pop_pos_back" } else { "pop_pos" }, id));
			let r = if back { idx.pop_pos_back(b, c) } else { idx.pop_pos(b, c) };
			match r {
				Err(e) => s.fail("write_failed;nrd_pop", err_s(&e)),
				Ok(g) => {
					let mut v = cur;
					let exp = if v.is_empty() {
						None
					} else if back {
						Some(v.remove(0))
					} else {
						v.pop()
					};
					if v.is_empty() {
						s.m.del((6, id));
					} else {
						s.m.put((6, id), Val::List(v));
					}
					s.inc("ops.nrd_pop");
					check_read(s, if back { "nrd.pop_pos_back" } else { "nrd.pop_pos" }, g.map(|c| (c.pos, c.height)), exp, true);
				}
			}
		}
		22 => {
			let id = s.prng.below(6);
			let c = commit_of_id(1_000_000 + id);
			let cur = match s.m.get(&(6, id)) {
				Some(Val::List(v)) => v,
				_ => vec![],
			};
			if cur.is_empty() {
				return;
			}
			// rewind to a position between entries, at an entry, below all or above all
			let k = s.prng.usize_below(cur.len() + 1);
			let rp = if k == cur.len() { cur.last().unwrap().0 + 1 } else if s.prng.chance(1, 2) { cur[k].0 } else { cur[k].0.saturating_sub(1) };
			s.t(depth, format!("nrd.rewind list={} to_pos={} (len {})", id, rp, cur.len()));
			if let Err(e) = idx.rewind(b, c, rp) {
				return s.fail("write_failed;nrd_rewind", err_s(&e));
			}
			let v: Vec<(u64, u64)> = cur.iter().cloned().filter(|x| x.0 <= rp).collect();
			if v.len() + 2 <= cur.len() {
				s.inc("ops.nrd_rewind_over_two_or_more_entries");
			}
			if v.is_empty() {
				s.m.del((6, id));
			} else {
				s.m.put((6, id), Val::List(v));
			}
			s.inc("ops.nrd_rewind");
		}
		23 => {
			let id = s.prng.below(6);
			let c = commit_of_id(1_000_000 + id);
			let exp = match s.m.get(&(6, id)) {
				Some(Val::List(v)) => v.last().cloned(),
				_ => None,
			};
			match idx.peek_pos(b, c) {
				Ok(g) => check_read(s, "nrd.peek_pos", g.map(|c| (c.pos, c.height)), exp, true),
				Err(e) => s.fail("read_failed;nrd_peek", err_s(&e)),
			}
			// the list header must describe the list (Single iff one entry, head / tail = newest / oldest position)
			let cur = match s.m.get(&(6, id)) {
				Some(Val::List(v)) => v,
				_ => vec![],
			};
			match idx.get_list(b, c) {
				Err(e) => s.fail("read_failed;nrd_get_list", err_s(&e)),
				Ok(None) => check_read(s, "nrd.get_list", None::<u64>, cur.last().map(|x| x.0), true),
				Ok(Some(ListWrapper::Single { pos })) => {
					check_read(s, "nrd.get_list", Some((pos.pos, 1usize)), cur.last().map(|x| (x.0, cur.len())), true);
				}
				Ok(Some(ListWrapper::Multi { head, tail })) => {
					let exp = if cur.len() >= 2 { Some((cur.last().unwrap().0, cur[0].0)) } else { None };
					check_read(s, "nrd.get_list", Some((head, tail)), exp, true);
				}
			}
		}
		24 => {
			if !s.prng.chance(1, 6) {
				return;
			}
			s.t(depth, "nrd.clear".to_string());
			if let Err(e) = idx.clear(b) {
				return s.fail("write_failed;nrd_clear", err_s(&e));
			}
			for id in 0..6 {
				if s.m.get(&(6, id)).is_some() {
					s.m.del((6, id));
				}
			}
			s.inc("ops.nrd_clear");
		}
		_ => {
			// walk a whole list through pop on a CHILD that is dropped afterwards: reads every entry, leaves no trace
			let id = s.prng.below(6);
			let c = commit_of_id(1_000_000 + id);
			let cur = match s.m.get(&(6, id)) {
				Some(Val::List(v)) => v,
				_ => vec![],
			};
			let r: Result<Vec<(u64, u64)>, String> = (|| {
				let mut child = b.child().map_err(|e| err_s(&e))?;
				let mut v = vec![];
				while let Some(p) = idx.pop_pos(&mut child, c).map_err(|e| err_s(&e))? {
					v.push((p.pos, p.height));
					if v.len() > 10_000 {
						return Err("list does not end".to_string());
					}
				}
				drop(child);
				Ok(v)
			})();
			s.t(depth, format!("nrd.walk list={} in a dropped child", id));
			match r {
				Err(e) => s.fail("nrd_index;walk_failed", e),
				Ok(mut v) => {
					v.reverse();
					s.inc("nrd_lists_walked");
					if v.len() >= 4 {
						s.inc("nrd_lists_walked_with_four_or_more_entries");
					}
					if v != cur {
						s.fail("nrd_index;list_content_differs", format!("list {}: popping yields {:?} (oldest first), the model holds {:?}", id, v, cur));
					}
				}
			}
		}
	}
}

fn block_of(id: u64) -> Block {
	let mut blk = Block::with_header(header_of(id ^ 0x0B10_C000_0000_0000));
	blk.header.height = id;
	blk
}

fn block_hash(id: u64) -> Hash {
	block_of(id).hash()
}

/// Reads through the `ChainStore` itself (own read transaction) while a batch may be open: committed state only.
fn outside_reads(s: &mut Sess, store: &ChainStore, n: usize) {
	for _ in 0..n {
		match s.prng.below(5) {
			0 => {
				let slot = s.prng.below(3);
				let got = match slot {
					0 => opt(store.head()),
					1 => opt(store.header_head()),
					_ => opt(store.tail()),
				};
				let exp = match s.m.committed(&(0, slot)) {
					Some(Val::Tip(u)) => Some(u),
					_ => None,
				};
				match got {
					Ok(g) => check_read(s, SLOT_NAMES[slot as usize], g.map(|t| t.height), exp, false),
					Err(e) => s.fail("read_failed;outside_tip", err_s(&e)),
				}
			}
			1 => {
				let id = s.pick_id();
				match opt(store.get_block(&block_hash(id))) {
					Ok(g) => {
						let exp = match s.m.committed(&(2, id)) {
							Some(Val::Block(u)) => Some(u as u32),
							_ => None,
						};
						check_read(s, "block", g.map(|x| x.header.pow.secondary_scaling), exp, false)
					}
					Err(e) => s.fail("read_failed;outside_block", err_s(&e)),
				}
			}
			2 => {
				let id = s.pick_id();
				match opt(store.get_block_sums(&block_hash(id))) {
					Ok(g) => {
						let exp = match s.m.committed(&(3, id)) {
							Some(Val::Sums(u)) => Some(sums_of(u).utxo_sum.0.to_vec()),
							_ => None,
						};
						check_read(s, "block_sums", g.map(|x| x.utxo_sum.0.to_vec()), exp, false)
					}
					Err(e) => s.fail("read_failed;outside_sums", err_s(&e)),
				}
			}
			3 => {
				let id = s.pick_id();
				match store.get_output_pos_height(&commit_of_id(id)) {
					Ok(g) => {
						let exp = match s.m.committed(&(5, id)) {
							Some(Val::OutPos(p, h)) => Some((p, h)),
							_ => None,
						};
						check_read(s, "output_pos", g.map(|c| (c.pos, c.height)), exp, false)
					}
					Err(e) => s.fail("read_failed;outside_output_pos", err_s(&e)),
				}
			}
			_ => {
				let id = s.pick_id();
				if let Some(Val::Header(uid)) = s.m.committed(&(1, id)) {
					let hh = s.header_hash[&uid];
					match opt(store.get_block_header(&hh)) {
						Ok(g) => check_read(s, "block_header", g.map(|h| h.pow.nonce), Some(uid), false),
						Err(e) => s.fail("read_failed;outside_header", err_s(&e)),
					}
				}
			}
		}
	}
}

/// One (child) batch: operations, children, reads; then commit or drop. Returns the fate.
fn level(s: &mut Sess, store: &ChainStore, b: &mut Batch<'_>, depth: usize) {
	// shapes the chain itself uses are forced now and then: a parent whose ONLY writes happen in children
	let only_children = depth < 2 && s.prng.chance(1, 5);
	let n_ops = if only_children { 0 } else { 1 + s.prng.usize_below(10) };
	let n_children = if depth < 3 { if only_children { 1 + s.prng.usize_below(2) } else { s.prng.usize_below(3) } } else { 0 };
	let mut child_at: Vec<usize> = (0..n_children).map(|_| s.prng.usize_below(n_ops + 1)).collect();
	child_at.sort();
	for i in 0..=n_ops {
		while child_at.first() == Some(&i) {
			child_at.remove(0);
			if s.failed {
				return;
			}
			let mut child = match b.child() {
				Ok(c) => c,
				Err(e) => return s.fail("child_failed", err_s(&e)),
			};
			s.m.open();
			s.t(depth, "child {".to_string());
			level(s, store, &mut child, depth + 1);
			let commit = s.prng.chance(2, 3);
			s.t(depth, format!("}} child {}", if commit { "commit" } else { "drop" }));
			if commit {
				if let Err(e) = child.commit() {
					return s.fail("commit_failed;child", err_s(&e));
				}
				s.inc("child_commits");
				if only_children {
					s.inc("child_commits_into_a_parent_without_writes_of_its_own");
				}
			} else {
				drop(child);
				s.inc("child_drops");
			}
			s.m.close(commit);
		}
		if i < n_ops && !s.failed {
			op(s, b, depth);
		}
	}
}

fn program(s: &mut Sess, store: &ChainStore) {
	s.trace.clear();
	let mut b = match store.batch() {
		Ok(b) => b,
		Err(e) => return s.fail("batch_failed", err_s(&e)),
	};
	s.m.open();
	s.t(0, "batch {".to_string());
	level(s, store, &mut b, 0);
	if s.failed {
		return;
	}
	// committed state only is visible to the store's own readers while the batch is still open
	outside_reads(s, store, 4);
	let commit = s.prng.chance(3, 4);
	s.t(0, format!("}} batch {}", if commit { "commit" } else { "drop" }));
	if commit {
		if let Err(e) = b.commit() {
			return s.fail("commit_failed;top", err_s(&e));
		}
		s.inc("top_level_commits");
	} else {
		drop(b);
		s.inc("top_level_drops");
	}
	s.m.close(commit);
	outside_reads(s, store, 6);
}

/// Everything the model holds, read back through a fresh batch (and through the store) — used after a reopen.
fn full_compare(s: &mut Sess, store: &ChainStore, tag: &str) {
	let b = match store.batch() {
		Ok(b) => b,
		Err(e) => return s.fail("batch_failed", err_s(&e)),
	};
	let idx = nrd_recent_kernel_index();
	for slot in 0..3u64 {
		let got = match slot {
			0 => opt(b.head()),
			1 => opt(b.header_head()),
			_ => opt(b.tail()),
		};
		let exp = match s.m.committed(&(0, slot)) {
			Some(Val::Tip(u)) => Some(u),
			_ => None,
		};
		if let Ok(g) = got {
			check_read(s, &format!("{}.{}", tag, SLOT_NAMES[slot as usize]), g.map(|t| t.height), exp, false);
		}
	}
	for id in 0..s.n_ids {
		let bh = block_hash(id);
		if let Ok(g) = opt(b.get_block(&bh)) {
			let exp = match s.m.committed(&(2, id)) {
				Some(Val::Block(u)) => Some(u as u32),
				_ => None,
			};
			check_read(s, &format!("{}.block", tag), g.map(|x| x.header.pow.secondary_scaling), exp, false);
		}
		if let Ok(g) = opt(b.get_block_sums(&bh)) {
			let exp = match s.m.committed(&(3, id)) {
				Some(Val::Sums(u)) => Some(sums_of(u).utxo_sum.0.to_vec()),
				_ => None,
			};
			check_read(s, &format!("{}.block_sums", tag), g.map(|x| x.utxo_sum.0.to_vec()), exp, false);
		}
		if let Ok(g) = opt(b.get_spent_index(&bh)) {
			let exp = match s.m.committed(&(4, id)) {
				Some(Val::Spent(v)) => Some(v),
				_ => None,
			};
			check_read(s, &format!("{}.spent_index", tag), g.map(|v| v.iter().map(|c| (c.pos, c.height)).collect::<Vec<_>>()), exp, false);
		}
		if let Ok(g) = b.get_output_pos_height(&commit_of_id(id)) {
			let exp = match s.m.committed(&(5, id)) {
				Some(Val::OutPos(p, h)) => Some((p, h)),
				_ => None,
			};
			check_read(s, &format!("{}.output_pos", tag), g.map(|c| (c.pos, c.height)), exp, false);
		}
		if let Some(Val::Header(uid)) = s.m.committed(&(1, id)) {
			let hh = s.header_hash[&uid];
			if let Ok(g) = opt(b.get_block_header(&hh)) {
				check_read(s, &format!("{}.block_header", tag), g.map(|h| h.pow.nonce), Some(uid), false);
			}
		}
	}
	for id in 0..6u64 {
		let exp = match s.m.committed(&(6, id)) {
			Some(Val::List(v)) => v.last().cloned(),
			_ => None,
		};
		if let Ok(g) = idx.peek_pos(&b, commit_of_id(1_000_000 + id)) {
			check_read(s, &format!("{}.nrd.peek_pos", tag), g.map(|c| (c.pos, c.height)), exp, false);
		}
	}
	// number of full blocks through the iterator
	let n_blocks = b.blocks_iter().map(|it| it.filter(|x| x.is_ok()).count()).unwrap_or(usize::MAX);
	let exp_blocks = s.m.base.keys().filter(|k| k.0 == 2).count();
	s.inc("iterations.blocks_after_reopen");
	if n_blocks != exp_blocks {
		s.fail(&format!("{};blocks_iter;count", tag), format!("blocks_iter yields {} blocks, the model holds {}", n_blocks, exp_blocks));
	}
	drop(b);
}

fn session(run: &Run, seed: u64, sess: u64, n_programs: u64, dir: &str, only: Option<u64>, deadline: Instant) {
	let _ = std::fs::remove_dir_all(dir);
	let _ = std::fs::create_dir_all(dir);
	let mut s = Sess {
		run,
		prng: Prng::new(seed ^ sess.wrapping_mul(0x9E37_79B9_7F4A_7C15) ^ 0xC18C),
		m: Model::default(),
		uid: sess << 32,
		header_hash: HashMap::new(),
		n_ids: 12,
		stats: BTreeMap::new(),
		trace: vec![],
		failed: false,
		seed,
		prog: 0,
	};
	let mut store: Option<ChainStore> = match ChainStore::new(dir, None) {
		Ok(st) => Some(st),
		Err(e) => return run.inconclusive(&format!("ChainStore::new: {:?}", e)),
	};
	for p in 0..n_programs {
		if Instant::now() > deadline || s.failed {
			break;
		}
		s.prog = (sess << 16) | p;
		if let Some(o) = only {
			if o != s.prog && (o >> 16) != sess {
				break;
			}
		}
		let r = catch(|| program(&mut s, store.as_ref().unwrap()));
		if let Err(pn) = r {
			s.fail(&format!("panic;at={}", pn.location), format!("{} at {}", pn.message, pn.location));
			break;
		}
		let nontrivial = s.stats.get("child_commits").cloned().unwrap_or(0) > 0;
		run.eval(&format!("s{}p{}", sess, p % 64), nontrivial);
		if s.prng.chance(1, 8) && !s.failed {
			drop(store.take());
			store = match ChainStore::new(dir, None) {
				Ok(st) => Some(st),
				Err(e) => {
					s.fail("reopen_failed", format!("{:?}", e));
					break;
				}
			};
			s.inc("reopens");
			full_compare(&mut s, store.as_ref().unwrap(), "after_reopen");
		}
	}
	if !s.failed {
		if let Some(st) = store.as_ref() {
			full_compare(&mut s, st, "at_end");
		}
	}
	drop(store);
	for (k, v) in &s.stats {
		run.count(k, *v);
	}
	run.count("sessions", 1);
	if sess == 0 {
		run.sample(json!({"session": 0, "last_program": s.trace.iter().take(30).collect::<Vec<_>>()}));
	}
	let _ = std::fs::remove_dir_all(dir);
}

const RULE: &str = "session = one ChainStore directory; program = one top-level ChainStore::Batch with 1-10 random operations per level, child batches \
	nested to depth 3 (2/3 committed, 1/3 dropped; one level in five writes ONLY through its children, as extensions and reset_chain_head do), \
	top level committed 3/4. Operations: save_body_head / header_head / body_tail / pibd_head, save_block_header, save_block, save_block_sums, \
	save_spent_index, delete_block (with its sums and spent index), save / delete_output_pos_height, output_pos_iter, and the NRD recent-kernel \
	index through the batch (push_pos with increasing and, 1/12, non-increasing positions, pop_pos, pop_pos_back, rewind to positions at / between / \
	below / above entries, peek_pos + get_list, clear, and a walk of a whole list by popping in a child that is dropped). Every read inside a batch is \
	compared with the innermost view of a stack-of-overlays model; reads through the ChainStore's own handle while the batch is open and after it \
	ended are compared with the committed view; every eighth program the store is closed and reopened and everything the model holds is read back \
	(plus blocks_iter count). Values carry a unique counter, so a read identifies the write it saw. Non-trivial = program with a committed child.";

fn main() {
	let run = Run::from_env("C18", "exploration");
	init_globals(false);
	init_thread(false);
	let san = run.arg_value("--san").is_some();
	let only: Option<u64> = run.arg_value("--only-program").and_then(|x| x.parse().ok()).or_else(|| {
		run.replay.clone().and_then(|p| std::fs::read_to_string(p).ok()).and_then(|t| serde_json::from_str::<serde_json::Value>(&t).ok()).and_then(|v| v["case"]["program"].as_u64())
	});
	let n_sessions: u64 = if san { 2 } else { run.tier.pick(192, 1920) };
	let n_programs: u64 = if san { 60 } else { run.tier.pick(300, 400) };
	let budget_s: u64 = run.tier.pick(120, 900);
	if let Some((i, n)) = run.worker_shard() {
		let sc = Scratch::new(&format!("c18c-{}", i));
		let deadline = Instant::now() + std::time::Duration::from_secs(budget_s);
		for sess in 0..n_sessions {
			if (sess as usize) % n != i {
				continue;
			}
			if let Some(o) = only {
				if (o >> 16) != sess {
					continue;
				}
			}
			session(&run, run.seed, sess, n_programs, &sc.sub(&format!("s{}", sess)), only, deadline);
		}
		drop(sc);
		run.finish_worker();
	}
	run.set_rule(RULE);
	run.assume("single-threaded programs: the concurrent part of the property is decided on grin_store::Store by c18 itself");
	if san {
		let sc = Scratch::new("c18c-san");
		let deadline = Instant::now() + std::time::Duration::from_secs(1800);
		for sess in 0..n_sessions {
			session(&run, run.seed, sess, n_programs, &sc.sub(&format!("s{}", sess)), None, deadline);
		}
		drop(sc);
		run.require("sessions", run.counter("sessions"), 2);
		run.finish();
	}
	run.spawn_workers(if only.is_some() { 1 } else { 12 }, &[], budget_s + 120);
	if only.is_none() {
		let c = |n: &str| run.counter(n);
		let req = |name: &str, q: u64, t: u64| run.require(name, c(name), run.tier.pick(q, t));
		req("sessions", 150, 1500);
		req("top_level_commits", 20000, 250000);
		req("top_level_drops", 6000, 80000);
		req("child_commits", 60000, 800000);
		req("child_drops", 30000, 400000);
		req("child_commits_into_a_parent_without_writes_of_its_own", 10000, 130000);
		req("reads.inside_batch", 150000, 2000000);
		req("reads.outside_batch", 400000, 5000000);
		req("reopens", 3000, 40000);
		req("ops.nrd_push", 60000, 800000);
		req("ops.nrd_rewind_over_two_or_more_entries", 2500, 30000);
		req("nrd_lists_walked_with_four_or_more_entries", 2500, 30000);
	}
	run.finish();
}
